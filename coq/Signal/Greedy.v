(* C17 — model of the non-negative greedy deconvolution (physics/src/deconvolution.rs).
   Definitions only; proofs are in Signal/Greedy_proofs.v.

   The definitions live in a Section over a sample type F with its operations, so that the SAME
   functions are (a) instantiated with PrimFloat (bottom of this file) for the bit-exact executable
   model compared with the implementation on every run, and (b) reasoned about abstractly.

   Representation of the Rust loop state.  The Rust code keeps an index `i` into two vectors,
   `residual` and `input`.  Here the state is a zipper:
       rest = residual[i..]            (the part the loop may still read and write)
       ar   = rev residual[..i]        (final: never touched again, since only residual[i..] is written)
       ai   = rev input[..i]           (input[i..] is still all zeros)
   so `i = length ar = length ai`, `n = length ar + length rest`, and
       `i + offset + look_ahead <= residual.len()`  <->  `offset + look_ahead <= length rest`
                                                     <->  `slice rest offset look_ahead <> None`.
   Every step costs O(offset + look_ahead) instead of O(n), which keeps the extracted model fast. *)
From AG Require Import Base.Prelude Base.Res.
From Coq Require Import Floats QArith Qcanon.

Local Open Scope nat_scope.

Section Greedy.
Variable F : Type.
Variable zero : F.            (* 0.0: initial value of `input` *)
Variable szero : F.           (* neutral element with which `Iterator::sum::<f64>()` starts (-0.0 since Rust 1.83) *)
Variable inf : F.             (* f64::INFINITY *)
Variables add sub mul div : F -> F -> F.
Variable fmin : F -> F -> F.  (* f64::min *)
Variable neg : F -> bool.     (* x < 0.0 *)
Variable nonneg : F -> bool.  (* x >= 0.0 *)
Variable ltb : F -> F -> bool.

(* `&l[off..]`: None when off > len *)
Fixpoint drop_exact (n : nat) (l : list F) : option (list F) :=
  match n with
  | O => Some l
  | S n' => match l with [] => None | _ :: t => drop_exact n' t end
  end.
(* `&l[..la]`: None when la > len *)
Fixpoint take_exact (n : nat) (l : list F) : option (list F) :=
  match n with
  | O => Some []
  | S n' => match l with
            | [] => None
            | x :: t => match take_exact n' t with Some w => Some (x :: w) | None => None end
            end
  end.
(* `&l[off..][..la]`; exists iff off + la <= len (slice_some_iff) *)
Definition slice (l : list F) (off la : nat) : option (list F) :=
  match drop_exact off l with Some r => take_exact la r | None => None end.

(* deconvolution.rs:44-49  window.iter().enumerate().rev().find(|(_, x)| **x >= 0.0).map(|(i, _)| i):
   index of the LAST non-negative sample of the window *)
Fixpoint last_nonneg (w : list F) : option nat :=
  match w with
  | [] => None
  | x :: t => match last_nonneg t with
              | Some k => Some (S k)
              | None => if nonneg x then Some O else None
              end
  end.

(* :54-57  residual_window.iter().zip(response_window).map(|(s, r)| s / r) *)
Fixpoint zip_div (w rw : list F) : list F :=
  match w, rw with
  | s :: t, r :: rt => div s r :: zip_div t rt
  | _, _ => []
  end.
(* :58  .reduce(f64::min): acc = first; acc = f64::min(acc, x) left to right *)
Definition reduce_min (l : list F) : option F :=
  match l with [] => None | q :: qs => Some (fold_left fmin qs q) end.

(* :62-65  residual[i..].iter_mut().zip(response).for_each(|(s, r)| *s -= val * r): stops at the shorter *)
Fixpoint sub_scaled (rest resp : list F) (v : F) : list F :=
  match rest, resp with
  | s :: t, r :: rt => sub s (mul v r) :: sub_scaled t rt v
  | _, _ => rest
  end.

(* `i += k` with input[i..i+k] left at 0.0 *)
Fixpoint advance (k : nat) (rest ai ar : list F) : list F * list F * list F :=
  match k, rest with
  | S k', x :: t => advance k' t (zero :: ai) (x :: ar)
  | _, _ => (rest, ai, ar)
  end.

(* loop exit: (residual, input) as whole vectors *)
Definition finish (rest ai ar : list F) : list F * list F :=
  (rev ar ++ rest, rev ai ++ repeat zero (length rest)).

Section Loop.
Variable response : list F.
Variable rwin : list F.       (* response_window = &response[offset..][..look_ahead] *)
Variables off la : nat.

(* :54-65  the non-skipping branch: val, and residual[i..] after the update *)
Definition fire (win rest : list F) : res (F * list F) :=
  do val <- unwrap (reduce_min (zip_div win rwin));        (* :59 .unwrap() *)
  Ok (val, sub_scaled rest response val).

(* :38-69  while i + offset + look_ahead <= residual.len() { ... }
   fuel: S (length signal) suffices (greedy_fuel_enough); Err 1 = out of fuel *)
Fixpoint greedy_loop (fuel : nat) (rest ai ar : list F) : res (list F * list F) :=
  match fuel with
  | O => Err 1%N
  | S f =>
    match slice rest off la with                            (* :38 / :39 *)
    | None => Ok (finish rest ai ar)
    | Some win =>
      match last_nonneg win with                            (* :44-49 *)
      | Some lp =>                                          (* :52 i += last_positive + 1 *)
          let '(rest', ai', ar') := advance (S lp) rest ai ar in
          greedy_loop f rest' ai' ar'
      | None =>
          do '(val, rest') <- fire win rest;                (* :54-65 *)
          match rest' with
          | [] => Panic                                     (* :61 input[i] with i = len; unreachable *)
          | x :: t => greedy_loop f t (val :: ai) (x :: ar) (* :61 input[i] = val; :67 i += 1 *)
          end
      end
    end
  end.

(* the plain one-sample-at-a-time scheme: i += 1 always; input[i] stays 0.0 when the window
   contains a non-negative residual *)
Fixpoint naive_loop (fuel : nat) (rest ai ar : list F) : res (list F * list F) :=
  match fuel with
  | O => Err 1%N
  | S f =>
    match slice rest off la with
    | None => Ok (finish rest ai ar)
    | Some win =>
      if existsb nonneg win then
        match rest with
        | [] => Ok (finish rest ai ar)                      (* unreachable: see naive_loop_nil *)
        | x :: t => naive_loop f t (zero :: ai) (x :: ar)
        end
      else
        do '(val, rest') <- fire win rest;
        match rest' with
        | [] => Panic
        | x :: t => naive_loop f t (val :: ai) (x :: ar)
        end
    end
  end.
End Loop.

(* :71  residual.iter().map(|x| x.powi(2)).sum(): powi(2) = x * x; sum folds from the left starting at szero *)
Definition sumsq (l : list F) : F := fold_left (fun acc x => add acc (mul x x)) l szero.

Definition nn_with
  (loop : list F -> list F -> nat -> nat -> nat -> list F -> list F -> list F -> res (list F * list F))
  (signal response : list F) (off la : nat) : res (F * list F) :=
  do rwin <- unwrap (slice response off la);                (* :26 slicing panics when out of range *)
  assert_ (forallb neg rwin) (                              (* :31 *)
  do '(residual, input) <- loop response rwin off la (S (length signal)) signal [] [];   (* :33-69 *)
  Ok (sumsq residual, input)).                              (* :71-73 *)

Definition nn_greedy := nn_with greedy_loop.
Definition nn_naive := nn_with naive_loop.

(* :80-98 ls_deconvolution: first strict minimum of the residual in iteration order
   (offsets outer, look_aheads inner), starting from (+inf, empty vector) *)
Section Ls.
Variable nn : list F -> list F -> nat -> nat -> res (F * list F).
Variables signal response : list F.

Definition ls_step (best : F * list F) (off la : nat) : res (F * list F) :=
  do '(r, inp) <- nn signal response off la;                (* :89 *)
  Ok (if ltb r (fst best) then (r, inp) else best).         (* :90-93 *)
Fixpoint ls_inner (best : F * list F) (off : nat) (las : list nat) : res (F * list F) :=
  match las with
  | [] => Ok best
  | la :: t => do b <- ls_step best off la; ls_inner b off t
  end.
Fixpoint ls_outer (best : F * list F) (offs las : list nat) : res (F * list F) :=
  match offs with
  | [] => Ok best
  | off :: t => do b <- ls_inner best off las; ls_outer b t las
  end.
Definition ls_deconv (offs las : list nat) : res (list F) :=
  do b <- ls_outer (inf, []) offs las;                      (* :84-85 *)
  Ok (snd b).                                               (* :97 *)
End Ls.

End Greedy.

(* ------------------------------------------------------------------------------------------ *)
(* spec-level helpers used in the statements of Props/C17.v *)

Definition res_map {A B} (f : A -> B) (r : res A) : res B :=
  match r with Ok a => Ok (f a) | Err k => Err k | Panic => Panic end.
(* a sweep result with every amplitude scaled by sc and the residual by sc2 *)
Definition sc_out (F : Type) (sc sc2 : F -> F) (p : F * list F) : F * list F := (sc2 (fst p), map sc (snd p)).

(* `lo..=hi` *)
Definition range_incl (lo hi : nat) : list nat := seq lo (S hi - lo).

(* ------------------------------------------------------------------------------------------ *)
(* executable instance: IEEE binary64 (Coq primitive floats) *)

Definition f_neg (x : float) : bool := (x <? 0)%float.
Definition f_nonneg (x : float) : bool := (0 <=? x)%float.
(* f64::min (llvm.minnum): a NaN operand is ignored; NaN only if both are.  For +0/-0 operands of
   different sign the result is unspecified by Rust; that case cannot arise here, because every
   quotient is s / r with `not (s >= 0)` and `r < 0`, hence never -0. *)
Definition f_min (a b : float) : float :=
  if is_nan a then b else if is_nan b then a else if (b <? a)%float then b else a.

Definition nn_greedy_f :=
  nn_greedy float 0%float neg_zero PrimFloat.add PrimFloat.sub PrimFloat.mul PrimFloat.div f_min f_neg f_nonneg.
Definition nn_naive_f :=
  nn_naive float 0%float neg_zero PrimFloat.add PrimFloat.sub PrimFloat.mul PrimFloat.div f_min f_neg f_nonneg.
Definition ls_deconv_f (signal response : list float) (offs las : list nat) : res (list float) :=
  ls_deconv float infinity PrimFloat.ltb nn_greedy_f signal response offs las.
Definition ls_naive_f (signal response : list float) (offs las : list nat) : res (list float) :=
  ls_deconv float infinity PrimFloat.ltb nn_naive_f signal response offs las.
(* pads.rs:33  ls_deconvolution(signal, &PAD_RESPONSE, 3..=5, 7..=12) *)
Definition pad_deconv_f (signal pad_response : list float) : res (list float) :=
  ls_deconv_f signal pad_response (range_incl 3 5) (range_incl 7 12).
(* wires.rs:130 ls_deconvolution(&signal, &WIRE_RESPONSE, 0..=1, 3..=12) *)
Definition wire_deconv_f (signal wire_response : list float) : res (list float) :=
  ls_deconv_f signal wire_response (range_incl 0 1) (range_incl 3 12).

(* "not negative" for binary64, on the IEEE specification side (SpecFloat): NaN, or sign bit clear
   (+0, positive finite, +infinity); in particular not -0.  f_ge0_spec: NaN or 0 <= x. *)
Definition sf_ge0 (x : spec_float) : Prop :=
  match x with S754_nan => True | S754_zero s | S754_infinity s | S754_finite s _ _ => s = false end.
Definition f_ge0 (x : float) : Prop := sf_ge0 (Prim2SF x).
(* finite binary64 value (a zero, subnormal or normal number; not NaN, not an infinity) *)
Definition sf_fin (x : spec_float) : Prop := match x with S754_zero _ | S754_finite _ _ _ => True | _ => False end.
Definition f_fin (x : float) : Prop := sf_fin (Prim2SF x).

(* ------------------------------------------------------------------------------------------ *)
(* exact instance: canonical rationals Qc (Leibniz equality, decidable order); no NaN, no rounding *)

Definition q_dec (a b : Qc) : bool := if Qclt_le_dec a b then true else false.   (* a < b *)
Definition q_neg (x : Qc) : bool := q_dec x 0%Qc.
Definition q_nonneg (x : Qc) : bool := negb (q_dec x 0%Qc).
Definition q_min (a b : Qc) : Qc := if q_dec b a then b else a.
Definition nn_greedy_q := nn_greedy Qc 0%Qc 0%Qc Qcplus Qcminus Qcmult Qcdiv q_min q_neg q_nonneg.

(* rationals extended by +infinity (None): an instance in which `inf` is a genuine infinity *)
Definition o_lift (f : Qc -> Qc -> Qc) (a b : option Qc) : option Qc :=
  match a, b with Some x, Some y => Some (f x y) | _, _ => None end.
Definition o_min (a b : option Qc) : option Qc :=
  match a, b with Some x, Some y => Some (q_min x y) | Some x, None => Some x | None, _ => b end.
Definition o_neg (a : option Qc) : bool := match a with Some x => q_neg x | None => false end.
Definition o_nonneg (a : option Qc) : bool := match a with Some x => q_nonneg x | None => true end.
Definition o_ltb (a b : option Qc) : bool :=
  match a, b with Some x, Some y => q_dec x y | Some _, None => true | None, _ => false end.
Definition o_scale (c : Qc) (a : option Qc) : option Qc := option_map (Qcmult c) a.
Definition nn_greedy_o :=
  nn_greedy (option Qc) (Some 0%Qc) (Some 0%Qc) (o_lift Qcplus) (o_lift Qcminus) (o_lift Qcmult) (o_lift Qcdiv)
            o_min o_neg o_nonneg.
