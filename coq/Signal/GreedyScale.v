(* C17 — scale covariance FOR BINARY64: definitions.  Proofs are in Signal/GreedyScale_proofs.v.

   Multiplying every sample by c = 2^k commutes exactly with every rounded operation of the greedy
   deconvolution as long as no operation of the run overflows or underflows, before and after
   scaling.  That side condition is stated here as an executable boolean predicate over the values
   the run ACTUALLY produces: `nn_safe` / `ls_safe` re-run the algorithm of Signal/Greedy.v and test
   every operand and every result of every arithmetic operation with the range tests below.

   Range test with exponent margin K >= 0 (K = |k| for amplitudes, K = 2|k| for the sum of squares):
       inr K x   :=   2^(K-1021) <= |x| <= 2^(1023-K)          (x finite, non-zero, with margin)
       okv K x   :=   x is a zero (either sign)  or  inr K x
   so that x and x * 2^j, |j| <= K, both have magnitude in [2^-1021, 2^1023]: the normal range of
   binary64 (smallest normal number 2^-1022, largest finite number < 2^1024) with one binade of margin
   at the bottom (the margin lets the test be made on the ROUNDED result of an operation). *)
From AG Require Import Base.Prelude Base.Res Signal.Greedy.
From Coq Require Import Floats.

Local Open Scope nat_scope.

(* ------------------------------------------------------------------------------------------ *)
(* generic instrumented re-run: the control flow of Signal/Greedy.v with one boolean test per
   arithmetic operation.  `*_ok` returns true iff every test along the run succeeds. *)
Section Safe.
Variable F : Type.
Variable zero : F.
Variable szero : F.
Variable inf : F.
Variables add sub mul div : F -> F -> F.
Variable fmin : F -> F -> F.
Variable neg : F -> bool.
Variable nonneg : F -> bool.
Variable ltb : F -> F -> bool.
(* the tests *)
Variable okv : F -> bool.                 (* a value that is compared (>= 0.0, f64::min) *)
Variables ok_sub ok_mul ok_div : F -> F -> bool.   (* s - p,  v * r,  s / r *)
Variable ok_sq : F -> bool.               (* x.powi(2) *)
Variable ok_add2 : F -> F -> bool.        (* acc + x^2 *)
Variable ok_lt2 : F -> F -> bool.         (* residual < best_residual *)

Notation slice := (slice F).
Notation last_nonneg := (last_nonneg F nonneg).
Notation zip_div := (zip_div F div).
Notation reduce_min := (reduce_min F fmin).
Notation sub_scaled := (sub_scaled F sub mul).
Notation advance := (advance F zero).
Notation fire := (fire F sub mul div fmin).
Notation greedy_loop := (greedy_loop F zero sub mul div fmin nonneg).
Notation sumsq := (sumsq F szero add mul).
Notation nn_greedy := (nn_greedy F zero szero add sub mul div fmin neg nonneg).

Fixpoint zip_div_ok (w rw : list F) : bool :=
  match w, rw with
  | s :: t, r :: rt => ok_div s r && zip_div_ok t rt
  | _, _ => true
  end.
Fixpoint fold_min_ok (qs : list F) (q : F) : bool :=
  match qs with
  | [] => true
  | x :: t => okv q && okv x && fold_min_ok t (fmin q x)
  end.
Fixpoint sub_scaled_ok (rest resp : list F) (v : F) : bool :=
  match rest, resp with
  | s :: t, r :: rt => ok_mul v r && ok_sub s (mul v r) && sub_scaled_ok t rt v
  | _, _ => true
  end.
Definition fire_ok (response rwin win rest : list F) : bool :=
  zip_div_ok win rwin &&
  match zip_div win rwin with
  | [] => true
  | q :: qs => fold_min_ok qs q && sub_scaled_ok rest response (fold_left fmin qs q)
  end.

Fixpoint loop_ok (response rwin : list F) (off la : nat) (fuel : nat) (rest ai ar : list F) : bool :=
  match fuel with
  | O => true
  | S f =>
    match slice rest off la with
    | None => true
    | Some win =>
      forallb okv win &&
      match last_nonneg win with
      | Some lp =>
          let '(rest', ai', ar') := advance (S lp) rest ai ar in
          loop_ok response rwin off la f rest' ai' ar'
      | None =>
          fire_ok response rwin win rest &&
          match fire response rwin win rest with
          | Ok (val, x :: t) => loop_ok response rwin off la f t (val :: ai) (x :: ar)
          | _ => true
          end
      end
    end
  end.

Fixpoint sumsq_ok (l : list F) (acc : F) : bool :=
  match l with
  | [] => true
  | x :: t => ok_sq x && ok_add2 acc (mul x x) && sumsq_ok t (add acc (mul x x))
  end.

(* one sweep nn_greedy(signal, response, offset, look_ahead) *)
Definition nn_ok (signal response : list F) (off la : nat) : bool :=
  match slice response off la with
  | None => true
  | Some rwin =>
      if forallb neg rwin then
        loop_ok response rwin off la (S (length signal)) signal [] [] &&
        match greedy_loop response rwin off la (S (length signal)) signal [] [] with
        | Ok (residual, _) => sumsq_ok residual szero
        | _ => true
        end
      else true
  end.

(* the whole selection ls_deconvolution(signal, response, offsets, look_aheads) *)
Section LsSafe.
Variables signal response : list F.
Definition ls_step_ok (best : F * list F) (off la : nat) : bool :=
  nn_ok signal response off la &&
  match nn_greedy signal response off la with
  | Ok (r, _) => ok_lt2 r (fst best)
  | _ => true
  end.
Fixpoint ls_inner_ok (best : F * list F) (off : nat) (las : list nat) : bool :=
  match las with
  | [] => true
  | la :: t =>
      ls_step_ok best off la &&
      match ls_step F ltb nn_greedy signal response best off la with
      | Ok b => ls_inner_ok b off t
      | _ => true
      end
  end.
Fixpoint ls_outer_ok (best : F * list F) (offs las : list nat) : bool :=
  match offs with
  | [] => true
  | off :: t =>
      ls_inner_ok best off las &&
      match ls_inner F ltb nn_greedy signal response best off las with
      | Ok b => ls_outer_ok b t las
      | _ => true
      end
  end.
Definition ls_ok (offs las : list nat) : bool := ls_outer_ok (inf, []) offs las.
End LsSafe.
End Safe.

(* ------------------------------------------------------------------------------------------ *)
(* binary64 instance *)
Local Open Scope float_scope.

(* 2^e as a binary64 number, for -1022 <= e <= 1023 (normal range): mantissa 2^52, exponent e - 52.
   (`Z.ldexp 1 e` is the same number; this form keeps the proofs free of the Uint63 axioms.) *)
Definition pow2 (e : Z) : float := SF2Prim (S754_finite false 4503599627370496 (e - 52)).
(* x * c and x * c * c with c = 2^k: what the harness relation rel17scale computes *)
Definition fscale (k : Z) (x : float) : float := x * pow2 k.
Definition fscale2 (k : Z) (x : float) : float := x * pow2 k * pow2 k.

(* 2^(K-1021) <= |x| <= 2^(1023-K) *)
Definition inr (K : Z) (x : float) : bool := (pow2 (K - 1021) <=? abs x) && (abs x <=? pow2 (1023 - K)).
Definition okv (K : Z) (x : float) : bool := is_zero x || inr K x.
(* finite: |x| <= 2^1023 or so; written with the classification primitive *)
Definition finb (x : float) : bool := is_finite x.

Definition f_ok_sub (K : Z) (a b : float) : bool := okv K a && okv K b && okv K (a - b).
Definition f_ok_add (K : Z) (a b : float) : bool := okv K a && okv K b && okv K (a + b).
(* v * r with r an UNSCALED response sample: the product is a zero only if a factor is (no underflow to zero) *)
Definition f_ok_mul (K : Z) (v r : float) : bool :=
  okv K v && finb r && okv K (v * r) && (is_zero v || is_zero r || negb (is_zero (v * r))).
(* s / r with r an unscaled, finite, non-zero response sample: the quotient is a zero only if s is *)
Definition f_ok_div (K : Z) (s r : float) : bool :=
  okv K s && finb r && negb (is_zero r) && okv K (s / r) && (is_zero s || negb (is_zero (s / r))).
(* x.powi(2): scales by c^2, hence margin 2|k| on the square *)
Definition f_ok_sq (k : Z) (x : float) : bool :=
  okv (Z.abs k) x && okv (2 * Z.abs k) (x * x) && (is_zero x || negb (is_zero (x * x))).
Definition is_pinf (x : float) : bool := (x =? infinity).
Definition f_ok_lt2 (K2 : Z) (a b : float) : bool := okv K2 a && (okv K2 b || is_pinf b).

Definition kmax : Z := 500.

Section F64.
Variable k : Z.
Let K := Z.abs k.
Let K2 := (2 * Z.abs k)%Z.
Definition nn_safe (signal response : list float) (off la : nat) : bool :=
  (K <=? kmax)%Z &&
  nn_ok float 0 neg_zero PrimFloat.add PrimFloat.sub PrimFloat.mul PrimFloat.div f_min f_neg f_nonneg
        (okv K) (f_ok_sub K) (f_ok_mul K) (f_ok_div K) (f_ok_sq k) (f_ok_add K2)
        signal response off la.
Definition ls_safe (signal response : list float) (offs las : list nat) : bool :=
  (K <=? kmax)%Z &&
  ls_ok float 0 neg_zero infinity PrimFloat.add PrimFloat.sub PrimFloat.mul PrimFloat.div f_min f_neg f_nonneg
        PrimFloat.ltb
        (okv K) (f_ok_sub K) (f_ok_mul K) (f_ok_div K) (f_ok_sq k) (f_ok_add K2) (f_ok_lt2 K2)
        signal response offs las.
End F64.
