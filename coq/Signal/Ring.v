(* C13 — the ring of 256 anode wires: contiguous blocks of present signals.
   Model of physics/src/deconvolution/wires.rs: contiguous_ranges (lines 40-73),
   range_to_indices (137-145), range_to_len (148-155).  Definitions only; proofs are in
   Signal/Ring_proofs.v.  Signals are abstract values of a type [sig]. *)
From AG Require Import Base.Prelude.

Definition NW : N := 256.                       (* TPC_ANODE_WIRES *)
Definition ring_fuel : nat := N.to_nat 257.     (* sufficient for both while loops (Ring_proofs) *)

(* [a, a+1, ..., a+n-1] *)
Definition Nseq (a n : N) : list N := map (fun j => a + N.of_nat j) (seq 0 (N.to_nat n)).

Definition is_some {A} (o : option A) : bool := match o with Some _ => true | None => false end.

Section Ring.
  Context {sig : Type}.

  (* wire_signals[i] of a [Option<Vec<f64>>; 256]; the list has 256 slots *)
  Definition get (ws : list (option sig)) (i : N) : option sig :=
    match nth_error ws (N.to_nat i) with Some o => o | None => None end.

  (* wires.rs:47-49   while end < TPC_ANODE_WIRES && wire_signals[end].is_some() { end += 1; } *)
  Fixpoint scan_end (fuel : nat) (ws : list (option sig)) (e : N) : N :=
    match fuel with
    | O => e
    | S f => if (e <? NW) && is_some (get ws e) then scan_end f ws (e + 1) else e
    end.

  (* wires.rs:44-55   let mut start = 0; let mut end = 0;   (end = start at every loop entry)
       while start < TPC_ANODE_WIRES {
           <inner while>
           if start < end { ranges.push((start, end)); }
           start = end + 1; end = start; }
     `push` appends, so the pushes in loop order are the list in order. *)
  Fixpoint scan_ranges (fuel : nat) (ws : list (option sig)) (start : N) : list (N * N) :=
    match fuel with
    | O => []
    | S f =>
        if start <? NW then
          let e := scan_end ring_fuel ws start in
          (if start <? e then [(start, e)] else []) ++ scan_ranges f ws (e + 1)
        else []
    end.

  (* Vec::pop : last element and the rest *)
  Fixpoint pop {A} (l : list A) : option (list A * A) :=
    match l with
    | [] => None
    | x :: t => match pop t with
                | None => Some ([], x)
                | Some (t', y) => Some (x :: t', y)
                end
    end.

  (* Vec::swap_remove(0) : removes element 0, the last element takes its place *)
  Definition swap_remove0 {A} (l : list A) : option (list A * A) :=
    match l with
    | [] => None                               (* would panic; not reachable below *)
    | x :: t => match pop t with
                | None => Some ([], x)
                | Some (t', y) => Some (y :: t', x)
                end
    end.

  (* wires.rs:59-68   the ring: merge the first and the last block *)
  Definition merge_seam (ranges : list (N * N)) : list (N * N) :=
    if (1 <? length ranges)%nat then                            (* :59 if ranges.len() > 1 *)
      match hd_error ranges with
      | Some (0, _) =>                                          (* :60 if let Some((0, _)) = ranges.first() *)
          match pop ranges with
          | Some (ranges1, (start_f, last_e)) =>
              if last_e =? NW then                              (* :61 if let Some((_, 256)) = ranges.last() *)
                                                                (* :62 let (start_f, _) = ranges.pop().unwrap() *)
                match swap_remove0 ranges1 with                 (* :63 let (_, end_i) = ranges.swap_remove(0) *)
                | Some (ranges2, (_, end_i)) => ranges2 ++ [(start_f, end_i)]   (* :64 push *)
                | None => ranges
                end
              else ranges
          | None => ranges
          end
      | _ => ranges
      end
    else ranges.

  (* wires.rs:40-73 *)
  Definition contiguous_ranges (ws : list (option sig)) : list (N * N) :=
    merge_seam (scan_ranges ring_fuel ws 0).

  (* the signals of a block in ring order starting at `first`: what y_matrix reads
     (wire_signals[wire].as_ref().unwrap() for wire in range_to_indices(range); the unwrap cannot
     fail on a range returned by contiguous_ranges: Ring_proofs.block_sigs_all_some) *)
  Definition opt_list {A} (o : option A) : list A := match o with Some s => [s] | None => [] end.
End Ring.

(* wires.rs:137-145 *)
Definition range_to_indices (range : N * N) : list N :=
  let (first, last) := range in
  if first <? last then Nseq first (last - first)                 (* first..last *)
  else Nseq first (NW - first) ++ Nseq 0 last.                    (* (first..256).chain(0..last) *)

(* wires.rs:148-155 *)
Definition range_to_len (range : N * N) : N :=
  let (first, last) := range in
  if first <? last then last - first else NW - first + last.

Definition block_sigs {sig} (ws : list (option sig)) (range : N * N) : list sig :=
  flat_map (fun i => opt_list (get ws i)) (range_to_indices range).

(* --- the symmetry group acting on the ring ----------------------------------------------- *)
(* rotate a list of n slots to the right by s: new[(i + s) mod n] = old[i] *)
Definition rot {A} (n s : N) (l : list A) : list A :=
  skipn (N.to_nat (n - s)) l ++ firstn (N.to_nat (n - s)) l.
Definition rotw {A} (s : N) (ws : list A) : list A := rot NW s ws.

(* a block [first, last) moved by s wires: first wire and (last wire + 1), as the code represents it *)
Definition rot_range (s : N) (r : N * N) : N * N :=
  ((fst r + s) mod NW, (snd r + NW - 1 + s) mod NW + 1).

Definition full_ring {sig} (ws : list (option sig)) : Prop :=
  forall i, i < NW -> is_some (get ws i) = true.
Definition full_ringb {sig} (ws : list (option sig)) : bool :=
  forallb (fun i => is_some (get ws i)) (Nseq 0 NW).
