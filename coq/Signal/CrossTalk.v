(* The cross-talk matrix of wire deconvolution (physics/src/deconvolution/wires.rs, `a_matrix`):
     A[i][j] = NEIGHBOR_FACTORS.get(|i - j|).copied().unwrap_or(0.0),     0 <= i, j < n
   handed to faer's `cholesky_in_place(..).unwrap()` for every contiguous block of n = 1..256 wires.
   Proved here, for ANY five factors and EVERY n:  x^T A x >= (a0 - 2 (|a1|+|a2|+|a3|+|a4|)) |x|^2   (qform_lower_bound),
   so a strictly diagonally dominant factor set gives a positive definite matrix of every size
   (qform_positive_definite); instantiated at the end on the factors taken from the implementation's matrix on every run
   (Gen/CrossTalk.v, tools/genx_crosstalk.py: exact rational values of the binary64 numbers).
   NOT proved: that a Cholesky factorisation in binary64 of this (well-conditioned: eigenvalues within
   [margin, 2 - margin]) matrix does not fail - the harness runs the implementation on every block length 1..=256, which
   is exhaustive for this matrix family (rel17block). *)
From Coq Require Import Reals List Lra Lia.
From AG Require Import Gen.CrossTalk.
Import ListNotations.
Open Scope R_scope.

Section Band.
Variables a0 a1 a2 a3 a4 : R.

Definition nthR (l : list R) (k : nat) : R := nth k l 0.

(* quadratic form of the symmetric band Toeplitz matrix, written row by row: the diagonal entry of the first
   index, twice its products with the following four, then the rest *)
Fixpoint quadF (l : list R) : R :=
  match l with
  | [] => 0
  | x :: t => a0 * x * x + 2 * x * (a1 * nthR t 0 + a2 * nthR t 1 + a3 * nthR t 2 + a4 * nthR t 3) + quadF t
  end.

Fixpoint sumsq (l : list R) : R := match l with [] => 0 | x :: t => x * x + sumsq t end.

Definition S4 := Rabs a1 + Rabs a2 + Rabs a3 + Rabs a4.
Definition margin := a0 - 2 * S4.

Lemma cross : forall a x p, 2 * x * (a * p) >= - Rabs a * (x * x + p * p).
Proof.
  intros a x p. unfold Rabs. destruct (Rcase_abs a) as [Ha|Ha].
  - assert (H : 0 <= (- a) * ((x - p) * (x - p))) by (apply Rmult_le_pos; [lra | apply Rle_0_sqr]). lra.
  - assert (H : 0 <= a * ((x + p) * (x + p))) by (apply Rmult_le_pos; [lra | apply Rle_0_sqr]). lra.
Qed.

Lemma quadF_lower : forall l,
  quadF l >= margin * sumsq l
             + (Rabs a1 + Rabs a2 + Rabs a3 + Rabs a4) * (nthR l 0 * nthR l 0)
             + (Rabs a2 + Rabs a3 + Rabs a4) * (nthR l 1 * nthR l 1)
             + (Rabs a3 + Rabs a4) * (nthR l 2 * nthR l 2)
             + Rabs a4 * (nthR l 3 * nthR l 3).
Proof.
  induction l as [|x t IH].
  - unfold nthR; simpl. lra.
  - cbn [quadF sumsq].
    replace (nthR (x :: t) 0) with x by reflexivity.
    replace (nthR (x :: t) 1) with (nthR t 0) by reflexivity.
    replace (nthR (x :: t) 2) with (nthR t 1) by reflexivity.
    replace (nthR (x :: t) 3) with (nthR t 2) by reflexivity.
    pose proof (cross a1 x (nthR t 0)) as C1.
    pose proof (cross a2 x (nthR t 1)) as C2.
    pose proof (cross a3 x (nthR t 2)) as C3.
    pose proof (cross a4 x (nthR t 3)) as C4.
    unfold margin, S4 in *.
    set (A1 := Rabs a1) in *. set (A2 := Rabs a2) in *. set (A3 := Rabs a3) in *. set (A4 := Rabs a4) in *.
    set (t0 := nthR t 0) in *. set (t1 := nthR t 1) in *. set (t2 := nthR t 2) in *. set (t3 := nthR t 3) in *.
    lra.
Qed.

(* ---- the matrix as the code builds it: a_matrix(n)[i][j] = NEIGHBOR_FACTORS.get(|i - j|).unwrap_or(0.0) ---- *)
Definition factor (d : nat) : R :=
  match d with O => a0 | 1%nat => a1 | 2%nat => a2 | 3%nat => a3 | 4%nat => a4 | _ => 0 end.
Definition dist (i j : nat) : nat := if Nat.ltb j i then (i - j)%nat else (j - i)%nat.
Definition entry (i j : nat) : R := factor (dist i j).

Fixpoint sumn (n : nat) (f : nat -> R) : R :=
  match n with O => 0 | S k => f O + sumn k (fun i => f (S i)) end.

(* x^T A x for the n x n matrix, n = length l *)
Definition qform (l : list R) : R :=
  sumn (length l) (fun i => sumn (length l) (fun j => entry i j * nthR l i * nthR l j)).

Lemma sumn_ext : forall n f g, (forall i, f i = g i) -> sumn n f = sumn n g.
Proof.
  induction n as [|n IH]; intros f g H; cbn [sumn]; [reflexivity|].
  rewrite H. f_equal. apply IH. intros i. apply H.
Qed.

Lemma sumn_plus : forall n f g, sumn n (fun i => f i + g i) = sumn n f + sumn n g.
Proof.
  induction n as [|n IH]; intros f g; cbn [sumn]; [lra|].
  rewrite (IH (fun i => f (S i)) (fun i => g (S i))). lra.
Qed.

Lemma sumn_scal : forall n c f, sumn n (fun i => c * f i) = c * sumn n f.
Proof.
  induction n as [|n IH]; intros c f; cbn [sumn]; [lra|].
  rewrite (IH c (fun i => f (S i))). lra.
Qed.

Lemma sumn_zero : forall n f, (forall i, f i = 0) -> sumn n f = 0.
Proof.
  induction n as [|n IH]; intros f H; cbn [sumn]; [reflexivity|].
  rewrite H, (IH (fun i => f (S i))); [lra|]. intros i. apply H.
Qed.

Lemma dist_SS : forall i j, dist (S i) (S j) = dist i j.
Proof. intros i j. unfold dist. cbn [Nat.ltb Nat.leb Nat.sub]. reflexivity. Qed.

Lemma dist_0S : forall j, dist 0 (S j) = S j.
Proof. reflexivity. Qed.

Lemma dist_S0 : forall i, dist (S i) 0 = S i.
Proof. reflexivity. Qed.

Lemma band_collapse : forall t,
  sumn (length t) (fun j => factor (S j) * nthR t j)
  = a1 * nthR t 0 + a2 * nthR t 1 + a3 * nthR t 2 + a4 * nthR t 3.
Proof.
  intros t. unfold nthR.
  destruct t as [|t0 [|t1 [|t2 [|t3 r]]]]; cbn [length sumn nth factor]; try lra.
  rewrite sumn_zero; [destruct r; lra|]. intros i. cbn [factor]. lra.
Qed.

Lemma qform_cons : forall x t,
  qform (x :: t)
  = a0 * x * x + 2 * x * (a1 * nthR t 0 + a2 * nthR t 1 + a3 * nthR t 2 + a4 * nthR t 3) + qform t.
Proof.
  intros x t. unfold qform. cbn [length]. cbn [sumn].
  replace (nthR (x :: t) 0) with x by reflexivity.
  replace (entry 0 0) with a0 by reflexivity.
  (* first row, beyond the diagonal *)
  rewrite (sumn_ext (length t) (fun i => entry 0 (S i) * x * nthR (x :: t) (S i))
                    (fun j => x * (factor (S j) * nthR t j))).
  2:{ intros j. unfold entry. rewrite dist_0S. unfold nthR. cbn [nth]. lra. }
  rewrite sumn_scal, band_collapse.
  (* the other rows: first column entry + the (n-1) x (n-1) block *)
  rewrite (sumn_ext (length t)
            (fun i => entry (S i) 0 * nthR (x :: t) (S i) * x
                      + sumn (length t) (fun j => entry (S i) (S j) * nthR (x :: t) (S i) * nthR (x :: t) (S j)))
            (fun i => x * (factor (S i) * nthR t i)
                      + sumn (length t) (fun j => entry i j * nthR t i * nthR t j))).
  2:{ intros i.
      assert (E1 : entry (S i) 0 * nthR (x :: t) (S i) * x = x * (factor (S i) * nthR t i)).
      { unfold entry. rewrite dist_S0. unfold nthR. cbn [nth]. lra. }
      rewrite E1. apply Rplus_eq_compat_l.
      apply sumn_ext. intros j. unfold entry. rewrite dist_SS. unfold nthR. cbn [nth]. reflexivity. }
  rewrite sumn_plus, sumn_scal, band_collapse. lra.
Qed.

Theorem qform_quadF : forall l, qform l = quadF l.
Proof.
  induction l as [|x t IH]; [reflexivity|].
  rewrite qform_cons. cbn [quadF]. rewrite IH. reflexivity.
Qed.

Lemma sumsq_nonneg : forall l, 0 <= sumsq l.
Proof. induction l as [|x t IH]; cbn [sumsq]; [lra|]. pose proof (Rle_0_sqr x) as H. unfold Rsqr in H. lra. Qed.

(* strict diagonal dominance  =>  x^T A x >= margin * |x|^2 : positive definite, for every size *)
Theorem qform_lower_bound : forall l, qform l >= margin * sumsq l.
Proof.
  intros l. rewrite qform_quadF. pose proof (quadF_lower l) as H.
  assert (P : forall a y, 0 <= a -> 0 <= a * (y * y)).
  { intros a y Ha. apply Rmult_le_pos; [exact Ha|]. pose proof (Rle_0_sqr y) as Hy. unfold Rsqr in Hy. exact Hy. }
  pose proof (Rabs_pos a1) as P1. pose proof (Rabs_pos a2) as P2. pose proof (Rabs_pos a3) as P3. pose proof (Rabs_pos a4) as P4.
  pose proof (P (Rabs a1 + Rabs a2 + Rabs a3 + Rabs a4) (nthR l 0) ltac:(lra)).
  pose proof (P (Rabs a2 + Rabs a3 + Rabs a4) (nthR l 1) ltac:(lra)).
  pose proof (P (Rabs a3 + Rabs a4) (nthR l 2) ltac:(lra)).
  pose proof (P (Rabs a4) (nthR l 3) ltac:(lra)).
  lra.
Qed.

Theorem qform_positive_definite : 0 < margin -> forall l, 0 < sumsq l -> 0 < qform l.
Proof.
  intros Hm l Hl. pose proof (qform_lower_bound l) as H.
  assert (0 < margin * sumsq l) by (apply Rmult_lt_0_compat; assumption). lra.
Qed.

Lemma sumsq_zero_iff : forall l, sumsq l = 0 <-> Forall (fun x => x = 0) l.
Proof.
  induction l as [|x t IH]; cbn [sumsq].
  - split; [constructor | reflexivity].
  - pose proof (sumsq_nonneg t) as Ht. pose proof (Rle_0_sqr x) as Hx. unfold Rsqr in Hx. split.
    + intros H. assert (x * x = 0) by lra. assert (sumsq t = 0) by lra.
      constructor; [ apply Rmult_integral in H0; tauto | apply IH; assumption ].
    + intros H. inversion H as [|? ? Hx0 Ht0]; subst. apply IH in Ht0. rewrite Ht0. lra.
Qed.
End Band.


(* ---- instance: the factors of the current source ---- *)
Definition nf_margin : R :=
  margin neighbor_factor_0 neighbor_factor_1 neighbor_factor_2 neighbor_factor_3 neighbor_factor_4.
Definition crosstalk_qform : list R -> R :=
  qform neighbor_factor_0 neighbor_factor_1 neighbor_factor_2 neighbor_factor_3 neighbor_factor_4.
Definition crosstalk_entry : nat -> nat -> R :=
  entry neighbor_factor_0 neighbor_factor_1 neighbor_factor_2 neighbor_factor_3 neighbor_factor_4.

(* strict diagonal dominance of the regenerated factors (0.6396 for 1, -0.1275, -0.0365, -0.012, -0.0042); only
   positivity is asked, so that a re-tuning of the factors that keeps the matrix dominant keeps the theorem *)
Lemma nf_margin_pos : 0 < nf_margin.
Proof.
  unfold nf_margin, margin, S4, neighbor_factor_0, neighbor_factor_1, neighbor_factor_2, neighbor_factor_3,
    neighbor_factor_4, Rabs.
  repeat match goal with |- context [Rcase_abs ?x] => destruct (Rcase_abs x) end; lra.
Qed.

Theorem crosstalk_lower_bound : forall l, crosstalk_qform l >= nf_margin * sumsq l.
Proof.
  intros l. exact (qform_lower_bound neighbor_factor_0 neighbor_factor_1 neighbor_factor_2 neighbor_factor_3
                     neighbor_factor_4 l).
Qed.

Theorem crosstalk_positive_definite : forall l, ~ Forall (fun x => x = 0) l -> 0 < crosstalk_qform l.
Proof.
  intros l Hl. pose proof (crosstalk_lower_bound l) as H. pose proof (sumsq_nonneg l) as S. pose proof nf_margin_pos as M.
  destruct (Req_dec (sumsq l) 0) as [E|E]; [exfalso; apply Hl; apply sumsq_zero_iff; exact E|].
  assert (0 < nf_margin * sumsq l) by (apply Rmult_lt_0_compat; lra). lra.
Qed.

Theorem crosstalk_symmetric : forall i j, crosstalk_entry i j = crosstalk_entry j i.
Proof.
  intros i j. unfold crosstalk_entry, entry. f_equal. unfold dist.
  destruct (Nat.ltb_spec j i), (Nat.ltb_spec i j); lia.
Qed.

(* the hypotheses are met by non-trivial vectors; the form is the matrix product written out (n = 3) *)
Example crosstalk_form_3 : forall x y z,
  crosstalk_qform [x; y; z]
  = neighbor_factor_0 * (x * x + y * y + z * z) + 2 * neighbor_factor_1 * (x * y + y * z) + 2 * neighbor_factor_2 * (x * z).
Proof.
  intros x y z. unfold crosstalk_qform, qform. cbn [length sumn]. unfold entry, dist, nthR.
  cbn [Nat.ltb Nat.leb Nat.sub factor nth]. lra.
Qed.
