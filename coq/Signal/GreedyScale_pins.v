(* C17 — scale covariance FOR BINARY64 (pins in the Props style; to be imported by Props/C17.v).

   "multiplying every calibrated sample of an event by a power of two multiplies every recovered
    amplitude by exactly that factor while changing no time"

   is proved here for the bit-exact binary64 model that the differential compares with the
   implementation (nn_greedy_f / ls_deconv_f of Signal/Greedy.v), under an explicit and executable
   no-overflow / no-underflow side condition on the values THE RUN ACTUALLY PRODUCES:

     nn_safe k signal response off la   /   ls_safe k signal response offs las     (Signal/GreedyScale.v)

   re-run the algorithm on the UNSCALED waveform and test, for every arithmetic operation performed
   (s / r, f64::min, v * r, s - v*r, x.powi(2), acc + x^2, r < best), that its operands and its result
   are either a zero or finite with magnitude in [2^(K-1021), 2^(1023-K)], K = |k| (K = 2|k| for the
   squared residual), that a product / quotient is a zero only when a factor / the dividend is
   (no underflow to zero), that the response samples used are finite (non-zero as divisors), and
   |k| <= 500.  Under that predicate every control decision (window skips, argmin over the
   offset x look-ahead grid, hence every TIME) is unchanged, every amplitude is multiplied by
   c = 2^k bit for bit, and the squared residual by c^2.

   The op-level facts are proved through Flocq (Bmult/Bdiv/Bplus/Bminus_correct: the scaled exact
   value rounds to the scaled rounded value because the canonical exponent shifts by k in the
   normal range) and transported to Coq's primitive floats with the standard FloatAxioms
   (Flocq.IEEE754.PrimFloat: Prim2B, mul_equiv, ...). *)
From AG Require Import Base.Prelude Base.Res Signal.Greedy Signal.GreedyScale Signal.GreedyScale_proofs.
From Coq Require Import Floats.

(* the scaling that the harness relation rel17scale performs: x * c and r * c * c with c = 2f64.powi(k) *)
Example C17_fscale_is_mul_pow2 : forall k x, fscale k x = (x * pow2 k)%float /\ fscale2 k x = (x * pow2 k * pow2 k)%float.
Proof. intros. split; reflexivity. Qed.
(* pow2 k is the binary64 number 2^k (general statement: pow2_spec in GreedyScale_proofs.v, through Flocq) *)
Example C17_pow2_values : (pow2 10 = 1024 /\ pow2 (-10) = 0x1p-10 /\ pow2 0 = 1 /\ pow2 (-20) = Z.ldexp 1 (-20) /\ pow2 20 = Z.ldexp 1 20)%float.
Proof. repeat split; vm_compute; reflexivity. Qed.

(* one sweep: outputs scaled by c, squared residual by c^2, same control flow *)
Theorem C17_nn_greedy_scale_f64 : forall (k : Z) (signal response : list float) (off la : nat),
  nn_safe k signal response off la = true ->
  nn_greedy_f (map (fscale k) signal) response off la =
  res_map (sc_out float (fscale k) (fscale2 k)) (nn_greedy_f signal response off la).
Proof. exact nn_greedy_scale_f64_lemma. Qed.
Print Assumptions C17_nn_greedy_scale_f64.

(* the whole selection ls_deconvolution (the pad and wire entry points are instances):
   the same grid point wins, every amplitude is scaled exactly *)
Theorem C17_ls_deconv_scale_f64 : forall (k : Z) (signal response : list float) (offs las : list nat),
  ls_safe k signal response offs las = true ->
  ls_deconv_f (map (fscale k) signal) response offs las =
  res_map (map (fscale k)) (ls_deconv_f signal response offs las).
Proof. exact ls_deconv_scale_f64_lemma. Qed.
Print Assumptions C17_ls_deconv_scale_f64.

Theorem C17_pad_deconv_scale_f64 : forall (k : Z) (signal pad_response : list float),
  ls_safe k signal pad_response (range_incl 3 5) (range_incl 7 12) = true ->
  pad_deconv_f (map (fscale k) signal) pad_response = res_map (map (fscale k)) (pad_deconv_f signal pad_response).
Proof. intros. apply ls_deconv_scale_f64_lemma. assumption. Qed.
Print Assumptions C17_pad_deconv_scale_f64.

Theorem C17_wire_deconv_scale_f64 : forall (k : Z) (signal wire_response : list float),
  ls_safe k signal wire_response (range_incl 0 1) (range_incl 3 12) = true ->
  wire_deconv_f (map (fscale k) signal) wire_response = res_map (map (fscale k)) (wire_deconv_f signal wire_response).
Proof. intros. apply ls_deconv_scale_f64_lemma. assumption. Qed.
Print Assumptions C17_wire_deconv_scale_f64.

(* the op-level binary64 laws themselves (each under its boolean test), k with |k| <= 500 *)
Theorem C17_f64_scale_laws : forall k : Z, (Z.abs k <= kmax)%Z ->
  let K := Z.abs k in let K2 := (2 * Z.abs k)%Z in let sc := fscale k in let sc2 := fscale2 k in
  (forall a b, f_ok_sub K a b = true -> (sc a - sc b = sc (a - b))%float) /\
  (forall v r, f_ok_mul K v r = true -> (sc v * r = sc (v * r))%float) /\
  (forall s r, f_ok_div K s r = true -> (sc s / r = sc (s / r))%float) /\
  (forall a b, okv K a = true -> okv K b = true -> f_min (sc a) (sc b) = sc (f_min a b)) /\
  (forall x, okv K x = true -> f_nonneg (sc x) = f_nonneg x) /\
  (forall x, f_ok_sq k x = true -> (sc x * sc x = sc2 (x * x))%float) /\
  (forall a b, f_ok_add K2 a b = true -> (sc2 a + sc2 b = sc2 (a + b))%float) /\
  (forall a b, f_ok_lt2 K2 a b = true -> (sc2 a <? sc2 b = (a <? b))%float) /\
  sc 0%float = 0%float /\ sc2 neg_zero = neg_zero /\ sc2 infinity = infinity.
Proof.
  intros k Hk. cbv zeta.
  exact (conj (law_sub k Hk) (conj (law_mul k Hk) (conj (law_div k Hk) (conj (law_min k Hk) (conj (law_nonneg k Hk)
        (conj (law_sq k Hk) (conj (law_add2 k Hk) (conj (law_lt2 k Hk) (conj (law_zero k Hk) (conj (law_szero k Hk) (law_inf k Hk))))))))))).
Qed.
Print Assumptions C17_f64_scale_laws.

(* ---- the hypotheses are satisfiable on a non-trivial concrete binary64 waveform, and the conclusion is
        what the implementation printed.  Two response-shaped pulses (amplitudes 80 and 55.5 at samples 2
        and 6) plus noise, 14 samples, on a 5-sample response; grid offsets 0..=1 x look-aheads 2..=3.
        Case lines (corpus/C17/scale_example.case, compared with the implementation on every run):
        the waveform, the waveform * 2^10, the waveform * 2^-10.  The implementation printed
          ls=14:1=3fc1111111111111,2=4053e93e93e93e94,3=3fbc71c71c71c762,5=3fbee8dd7cc6ba28,6=404b962bbdc18c77,7=3fbc985d6f15813b
          ls=14:1=4061111111111111,2=40f3e93e93e93e94,3=405c71c71c71c762,5=405ee8dd7cc6ba28,6=40eb962bbdc18c77,7=405c985d6f15813b
          ls=14:1=3f21111111111111,2=3fb3e93e93e93e94,3=3f1c71c71c71c762,5=3f1ee8dd7cc6ba28,6=3fab962bbdc18c77,7=3f1c985d6f15813b
        (same mantissas, exponents shifted by +10 / -10, same positions). ---- *)
Local Open Scope float_scope.
Definition ex_resp : list float :=
  [-0x1.8p+0; -0x1.ap+1; -0x1p+1; -0x1.8p-1; -0x1.999999999999ap-4].
Definition ex_sig : list float :=
  [0x1.3333333333333p-2; -0x1.999999999999ap-3; -0x1.df9999999999ap+6; -0x1.0466666666666p+8; -0x1.3f8p+7;
   -0x1.e133333333333p+5; -0x1.6cccccccccccdp+6; -0x1.695999999999ap+7; -0x1.bb33333333333p+6; -0x1.4dccccccccccdp+5;
   -0x1.4cccccccccccep+2; -0x1p-2; 0x1.3333333333333p-3; -0x1.999999999999ap-5].
Definition ex_out : list float :=
  [0; 0x1.1111111111111p-3; 0x1.3e93e93e93e94p+6; 0x1.c71c71c71c762p-4; 0; 0x1.ee8dd7cc6ba28p-4; 0x1.b962bbdc18c77p+5;
   0x1.c985d6f15813bp-4; 0; 0; 0; 0; 0; 0].
Definition ex_out_up : list float :=
  [0; 0x1.1111111111111p+7; 0x1.3e93e93e93e94p+16; 0x1.c71c71c71c762p+6; 0; 0x1.ee8dd7cc6ba28p+6; 0x1.b962bbdc18c77p+15;
   0x1.c985d6f15813bp+6; 0; 0; 0; 0; 0; 0].
Definition ex_out_down : list float :=
  [0; 0x1.1111111111111p-13; 0x1.3e93e93e93e94p-4; 0x1.c71c71c71c762p-14; 0; 0x1.ee8dd7cc6ba28p-14; 0x1.b962bbdc18c77p-5;
   0x1.c985d6f15813bp-14; 0; 0; 0; 0; 0; 0].

Example C17_scale_example_safe :
  ls_safe 10 ex_sig ex_resp [0; 1]%nat [2; 3]%nat = true /\ ls_safe (-10) ex_sig ex_resp [0; 1]%nat [2; 3]%nat = true /\
  nn_safe 10 ex_sig ex_resp 1 3 = true /\ nn_safe (-10) ex_sig ex_resp 1 3 = true.
Proof. repeat split; vm_compute; reflexivity. Qed.
Example C17_scale_example_unscaled : ls_deconv_f ex_sig ex_resp [0; 1]%nat [2; 3]%nat = Ok ex_out.
Proof. vm_compute. reflexivity. Qed.
(* the conclusion of the theorem, obtained FROM the theorem, equals what the implementation printed *)
Example C17_scale_example_up : ls_deconv_f (map (fscale 10) ex_sig) ex_resp [0; 1]%nat [2; 3]%nat = Ok ex_out_up.
Proof.
  rewrite (C17_ls_deconv_scale_f64 10 ex_sig ex_resp [0; 1]%nat [2; 3]%nat (proj1 C17_scale_example_safe)).
  rewrite C17_scale_example_unscaled. vm_compute. reflexivity.
Qed.
Example C17_scale_example_down : ls_deconv_f (map (fscale (-10)) ex_sig) ex_resp [0; 1]%nat [2; 3]%nat = Ok ex_out_down.
Proof.
  rewrite (C17_ls_deconv_scale_f64 (-10) ex_sig ex_resp [0; 1]%nat [2; 3]%nat (proj1 (proj2 C17_scale_example_safe))).
  rewrite C17_scale_example_unscaled. vm_compute. reflexivity.
Qed.
(* one sweep: residual 0x1.e7cef2dac6ac5p+13 becomes 0x1.e7cef2dac6ac5p+33 (printed: 40ce7cef2dac6ac5 -> 420e7cef2dac6ac5) *)
Example C17_scale_example_residual :
  res_map fst (nn_greedy_f ex_sig ex_resp 1 3) = Ok 0x1.e7cef2dac6ac5p+13 /\
  res_map fst (nn_greedy_f (map (fscale 10) ex_sig) ex_resp 1 3) = Ok 0x1.e7cef2dac6ac5p+33.
Proof.
  rewrite (C17_nn_greedy_scale_f64 10 ex_sig ex_resp 1 3 (proj1 (proj2 (proj2 C17_scale_example_safe)))).
  split; vm_compute; reflexivity.
Qed.
(* the predicate is not vacuous the other way either: it rejects a waveform whose scaled image overflows *)
Example C17_scale_example_rejects : nn_safe 500 [0x1p+600; -0x1p+0; -0x1p+0] ex_resp 0 2 = false.
Proof. vm_compute. reflexivity. Qed.
