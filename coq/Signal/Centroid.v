(* Real-number reading of the three-pad Gaussian centroid of pad_hits_at_t (physics/src/matching.rs:78-86)
   and of TpcPadRow::z (detector/src/padwing/map.rs:520-524): the same formulas with the rounding removed.
   Definitions only (proofs: Signal/Centroid_proofs.v, pins: Signal/Centroid_pins.v).

   This is the function that the abstract `zf` of Signal/Avalanches.v stands for: the model calls
   `zf (row - 1) first middle last` (Avalanches.v, pad_loop), the code computes
     z = TpcPadRow::try_from(row - 1).unwrap().z() + (sigma_squared / (2.0 * width)) * (last / first).ln(). *)
From Coq Require Import Reals.
From AG Require Import Base.Prelude Gen.PadMaps.
Local Open Scope R_scope.

(* padwing/map.rs:23  TPC_PAD_ROWS = TPC_PWB_ROWS * PWB_PAD_ROWS; the value is the one regenerated from the
   current source by the translator (Gen/PadMaps.v) *)
Definition TPC_PAD_ROWS : N := gen_TPC_PAD_ROWS.
Definition NR (n : N) : R := IZR (Z.of_N n).                 (* `row as f64` (exact: row < 2^53) *)
(* padwing/map.rs:9   pub const DETECTOR_LENGTH: f64 = 2.304; *)
Definition DETECTOR_LENGTH : R := 2304 / 1000.
(* padwing/map.rs:28  PAD_PITCH_Z = DETECTOR_LENGTH / (TPC_PAD_ROWS as f64) *)
Definition PAD_PITCH_Z : R := DETECTOR_LENGTH / NR TPC_PAD_ROWS.

(* padwing/map.rs:520-524  TpcPadRow::z, for any detector length and number of rows *)
Definition row_z_gen (len : R) (rows : N) (row : N) : R :=
  let pitch := len / NR rows in
  let DETECTOR_HALF_LENGTH := /2 * len in                                      (* :522 *)
  (NR row + /2) * pitch - DETECTOR_HALF_LENGTH.                                (* :523 *)
Definition pad_row_z (row : N) : R := row_z_gen DETECTOR_LENGTH TPC_PAD_ROWS row.

(* matching.rs:78  first > 0.0 && last > 0.0 && middle > first && middle > last *)
Definition hit_condition (first middle last : R) : Prop :=
  first > 0 /\ last > 0 /\ middle > first /\ middle > last.

(* matching.rs:80-81 *)
Definition sigma_squared (width first middle last : R) : R :=
  width ^ 2 / ln (middle ^ 2 / (first * last)).
(* matching.rs:82-83; `r` is the 0-based row of the middle pad (row - 1 in the code) *)
Definition centroid_gen (len : R) (rows : N) (r : N) (first middle last : R) : R :=
  let width := len / NR rows in
  row_z_gen len rows r + (sigma_squared width first middle last / (2 * width)) * ln (last / first).
Definition zR (r : N) (first middle last : R) : R :=
  centroid_gen DETECTOR_LENGTH TPC_PAD_ROWS r first middle last.

(* the amplitude tests of matching.rs:78 as boolean functions on R (for instantiating Signal/Avalanches.v) *)
Definition Rposb (x : R) : bool := if Rlt_dec 0 x then true else false.         (* x > 0.0 *)
Definition Rgtb (a b : R) : bool := if Rlt_dec b a then true else false.        (* a > b *)
