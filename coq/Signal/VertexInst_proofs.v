(* C09 - the premise set of C09_vertex_total_partial is jointly satisfiable: every premise is proved for the instance
   of coq/Signal/VertexInst.v (see there for what is real and what is toy).  The numeric premises (N2), (N3e), (V1),
   (V2bc), (V3e) are COMPUTED on the values this event leads to (2 clusters of 13 points, 8 cost evaluations per track fit,
   2 tracks, one beamline cluster, 5 evaluations of the vertex cost); (N4e)/(V4e) are proved for the simplex prober. *)
From Coq Require Import PrimFloat Floats Permutation.
From AG Require Import Base.Prelude Base.Res Recon.Helix Recon.Fit Signal.Ring Signal.AvalTotal Signal.VertexInst.
From AG Require Recon.Cluster Recon.Fit_proofs Signal.AvalTotal_proofs.
Local Open Scope float_scope.

Module VI_proofs.
  Import VI.
  Definition the_clusters := match vertex_clusters sp_of cluster avs with Ok cl => cl | _ => [] end.
  Lemma clusters_eq : vertex_clusters sp_of cluster avs = Ok the_clusters.
  Proof. vm_compute. reflexivity. Qed.
  Definition the_tracks := match vertex_tracks sp_of cluster fit avs with Ok t => t | _ => [] end.
  Lemma tracks_eq : vertex_tracks sp_of cluster fit avs = Ok the_tracks.
  Proof. vm_compute. reflexivity. Qed.
  Definition the_bc := match beamline_clusters (filter is_primary the_tracks) with Ok bc => bc | _ => [] end.
  Lemma bc_eq : beamline_clusters (filter is_primary the_tracks) = Ok the_bc.
  Proof. vm_compute. reflexivity. Qed.
  Definition the_best := match vertex_best the_tracks with Ok (Some b) => b | _ => ([], 0) end.
  Lemma best_eq : vertex_best the_tracks = Ok (Some the_best).
  Proof. vm_compute. reflexivity. Qed.
  Definition the_vsimplex := match initial_simplex float B64.bump (vguess (snd the_best)) with Ok s => s | _ => [] end.

  Lemma ok_inj {A} (x y : A) : @Ok A x = Ok y -> x = y.
  Proof. intros H. injection H. auto. Qed.
  Lemma bins_nodup : forall p, NoDup (bins p).
  Proof. intros p. unfold bins. destruct (p <? 13)%N; repeat constructor; intros []. Qed.
  Lemma teq_refl : forall t, teq t t = true.
  Proof. intros t. unfold teq. destruct (list_eq_dec sf_eq_dec (key t) (key t)); congruence. Qed.
  Lemma teq_sym : forall a b, teq a b = true -> teq b a = true.
  Proof. intros a b. unfold teq. destruct (list_eq_dec sf_eq_dec (key a) (key b)), (list_eq_dec sf_eq_dec (key b) (key a)); congruence. Qed.
  Lemma teq_trans : forall a b c, teq a b = true -> teq b c = true -> teq a c = true.
  Proof.
    intros a b c. unfold teq.
    destruct (list_eq_dec sf_eq_dec (key a) (key b)), (list_eq_dec sf_eq_dec (key b) (key c)),
      (list_eq_dec sf_eq_dec (key a) (key c)); congruence.
  Qed.
  Lemma Z1_ok : forall a, In a avs -> sp_of a <> Panic.
  Proof. intros a _. unfold sp_of. destruct (a <? 26)%N; discriminate. Qed.

  Lemma check_N2 :
    forallb (fun c => forallb (fun a => forallb (fun b => forallb (fun p =>
      negb (PrimFloat.is_nan (Fit.dev float N p_r PrimFloat.sub PrimFloat.abs (half (p_r a + p_r b)) p))) c) c) c)
      the_clusters = true.
  Proof. vm_compute. reflexivity. Qed.
  Lemma N2_ok : forall cl c, vertex_clusters sp_of cluster avs = Ok cl -> In c cl ->
    forall a b p, In a c -> In b c -> In p c ->
    PrimFloat.is_nan (Fit.dev float N p_r PrimFloat.sub PrimFloat.abs (half (p_r a + p_r b)) p) = false.
  Proof.
    intros cl c Hcl Hc a b p Ha Hb Hp. rewrite clusters_eq in Hcl. apply ok_inj in Hcl. subst cl.
    pose proof check_N2 as K. rewrite forallb_forall in K. specialize (K c Hc).
    rewrite forallb_forall in K. specialize (K a Ha). rewrite forallb_forall in K. specialize (K b Hb).
    rewrite forallb_forall in K. specialize (K p Hp). apply Bool.negb_true_iff in K. exact K.
  Qed.

  Lemma check_N3 :
    forallb (fun c => match fit_simplex c with
                      | Ok s => forallb (fun p => match cost c p with Ok y => negb (PrimFloat.is_nan y) | _ => false end)
                                        (asked (cost c) (tree s))
                      | _ => false end) the_clusters = true
    /\ map (fun c => match fit_simplex c with Ok s => length (asked (cost c) (tree s)) | _ => O end) the_clusters = [8; 8]%nat.
  Proof. vm_compute. split; reflexivity. Qed.
  Lemma N3_ok : forall cl c, vertex_clusters sp_of cluster avs = Ok cl -> In c cl ->
    forall s, fit_simplex c = Ok s ->
    forall p, In p (asked (cost c) (tree s)) -> exists y, cost c p = Ok y /\ good y.
  Proof.
    intros cl c Hcl Hc s Hs p Hp. rewrite clusters_eq in Hcl. apply ok_inj in Hcl. subst cl.
    destruct check_N3 as [K _]. rewrite forallb_forall in K. specialize (K c Hc). rewrite Hs in K.
    rewrite forallb_forall in K. specialize (K p Hp).
    destruct (cost c p) as [y | | ]; try discriminate K. exists y. split; [reflexivity | ].
    unfold good. apply Bool.negb_true_iff in K. exact K.
  Qed.
  Lemma N4_ok : forall cl c, vertex_clusters sp_of cluster avs = Ok cl -> In c cl ->
    forall s, fit_simplex c = Ok s -> wf_strategy good 6 [] (tree s).
  Proof.
    intros cl c _ _ s Hs. unfold fit_simplex in Hs.
    eapply Fit_proofs.fit_simplex_shape with (n := 6%nat) in Hs; [ | intros; reflexivity]. destruct Hs as [Ns Fs].
    apply Fit_proofs.B64_proofs.mini_nm_wf; assumption.
  Qed.

  Lemma check_V1 :
    forallb (fun a => forallb (fun b => match fcmp_prim (t_zb a) (t_zb b) with Some _ => true | None => false end)
                               the_tracks) the_tracks = true.
  Proof. vm_compute. reflexivity. Qed.
  Lemma V1_ok : forall trs, vertex_tracks sp_of cluster fit avs = Ok trs ->
    forall a b, In a trs -> In b trs -> fcmp_prim (t_zb a) (t_zb b) <> None.
  Proof.
    intros trs Ht a b Ha Hb. rewrite tracks_eq in Ht. apply ok_inj in Ht. subst trs.
    pose proof check_V1 as K. rewrite forallb_forall in K. specialize (K a Ha).
    rewrite forallb_forall in K. specialize (K b Hb). destruct (fcmp_prim (t_zb a) (t_zb b)); [intros X; discriminate X | discriminate K].
  Qed.
  Lemma check_V2 :
    forallb (fun a => forallb (fun b =>
      match fcmp_prim (sumF (map t_rad (fst a))) (sumF (map t_rad (fst b))) with Some _ => true | None => false end)
      the_bc) the_bc = true.
  Proof. vm_compute. reflexivity. Qed.
  Lemma V2_ok : forall trs, vertex_tracks sp_of cluster fit avs = Ok trs ->
    forall bc a b, beamline_clusters (filter is_primary trs) = Ok bc -> In a bc -> In b bc ->
    fcmp_prim (sumF (map t_rad (fst a))) (sumF (map t_rad (fst b))) <> None.
  Proof.
    intros trs Ht bc a b Hbc Ha Hb. rewrite tracks_eq in Ht. apply ok_inj in Ht. subst trs.
    rewrite bc_eq in Hbc. apply ok_inj in Hbc. subst bc.
    pose proof check_V2 as K. rewrite forallb_forall in K. specialize (K a Ha).
    rewrite forallb_forall in K. specialize (K b Hb).
    destruct (fcmp_prim (sumF (map t_rad (fst a))) (sumF (map t_rad (fst b)))); [intros X; discriminate X | discriminate K].
  Qed.
  Lemma best_inv : forall ts mz s, vertex_best the_tracks = Ok (Some (ts, mz)) ->
    initial_simplex float B64.bump (vguess mz) = Ok s -> ts = fst the_best /\ s = the_vsimplex.
  Proof.
    intros ts mz s Hb Hs. rewrite best_eq in Hb.
    apply (f_equal (fun r => match r with Ok (Some b) => b | _ => (@nil T, 0) end)) in Hb.
    change (the_best = (ts, mz)) in Hb. unfold the_vsimplex. rewrite Hb. cbn [fst snd]. rewrite Hs. auto.
  Qed.
  Lemma check_V3 :
    forallb (fun p => match vcost (fst the_best) p with Ok y => negb (PrimFloat.is_nan y) | _ => false end)
            (asked (vcost (fst the_best)) (tree the_vsimplex)) = true
    /\ length (asked (vcost (fst the_best)) (tree the_vsimplex)) = 5%nat /\ length (fst the_best) = 2%nat.
  Proof. vm_compute. repeat split; reflexivity. Qed.
  Lemma V3_ok : forall trs, vertex_tracks sp_of cluster fit avs = Ok trs ->
    forall ts mz s, vertex_best trs = Ok (Some (ts, mz)) -> initial_simplex float B64.bump (vguess mz) = Ok s ->
    forall p, In p (asked (vcost ts) (tree s)) -> exists y, vcost ts p = Ok y /\ good y.
  Proof.
    intros trs Ht ts mz s Hb Hs p Hp. rewrite tracks_eq in Ht. apply ok_inj in Ht. subst trs.
    destruct (best_inv ts mz s Hb Hs) as [-> ->].
    destruct check_V3 as [K _]. rewrite forallb_forall in K. specialize (K p Hp).
    destruct (vcost (fst the_best) p) as [y | | ]; try discriminate K. exists y. split; [reflexivity | ].
    unfold good. apply Bool.negb_true_iff in K. exact K.
  Qed.
  Lemma V4_ok : forall trs, vertex_tracks sp_of cluster fit avs = Ok trs ->
    forall ts mz s, vertex_best trs = Ok (Some (ts, mz)) -> initial_simplex float B64.bump (vguess mz) = Ok s ->
    wf_strategy good 3 [] (tree s).
  Proof.
    intros trs _ ts mz s _ Hs.
    destruct (Fit_proofs.initial_simplex_ok float B64.bump (vguess mz)) as (s' & E & Fs & Ns).
    rewrite Hs in E. inversion E; subst s'. apply Fit_proofs.B64_proofs.mini_nm_wf; assumption.
  Qed.

  Theorem vertex_total : exists v, vertex_res sp_of cluster fit find (Ok avs) = Ok v.
  Proof.
    apply (AvalTotal_proofs.vertex_total_partial_lemma N float spoint sp_of bins near p_r p_x p_y PrimFloat.ltb PrimFloat.eqb
             fcmp_prim PrimFloat.is_nan PrimFloat.add PrimFloat.sub PrimFloat.mul half PrimFloat.abs 0 guess B64.bump
             point_val closest tree tree good true teq t_zb t_rad is_primary close_z sumF mean_z sortP vpoint_of vcost_val
             vguess tclosest).
    - exact bins_nodup.
    - exact Fit_proofs.fcmp_prim_total.
    - reflexivity.
    - intros l. apply Permutation_refl.
    - exact teq_sym.
    - exact teq_trans.
    - exact Z1_ok.
    - exact N2_ok.
    - exact N3_ok.
    - exact N4_ok.
    - exact V1_ok.
    - exact V2_ok.
    - exact V3_ok.
    - exact V4_ok.
    - intros trs _ t _. apply teq_refl.
  Qed.
  Lemma runs : match vertex_res sp_of cluster fit find (Ok avs) with Ok (Some _) => true | _ => false end = true
               /\ map (@length N) the_clusters = [13; 13]%nat /\ length the_tracks = 2%nat.
  Proof. vm_compute. repeat split; reflexivity. Qed.
End VI_proofs.
