(* C09 — computing the avalanches of a main event returns normally.  Pinned statements only (Props style);
   model: Signal/AvalTotal.v, proofs: Signal/AvalTotal_proofs.v.  To be imported by Props/C09.v.

   avalanches_res is MainEvent::avalanches (lib.rs:415-447) with everything it calls, in the `res` monad: every
   index, slice, unwrap, try_into().unwrap(), partial_cmp().unwrap(), checked subtraction and assert is a
   primitive that yields Panic when its precondition fails.  The theorems say it yields Ok - and in fact
   exactly the value of the pure skeleton `avalanches` of Signal/Avalanches.v (C13), so the C13 theorems apply
   to it.  What remains as hypotheses, all visible in C09_avalanches_f64_total:
     faer_shape            NAMED ASSUMPTION on the external faer kernel: the Cholesky factorisation of the constant
                           banded matrix a_matrix(j) succeeds (the `.unwrap()`s of wires.rs:94/103/111) and the
                           in-place solve leaves Y an i x j matrix.  Measured on the implementation for every
                           j = 1..256 (rel17block lines).
     response_windows_ok   table fact: the first 13 bins of the wire response and bins 3..17 of the pad response
                           exist and are negative (the `assert!` of deconvolution.rs:31 and the slicing of :26).
                           Measured on the implementation's tables (rel17table line).
     event_shape           256 wire slots, 32 x 576 pad slots: the array types of MainEvent.
   Nothing is assumed about the sample VALUES: no NaN-freedom hypothesis is needed, because a NaN never
   becomes a hit (`v > 0.0`, `middle > first` are false on NaN), so partial_cmp only sees numbers. *)
From Coq Require Import Floats.
From AG Require Import Base.Prelude Base.Res Signal.Ring Signal.Ring_proofs Signal.Avalanches Signal.Greedy
  Signal.AvalTotal Signal.AvalTotal_proofs.

(* (1) contiguous_ranges: the scan stays inside the 256 slots, the two loops terminate within the stated fuel,
   and the merge of the first and last block never pops or swap_removes an empty vector - for EVERY occupancy
   of the 256 slots (no "not the full ring" premise).  The result is the pure function of C13. *)
Theorem C09_contiguous_ranges_total : forall (sig : Type) (ws : list (option sig)),
  N.of_nat (length ws) = NW ->
  contiguous_ranges_res ws = Ok (contiguous_ranges ws) /\ contiguous_ranges_res ws <> Panic.
Proof. exact contiguous_ranges_total_lemma. Qed.
Print Assumptions C09_contiguous_ranges_total.

(* the merge step alone, for ANY vector of ranges (lines 59-68): `pop().unwrap()` and `swap_remove(0)` are only
   reached behind `len() > 1` *)
Theorem C09_merge_seam_total : forall ranges : list (N * N), merge_seam_res ranges = Ok (merge_seam ranges).
Proof. exact merge_seam_total_lemma. Qed.
Print Assumptions C09_merge_seam_total.

(* (2) on a block returned by contiguous_ranges: it has at least one wire (`.max().unwrap()`), every wire of it
   is inside the array and present (`wire_signals[i].as_ref().unwrap()`, `.nth(j).unwrap()`), and
   `256 - first + last` does not underflow *)
Theorem C09_wire_block_total : forall (sig : Type) (slen : sig -> nat) (ws : list (option sig)) (r : N * N),
  N.of_nat (length ws) = NW -> In r (contiguous_ranges ws) ->
  range_to_indices r <> [] /\
  length (block_sigs ws r) = length (range_to_indices r) /\
  problem_dimensions_res slen ws r = Ok (max_slen slen (block_sigs ws r), range_to_len r) /\
  y_matrix_res slen ws r = Ok (max_slen slen (block_sigs ws r), block_sigs ws r).
Proof. exact wire_block_total_lemma. Qed.
Print Assumptions C09_wire_block_total.

(* wire_range_deconvolution on such a block: with the shape law of the solve, every y.read(row, column) is in
   bounds; the result pairs each wire of the block with its deconvolved column *)
Theorem C09_wire_range_deconvolution_total :
  forall (sig amp : Type) (azero : amp) (slen : sig -> nat) (solve : nat -> list sig -> list (list amp))
         (wdec : list amp -> res (list amp)) (ws : list (option sig)) (r : N * N),
  faer_shape solve -> kernel_total wdec ->
  N.of_nat (length ws) = NW -> In r (contiguous_ranges ws) ->
  wire_range_deconvolution_res slen solve wdec ws r
  = Ok (combine (range_to_indices r) (D_of slen solve wdec (block_sigs ws r))).
Proof. exact wire_range_deconvolution_total_lemma. Qed.
Print Assumptions C09_wire_range_deconvolution_total.

(* (3) imported from C17: for ALL binary64 waveforms (whatever the cross-talk solve returned) the deconvolved
   vector is empty or has one entry per sample; every entry is finite, has a clear sign bit, is not a NaN *)
Theorem C09_ls_deconv_no_nan : forall (signal response : list float) (offs las : list nat) (out : list float),
  ls_deconv_f signal response offs las = Ok out ->
  (out = [] \/ length out = length signal) /\
  Forall (fun x => f_fin x /\ f_ge0 x /\ f64_num x) out.
Proof. exact ls_deconv_no_nan_lemma. Qed.
Print Assumptions C09_ls_deconv_no_nan.

(* ... and it does return (no panic at the slicing, the assert, the reduce().unwrap() or input[i]) when the
   response windows of the grid exist and are negative *)
Theorem C09_ls_deconv_returns : forall (response : list float) (offs las : list nat),
  response_windows_ok response offs las ->
  forall signal, exists out, ls_deconv_f signal response offs las = Ok out.
Proof. exact ls_deconv_f_total. Qed.
Print Assumptions C09_ls_deconv_returns.

(* (4) match_column_inputs for the 8 wires of a pad column: t_max exists, TpcWirePosition::try_from and
   TpcPadRow::try_from(row - 1) succeed, both sorts' partial_cmp().unwrap() succeed - for ALL input values *)
Theorem C09_match_column_total :
  forall (amp zt : Type) (azero : amp) (apos : amp -> bool) (agt : amp -> amp -> bool)
         (pcmp : amp -> amp -> option comparison) (zf : N -> amp -> amp -> amp -> zt)
         (sortW : list (N * amp) -> list (N * amp)) (sortP : list (zt * amp) -> list (zt * amp))
         (num : amp -> Prop) (column : N) (wire_inputs pci : list (list amp)),
  cmp_laws apos agt pcmp num ->
  length wire_inputs = 8%nat -> N.of_nat (length pci) = NROWS ->
  let (first, last) := pad_column_to_wires column in
  match_column_inputs_res azero apos agt pcmp zf sortW sortP (Nseq first (last - first)) wire_inputs pci
  = Ok (match_column_inputs azero apos agt zf sortW sortP (Nseq first (last - first)) wire_inputs pci).
Proof. exact match_column_total_lemma. Qed.
Print Assumptions C09_match_column_total.

(* the three comparison facts hold for binary64 (FloatAxioms ltb_spec, compare_spec) *)
Theorem C09_f64_cmp_laws : cmp_laws fpos fgt f_pcmp f64_num.
Proof. exact f64_cmp_laws. Qed.
Print Assumptions C09_f64_cmp_laws.

(* (5) any sample type: avalanches() returns the value of the C13 skeleton; timestamp() is a field read *)
Theorem C09_avalanches_total :
  forall (sig amp zt : Type) (azero : amp) (apos : amp -> bool) (agt : amp -> amp -> bool)
         (pcmp : amp -> amp -> option comparison) (zf : N -> amp -> amp -> amp -> zt) (slen : sig -> nat)
         (solve : nat -> list sig -> list (list amp)) (wdec : list amp -> res (list amp))
         (pdec : sig -> res (list amp))
         (sortW : list (N * amp) -> list (N * amp)) (sortP : list (zt * amp) -> list (zt * amp))
         (num : amp -> Prop) (ev : main_event sig),
  faer_shape solve -> kernel_total wdec -> kernel_total pdec -> cmp_laws apos agt pcmp num ->
  event_shape ev ->
  avalanches_res azero apos agt pcmp zf slen solve wdec pdec sortW sortP (wire_signals ev) (pad_signals ev)
  = Ok (avalanches azero apos agt zf (D_of slen solve wdec) (P_of pdec) sortW sortP (wire_signals ev) (pad_signals ev))
  /\ timestamp_res ev = Ok (trigger_timestamp ev).
Proof. exact avalanches_total_lemma. Qed.
Print Assumptions C09_avalanches_total.

(* (5) binary64, the per-channel kernels being the C17 model of ls_deconvolution: for every event, every
   waveform content (NaN, infinities, i16 extremes times any gain), any centroid function and any sorts *)
Theorem C09_avalanches_f64_total :
  forall (zf : N -> float -> float -> float -> float)
         (solve : nat -> list (list float) -> list (list float)) (wire_response pad_response : list float)
         (sortW : list (N * float) -> list (N * float)) (sortP : list (float * float) -> list (float * float))
         (ev : main_event (list float)),
  faer_shape solve ->
  response_windows_ok wire_response (range_incl 0 1) (range_incl 3 12) ->
  response_windows_ok pad_response (range_incl 3 5) (range_incl 7 12) ->
  event_shape ev ->
  (exists avs, avalanches_res_f64 zf solve wire_response pad_response sortW sortP (wire_signals ev) (pad_signals ev)
               = Ok avs) /\
  avalanches_res_f64 zf solve wire_response pad_response sortW sortP (wire_signals ev) (pad_signals ev) <> Panic /\
  timestamp_res ev = Ok (trigger_timestamp ev).
Proof. exact avalanches_f64_total_lemma. Qed.
Print Assumptions C09_avalanches_f64_total.

(* the hypotheses are satisfiable on a non-trivial value, and the model is not vacuously total *)
Example C09_avalanches_hypotheses_satisfiable :
  faer_shape solve_pad /\
  response_windows_ok resp18m (range_incl 0 1) (range_incl 3 12) /\
  response_windows_ok resp18m (range_incl 3 5) (range_incl 7 12) /\
  event_shape ex_event.
Proof. exact (conj solve_pad_shape (conj resp18m_wire (conj resp18m_pad ex_event_shape))). Qed.
Example C09_avalanches_example_run :
  ex_run ex_ws ex_pads = Ok [Aval 100 1 4%float 3%float 4%float].
Proof. vm_compute. reflexivity. Qed.
(* with 101 instead of 256 wire slots the scan indexes out of bounds *)
Example C09_avalanches_model_can_panic : ex_run (firstn 101 ex_ws) ex_pads = Panic.
Proof. vm_compute. reflexivity. Qed.
(* a vector handed to swap_remove(0) would panic if it were empty: the primitive is not total by itself *)
Example C09_swap_remove_can_panic : unwrap (@swap_remove0 (N * N) []) = Panic.
Proof. reflexivity. Qed.
