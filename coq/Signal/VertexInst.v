(* C09 - a concrete instance of every parameter of C09_vertex_total_partial, used only to show that its premise set is
   jointly satisfiable (coq/Signal/VertexInst_proofs.v, Example C09_vertex_premises_satisfiable).  Definitions only.

   REAL (the line-by-line binary64 models, as in C14's Fit.B64): the track-fit cost kernel
   norm_sqr(q, helix.at(helix.closest_t(q, EPSILON, 20))) of coq/Recon/Helix.v (tied bit for bit by C16), closest_t for
   t_inner / t_outer / the vertex t, three_template_points, the initial simplex, Problem::cost with its assert; the vertex
   cost (vertex_fitting.rs:208-233: SpacePoint from (x, y, z) by hypot / atan2, closest_t, norm_sqr), t_zb =
   closest_to_beamline().z, t_rad = helix.r, the sums, mean z, beamline_clusters, find_vertices.
   The event: 26 avalanches = 13 points of the helix x0 = 0.3, y0 = 0, z0 = 0, r = 0.25, phi0 = pi, h = 1 m at
   t = 0.2 + k/40, and the same 13 points shifted by 1/128 m in z, plus one avalanche that SpacePoint::try_from rejects.
   TOY (stand-ins, not the real code):
     - libm is the software libm of Fit.B64 (Taylor series; not glibc);
     - the optimiser is Fit.B64.mini_nm (asks the vertices of the initial simplex and one reflection, returns the best),
       not argmin's Nelder-Mead;
     - SpacePoint::try_from is the identity on the ids 0..25 of the point table and an Err elsewhere; Hough bins and the
       distance test are tables: every point of a helix votes for one bin and is near every other point of that helix;
     - the initial guess of the track fit is the constant of Fit.B64 (near the true helix), not the circle through the
       three template points;
     - both filters of find_vertices accept every track; the clustering distance is 0.1 m; sort_unstable_by is the
       identity permutation; Track's `==` is identity of bit patterns (it differs from the derived PartialEq on +-0 and
       NaN, and is reflexive, symmetric and transitive on all values). *)
From Coq Require Import PrimFloat Floats.
From AG Require Import Base.Prelude Base.Res Recon.Helix Recon.Fit Signal.Ring Signal.AvalTotal.
From AG Require Recon.Cluster.
Local Open Scope float_scope.

Module VI.
  Import Fit.B64.
  Definition L : libm := soft_libm.
  Definition H0 : helix := mk_helix 0x1.3333333333333p-2 0 0 0.25 PI 1.
  Definition sp_of_xyz (x y z : float) : spoint := mk_spoint (lhypot L x y) (latan2 L y x) z.
  Definition helix_pt (dz k : float) : spoint :=
    let '(x, y, z) := helix_at L H0 (0x1.999999999999ap-3 + 0x1.999999999999ap-6 * k) in sp_of_xyz x y (z + dz).
  Definition ks : list float := [0; 1; 2; 3; 4; 5; 6; 7; 8; 9; 10; 11; 12].
  Definition table : list spoint := map (helix_pt 0) ks ++ map (helix_pt 0x1p-7) ks.
  Definition pt_of (n : N) : spoint := nth (N.to_nat n) table (mk_spoint 0 0 0).

  Definition sp_of (a : N) : res Cluster.point := if (a <? 26)%N then Ok a else Err 0%N.
  Definition avs : list N := Nseq 0 27.
  Definition bins (p : Cluster.point) : list Cluster.bin := if (p <? 13)%N then [1%positive] else [2%positive].
  Definition near (p q : Cluster.point) : bool := Bool.eqb (p <? 13)%N (q <? 13)%N.

  Definition p_r (n : N) := sp_r (pt_of n).
  Definition p_x (n : N) := sp_x L (pt_of n).
  Definition p_y (n : N) := sp_y L (pt_of n).
  Definition half (x : float) := x / 2.
  Definition guess (_ : list N) (_ _ _ : N) : list float := B64.guess6 [] (mk_spoint 0 0 0) (mk_spoint 0 0 0) (mk_spoint 0 0 0).
  Definition point_val (p : list float) (n : N) : float := real_point_val L p (pt_of n).
  Definition closest (hp : list float) (n : N) : float := closest_t L (helix_of_params hp) (pt_of n) EPS 20.
  Definition tree : list (list float) -> strategy float := B64.tree.
  Definition good (y : float) : Prop := PrimFloat.is_nan y = false.

  Definition cluster := Cluster.cluster_spacepoints_pub bins near.
  Definition cost := Fit.cost float N PrimFloat.is_nan PrimFloat.add 0 point_val.
  Definition fit_simplex := Fit.fit_simplex float N p_r p_x p_y PrimFloat.ltb PrimFloat.eqb fcmp_prim PrimFloat.add PrimFloat.sub PrimFloat.mul half PrimFloat.abs guess B64.bump.
  Definition fit := Fit.fit_cluster_to_helix float N p_r p_x p_y PrimFloat.ltb PrimFloat.eqb fcmp_prim PrimFloat.is_nan
     PrimFloat.add PrimFloat.sub PrimFloat.mul half PrimFloat.abs 0 guess B64.bump point_val closest
     (fun c s => run_strategy c (tree s)) true.

  Definition T := track float.
  Definition t_zb (t : T) : float := let '(_, _, z) := closest_to_beamline L (helix_of_params (tr_params float t)) in z.
  Definition t_rad (t : T) : float := hr (helix_of_params (tr_params float t)).
  Definition is_primary (_ : T) : bool := true.
  Definition close_z (a b : float) : bool := abs (a - b) <? 0x1.999999999999ap-4.
  Definition sumF (l : list float) : float := fold_left PrimFloat.add l 0.
  Definition flen (l : list T) : float := fold_left (fun acc _ => acc + 1) l 0.
  Definition mean_z (ts : list T) : float := sumF (map t_zb ts) / flen ts.
  Definition sortP (l : list T) : list T := l.
  Definition vpoint_of (p : list float) : spoint := sp_of_xyz (nth 0 p 0) (nth 1 p 0) (nth 2 p 0).
  Definition vcost_val (ts : list T) (p : list float) (t : T) : float := real_point_val L (tr_params float t) (vpoint_of p).
  Definition vguess (z : float) : list float := [0; 0; z].
  Definition tclosest (t : T) (q : spoint) : float := closest_t L (helix_of_params (tr_params float t)) q EPS 20.
  Definition vcost := Fit.vcost float PrimFloat.is_nan PrimFloat.add 0 T vcost_val.
  Definition vertex_best := Fit.vertex_best float fcmp_prim T t_zb t_rad is_primary close_z sumF mean_z sortP.
  Definition beamline_clusters := Fit.beamline_clusters float fcmp_prim T t_zb close_z mean_z sortP.
  Definition sf_eq_dec (x y : spec_float) : {x = y} + {x <> y}.
  Proof. decide equality; try apply Bool.bool_dec; try apply Z.eq_dec; apply Pos.eq_dec. Defined.
  Definition key (t : T) : list spec_float := map Prim2SF (tr_params float t ++ [tr_t_inner float t; tr_t_outer float t]).
  Definition teq (a b : T) : bool := if list_eq_dec sf_eq_dec (key a) (key b) then true else false.
  Definition find := Fit.find_vertices float spoint fcmp_prim PrimFloat.is_nan PrimFloat.add 0 B64.bump
     (fun c s => run_strategy c (tree s)) true T teq t_zb t_rad is_primary close_z sumF mean_z sortP vpoint_of vcost_val
     vguess tclosest.
End VI.
