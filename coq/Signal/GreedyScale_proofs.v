(* C17 — scale covariance for binary64: proofs.
   Part 1: scaling by 2^j commutes with rounding to nearest-even on binary64 away from underflow (over R, Flocq).
   Part 2: the IEEE operations on Flocq's binary_float commute with exact scaling (relation `rel`).
   Part 3: the same for Coq's primitive floats (FloatAxioms through Flocq.IEEE754.PrimFloat) with the boolean tests.
   Part 4: the instrumented re-run of Signal/GreedyScale.v implies covariance of the whole algorithm. *)
From Coq Require Import ZArith Reals Floats SpecFloat Lra Lia Bool List.
From Flocq Require Import Core Plus_error BinarySingleNaN PrimFloat.
From AG Require Import Base.Prelude Base.Res Signal.Greedy Signal.GreedyScale.

Local Existing Instance Hprec.
Local Existing Instance Hmax.

(* ========== Part 1: reals ========== *)
Local Open Scope R_scope.

Notation fx := (SpecFloat.fexp prec emax).
Notation rndR := (round radix2 fx (round_mode mode_NE)).
Notation p2 := (bpow radix2).

Local Instance fx_valid : Valid_exp fx := fexp_correct prec emax Hprec.
Local Instance fx_mono : Monotone_exp fx := fexp_monotone prec emax.

Lemma fx_eq e : fx e = Z.max (e - 53) (-1074).
Proof. reflexivity. Qed.

Lemma fmt_p2 e : (-1074 <= e)%Z -> generic_format radix2 fx (p2 e).
Proof. intros H. apply generic_format_bpow. rewrite fx_eq. lia. Qed.

(* exact scaling commutes with rounding when neither x nor x * 2^j is below the normal range *)
Lemma round_scale p j :
  p = 0 \/ (p2 (-1022) <= Rabs p /\ p2 (-1022) <= Rabs p * p2 j) ->
  rndR (p * p2 j) = rndR p * p2 j.
Proof.
  intros [->|[H1 H2]]; [rewrite Rmult_0_l, round_0 by apply valid_rnd_round_mode; ring|].
  assert (Hp : p <> 0). { intros ->. rewrite Rabs_R0 in H1. pose proof (bpow_gt_0 radix2 (-1022)). lra. }
  assert (M1 : (-1021 <= mag radix2 p)%Z) by (apply mag_ge_bpow; exact H1).
  assert (M2 : (-1021 <= mag radix2 p + j)%Z).
  { rewrite <- mag_mult_bpow by exact Hp. apply mag_ge_bpow.
    rewrite Rabs_mult, (Rabs_pos_eq (p2 j)) by apply bpow_ge_0. exact H2. }
  unfold round, F2R, scaled_mantissa, cexp. cbn [Fnum Fexp].
  rewrite mag_mult_bpow by exact Hp. rewrite !fx_eq.
  rewrite !Z.max_l by lia.
  replace (p * p2 j * p2 (- (mag radix2 p + j - 53))) with (p * p2 (- (mag radix2 p - 53))).
  2:{ rewrite Rmult_assoc, <- bpow_plus. do 2 f_equal. lia. }
  rewrite Rmult_assoc, <- bpow_plus. do 2 f_equal. lia.
Qed.

(* a rounded value of magnitude >= 2^(e+1) comes from an exact value of magnitude >= 2^e *)
Lemma round_ge_p2 p e : (-1074 <= e)%Z -> p2 (e + 1) <= Rabs (rndR p) -> p2 e <= Rabs p.
Proof.
  intros He H. destruct (Rle_or_lt (p2 e) (Rabs p)) as [L|L]; [exact L|exfalso].
  assert (Rabs (rndR p) <= p2 e).
  { apply abs_round_le_generic; [exact fx_valid|apply valid_rnd_round_mode|apply fmt_p2; exact He|lra]. }
  assert (p2 e < p2 (e + 1)) by (apply bpow_lt; lia). lra.
Qed.

(* the one fact about R used by every operation: if the rounded result zR of the exact value P is
   zero-because-P-is-zero or has magnitude in [2^(K-1021), 2^(1023-K)], then for |j| <= K the scaled
   exact value rounds to the scaled result, without overflow *)
Lemma core K j P :
  (Z.abs j <= K)%Z ->
  P = 0 \/ (p2 (K - 1021) <= Rabs (rndR P) <= p2 (1023 - K)) ->
  rndR (P * p2 j) = rndR P * p2 j /\ Rabs (rndR (P * p2 j)) < p2 emax.
Proof.
  intros Hj [->|[H1 H2]].
  - rewrite Rmult_0_l, round_0 by apply valid_rnd_round_mode. split; [ring|]. rewrite Rabs_R0. apply bpow_gt_0.
  - assert (L : p2 (K - 1022) <= Rabs P).
    { apply round_ge_p2; [lia|]. replace (K - 1022 + 1)%Z with (K - 1021)%Z by lia. exact H1. }
    assert (E : rndR (P * p2 j) = rndR P * p2 j).
    { apply round_scale. right. split.
      - eapply Rle_trans; [|exact L]. apply bpow_le. lia.
      - eapply Rle_trans; [|apply Rmult_le_compat_r; [apply bpow_ge_0|exact L]].
        rewrite <- bpow_plus. apply bpow_le. lia. }
    split; [exact E|]. rewrite E, Rabs_mult, (Rabs_pos_eq (p2 j)) by apply bpow_ge_0.
    eapply Rle_lt_trans; [apply Rmult_le_compat_r; [apply bpow_ge_0|exact H2]|].
    rewrite <- bpow_plus. apply bpow_lt. unfold emax. lia.
Qed.

(* ========== Part 2: Flocq binary floats ========== *)
Notation BF := (binary_float prec emax).

(* y is x scaled exactly by 2^j (same sign bit, also for zeros) *)
Definition rel (j : Z) (x y : BF) : Prop :=
  is_finite x = true /\ is_finite y = true /\ B2R y = B2R x * p2 j /\ Bsign y = Bsign x.

Lemma rel_inj j x y y' : rel j x y -> rel j x y' -> y = y'.
Proof.
  intros (_ & F1 & R1 & S1) (_ & F2 & R2 & S2). apply B2R_Bsign_inj; congruence.
Qed.
Lemma rel_0 x : is_finite x = true -> rel 0 x x.
Proof. intros H. repeat split; try assumption. cbn. ring. Qed.
Lemma rel_trans i j x y z : rel i x y -> rel j y z -> rel (i + j) x z.
Proof.
  intros (F1 & F2 & R1 & S1) (_ & F3 & R2 & S2). repeat split; try assumption; try congruence.
  rewrite R2, R1, bpow_plus. ring.
Qed.

(* a finite result z of an operation whose exact value is P: zero because P is, or in range *)
Definition resok (K : Z) (P : R) (z : BF) : Prop :=
  is_finite z = true /\ (P = 0 \/ p2 (K - 1021) <= Rabs (B2R z) <= p2 (1023 - K)).

Lemma ovf_not_finite (z : BF) s : B2SF z = binary_overflow prec emax mode_NE s -> is_finite z = true -> False.
Proof.
  intros H F. rewrite <- is_finite_SF_B2SF, H in F. discriminate.
Qed.

Lemma fin_not_nan (z : BF) : is_finite z = true -> is_nan z = false.
Proof. destruct z; cbn; congruence. Qed.

Lemma Rcompare_scale x j : Rcompare (x * p2 j) 0 = Rcompare x 0.
Proof.
  transitivity (Rcompare (x * p2 j) (0 * p2 j)); [f_equal; ring|]. apply Rcompare_mult_r. apply bpow_gt_0.
Qed.

Lemma mul_rel K j1 j2 a a' b b' :
  (Z.abs (j1 + j2) <= K)%Z -> rel j1 a a' -> rel j2 b b' ->
  resok K (B2R a * B2R b) (Bmult mode_NE a b) ->
  rel (j1 + j2) (Bmult mode_NE a b) (Bmult mode_NE a' b').
Proof.
  intros Hj (Fa & Fa' & Ra & Sa) (Fb & Fb' & Rb & Sb) (Fz & Hz).
  generalize (Bmult_correct prec emax _ _ mode_NE a b).
  destruct (Rlt_bool _ _); [|intros H; destruct (ovf_not_finite _ _ H Fz)].
  intros (Rz & _ & Sz).
  destruct (core K (j1 + j2) (B2R a * B2R b) Hj) as [E L].
  { destruct Hz as [Hz|Hz]; [left; exact Hz|right; rewrite <- Rz; exact Hz]. }
  generalize (Bmult_correct prec emax _ _ mode_NE a' b').
  replace (B2R a' * B2R b') with (B2R a * B2R b * p2 (j1 + j2)) by (rewrite Ra, Rb, bpow_plus; ring).
  rewrite (Rlt_bool_true _ _ L). rewrite Fa', Fb'. intros (Rw & Fw & Sw).
  repeat split.
  - exact Fz.
  - exact Fw.
  - rewrite Rw, E, Rz. reflexivity.
  - rewrite Sw, Sz, Sa, Sb; [reflexivity| |]; apply fin_not_nan; assumption.
Qed.

Lemma div_rel K j a a' b :
  (Z.abs j <= K)%Z -> rel j a a' -> is_finite b = true -> B2R b <> 0 ->
  resok K (B2R a / B2R b) (Bdiv mode_NE a b) ->
  rel j (Bdiv mode_NE a b) (Bdiv mode_NE a' b).
Proof.
  intros Hj (Fa & Fa' & Ra & Sa) Fb Nb (Fz & Hz).
  generalize (Bdiv_correct prec emax _ _ mode_NE a b Nb).
  destruct (Rlt_bool _ _); [|intros H; destruct (ovf_not_finite _ _ H Fz)].
  intros (Rz & _ & Sz).
  destruct (core K j (B2R a / B2R b) Hj) as [E L].
  { destruct Hz as [Hz|Hz]; [left; exact Hz|right; rewrite <- Rz; exact Hz]. }
  generalize (Bdiv_correct prec emax _ _ mode_NE a' b Nb).
  replace (B2R a' / B2R b) with (B2R a / B2R b * p2 j) by (rewrite Ra; field; exact Nb).
  rewrite (Rlt_bool_true _ _ L). rewrite Fa'. intros (Rw & Fw & Sw).
  repeat split.
  - exact Fz.
  - exact Fw.
  - rewrite Rw, E, Rz. reflexivity.
  - rewrite Sw, Sz, Sa; [reflexivity| |]; apply fin_not_nan; assumption.
Qed.

(* a sum/difference of two finite numbers rounds to zero only if it is zero *)
Lemma plus_zero (a b : BF) : rndR (B2R a + B2R b) = 0 -> B2R a + B2R b = 0.
Proof.
  intros H. destruct (Req_dec (B2R a + B2R b) 0) as [E|N]; [exact E|exfalso].
  revert H. apply (round_plus_neq_0 radix2 fx (round_mode mode_NE)); [apply generic_format_B2R..|exact N].
Qed.

Lemma plus_rel K j a a' b b' :
  (Z.abs j <= K)%Z -> rel j a a' -> rel j b b' ->
  is_finite (Bplus mode_NE a b) = true ->
  (B2R (Bplus mode_NE a b) = 0 \/ p2 (K - 1021) <= Rabs (B2R (Bplus mode_NE a b)) <= p2 (1023 - K)) ->
  rel j (Bplus mode_NE a b) (Bplus mode_NE a' b').
Proof.
  intros Hj (Fa & Fa' & Ra & Sa) (Fb & Fb' & Rb & Sb) Fz Hz.
  generalize (Bplus_correct prec emax _ _ mode_NE a b Fa Fb).
  destruct (Rlt_bool _ _); [|intros [H _]; destruct (ovf_not_finite _ _ H Fz)].
  intros (Rz & _ & Sz).
  destruct (core K j (B2R a + B2R b) Hj) as [E L].
  { destruct Hz as [Hz|Hz]; [left; apply plus_zero; rewrite <- Rz; exact Hz|right; rewrite <- Rz; exact Hz]. }
  generalize (Bplus_correct prec emax _ _ mode_NE a' b' Fa' Fb').
  replace (B2R a' + B2R b') with ((B2R a + B2R b) * p2 j) by (rewrite Ra, Rb; ring).
  rewrite (Rlt_bool_true _ _ L). intros (Rw & Fw & Sw).
  repeat split.
  - exact Fz.
  - exact Fw.
  - rewrite Rw, E, Rz. reflexivity.
  - rewrite Sw, Sz, Rcompare_scale, Sa, Sb. reflexivity.
Qed.

Lemma minus_zero (a b : BF) : rndR (B2R a - B2R b) = 0 -> B2R a - B2R b = 0.
Proof.
  intros H. destruct (Req_dec (B2R a - B2R b) 0) as [E|N]; [exact E|exfalso].
  revert H. unfold Rminus. apply (round_plus_neq_0 radix2 fx (round_mode mode_NE));
    [apply generic_format_B2R|apply generic_format_opp, generic_format_B2R|exact N].
Qed.

Lemma minus_rel K j a a' b b' :
  (Z.abs j <= K)%Z -> rel j a a' -> rel j b b' ->
  is_finite (Bminus mode_NE a b) = true ->
  (B2R (Bminus mode_NE a b) = 0 \/ p2 (K - 1021) <= Rabs (B2R (Bminus mode_NE a b)) <= p2 (1023 - K)) ->
  rel j (Bminus mode_NE a b) (Bminus mode_NE a' b').
Proof.
  intros Hj (Fa & Fa' & Ra & Sa) (Fb & Fb' & Rb & Sb) Fz Hz.
  generalize (Bminus_correct prec emax _ _ mode_NE a b Fa Fb).
  destruct (Rlt_bool _ _); [|intros [H _]; destruct (ovf_not_finite _ _ H Fz)].
  intros (Rz & _ & Sz).
  destruct (core K j (B2R a - B2R b) Hj) as [E L].
  { destruct Hz as [Hz|Hz]; [left; apply minus_zero; rewrite <- Rz; exact Hz|right; rewrite <- Rz; exact Hz]. }
  generalize (Bminus_correct prec emax _ _ mode_NE a' b' Fa' Fb').
  replace (B2R a' - B2R b') with ((B2R a - B2R b) * p2 j) by (rewrite Ra, Rb; ring).
  rewrite (Rlt_bool_true _ _ L). intros (Rw & Fw & Sw).
  repeat split.
  - exact Fz.
  - exact Fw.
  - rewrite Rw, E, Rz. reflexivity.
  - rewrite Sw, Sz, Rcompare_scale, Sa, Sb. reflexivity.
Qed.

(* exact scaling itself: x * 2^j, for a finite x that is zero or in range; c is the binary64 number 2^j *)
Lemma scale_rel K j (x c : BF) :
  (Z.abs j <= K)%Z ->
  is_finite c = true -> B2R c = p2 j -> Bsign c = false ->
  is_finite x = true -> (B2R x = 0 \/ p2 (K - 1021) <= Rabs (B2R x) <= p2 (1023 - K)) ->
  rel j x (Bmult mode_NE x c).
Proof.
  intros Hj Fc Rc Sc Fx Hx.
  assert (Ex : rndR (B2R x) = B2R x).
  { apply round_generic; [apply valid_rnd_round_mode|apply generic_format_B2R]. }
  destruct (core K j (B2R x) Hj) as [E L]; [rewrite Ex; exact Hx|].
  generalize (Bmult_correct prec emax _ _ mode_NE x c). rewrite Rc, (Rlt_bool_true _ _ L), Fx, Fc.
  intros (Rw & Fw & Sw). repeat split.
  - exact Fx.
  - exact Fw.
  - rewrite Rw, E, Ex. reflexivity.
  - rewrite Sw, Sc by (apply fin_not_nan; exact Fw). apply xorb_false_r.
Qed.

(* ========== Part 3: primitive floats ========== *)
Notation P2B := Prim2B.
Notation flt := PrimFloat.float.
Definition frel (j : Z) (x y : flt) : Prop := rel j (P2B x) (P2B y).
Definition ffin (x : flt) : Prop := is_finite (P2B x) = true.
(* the meaning of the boolean range test *)
Definition rng (K : Z) (X : BF) : Prop :=
  is_finite X = true /\ (B2R X = 0 \/ p2 (K - 1021) <= Rabs (B2R X) <= p2 (1023 - K)).

Lemma frel_inj j x y y' : frel j x y -> frel j x y' -> y = y'.
Proof. intros H1 H2. apply Prim2B_inj. exact (rel_inj _ _ _ _ H1 H2). Qed.

Lemma P2B_one : P2B 1%float = Bone.
Proof. change 1%float with one. rewrite one_equiv. apply Prim2B_B2Prim. Qed.
Lemma P2B_zero : P2B 0%float = B754_zero false.
Proof. change 0%float with zero. rewrite zero_equiv. apply Prim2B_B2Prim. Qed.
Lemma P2B_neg_zero : P2B neg_zero = B754_zero true.
Proof. rewrite neg_zero_equiv. apply Prim2B_B2Prim. Qed.
Lemma P2B_infinity : P2B infinity = B754_infinity false.
Proof. rewrite infinity_equiv. apply Prim2B_B2Prim. Qed.

(* pow2 e is the binary64 number 2^e *)
Lemma pow2_spec e : (-1022 <= e <= 1023)%Z ->
  is_finite (P2B (pow2 e)) = true /\ B2R (P2B (pow2 e)) = p2 e /\ Bsign (P2B (pow2 e)) = false.
Proof.
  intros He. unfold pow2. set (s := S754_finite false 4503599627370496 (e - 52)).
  assert (V : SpecFloat.valid_binary prec emax s = true).
  { unfold s, SpecFloat.valid_binary, SpecFloat.bounded, SpecFloat.canonical_mantissa.
    change (Z.pos (digits2_pos 4503599627370496)) with 53%Z.
    apply andb_true_intro. split.
    - apply Zeq_bool_true. unfold SpecFloat.fexp, SpecFloat.emin, prec, emax. lia.
    - apply Z.leb_le. unfold prec, emax. lia. }
  unfold Prim2B. rewrite is_finite_SF2B, B2R_SF2B, Bsign_SF2B, (Prim2SF_SF2Prim s V).
  split; [reflexivity|]. split; [|reflexivity].
  unfold s. cbn [SF2R cond_Zopp]. unfold F2R. cbn [Fnum Fexp].
  change (IZR (Z.pos 4503599627370496)) with (IZR (Zpower radix2 52)). rewrite IZR_Zpower by lia.
  rewrite <- bpow_plus. f_equal. lia.
Qed.

Lemma Bleb_abs_fin (X H : BF) : is_finite H = true -> Bleb (Babs X) H = true -> is_finite X = true.
Proof. destruct X as [s|s| |s m e B], H as [s'|s'| |s' m' e' B']; cbn; try discriminate; try reflexivity. Qed.

Lemma inr_spec K x : (0 <= K <= 2044)%Z -> inr K x = true ->
  is_finite (P2B x) = true /\ p2 (K - 1021) <= Rabs (B2R (P2B x)) <= p2 (1023 - K).
Proof.
  intros HK. unfold inr. rewrite andb_true_iff, !leb_equiv, abs_equiv. intros [H1 H2].
  destruct (pow2_spec (K - 1021)) as (F1 & R1 & _); [lia|].
  destruct (pow2_spec (1023 - K)) as (F2 & R2 & _); [lia|].
  assert (Fx : is_finite (P2B x) = true) by (eapply Bleb_abs_fin; [exact F2|exact H2]).
  rewrite Bleb_correct in H1, H2 by (rewrite ?is_finite_Babs; assumption).
  rewrite B2R_Babs in H1, H2. rewrite R1 in H1. rewrite R2 in H2.
  split; [exact Fx|]. split; [revert H1|revert H2]; (case Rle_bool_spec; [auto|discriminate]).
Qed.

Lemma is_zero_spec x : is_zero x = true -> exists s, P2B x = B754_zero s.
Proof. rewrite is_zero_equiv. destruct (P2B x) as [s| | |]; try discriminate. intros _. exists s. reflexivity. Qed.
Lemma is_zero_false x : is_zero x = false -> is_finite (P2B x) = true -> B2R (P2B x) <> 0.
Proof.
  rewrite is_zero_equiv. destruct (P2B x) as [s|s| |s m e B]; try discriminate. intros _ _.
  cbn [B2R]. destruct s; [apply Rlt_not_eq, F2R_lt_0|apply Rgt_not_eq, F2R_gt_0]; reflexivity.
Qed.

Lemma okv_spec K x : (0 <= K <= 2044)%Z -> okv K x = true -> rng K (P2B x).
Proof.
  intros HK. unfold okv. rewrite orb_true_iff. intros [H|H].
  - destruct (is_zero_spec x H) as [s ->]. split; [reflexivity|left; reflexivity].
  - destruct (inr_spec K x HK H) as [F B]. split; [exact F|right; exact B].
Qed.
(* with the information that the value is not a zero *)
Lemma okv_nz K x : (0 <= K <= 2044)%Z -> okv K x = true -> is_zero x = false ->
  p2 (K - 1021) <= Rabs (B2R (P2B x)) <= p2 (1023 - K).
Proof.
  intros HK H Z. unfold okv in H. rewrite Z in H. cbn [orb] in H. exact (proj2 (inr_spec K x HK H)).
Qed.

Lemma fscale_rel K j x : (Z.abs j <= K)%Z -> (K <= 1000)%Z -> rng K (P2B x) -> frel j x (fscale j x).
Proof.
  intros Hj HK [F B]. unfold frel, fscale. rewrite mul_equiv.
  destruct (pow2_spec j) as (Fc & Rc & Sc); [lia|].
  apply (scale_rel K); assumption.
Qed.

(* x * c * c is x scaled by 2^(j+j), for x in range with margin 2|j| *)
Lemma fscale2_rel K j x : (Z.abs j <= K)%Z -> (K <= 500)%Z -> rng (2 * K) (P2B x) -> frel (j + j) x (fscale2 j x).
Proof.
  intros Hj HK [F B].
  assert (H1 : frel j x (fscale j x)).
  { apply (fscale_rel K); [exact Hj|lia|]. split; [exact F|]. destruct B as [B|[B1 B2]]; [left; exact B|right].
    split; [eapply Rle_trans; [|exact B1]|eapply Rle_trans; [exact B2|]]; apply bpow_le; lia. }
  unfold frel. apply (rel_trans j j _ (P2B (fscale j x))); [exact H1|].
  change (fscale2 j x) with (fscale j (fscale j x)). apply (fscale_rel K); [exact Hj|lia|].
  destruct H1 as (_ & F1 & R1 & _). split; [exact F1|]. rewrite R1.
  destruct B as [B|[B1 B2]]; [left; rewrite B; ring|right].
  rewrite Rabs_mult, (Rabs_pos_eq (p2 j)) by apply bpow_ge_0. split.
  - eapply Rle_trans; [|apply Rmult_le_compat_r; [apply bpow_ge_0|exact B1]]. rewrite <- bpow_plus. apply bpow_le. lia.
  - eapply Rle_trans; [apply Rmult_le_compat_r; [apply bpow_ge_0|exact B2]|]. rewrite <- bpow_plus. apply bpow_le. lia.
Qed.

Lemma Rcompare_scale_l x j : Rcompare 0 (x * p2 j) = Rcompare 0 x.
Proof.
  transitivity (Rcompare (0 * p2 j) (x * p2 j)); [f_equal; ring|]. apply Rcompare_mult_r. apply bpow_gt_0.
Qed.

Lemma Bmult_inf_pos (c : BF) j : is_finite c = true -> B2R c = p2 j -> Bsign c = false ->
  Bmult mode_NE (B754_infinity false) c = B754_infinity false.
Proof.
  destruct c as [s|s| |s m e B]; cbn; intros F R S; try discriminate.
  - exfalso. pose proof (bpow_gt_0 radix2 j). lra.
  - subst s. reflexivity.
Qed.
Lemma fscale_inf j : (-1022 <= j <= 1023)%Z -> fscale j infinity = infinity.
Proof.
  intros Hj. apply Prim2B_inj. unfold fscale. rewrite mul_equiv, P2B_infinity.
  destruct (pow2_spec j Hj) as (F & R & S). exact (Bmult_inf_pos _ j F R S).
Qed.
Lemma is_pinf_spec b : is_pinf b = true -> b = infinity.
Proof.
  unfold is_pinf. rewrite eqb_equiv, P2B_infinity. intros H. apply Prim2B_inj. rewrite P2B_infinity.
  destruct (P2B b) as [s|s| |s m e B]; try discriminate.
  destruct s; [discriminate|reflexivity].
Qed.
Lemma Bltb_fin_inf (X : BF) : is_finite X = true -> Bltb X (B754_infinity false) = true.
Proof. destruct X as [s|s| |s m e B]; try discriminate; intros _; try reflexivity; destruct s; reflexivity. Qed.

(* ---- the op-level laws of scale covariance, for binary64, each under its boolean test ---- *)
Section Laws.
Variable k : Z.
Hypothesis Hk : (Z.abs k <= kmax)%Z.
Notation K := (Z.abs k).
Notation K2 := (2 * Z.abs k)%Z.
Notation sc := (fscale k).
Notation sc2 := (fscale2 k).

Lemma HK : (0 <= K <= 2044)%Z. Proof. unfold kmax in Hk. lia. Qed.
Lemma HK2 : (0 <= K2 <= 2044)%Z. Proof. unfold kmax in Hk. lia. Qed.

Lemma sc_ok x : okv K x = true -> frel k x (sc x).
Proof. intros H. apply (fscale_rel K); [lia|unfold kmax in Hk; lia|apply okv_spec; [exact HK|exact H]]. Qed.
Lemma sc2_ok x : okv K2 x = true -> frel (k + k) x (sc2 x).
Proof. intros H. apply (fscale2_rel K); [lia|exact Hk|apply okv_spec; [exact HK2|exact H]]. Qed.

Lemma law_zero : sc 0%float = 0%float.
Proof.
  apply (frel_inj k 0%float); [apply sc_ok; reflexivity|]. unfold frel. rewrite P2B_zero.
  repeat split; cbn; ring.
Qed.
Lemma law_szero : sc2 neg_zero = neg_zero.
Proof.
  apply (frel_inj (k + k) neg_zero); [apply sc2_ok; reflexivity|]. unfold frel. rewrite P2B_neg_zero.
  repeat split; cbn; ring.
Qed.
Lemma law_inf : sc2 infinity = infinity.
Proof.
  change (sc2 infinity) with (sc (sc infinity)). unfold kmax in Hk. rewrite !fscale_inf by lia. reflexivity.
Qed.

Lemma law_sub a b : f_ok_sub K a b = true -> PrimFloat.sub (sc a) (sc b) = sc (PrimFloat.sub a b).
Proof.
  unfold f_ok_sub. rewrite !andb_true_iff. intros [[Ha Hb] Hz].
  apply (frel_inj k (PrimFloat.sub a b)); [|apply sc_ok; exact Hz].
  destruct (okv_spec K _ HK Hz) as [Fz Bz]. rewrite sub_equiv in Fz, Bz.
  unfold frel. rewrite !sub_equiv.
  apply (minus_rel K); [lia|apply sc_ok, Ha|apply sc_ok, Hb|exact Fz|exact Bz].
Qed.
Lemma law_add2 a b : f_ok_add K2 a b = true -> PrimFloat.add (sc2 a) (sc2 b) = sc2 (PrimFloat.add a b).
Proof.
  unfold f_ok_add. rewrite !andb_true_iff. intros [[Ha Hb] Hz].
  apply (frel_inj (k + k) (PrimFloat.add a b)); [|apply sc2_ok; exact Hz].
  destruct (okv_spec K2 _ HK2 Hz) as [Fz Bz]. rewrite add_equiv in Fz, Bz.
  unfold frel. rewrite !add_equiv.
  apply (plus_rel K2); [lia|apply sc2_ok, Ha|apply sc2_ok, Hb|exact Fz|exact Bz].
Qed.
Lemma law_mul v r : f_ok_mul K v r = true -> PrimFloat.mul (sc v) r = sc (PrimFloat.mul v r).
Proof.
  unfold f_ok_mul, finb. rewrite !andb_true_iff. intros [[[Hv Fr] Hz] Hnz].
  rewrite is_finite_equiv in Fr.
  apply (frel_inj k (PrimFloat.mul v r)); [|apply sc_ok; exact Hz].
  destruct (okv_spec K _ HK Hz) as [Fz _]. rewrite mul_equiv in Fz.
  unfold frel. rewrite !mul_equiv. replace k with (k + 0)%Z at 1 by lia.
  apply (mul_rel K); [lia|apply sc_ok, Hv|apply rel_0, Fr|].
  split; [exact Fz|].
  destruct (is_zero v) eqn:Zv. { left. destruct (is_zero_spec v Zv) as [s ->]. cbn. ring. }
  destruct (is_zero r) eqn:Zr. { left. destruct (is_zero_spec r Zr) as [s ->]. cbn. ring. }
  cbn [orb] in Hnz. rewrite negb_true_iff in Hnz. right. rewrite <- mul_equiv. apply okv_nz; [exact HK|exact Hz|exact Hnz].
Qed.
Lemma law_div s r : f_ok_div K s r = true -> PrimFloat.div (sc s) r = sc (PrimFloat.div s r).
Proof.
  unfold f_ok_div, finb. rewrite !andb_true_iff, negb_true_iff. intros [[[[Hs Fr] Nr] Hz] Hnz].
  rewrite is_finite_equiv in Fr.
  apply (frel_inj k (PrimFloat.div s r)); [|apply sc_ok; exact Hz].
  destruct (okv_spec K _ HK Hz) as [Fz _]. rewrite div_equiv in Fz.
  unfold frel. rewrite !div_equiv.
  apply (div_rel K); [lia|apply sc_ok, Hs|exact Fr|apply is_zero_false; assumption|].
  split; [exact Fz|].
  destruct (is_zero s) eqn:Zs. { left. destruct (is_zero_spec s Zs) as [sg ->]. cbn. unfold Rdiv. ring. }
  cbn [orb] in Hnz. rewrite negb_true_iff in Hnz. right. rewrite <- div_equiv. apply okv_nz; [exact HK|exact Hz|exact Hnz].
Qed.
Lemma law_sq x : f_ok_sq k x = true -> PrimFloat.mul (sc x) (sc x) = sc2 (PrimFloat.mul x x).
Proof.
  unfold f_ok_sq. rewrite !andb_true_iff. intros [[Hx Hz] Hnz].
  apply (frel_inj (k + k) (PrimFloat.mul x x)); [|apply sc2_ok; exact Hz].
  destruct (okv_spec K2 _ HK2 Hz) as [Fz _]. rewrite mul_equiv in Fz.
  unfold frel. rewrite !mul_equiv.
  apply (mul_rel K2); [lia|apply sc_ok, Hx|apply sc_ok, Hx|].
  split; [exact Fz|].
  destruct (is_zero x) eqn:Zx. { left. destruct (is_zero_spec x Zx) as [s ->]. cbn. ring. }
  cbn [orb] in Hnz. rewrite negb_true_iff in Hnz. right. rewrite <- mul_equiv. apply okv_nz; [exact HK2|exact Hz|exact Hnz].
Qed.
Lemma law_min a b : okv K a = true -> okv K b = true -> f_min (sc a) (sc b) = sc (f_min a b).
Proof.
  intros Ha Hb. destruct (sc_ok a Ha) as (Fa & Fa' & Ra & _). destruct (sc_ok b Hb) as (Fb & Fb' & Rb & _).
  unfold f_min. rewrite !is_nan_equiv, (fin_not_nan _ Fa), (fin_not_nan _ Fb), (fin_not_nan _ Fa'), (fin_not_nan _ Fb').
  rewrite !ltb_equiv, !Bltb_correct by assumption. rewrite Ra, Rb. unfold Rlt_bool.
  rewrite Rcompare_mult_r by apply bpow_gt_0. destruct (Rcompare (B2R (P2B b)) (B2R (P2B a))); reflexivity.
Qed.
Lemma law_nonneg x : okv K x = true -> f_nonneg (sc x) = f_nonneg x.
Proof.
  intros Hx. destruct (sc_ok x Hx) as (Fx & Fx' & Rx & _).
  unfold f_nonneg. rewrite !leb_equiv, P2B_zero, !Bleb_correct by (reflexivity || assumption).
  rewrite Rx. cbn [B2R]. unfold Rle_bool. rewrite Rcompare_scale_l. reflexivity.
Qed.
Lemma law_lt2 a b : f_ok_lt2 K2 a b = true -> PrimFloat.ltb (sc2 a) (sc2 b) = PrimFloat.ltb a b.
Proof.
  unfold f_ok_lt2. rewrite andb_true_iff, orb_true_iff. intros [Ha [Hb|Hb]].
  - destruct (sc2_ok a Ha) as (Fa & Fa' & Ra & _). destruct (sc2_ok b Hb) as (Fb & Fb' & Rb & _).
    rewrite !ltb_equiv, !Bltb_correct by assumption. rewrite Ra, Rb. unfold Rlt_bool.
    rewrite Rcompare_mult_r by apply bpow_gt_0. reflexivity.
  - apply is_pinf_spec in Hb. subst b. rewrite law_inf.
    destruct (sc2_ok a Ha) as (Fa & Fa' & _). rewrite !ltb_equiv, P2B_infinity, !Bltb_fin_inf by assumption. reflexivity.
Qed.
End Laws.

(* ========== Part 4: the whole algorithm, for any sample type whose laws hold under the tests ========== *)
From AG Require Import Signal.Greedy_proofs.
Local Open Scope nat_scope.

Section Guarded.
Variable F : Type.
Variables zero szero inf : F.
Variables add sub mul div fmin : F -> F -> F.
Variables neg nonneg : F -> bool.
Variable ltb : F -> F -> bool.
Variable okv : F -> bool.
Variables ok_sub ok_mul ok_div : F -> F -> bool.
Variable ok_sq : F -> bool.
Variables ok_add2 ok_lt2 : F -> F -> bool.
Variables sc sc2 : F -> F.
Hypothesis sc_zero : sc zero = zero.
Hypothesis sc_sub : forall a b, ok_sub a b = true -> sub (sc a) (sc b) = sc (sub a b).
Hypothesis sc_mul : forall v r, ok_mul v r = true -> mul (sc v) r = sc (mul v r).
Hypothesis sc_div : forall s r, ok_div s r = true -> div (sc s) r = sc (div s r).
Hypothesis sc_min : forall a b, okv a = true -> okv b = true -> fmin (sc a) (sc b) = sc (fmin a b).
Hypothesis sc_nonneg : forall x, okv x = true -> nonneg (sc x) = nonneg x.
Hypothesis sc_sq : forall x, ok_sq x = true -> mul (sc x) (sc x) = sc2 (mul x x).
Hypothesis sc2_add : forall a b, ok_add2 a b = true -> add (sc2 a) (sc2 b) = sc2 (add a b).
Hypothesis sc2_szero : sc2 szero = szero.
Hypothesis sc2_ltb : forall a b, ok_lt2 a b = true -> ltb (sc2 a) (sc2 b) = ltb a b.
Hypothesis sc2_inf : sc2 inf = inf.

Notation msc := (map sc).
Notation slice := (slice F).
Notation last_nonneg := (last_nonneg F nonneg).
Notation zip_div := (zip_div F div).
Notation reduce_min := (reduce_min F fmin).
Notation sub_scaled := (sub_scaled F sub mul).
Notation advance := (advance F zero).
Notation finish := (finish F zero).
Notation fire := (fire F sub mul div fmin).
Notation greedy_loop := (greedy_loop F zero sub mul div fmin nonneg).
Notation sumsq := (sumsq F szero add mul).
Notation nn_greedy := (nn_greedy F zero szero add sub mul div fmin neg nonneg).
Notation sc_pair := (sc_pair F sc).
Notation sc_out := (Greedy.sc_out F sc sc2).
Notation zip_div_ok := (zip_div_ok F ok_div).
Notation fold_min_ok := (fold_min_ok F fmin okv).
Notation sub_scaled_ok := (sub_scaled_ok F mul ok_sub ok_mul).
Notation fire_ok := (fire_ok F mul div fmin okv ok_sub ok_mul ok_div).
Notation loop_ok := (loop_ok F zero sub mul div fmin nonneg okv ok_sub ok_mul ok_div).
Notation sumsq_ok := (sumsq_ok F add mul ok_sq ok_add2).
Notation nn_ok := (nn_ok F zero szero add sub mul div fmin neg nonneg okv ok_sub ok_mul ok_div ok_sq ok_add2).

Lemma last_nonneg_g w : forallb okv w = true -> last_nonneg (msc w) = last_nonneg w.
Proof.
  induction w as [|x t IH]; [reflexivity|]. cbn [forallb map Greedy.last_nonneg]. rewrite andb_true_iff.
  intros [Hx Ht]. rewrite (IH Ht), (sc_nonneg x Hx). reflexivity.
Qed.
Lemma zip_div_g : forall w rw, zip_div_ok w rw = true -> zip_div (msc w) rw = msc (zip_div w rw).
Proof.
  induction w as [|s t IH]; intros rw; [reflexivity|]. destruct rw as [|r rt]; [reflexivity|].
  cbn [GreedyScale.zip_div_ok map Greedy.zip_div]. rewrite andb_true_iff. intros [H1 H2].
  rewrite (sc_div _ _ H1), (IH _ H2). reflexivity.
Qed.
Lemma fold_min_g : forall qs q, fold_min_ok qs q = true -> fold_left fmin (msc qs) (sc q) = sc (fold_left fmin qs q).
Proof.
  induction qs as [|x t IH]; intros q; [reflexivity|]. cbn [GreedyScale.fold_min_ok map fold_left].
  rewrite !andb_true_iff. intros [[H1 H2] H3]. rewrite (sc_min _ _ H1 H2). apply IH, H3.
Qed.
Lemma sub_scaled_g : forall rest resp v, sub_scaled_ok rest resp v = true ->
  sub_scaled (msc rest) resp (sc v) = msc (sub_scaled rest resp v).
Proof.
  induction rest as [|s t IH]; intros resp v; [reflexivity|]. destruct resp as [|r rt]; [reflexivity|].
  cbn [GreedyScale.sub_scaled_ok map Greedy.sub_scaled]. rewrite !andb_true_iff. intros [[H1 H2] H3].
  rewrite (sc_mul _ _ H1), (sc_sub _ _ H2), (IH _ _ H3). reflexivity.
Qed.
Lemma fire_g response rwin win rest : fire_ok response rwin win rest = true ->
  fire response rwin (msc win) (msc rest) = res_map (fun p => (sc (fst p), msc (snd p))) (fire response rwin win rest).
Proof.
  unfold GreedyScale.fire_ok, Greedy.fire. rewrite andb_true_iff. intros [H1 H2]. rewrite (zip_div_g _ _ H1).
  destruct (zip_div win rwin) as [|q qs]; [reflexivity|]. rewrite andb_true_iff in H2. destruct H2 as [H2 H3].
  cbn [map Greedy.reduce_min unwrap bind res_map fst snd]. rewrite (fold_min_g _ _ H2), (sub_scaled_g _ _ _ H3). reflexivity.
Qed.

Lemma loop_g response rwin off la : forall fuel rest ai ar,
  loop_ok response rwin off la fuel rest ai ar = true ->
  greedy_loop response rwin off la fuel (msc rest) (msc ai) (msc ar) =
  res_map sc_pair (greedy_loop response rwin off la fuel rest ai ar).
Proof.
  induction fuel as [|f IH]; intros rest ai ar; [reflexivity|]. cbn [GreedyScale.loop_ok Greedy.greedy_loop].
  rewrite slice_map. destruct (slice rest off la) as [win|]; cbn [option_map].
  - rewrite andb_true_iff. intros [Hw H]. rewrite (last_nonneg_g _ Hw). destruct (last_nonneg win) as [lp|].
    + rewrite (advance_map F zero sc sc_zero). destruct (Greedy.advance F zero (S lp) rest ai ar) as [[r' ai'] ar']. apply IH, H.
    + rewrite andb_true_iff in H. destruct H as [Hf H]. rewrite (fire_g _ _ _ _ Hf).
      destruct (fire response rwin win rest) as [[val rest']| |]; cbn [res_map bind fst snd]; try reflexivity.
      destruct rest' as [|x t]; [reflexivity|]. apply (IH t (val :: ai) (x :: ar)), H.
  - intros _. cbn [res_map]. rewrite (finish_map F zero sc sc_zero). reflexivity.
Qed.

Lemma sumsq_g : forall l acc, sumsq_ok l acc = true ->
  fold_left (fun a x => add a (mul x x)) (msc l) (sc2 acc) = sc2 (fold_left (fun a x => add a (mul x x)) l acc).
Proof.
  induction l as [|x t IH]; intros acc; [reflexivity|]. cbn [GreedyScale.sumsq_ok map fold_left].
  rewrite !andb_true_iff. intros [[H1 H2] H3]. rewrite (sc_sq _ H1), (sc2_add _ _ H2). apply IH, H3.
Qed.

(* every control decision is unchanged; outputs are scaled by c, the residual by c^2 *)
Theorem nn_greedy_scale_g signal response off la :
  nn_ok signal response off la = true ->
  nn_greedy (msc signal) response off la = res_map sc_out (nn_greedy signal response off la).
Proof.
  unfold GreedyScale.nn_ok, Greedy.nn_greedy, Greedy.nn_with.
  destruct (slice response off la) as [rwin|]; cbn [unwrap bind res_map]; [|reflexivity].
  unfold assert_. destruct (forallb neg rwin); [|reflexivity].
  rewrite andb_true_iff. intros [Hl Hs].
  rewrite map_length. change (@nil F) with (msc []) at 1 2. rewrite (loop_g _ _ _ _ _ _ _ _ Hl).
  destruct (greedy_loop response rwin off la (S (length signal)) signal [] []) as [[residual input]| |];
    cbn [res_map bind]; try reflexivity.
  unfold Greedy_proofs.sc_pair, Greedy.sc_out. cbn [fst snd]. unfold Greedy.sumsq.
  rewrite <- sc2_szero at 1. rewrite (sumsq_g _ _ Hs). reflexivity.
Qed.

Section LsG.
Variables signal response : list F.
Notation ls_step_ok := (GreedyScale.ls_step_ok F zero szero add sub mul div fmin neg nonneg okv ok_sub ok_mul ok_div ok_sq ok_add2 ok_lt2 signal response).
Notation ls_inner_ok := (GreedyScale.ls_inner_ok F zero szero add sub mul div fmin neg nonneg ltb okv ok_sub ok_mul ok_div ok_sq ok_add2 ok_lt2 signal response).
Notation ls_outer_ok := (GreedyScale.ls_outer_ok F zero szero add sub mul div fmin neg nonneg ltb okv ok_sub ok_mul ok_div ok_sq ok_add2 ok_lt2 signal response).
Notation ls_ok := (GreedyScale.ls_ok F zero szero inf add sub mul div fmin neg nonneg ltb okv ok_sub ok_mul ok_div ok_sq ok_add2 ok_lt2 signal response).
Notation ls_step := (Greedy.ls_step F ltb nn_greedy).
Notation ls_inner := (Greedy.ls_inner F ltb nn_greedy).
Notation ls_outer := (Greedy.ls_outer F ltb nn_greedy).
Notation ls_deconv := (Greedy.ls_deconv F inf ltb nn_greedy).

Lemma ls_step_g best off la : ls_step_ok best off la = true ->
  ls_step (msc signal) response (sc_out best) off la = res_map sc_out (ls_step signal response best off la).
Proof.
  unfold GreedyScale.ls_step_ok, Greedy.ls_step. rewrite andb_true_iff. intros [Hn Hl].
  rewrite (nn_greedy_scale_g _ _ _ _ Hn).
  destruct (nn_greedy signal response off la) as [[r inp]| |]; cbn [res_map bind]; try reflexivity.
  unfold Greedy.sc_out at 1 2. cbn [fst snd]. rewrite (sc2_ltb _ _ Hl). destruct (ltb r (fst best)); reflexivity.
Qed.
Lemma ls_inner_g off : forall las best, ls_inner_ok best off las = true ->
  ls_inner (msc signal) response (sc_out best) off las = res_map sc_out (ls_inner signal response best off las).
Proof.
  induction las as [|la t IH]; intros best; [reflexivity|]. cbn [GreedyScale.ls_inner_ok Greedy.ls_inner].
  rewrite andb_true_iff. intros [H1 H2]. rewrite (ls_step_g _ _ _ H1).
  destruct (ls_step signal response best off la) as [b| |]; cbn [res_map bind]; try reflexivity. apply IH, H2.
Qed.
Lemma ls_outer_g las : forall offs best, ls_outer_ok best offs las = true ->
  ls_outer (msc signal) response (sc_out best) offs las = res_map sc_out (ls_outer signal response best offs las).
Proof.
  induction offs as [|off t IH]; intros best; [reflexivity|]. cbn [GreedyScale.ls_outer_ok Greedy.ls_outer].
  rewrite andb_true_iff. intros [H1 H2]. rewrite (ls_inner_g _ _ _ H1).
  destruct (ls_inner signal response best off las) as [b| |]; cbn [res_map bind]; try reflexivity. apply IH, H2.
Qed.
Theorem ls_deconv_scale_g offs las : ls_ok offs las = true ->
  ls_deconv (msc signal) response offs las = res_map msc (ls_deconv signal response offs las).
Proof.
  unfold GreedyScale.ls_ok, Greedy.ls_deconv. intros H.
  replace (inf, @nil F) with (sc_out (inf, [])) at 1 by (unfold Greedy.sc_out; cbn [fst snd map]; rewrite sc2_inf; reflexivity).
  rewrite (ls_outer_g _ _ _ H).
  destruct (ls_outer signal response (inf, []) offs las) as [b| |]; reflexivity.
Qed.
End LsG.
End Guarded.

(* ========== binary64: the run-time predicate implies exact scale covariance ========== *)
Lemma nn_greedy_scale_f64_lemma : forall k signal response off la,
  nn_safe k signal response off la = true ->
  nn_greedy_f (map (fscale k) signal) response off la =
  res_map (sc_out flt (fscale k) (fscale2 k)) (nn_greedy_f signal response off la).
Proof.
  intros k signal response off la. unfold nn_safe. rewrite andb_true_iff. intros [Hk H]. apply Z.leb_le in Hk.
  unfold nn_greedy_f.
  apply (nn_greedy_scale_g flt 0%float neg_zero PrimFloat.add PrimFloat.sub PrimFloat.mul PrimFloat.div f_min f_neg f_nonneg
           (okv (Z.abs k)) (f_ok_sub (Z.abs k)) (f_ok_mul (Z.abs k)) (f_ok_div (Z.abs k)) (f_ok_sq k) (f_ok_add (2 * Z.abs k))
           (fscale k) (fscale2 k)).
  - exact (law_zero k Hk).
  - exact (law_sub k Hk).
  - exact (law_mul k Hk).
  - exact (law_div k Hk).
  - exact (law_min k Hk).
  - exact (law_nonneg k Hk).
  - exact (law_sq k Hk).
  - exact (law_add2 k Hk).
  - exact (law_szero k Hk).
  - exact H.
Qed.

Lemma ls_deconv_scale_f64_lemma : forall k signal response offs las,
  ls_safe k signal response offs las = true ->
  ls_deconv_f (map (fscale k) signal) response offs las =
  res_map (map (fscale k)) (ls_deconv_f signal response offs las).
Proof.
  intros k signal response offs las. unfold ls_safe. rewrite andb_true_iff. intros [Hk H]. apply Z.leb_le in Hk.
  unfold ls_deconv_f, nn_greedy_f.
  apply (ls_deconv_scale_g flt 0%float neg_zero infinity PrimFloat.add PrimFloat.sub PrimFloat.mul PrimFloat.div f_min f_neg f_nonneg
           PrimFloat.ltb
           (okv (Z.abs k)) (f_ok_sub (Z.abs k)) (f_ok_mul (Z.abs k)) (f_ok_div (Z.abs k)) (f_ok_sq k) (f_ok_add (2 * Z.abs k))
           (f_ok_lt2 (2 * Z.abs k)) (fscale k) (fscale2 k)).
  - exact (law_zero k Hk).
  - exact (law_sub k Hk).
  - exact (law_mul k Hk).
  - exact (law_div k Hk).
  - exact (law_min k Hk).
  - exact (law_nonneg k Hk).
  - exact (law_sq k Hk).
  - exact (law_add2 k Hk).
  - exact (law_szero k Hk).
  - exact (law_lt2 k Hk).
  - exact (law_inf k Hk).
  - exact H.
Qed.
