(* C17 — scale covariance for binary64: proofs.
   Part 1: scaling by 2^j commutes with rounding to nearest-even on binary64 away from underflow (over R, Flocq).
   Part 2: the IEEE operations on Flocq's binary_float commute with exact scaling (relation `rel`).
   Part 3: the same for Coq's primitive floats (FloatAxioms through Flocq.IEEE754.PrimFloat) with the boolean tests.
   Part 4: the instrumented re-run of Signal/GreedyScale.v implies covariance of the whole algorithm. *)
From Coq Require Import ZArith Reals Floats SpecFloat Lra Lia Bool List.
From Flocq Require Import Core Plus_error BinarySingleNaN PrimFloat.
From AG Require Import Base.Prelude Base.Res Signal.Greedy Signal.GreedyScale.

Local Existing Instance Hprec.
Local Existing Instance Hmax.

(* ========== Part 1: reals ========== *)
Local Open Scope R_scope.

Notation fx := (SpecFloat.fexp prec emax).
Notation rndR := (round radix2 fx (round_mode mode_NE)).
Notation p2 := (bpow radix2).

Local Instance fx_valid : Valid_exp fx := fexp_correct prec emax Hprec.
Local Instance fx_mono : Monotone_exp fx := fexp_monotone prec emax.

Lemma fx_eq e : fx e = Z.max (e - 53) (-1074).
Proof. reflexivity. Qed.

Lemma fmt_p2 e : (-1074 <= e)%Z -> generic_format radix2 fx (p2 e).
Proof. intros H. apply generic_format_bpow. rewrite fx_eq. lia. Qed.

(* exact scaling commutes with rounding when neither x nor x * 2^j is below the normal range *)
Lemma round_scale p j :
  p = 0 \/ (p2 (-1022) <= Rabs p /\ p2 (-1022) <= Rabs p * p2 j) ->
  rndR (p * p2 j) = rndR p * p2 j.
Proof.
  intros [->|[H1 H2]]; [rewrite Rmult_0_l, round_0 by apply valid_rnd_round_mode; ring|].
  assert (Hp : p <> 0). { intros ->. rewrite Rabs_R0 in H1. pose proof (bpow_gt_0 radix2 (-1022)). lra. }
  assert (M1 : (-1021 <= mag radix2 p)%Z) by (apply mag_ge_bpow; exact H1).
  assert (M2 : (-1021 <= mag radix2 p + j)%Z).
  { rewrite <- mag_mult_bpow by exact Hp. apply mag_ge_bpow.
    rewrite Rabs_mult, (Rabs_pos_eq (p2 j)) by apply bpow_ge_0. exact H2. }
  unfold round, F2R, scaled_mantissa, cexp. cbn [Fnum Fexp].
  rewrite mag_mult_bpow by exact Hp. rewrite !fx_eq.
  rewrite !Z.max_l by lia.
  replace (p * p2 j * p2 (- (mag radix2 p + j - 53))) with (p * p2 (- (mag radix2 p - 53))).
  2:{ rewrite Rmult_assoc, <- bpow_plus. do 2 f_equal. lia. }
  rewrite Rmult_assoc, <- bpow_plus. do 2 f_equal. lia.
Qed.

(* a rounded value of magnitude >= 2^(e+1) comes from an exact value of magnitude >= 2^e *)
Lemma round_ge_p2 p e : (-1074 <= e)%Z -> p2 (e + 1) <= Rabs (rndR p) -> p2 e <= Rabs p.
Proof.
  intros He H. destruct (Rle_or_lt (p2 e) (Rabs p)) as [L|L]; [exact L|exfalso].
  assert (Rabs (rndR p) <= p2 e).
  { apply abs_round_le_generic; [exact fx_valid|apply valid_rnd_round_mode|apply fmt_p2; exact He|lra]. }
  assert (p2 e < p2 (e + 1)) by (apply bpow_lt; lia). lra.
Qed.

(* the one fact about R used by every operation: if the rounded result zR of the exact value P is
   zero-because-P-is-zero or has magnitude in [2^(K-1021), 2^(1023-K)], then for |j| <= K the scaled
   exact value rounds to the scaled result, without overflow *)
Lemma core K j P :
  (Z.abs j <= K)%Z ->
  P = 0 \/ (p2 (K - 1021) <= Rabs (rndR P) <= p2 (1023 - K)) ->
  rndR (P * p2 j) = rndR P * p2 j /\ Rabs (rndR (P * p2 j)) < p2 emax.
Proof.
  intros Hj [->|[H1 H2]].
  - rewrite Rmult_0_l, round_0 by apply valid_rnd_round_mode. split; [ring|]. rewrite Rabs_R0. apply bpow_gt_0.
  - assert (L : p2 (K - 1022) <= Rabs P).
    { apply round_ge_p2; [lia|]. replace (K - 1022 + 1)%Z with (K - 1021)%Z by lia. exact H1. }
    assert (E : rndR (P * p2 j) = rndR P * p2 j).
    { apply round_scale. right. split.
      - eapply Rle_trans; [|exact L]. apply bpow_le. lia.
      - eapply Rle_trans; [|apply Rmult_le_compat_r; [apply bpow_ge_0|exact L]].
        rewrite <- bpow_plus. apply bpow_le. lia. }
    split; [exact E|]. rewrite E, Rabs_mult, (Rabs_pos_eq (p2 j)) by apply bpow_ge_0.
    eapply Rle_lt_trans; [apply Rmult_le_compat_r; [apply bpow_ge_0|exact H2]|].
    rewrite <- bpow_plus. apply bpow_lt. unfold emax. lia.
Qed.

(* ========== Part 2: Flocq binary floats ========== *)
Notation BF := (binary_float prec emax).

(* y is x scaled exactly by 2^j (same sign bit, also for zeros) *)
Definition rel (j : Z) (x y : BF) : Prop :=
  is_finite x = true /\ is_finite y = true /\ B2R y = B2R x * p2 j /\ Bsign y = Bsign x.

Lemma rel_inj j x y y' : rel j x y -> rel j x y' -> y = y'.
Proof.
  intros (_ & F1 & R1 & S1) (_ & F2 & R2 & S2). apply B2R_Bsign_inj; congruence.
Qed.
Lemma rel_0 x : is_finite x = true -> rel 0 x x.
Proof. intros H. repeat split; try assumption. cbn. ring. Qed.
Lemma rel_trans i j x y z : rel i x y -> rel j y z -> rel (i + j) x z.
Proof.
  intros (F1 & F2 & R1 & S1) (_ & F3 & R2 & S2). repeat split; try assumption; try congruence.
  rewrite R2, R1, bpow_plus. ring.
Qed.

(* a finite result z of an operation whose exact value is P: zero because P is, or in range *)
Definition resok (K : Z) (P : R) (z : BF) : Prop :=
  is_finite z = true /\ (P = 0 \/ p2 (K - 1021) <= Rabs (B2R z) <= p2 (1023 - K)).

Lemma ovf_not_finite (z : BF) s : B2SF z = binary_overflow prec emax mode_NE s -> is_finite z = true -> False.
Proof.
  intros H F. rewrite <- is_finite_SF_B2SF, H in F. discriminate.
Qed.

Lemma fin_not_nan (z : BF) : is_finite z = true -> is_nan z = false.
Proof. destruct z; cbn; congruence. Qed.

Lemma Rcompare_scale x j : Rcompare (x * p2 j) 0 = Rcompare x 0.
Proof.
  transitivity (Rcompare (x * p2 j) (0 * p2 j)); [f_equal; ring|]. apply Rcompare_mult_r. apply bpow_gt_0.
Qed.

Lemma mul_rel K j1 j2 a a' b b' :
  (Z.abs (j1 + j2) <= K)%Z -> rel j1 a a' -> rel j2 b b' ->
  resok K (B2R a * B2R b) (Bmult mode_NE a b) ->
  rel (j1 + j2) (Bmult mode_NE a b) (Bmult mode_NE a' b').
Proof.
  intros Hj (Fa & Fa' & Ra & Sa) (Fb & Fb' & Rb & Sb) (Fz & Hz).
  generalize (Bmult_correct prec emax _ _ mode_NE a b).
  destruct (Rlt_bool _ _); [|intros H; destruct (ovf_not_finite _ _ H Fz)].
  intros (Rz & _ & Sz).
  destruct (core K (j1 + j2) (B2R a * B2R b) Hj) as [E L].
  { destruct Hz as [Hz|Hz]; [left; exact Hz|right; rewrite <- Rz; exact Hz]. }
  generalize (Bmult_correct prec emax _ _ mode_NE a' b').
  replace (B2R a' * B2R b') with (B2R a * B2R b * p2 (j1 + j2)) by (rewrite Ra, Rb, bpow_plus; ring).
  rewrite (Rlt_bool_true _ _ L). rewrite Fa', Fb'. intros (Rw & Fw & Sw).
  repeat split.
  - exact Fz.
  - exact Fw.
  - rewrite Rw, E, Rz. reflexivity.
  - rewrite Sw, Sz, Sa, Sb; [reflexivity| |]; apply fin_not_nan; assumption.
Qed.

Lemma div_rel K j a a' b :
  (Z.abs j <= K)%Z -> rel j a a' -> is_finite b = true -> B2R b <> 0 ->
  resok K (B2R a / B2R b) (Bdiv mode_NE a b) ->
  rel j (Bdiv mode_NE a b) (Bdiv mode_NE a' b).
Proof.
  intros Hj (Fa & Fa' & Ra & Sa) Fb Nb (Fz & Hz).
  generalize (Bdiv_correct prec emax _ _ mode_NE a b Nb).
  destruct (Rlt_bool _ _); [|intros H; destruct (ovf_not_finite _ _ H Fz)].
  intros (Rz & _ & Sz).
  destruct (core K j (B2R a / B2R b) Hj) as [E L].
  { destruct Hz as [Hz|Hz]; [left; exact Hz|right; rewrite <- Rz; exact Hz]. }
  generalize (Bdiv_correct prec emax _ _ mode_NE a' b Nb).
  replace (B2R a' / B2R b) with (B2R a / B2R b * p2 j) by (rewrite Ra; field; exact Nb).
  rewrite (Rlt_bool_true _ _ L). rewrite Fa'. intros (Rw & Fw & Sw).
  repeat split.
  - exact Fz.
  - exact Fw.
  - rewrite Rw, E, Rz. reflexivity.
  - rewrite Sw, Sz, Sa; [reflexivity| |]; apply fin_not_nan; assumption.
Qed.

(* a sum/difference of two finite numbers rounds to zero only if it is zero *)
Lemma plus_zero (a b : BF) : rndR (B2R a + B2R b) = 0 -> B2R a + B2R b = 0.
Proof.
  intros H. destruct (Req_dec (B2R a + B2R b) 0) as [E|N]; [exact E|exfalso].
  revert H. apply (round_plus_neq_0 radix2 fx (round_mode mode_NE)); [apply generic_format_B2R..|exact N].
Qed.

Lemma plus_rel K j a a' b b' :
  (Z.abs j <= K)%Z -> rel j a a' -> rel j b b' ->
  is_finite (Bplus mode_NE a b) = true ->
  (B2R (Bplus mode_NE a b) = 0 \/ p2 (K - 1021) <= Rabs (B2R (Bplus mode_NE a b)) <= p2 (1023 - K)) ->
  rel j (Bplus mode_NE a b) (Bplus mode_NE a' b').
Proof.
  intros Hj (Fa & Fa' & Ra & Sa) (Fb & Fb' & Rb & Sb) Fz Hz.
  generalize (Bplus_correct prec emax _ _ mode_NE a b Fa Fb).
  destruct (Rlt_bool _ _); [|intros [H _]; destruct (ovf_not_finite _ _ H Fz)].
  intros (Rz & _ & Sz).
  destruct (core K j (B2R a + B2R b) Hj) as [E L].
  { destruct Hz as [Hz|Hz]; [left; apply plus_zero; rewrite <- Rz; exact Hz|right; rewrite <- Rz; exact Hz]. }
  generalize (Bplus_correct prec emax _ _ mode_NE a' b' Fa' Fb').
  replace (B2R a' + B2R b') with ((B2R a + B2R b) * p2 j) by (rewrite Ra, Rb; ring).
  rewrite (Rlt_bool_true _ _ L). intros (Rw & Fw & Sw).
  repeat split.
  - exact Fz.
  - exact Fw.
  - rewrite Rw, E, Rz. reflexivity.
  - rewrite Sw, Sz, Rcompare_scale, Sa, Sb. reflexivity.
Qed.

Lemma minus_zero (a b : BF) : rndR (B2R a - B2R b) = 0 -> B2R a - B2R b = 0.
Proof.
  intros H. destruct (Req_dec (B2R a - B2R b) 0) as [E|N]; [exact E|exfalso].
  revert H. unfold Rminus. apply (round_plus_neq_0 radix2 fx (round_mode mode_NE));
    [apply generic_format_B2R|apply generic_format_opp, generic_format_B2R|exact N].
Qed.

Lemma minus_rel K j a a' b b' :
  (Z.abs j <= K)%Z -> rel j a a' -> rel j b b' ->
  is_finite (Bminus mode_NE a b) = true ->
  (B2R (Bminus mode_NE a b) = 0 \/ p2 (K - 1021) <= Rabs (B2R (Bminus mode_NE a b)) <= p2 (1023 - K)) ->
  rel j (Bminus mode_NE a b) (Bminus mode_NE a' b').
Proof.
  intros Hj (Fa & Fa' & Ra & Sa) (Fb & Fb' & Rb & Sb) Fz Hz.
  generalize (Bminus_correct prec emax _ _ mode_NE a b Fa Fb).
  destruct (Rlt_bool _ _); [|intros [H _]; destruct (ovf_not_finite _ _ H Fz)].
  intros (Rz & _ & Sz).
  destruct (core K j (B2R a - B2R b) Hj) as [E L].
  { destruct Hz as [Hz|Hz]; [left; apply minus_zero; rewrite <- Rz; exact Hz|right; rewrite <- Rz; exact Hz]. }
  generalize (Bminus_correct prec emax _ _ mode_NE a' b' Fa' Fb').
  replace (B2R a' - B2R b') with ((B2R a - B2R b) * p2 j) by (rewrite Ra, Rb; ring).
  rewrite (Rlt_bool_true _ _ L). intros (Rw & Fw & Sw).
  repeat split.
  - exact Fz.
  - exact Fw.
  - rewrite Rw, E, Rz. reflexivity.
  - rewrite Sw, Sz, Rcompare_scale, Sa, Sb. reflexivity.
Qed.
