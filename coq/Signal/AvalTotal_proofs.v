(* C09 (avalanches half) — proofs about the panic-aware model Signal/AvalTotal.v:
   the res-monad functions equal the pure skeleton of Signal/Ring.v / Signal/Avalanches.v (hence never panic)
   under the shape of MainEvent, the shape law of the faer solve and totality of the per-channel kernels. *)
From Coq Require Import Permutation Floats.
From AG Require Import Base.Prelude Base.Res Signal.Ring Signal.Ring_proofs Signal.Avalanches
  Signal.Avalanches_proofs Signal.Greedy Signal.Greedy_proofs Signal.AvalTotal.

(* ---------------------------------------------------------------- generic monad lemmas *)
Lemma mapM_ok {A B} (f : A -> res B) (g : A -> B) l :
  (forall x, In x l -> f x = Ok (g x)) -> mapM f l = Ok (map g l).
Proof.
  induction l as [|a l IH]; cbn [mapM map]; intros H; auto.
  rewrite H by (cbn; auto). cbn [bind]. rewrite IH by (intros; apply H; cbn; auto). reflexivity.
Qed.

Lemma mapM_ext {A B} (f g : A -> res B) l : (forall x, In x l -> f x = g x) -> mapM f l = mapM g l.
Proof.
  induction l as [|a l IH]; cbn [mapM]; intros H; auto.
  rewrite H by (cbn; auto). rewrite IH by (intros; apply H; cbn; auto). reflexivity.
Qed.

Lemma mapM_map {A B C} (f : B -> res C) (g : A -> B) l : mapM f (map g l) = mapM (fun x => f (g x)) l.
Proof. induction l as [|a l IH]; cbn [mapM map]; auto. now rewrite IH. Qed.

(* `for k in 0..l.len() { l[k] }` is `for x in l` *)
Lemma mapM_nth {A B} (f : A -> res B) (L : list A) :
  mapM (fun k => do x <- unwrap (nth_error L k); f x) (seq 0 (length L)) = mapM f L.
Proof.
  induction L as [|a L IH]; cbn [length seq mapM]; auto.
  cbn [nth_error unwrap bind]. rewrite <- seq_shift, mapM_map. cbn [nth_error]. now rewrite IH.
Qed.

Lemma foldM_ok {A S} (f : S -> A -> res S) (g : S -> A -> S) (Inv : S -> Prop) l : forall s,
  (forall s x, Inv s -> In x l -> f s x = Ok (g s x) /\ Inv (g s x)) -> Inv s ->
  foldM f l s = Ok (fold_left g l s) /\ Inv (fold_left g l s).
Proof.
  induction l as [|a l IH]; cbn [foldM fold_left]; intros s H I; auto.
  destruct (H s a I (or_introl eq_refl)) as [E I']. rewrite E. cbn [bind].
  apply IH; auto. intros; apply H; cbn; auto.
Qed.

Lemma map_seq_nth {A B} (h : A -> B) d l : map (fun k => h (nth k l d)) (seq 0 (length l)) = map h l.
Proof.
  induction l as [|a l IH]; cbn [length seq map]; auto.
  f_equal. rewrite <- seq_shift, map_map. exact IH.
Qed.

Lemma idx_ok {A} (l : list A) i x : nth_error l (N.to_nat i) = Some x -> idx l i = Ok x.
Proof. unfold idx. now intros ->. Qed.

Lemma max_opt_fold t : forall x, fold_left Nat.max t x = Nat.max x (fold_right Nat.max O t).
Proof. induction t as [|a t IH]; intros x; cbn [fold_left fold_right]. lia. rewrite IH. lia. Qed.

Lemma max_opt_some l : l <> [] -> max_opt l = Some (fold_right Nat.max O l).
Proof. destruct l as [|x t]; [congruence|]. intros _. cbn [max_opt fold_right]. now rewrite max_opt_fold. Qed.

(* ---------------------------------------------------------------- contiguous_ranges *)
Section RingResProofs.
  Context {sig : Type}.
  Implicit Types ws : list (option sig).

  Lemma scan_end_res_eq fuel ws : wf ws -> forall e, NW - e < N.of_nat fuel ->
    scan_end_res fuel ws e = Ok (scan_end fuel ws e).
  Proof.
    intros W. induction fuel as [|f IH]; intros e H. lia.
    cbn [scan_end_res scan_end]. destruct (e <? NW) eqn:E; cbn [andb]; auto.
    rewrite (idx_ok ws e (get ws e)) by (apply get_nth_error; auto; lia). cbn [bind].
    destruct (is_some (get ws e)); auto. apply IH. lia.
  Qed.

  Lemma scan_ranges_res_eq fuel ws : wf ws -> forall s acc, NW - s < N.of_nat fuel ->
    scan_ranges_res fuel ws s acc = Ok (acc ++ scan_ranges fuel ws s).
  Proof.
    intros W. induction fuel as [|f IH]; intros s acc H. lia.
    cbn [scan_ranges_res scan_ranges]. destruct (s <? NW) eqn:E.
    2:{ now rewrite app_nil_r. }
    rewrite scan_end_res_eq by (auto; rewrite ring_fuel_val; unfold NW; lia). cbn [bind].
    pose proof (scan_end_ge ring_fuel ws s) as G.
    rewrite IH by lia. f_equal. destruct (s <? scan_end ring_fuel ws s); cbn [app].
    - now rewrite <- app_assoc.
    - reflexivity.
  Qed.

  Lemma merge_seam_res_eq (L : list (N * N)) : merge_seam_res L = Ok (merge_seam L).
  Proof.
    unfold merge_seam_res, merge_seam.
    destruct (1 <? length L)%nat eqn:E1; auto.
    apply Nat.ltb_lt in E1.
    destruct L as [|[a0 ei] t]; cbn [hd_error]; auto.
    destruct a0 as [|p]; auto.
    pose proof (pop_inv ((0, ei) :: t)) as Hp.
    destruct (pop ((0, ei) :: t)) as [[L1 [sf le]]|]; auto.
    destruct (le =? NW); auto.
    cbn [unwrap bind].
    destruct L1 as [|h M].
    { cbn [app] in Hp. inversion Hp; subst. cbn [length] in E1. lia. }
    destruct (swap_remove0_perm h M) as (L2 & -> & _). cbn [unwrap bind].
    destruct h as [h1 h2]. reflexivity.
  Qed.

  Theorem contiguous_ranges_res_eq ws : wf ws -> contiguous_ranges_res ws = Ok (contiguous_ranges ws).
  Proof.
    intros W. unfold contiguous_ranges_res, contiguous_ranges.
    rewrite scan_ranges_res_eq by (auto; rewrite ring_fuel_val; unfold NW; lia).
    cbn [bind app]. apply merge_seam_res_eq.
  Qed.

  (* what the callers need of a block returned by contiguous_ranges: valid bounds, at least one wire, every
     wire of it inside the array and present.  Holds for EVERY occupancy, the full ring included. *)
  Definition good_range ws (r : N * N) : Prop :=
    fst r <= NW /\ snd r <= NW /\ range_to_indices r <> [] /\
    forall i, In i (range_to_indices r) -> i < NW /\ pres ws i = true.

  Lemma linrun_good ws a b : linrun ws a b -> good_range ws (a, b).
  Proof.
    intros (A1 & A2 & A3 & _). unfold good_range, range_to_indices. cbn [fst snd].
    replace (a <? b) with true by lia. split. lia. split. lia. split.
    - intros E. apply (f_equal (@length N)) in E. rewrite Nseq_length in E. cbn in E. lia.
    - intros i Hi. apply Nseq_in in Hi. split. lia. apply A3. lia.
  Qed.

  Theorem cr_good ws r : In r (contiguous_ranges ws) -> good_range ws r.
  Proof.
    unfold contiguous_ranges. fold (lin ws).
    destruct (merge_seam_cases (lin ws)) as [(E & _)|(ei & M & sf & L2 & EL & HP & E)]; rewrite E.
    - destruct r as [a b]. intros H. apply lin_in in H. now apply linrun_good.
    - assert (R1 : linrun ws 0 ei) by (apply lin_in; rewrite EL; cbn; auto).
      assert (R2 : linrun ws sf NW).
      { apply lin_in; rewrite EL. right. apply in_app_iff. right. cbn; auto. }
      rewrite in_app_iff. intros [Hin|[<-|[]]].
      + destruct r as [a b]. apply linrun_good. apply lin_in. rewrite EL. right. apply in_app_iff. left.
        eapply Permutation_in; eauto.
      + destruct R1 as (A1 & A2 & A3 & _), R2 as (B1 & B2 & B3 & _).
        unfold good_range, range_to_indices. cbn [fst snd]. split. lia. split. lia.
        destruct (sf <? ei) eqn:Ese.
        * split.
          -- intros X. apply (f_equal (@length N)) in X. rewrite Nseq_length in X. cbn in X. lia.
          -- intros i Hi. apply Nseq_in in Hi. split. lia. apply A3. lia.
        * split.
          -- intros X. apply (f_equal (@length N)) in X. rewrite app_length, !Nseq_length in X. cbn in X. lia.
          -- intros i Hi. apply in_app_iff in Hi as [Hi|Hi]; apply Nseq_in in Hi.
             split. lia. apply B3. lia. split. lia. apply A3. lia.
  Qed.
End RingResProofs.

Lemma range_to_len_res_eq r : fst r <= NW -> snd r <= NW -> range_to_len_res r = Ok (range_to_len r).
Proof.
  destruct r as [f l]. cbn [fst snd]. intros Hf Hl. unfold range_to_len_res, range_to_len.
  destruct (f <? l); auto. unfold usub. replace (f <=? NW) with true by lia. cbn [bind]. unfold uadd.
  assert (P : 2 ^ 64 = 18446744073709551616) by reflexivity. rewrite P.
  replace (NW - f + l <? 18446744073709551616) with true by (unfold NW in *; lia). reflexivity.
Qed.

(* ---------------------------------------------------------------- the block deconvolution *)
Section BlockProofs.
  Context {sig amp : Type}.
  Variable slen : sig -> nat.
  Variable solve : nat -> list sig -> list (list amp).
  Variable wdec : list amp -> res (list amp).
  Implicit Types ws : list (option sig).

  (* NAMED ASSUMPTION faer_shape: the Cholesky factorisation of a_matrix(j) succeeds (the `.unwrap()`s of
     wires.rs:94, 103, 111) and the in-place solve leaves Y an i x j matrix *)
  Definition faer_shape : Prop :=
    forall i sigs, length (solve i sigs) = length sigs /\ Forall (fun c => length c = i) (solve i sigs).
  (* the per-channel kernel returns (no panic, no error) *)
  Definition kernel_total {X} (k : X -> res (list amp)) : Prop := forall x, exists v, k x = Ok v.

  Lemma wire_sig_ok ws i : wf ws -> i < NW -> pres ws i = true ->
    exists s, get ws i = Some s /\ wire_sig ws i = Ok s.
  Proof.
    intros W Hi Hp. unfold wire_sig. rewrite (idx_ok ws i (get ws i)) by (apply get_nth_error; auto).
    cbn [bind]. unfold pres in Hp. destruct (get ws i) as [s|]; [|discriminate]. eauto.
  Qed.

  Lemma mapM_wire_sigs ws (L : list N) : wf ws -> (forall i, In i L -> i < NW /\ pres ws i = true) ->
    mapM (wire_sig ws) L = Ok (flat_map (fun i => opt_list (get ws i)) L).
  Proof.
    intros W. induction L as [|a L IH]; intros H; cbn [mapM flat_map]; auto.
    destruct (H a (or_introl eq_refl)) as [Ha Hp].
    destruct (wire_sig_ok ws a W Ha Hp) as (s & E1 & E2). rewrite E2, E1. cbn [bind].
    rewrite IH by (intros; apply H; cbn; auto). reflexivity.
  Qed.

  Lemma mapM_wire_lens ws (L : list N) : wf ws -> (forall i, In i L -> i < NW /\ pres ws i = true) ->
    mapM (fun i => do s <- wire_sig ws i; Ok (slen s)) L
    = Ok (map slen (flat_map (fun i => opt_list (get ws i)) L)).
  Proof.
    intros W. induction L as [|a L IH]; intros H; cbn [mapM flat_map map]; auto.
    destruct (H a (or_introl eq_refl)) as [Ha Hp].
    destruct (wire_sig_ok ws a W Ha Hp) as (s & E1 & E2). rewrite E2, E1. cbn [bind].
    rewrite IH by (intros; apply H; cbn; auto). reflexivity.
  Qed.

  Lemma block_sigs_length ws r : good_range ws r -> length (block_sigs ws r) = length (range_to_indices r).
  Proof.
    intros (_ & _ & _ & H). unfold block_sigs. induction (range_to_indices r) as [|a L IH]; auto.
    cbn [flat_map]. rewrite app_length, IH by (intros; apply H; cbn; auto).
    destruct (H a (or_introl eq_refl)) as [_ Hp]. unfold pres in Hp.
    destruct (get ws a); [reflexivity|discriminate].
  Qed.

  (* (2) problem_dimensions / y_matrix: their unwraps never fail on a block returned by contiguous_ranges *)
  Theorem problem_dimensions_res_eq ws r : wf ws -> good_range ws r ->
    problem_dimensions_res slen ws r = Ok (max_slen slen (block_sigs ws r), range_to_len r).
  Proof.
    intros W G. pose proof (block_sigs_length ws r G) as BL.
    destruct G as (G1 & G2 & G3 & G4). unfold problem_dimensions_res.
    rewrite mapM_wire_lens by auto. cbn [bind]. fold (block_sigs ws r).
    unfold max_slen. rewrite max_opt_some.
    2:{ intros E. apply (f_equal (@length nat)) in E. rewrite map_length, BL in E.
        destruct (range_to_indices r); [congruence|discriminate]. }
    cbn [unwrap bind]. rewrite range_to_len_res_eq by auto. reflexivity.
  Qed.

  Theorem y_matrix_res_eq ws r : wf ws -> good_range ws r ->
    y_matrix_res slen ws r = Ok (max_slen slen (block_sigs ws r), block_sigs ws r).
  Proof.
    intros W G. unfold y_matrix_res. rewrite problem_dimensions_res_eq by auto. cbn [bind].
    rewrite <- rti_length. rewrite (mapM_nth (wire_sig ws) (range_to_indices r)).
    destruct G as (G1 & G2 & G3 & G4). rewrite mapM_wire_sigs by auto. reflexivity.
  Qed.

  Hypothesis FAER : faer_shape.
  Hypothesis WDEC : kernel_total wdec.

  Lemma read_column (azero : amp) (m : list (list amp)) i column : (column < length m)%nat ->
    Forall (fun c => length c = i) m ->
    mapM (fun row => mat_read m row column) (seq 0 i) = Ok (nth column m []).
  Proof.
    intros Hc F. destruct (nth_error m column) as [c|] eqn:E.
    2:{ apply nth_error_None in E. lia. }
    assert (Hl : length c = i). { eapply Forall_forall in F; eauto. eapply nth_error_In; eauto. }
    rewrite (nth_error_nth _ _ [] E). subst i.
    rewrite (mapM_ok _ (fun row => nth row c azero)).
    - f_equal. rewrite (map_seq_nth (fun x => x)). apply map_id.
    - intros row Hr. apply in_seq in Hr. unfold mat_read, idxn. rewrite E. cbn [unwrap bind].
      destruct (nth_error c row) as [v|] eqn:Ev.
      + now rewrite (nth_error_nth _ _ azero Ev).
      + apply nth_error_None in Ev. lia.
  Qed.

  Theorem wire_range_deconvolution_res_eq (azero : amp) ws r : wf ws -> good_range ws r ->
    wire_range_deconvolution_res slen solve wdec ws r
    = Ok (combine (range_to_indices r) (D_of slen solve wdec (block_sigs ws r))).
  Proof.
    intros W G. unfold wire_range_deconvolution_res.
    rewrite problem_dimensions_res_eq, y_matrix_res_eq by auto. cbn [bind].
    set (i := max_slen slen (block_sigs ws r)). set (y := block_sigs ws r).
    destruct (FAER i y) as [F1 F2].
    assert (J : N.to_nat (range_to_len r) = length (solve i y)).
    { rewrite F1. unfold y. rewrite block_sigs_length by auto. now rewrite rti_length. }
    rewrite J.
    rewrite (mapM_ok _ (fun column => unres (wdec (nth column (solve i y) [])))).
    - cbn [bind]. unfold D_of. fold i. now rewrite (map_seq_nth (fun c => unres (wdec c))).
    - intros column Hc. apply in_seq in Hc. rewrite (read_column azero) by (auto; lia). cbn [bind].
      destruct (WDEC (nth column (solve i y) [])) as [v ->]. reflexivity.
  Qed.
End BlockProofs.
