(* C09 (avalanches half) — proofs about the panic-aware model Signal/AvalTotal.v:
   the res-monad functions equal the pure skeleton of Signal/Ring.v / Signal/Avalanches.v (hence never panic)
   under the shape of MainEvent, the shape law of the faer solve and totality of the per-channel kernels. *)
From Coq Require Import Permutation Floats.
From AG Require Import Base.Prelude Base.Res Signal.Ring Signal.Ring_proofs Signal.Avalanches
  Signal.Avalanches_proofs Signal.Greedy Signal.Greedy_proofs Signal.AvalTotal.

(* ---------------------------------------------------------------- generic monad lemmas *)
Lemma mapM_ok {A B} (f : A -> res B) (g : A -> B) l :
  (forall x, In x l -> f x = Ok (g x)) -> mapM f l = Ok (map g l).
Proof.
  induction l as [|a l IH]; cbn [mapM map]; intros H; auto.
  rewrite H by (cbn; auto). cbn [bind]. rewrite IH by (intros; apply H; cbn; auto). reflexivity.
Qed.

Lemma mapM_ext {A B} (f g : A -> res B) l : (forall x, In x l -> f x = g x) -> mapM f l = mapM g l.
Proof.
  induction l as [|a l IH]; cbn [mapM]; intros H; auto.
  rewrite H by (cbn; auto). rewrite IH by (intros; apply H; cbn; auto). reflexivity.
Qed.

Lemma mapM_map {A B C} (f : B -> res C) (g : A -> B) l : mapM f (map g l) = mapM (fun x => f (g x)) l.
Proof. induction l as [|a l IH]; cbn [mapM map]; auto. now rewrite IH. Qed.

(* `for k in 0..l.len() { l[k] }` is `for x in l` *)
Lemma mapM_nth {A B} (f : A -> res B) (L : list A) :
  mapM (fun k => do x <- unwrap (nth_error L k); f x) (seq 0 (length L)) = mapM f L.
Proof.
  induction L as [|a L IH]; cbn [length seq mapM]; auto.
  cbn [nth_error unwrap bind]. rewrite <- seq_shift, mapM_map. cbn [nth_error]. now rewrite IH.
Qed.

Lemma foldM_ok {A S} (f : S -> A -> res S) (g : S -> A -> S) (Inv : S -> Prop) l : forall s,
  (forall s x, Inv s -> In x l -> f s x = Ok (g s x) /\ Inv (g s x)) -> Inv s ->
  foldM f l s = Ok (fold_left g l s) /\ Inv (fold_left g l s).
Proof.
  induction l as [|a l IH]; cbn [foldM fold_left]; intros s H I; auto.
  destruct (H s a I (or_introl eq_refl)) as [E I']. rewrite E. cbn [bind].
  apply IH; auto. intros; apply H; cbn; auto.
Qed.

Lemma map_seq_nth {A B} (h : A -> B) d l : map (fun k => h (nth k l d)) (seq 0 (length l)) = map h l.
Proof.
  induction l as [|a l IH]; cbn [length seq map]; auto.
  f_equal. rewrite <- seq_shift, map_map. exact IH.
Qed.

Lemma idx_ok {A} (l : list A) i x : nth_error l (N.to_nat i) = Some x -> idx l i = Ok x.
Proof. unfold idx. now intros ->. Qed.

Lemma max_opt_fold t : forall x, fold_left Nat.max t x = Nat.max x (fold_right Nat.max O t).
Proof. induction t as [|a t IH]; intros x; cbn [fold_left fold_right]. lia. rewrite IH. lia. Qed.

Lemma max_opt_some l : l <> [] -> max_opt l = Some (fold_right Nat.max O l).
Proof. destruct l as [|x t]; [congruence|]. intros _. cbn [max_opt fold_right]. now rewrite max_opt_fold. Qed.

(* ---------------------------------------------------------------- contiguous_ranges *)
Section RingResProofs.
  Context {sig : Type}.
  Implicit Types ws : list (option sig).

  Lemma scan_end_res_eq fuel ws : wf ws -> forall e, NW - e < N.of_nat fuel ->
    scan_end_res fuel ws e = Ok (scan_end fuel ws e).
  Proof.
    intros W. induction fuel as [|f IH]; intros e H. lia.
    cbn [scan_end_res scan_end]. destruct (e <? NW) eqn:E; cbn [andb]; auto.
    rewrite (idx_ok ws e (get ws e)) by (apply get_nth_error; auto; lia). cbn [bind].
    destruct (is_some (get ws e)); auto. apply IH. lia.
  Qed.

  Lemma scan_ranges_res_eq fuel ws : wf ws -> forall s acc, NW - s < N.of_nat fuel ->
    scan_ranges_res fuel ws s acc = Ok (acc ++ scan_ranges fuel ws s).
  Proof.
    intros W. induction fuel as [|f IH]; intros s acc H. lia.
    cbn [scan_ranges_res scan_ranges]. destruct (s <? NW) eqn:E.
    2:{ now rewrite app_nil_r. }
    rewrite scan_end_res_eq by (auto; rewrite ring_fuel_val; unfold NW; lia). cbn [bind].
    pose proof (scan_end_ge ring_fuel ws s) as G.
    rewrite IH by lia. f_equal. destruct (s <? scan_end ring_fuel ws s); cbn [app].
    - now rewrite <- app_assoc.
    - reflexivity.
  Qed.

  Lemma merge_seam_res_eq (L : list (N * N)) : merge_seam_res L = Ok (merge_seam L).
  Proof.
    unfold merge_seam_res, merge_seam.
    destruct (1 <? length L)%nat eqn:E1; auto.
    apply Nat.ltb_lt in E1.
    destruct L as [|[a0 ei] t]; cbn [hd_error]; auto.
    destruct a0 as [|p]; auto.
    pose proof (pop_inv ((0, ei) :: t)) as Hp.
    destruct (pop ((0, ei) :: t)) as [[L1 [sf le]]|]; auto.
    destruct (le =? NW); auto.
    cbn [unwrap bind].
    destruct L1 as [|h M].
    { cbn [app] in Hp. inversion Hp; subst. cbn [length] in E1. lia. }
    destruct (swap_remove0_perm h M) as (L2 & -> & _). cbn [unwrap bind].
    destruct h as [h1 h2]. reflexivity.
  Qed.

  Theorem contiguous_ranges_res_eq ws : wf ws -> contiguous_ranges_res ws = Ok (contiguous_ranges ws).
  Proof.
    intros W. unfold contiguous_ranges_res, contiguous_ranges.
    rewrite scan_ranges_res_eq by (auto; rewrite ring_fuel_val; unfold NW; lia).
    cbn [bind app]. apply merge_seam_res_eq.
  Qed.

  (* what the callers need of a block returned by contiguous_ranges: valid bounds, at least one wire, every
     wire of it inside the array and present.  Holds for EVERY occupancy, the full ring included. *)
  Definition good_range ws (r : N * N) : Prop :=
    fst r <= NW /\ snd r <= NW /\ range_to_indices r <> [] /\
    forall i, In i (range_to_indices r) -> i < NW /\ pres ws i = true.

  Lemma linrun_good ws a b : linrun ws a b -> good_range ws (a, b).
  Proof.
    intros (A1 & A2 & A3 & _). unfold good_range, range_to_indices. cbn [fst snd].
    replace (a <? b) with true by lia. split. lia. split. lia. split.
    - intros E. apply (f_equal (@length N)) in E. rewrite Nseq_length in E. cbn in E. lia.
    - intros i Hi. apply Nseq_in in Hi. split. lia. apply A3. lia.
  Qed.

  Theorem cr_good ws r : In r (contiguous_ranges ws) -> good_range ws r.
  Proof.
    unfold contiguous_ranges. fold (lin ws).
    destruct (merge_seam_cases (lin ws)) as [(E & _)|(ei & M & sf & L2 & EL & HP & E)]; rewrite E.
    - destruct r as [a b]. intros H. apply lin_in in H. now apply linrun_good.
    - assert (R1 : linrun ws 0 ei) by (apply lin_in; rewrite EL; cbn; auto).
      assert (R2 : linrun ws sf NW).
      { apply lin_in; rewrite EL. right. apply in_app_iff. right. cbn; auto. }
      rewrite in_app_iff. intros [Hin|[<-|[]]].
      + destruct r as [a b]. apply linrun_good. apply lin_in. rewrite EL. right. apply in_app_iff. left.
        eapply Permutation_in; eauto.
      + destruct R1 as (A1 & A2 & A3 & _), R2 as (B1 & B2 & B3 & _).
        unfold good_range, range_to_indices. cbn [fst snd]. split. lia. split. lia.
        destruct (sf <? ei) eqn:Ese.
        * split.
          -- intros X. apply (f_equal (@length N)) in X. rewrite Nseq_length in X. cbn in X. lia.
          -- intros i Hi. apply Nseq_in in Hi. split. lia. apply A3. lia.
        * split.
          -- intros X. apply (f_equal (@length N)) in X. rewrite app_length, !Nseq_length in X. cbn in X. lia.
          -- intros i Hi. apply in_app_iff in Hi as [Hi|Hi]; apply Nseq_in in Hi.
             split. lia. apply B3. lia. split. lia. apply A3. lia.
  Qed.
End RingResProofs.

Lemma range_to_len_res_eq r : fst r <= NW -> snd r <= NW -> range_to_len_res r = Ok (range_to_len r).
Proof.
  destruct r as [f l]. cbn [fst snd]. intros Hf Hl. unfold range_to_len_res, range_to_len.
  destruct (f <? l); auto. unfold usub. replace (f <=? NW) with true by lia. cbn [bind]. unfold uadd.
  assert (P : 2 ^ 64 = 18446744073709551616) by reflexivity. rewrite P.
  replace (NW - f + l <? 18446744073709551616) with true by (unfold NW in *; lia). reflexivity.
Qed.

(* ---------------------------------------------------------------- the block deconvolution *)
Section BlockProofs.
  Context {sig amp : Type}.
  Variable slen : sig -> nat.
  Variable solve : nat -> list sig -> list (list amp).
  Variable wdec : list amp -> res (list amp).
  Implicit Types ws : list (option sig).

  (* NAMED ASSUMPTION faer_shape: the Cholesky factorisation of a_matrix(j) succeeds (the `.unwrap()`s of
     wires.rs:94, 103, 111) and the in-place solve leaves Y an i x j matrix *)
  Definition faer_shape : Prop :=
    forall i sigs, length (solve i sigs) = length sigs /\ Forall (fun c => length c = i) (solve i sigs).
  (* the per-channel kernel returns (no panic, no error) *)
  Definition kernel_total {X} (k : X -> res (list amp)) : Prop := forall x, exists v, k x = Ok v.

  Lemma wire_sig_ok ws i : wf ws -> i < NW -> pres ws i = true ->
    exists s, get ws i = Some s /\ wire_sig ws i = Ok s.
  Proof.
    intros W Hi Hp. unfold wire_sig. rewrite (idx_ok ws i (get ws i)) by (apply get_nth_error; auto).
    cbn [bind]. unfold pres in Hp. destruct (get ws i) as [s|]; [|discriminate]. eauto.
  Qed.

  Lemma mapM_wire_sigs ws (L : list N) : wf ws -> (forall i, In i L -> i < NW /\ pres ws i = true) ->
    mapM (wire_sig ws) L = Ok (flat_map (fun i => opt_list (get ws i)) L).
  Proof.
    intros W. induction L as [|a L IH]; intros H; cbn [mapM flat_map]; auto.
    destruct (H a (or_introl eq_refl)) as [Ha Hp].
    destruct (wire_sig_ok ws a W Ha Hp) as (s & E1 & E2). rewrite E2, E1. cbn [bind].
    rewrite IH by (intros; apply H; cbn; auto). reflexivity.
  Qed.

  Lemma mapM_wire_lens ws (L : list N) : wf ws -> (forall i, In i L -> i < NW /\ pres ws i = true) ->
    mapM (fun i => do s <- wire_sig ws i; Ok (slen s)) L
    = Ok (map slen (flat_map (fun i => opt_list (get ws i)) L)).
  Proof.
    intros W. induction L as [|a L IH]; intros H; cbn [mapM flat_map map]; auto.
    destruct (H a (or_introl eq_refl)) as [Ha Hp].
    destruct (wire_sig_ok ws a W Ha Hp) as (s & E1 & E2). rewrite E2, E1. cbn [bind].
    rewrite IH by (intros; apply H; cbn; auto). reflexivity.
  Qed.

  Lemma block_sigs_length ws r : good_range ws r -> length (block_sigs ws r) = length (range_to_indices r).
  Proof.
    intros (_ & _ & _ & H). unfold block_sigs. induction (range_to_indices r) as [|a L IH]; auto.
    cbn [flat_map]. rewrite app_length, IH by (intros; apply H; cbn; auto).
    destruct (H a (or_introl eq_refl)) as [_ Hp]. unfold pres in Hp.
    destruct (get ws a); [reflexivity|discriminate].
  Qed.

  (* (2) problem_dimensions / y_matrix: their unwraps never fail on a block returned by contiguous_ranges *)
  Theorem problem_dimensions_res_eq ws r : wf ws -> good_range ws r ->
    problem_dimensions_res slen ws r = Ok (max_slen slen (block_sigs ws r), range_to_len r).
  Proof.
    intros W G. pose proof (block_sigs_length ws r G) as BL.
    destruct G as (G1 & G2 & G3 & G4). unfold problem_dimensions_res.
    rewrite mapM_wire_lens by auto. cbn [bind]. fold (block_sigs ws r).
    unfold max_slen. rewrite max_opt_some.
    2:{ intros E. apply (f_equal (@length nat)) in E. rewrite map_length, BL in E.
        destruct (range_to_indices r); [congruence|discriminate]. }
    cbn [unwrap bind]. rewrite range_to_len_res_eq by auto. reflexivity.
  Qed.

  Theorem y_matrix_res_eq ws r : wf ws -> good_range ws r ->
    y_matrix_res slen ws r = Ok (max_slen slen (block_sigs ws r), block_sigs ws r).
  Proof.
    intros W G. unfold y_matrix_res. rewrite problem_dimensions_res_eq by auto. cbn [bind].
    rewrite <- rti_length. rewrite (mapM_nth (wire_sig ws) (range_to_indices r)).
    destruct G as (G1 & G2 & G3 & G4). rewrite mapM_wire_sigs by auto. reflexivity.
  Qed.

  Hypothesis FAER : faer_shape.
  Hypothesis WDEC : kernel_total wdec.

  Lemma read_column (azero : amp) (m : list (list amp)) i column : (column < length m)%nat ->
    Forall (fun c => length c = i) m ->
    mapM (fun row => mat_read m row column) (seq 0 i) = Ok (nth column m []).
  Proof.
    intros Hc F. destruct (nth_error m column) as [c|] eqn:E.
    2:{ apply nth_error_None in E. lia. }
    assert (Hl : length c = i). { eapply Forall_forall in F; eauto. eapply nth_error_In; eauto. }
    rewrite (nth_error_nth _ _ [] E). subst i.
    rewrite (mapM_ok _ (fun row => nth row c azero)).
    - f_equal. rewrite (map_seq_nth (fun x => x)). apply map_id.
    - intros row Hr. apply in_seq in Hr. unfold mat_read, idxn. rewrite E. cbn [unwrap bind].
      destruct (nth_error c row) as [v|] eqn:Ev.
      + now rewrite (nth_error_nth _ _ azero Ev).
      + apply nth_error_None in Ev. lia.
  Qed.

  Theorem wire_range_deconvolution_res_eq (azero : amp) ws r : wf ws -> good_range ws r ->
    wire_range_deconvolution_res slen solve wdec ws r
    = Ok (combine (range_to_indices r) (D_of slen solve wdec (block_sigs ws r))).
  Proof.
    intros W G. unfold wire_range_deconvolution_res.
    rewrite problem_dimensions_res_eq, y_matrix_res_eq by auto. cbn [bind].
    set (i := max_slen slen (block_sigs ws r)). set (y := block_sigs ws r).
    destruct (FAER i y) as [F1 F2].
    assert (J : N.to_nat (range_to_len r) = length (solve i y)).
    { rewrite F1. unfold y. rewrite block_sigs_length by auto. now rewrite rti_length. }
    rewrite J.
    rewrite (mapM_ok _ (fun column => unres (wdec (nth column (solve i y) [])))).
    - cbn [bind]. unfold D_of. fold i. now rewrite (map_seq_nth (fun c => unres (wdec c))).
    - intros column Hc. apply in_seq in Hc. rewrite (read_column azero) by (auto; lia). cbn [bind].
      destruct (WDEC (nth column (solve i y) [])) as [v ->]. reflexivity.
  Qed.
End BlockProofs.

(* ---------------------------------------------------------------- matching.rs *)
Section MatchProofs.
  Context {amp zt : Type}.
  Variable azero : amp.
  Variable apos : amp -> bool.
  Variable agt : amp -> amp -> bool.
  Variable pcmp : amp -> amp -> option comparison.
  Variable zf : N -> amp -> amp -> amp -> zt.
  Variable sortW : list (N * amp) -> list (N * amp).
  Variable sortP : list (zt * amp) -> list (zt * amp).

  (* the three facts about f64 comparisons the proof uses; `num` = "is not a NaN".
     Proved for binary64 below (f64_cmp_laws). *)
  Variable num : amp -> Prop.
  Definition cmp_laws : Prop :=
    (forall v, apos v = true -> num v) /\                 (* v > 0.0 is false for a NaN *)
    (forall a b, agt a b = true -> num a) /\              (* a > b is false when a is a NaN *)
    (forall a b, num a -> num b -> pcmp a b <> None).     (* partial_cmp is None only with a NaN operand *)
  Hypothesis LAWS : cmp_laws.

  Lemma max_opt_lengths (l : list (list amp)) : l <> [] -> max_opt (map (@length amp) l) = Some (max_len l).
  Proof.
    intros H. rewrite max_opt_some by (destruct l; [congruence|discriminate]). f_equal.
    induction l as [|a l IH]; cbn [map fold_right max_len]; auto.
    destruct l as [|b l]. reflexivity. rewrite IH by discriminate. reflexivity.
  Qed.

  Lemma wire_hits_at_t_res_eq idxs inputs t : Forall (fun i => i < NW) idxs ->
    wire_hits_at_t_res apos idxs inputs t = Ok (wire_hits_at_t apos idxs inputs t).
  Proof.
    intros F. unfold wire_hits_at_t_res, wire_hits_at_t.
    rewrite (mapM_ok _ (fun '(index, input) =>
                          match get_t input t with
                          | Some v => if apos v then [(index, v)] else []
                          | None => []
                          end)).
    - cbn [bind]. now rewrite flat_map_concat_map.
    - intros [index input] Hin. apply in_combine_l in Hin.
      destruct (get_t input t) as [v|]; auto. destruct (apos v); auto.
      unfold wire_pos_try_from. eapply Forall_forall in F; eauto. cbn beta in F.
      replace (index <? NW) with true by lia. reflexivity.
  Qed.

  Lemma wire_hits_num idxs inputs t h : In h (wire_hits_at_t apos idxs inputs t) -> num (snd h).
  Proof.
    destruct LAWS as (L1 & _). unfold wire_hits_at_t. rewrite in_flat_map. intros ([index input] & _ & H).
    destruct (get_t input t) as [v|]; [|destruct H]. destruct (apos v) eqn:E; [|destruct H].
    destruct H as [<-|[]]. cbn [snd]. auto.
  Qed.

  Lemma pad_loop_res_eq rest : forall row first middle t,
    1 <= row -> row + N.of_nat (length rest) <= NROWS ->
    pad_loop_res azero apos agt zf rest row first middle t = Ok (pad_loop azero apos agt zf rest row first middle t).
  Proof.
    induction rest as [|input rest IH]; intros row first middle t H1 H2; cbn [pad_loop_res pad_loop]; auto.
    cbn [length] in H2. rewrite IH by lia.
    destruct (apos first && apos (at_t azero input t) && agt middle first && agt middle (at_t azero input t)).
    - unfold pad_row_try_from. replace (row - 1 <? NROWS) with true by lia. reflexivity.
    - reflexivity.
  Qed.

  Lemma pad_hits_at_t_res_eq pci t : N.of_nat (length pci) = NROWS ->
    pad_hits_at_t_res azero apos agt zf pci t = Ok (pad_hits_at_t azero apos agt zf pci t).
  Proof.
    intros H. destruct pci as [|r0 [|r1 rest]]; try (cbn in H; unfold NROWS in H; lia).
    unfold pad_hits_at_t_res, pad_hits_at_t, idx.
    change (N.to_nat 0) with 0%nat. change (N.to_nat 1) with 1%nat. cbn [nth_error unwrap bind skipn].
    apply pad_loop_res_eq. lia. cbn [length] in H. lia.
  Qed.

  Lemma pad_loop_num rest : forall row first middle t h,
    In h (pad_loop azero apos agt zf rest row first middle t) -> num (snd h).
  Proof.
    destruct LAWS as (_ & L2 & _).
    induction rest as [|input rest IH]; intros row first middle t h; cbn [pad_loop]. intros [].
    rewrite in_app_iff. intros [H|H]; [|eapply IH; eauto].
    destruct (apos first && apos (at_t azero input t) && agt middle first && agt middle (at_t azero input t)) eqn:E;
      [|destruct H].
    destruct H as [<-|[]]. cbn [snd]. apply andb_true_iff in E as [E _]. apply andb_true_iff in E as [_ E]. eauto.
  Qed.

  Lemma pad_hits_num pci t h : In h (pad_hits_at_t azero apos agt zf pci t) -> num (snd h).
  Proof. unfold pad_hits_at_t. destruct pci as [|r0 [|r1 rest]]; try (intros []). apply pad_loop_num. Qed.

  Lemma sort_by_res_ok {A} (amp_of : A -> amp) (sortK : list A -> list A) (l : list A) :
    (forall h, In h l -> num (amp_of h)) ->
    sort_by_res (fun a b => pcmp (amp_of b) (amp_of a)) sortK l = Ok (sortK l).
  Proof.
    destruct LAWS as (_ & _ & L3). intros H. unfold sort_by_res.
    replace (forallb _ l) with true; auto. symmetry. apply forallb_forall. intros x Hx.
    apply forallb_forall. intros y Hy. specialize (L3 (amp_of y) (amp_of x) (H y Hy) (H x Hx)).
    destruct (pcmp (amp_of y) (amp_of x)); [reflexivity|congruence].
  Qed.

  (* (4) match_column_inputs: t_max exists, the index conversions succeed, both partial_cmp().unwrap() succeed.
     No hypothesis on the VALUES of the inputs: a NaN never becomes a hit (it fails `> 0.0`). *)
  Theorem match_column_inputs_res_eq idxs inputs pci :
    inputs <> [] -> Forall (fun i => i < NW) idxs -> N.of_nat (length pci) = NROWS ->
    match_column_inputs_res azero apos agt pcmp zf sortW sortP idxs inputs pci
    = Ok (match_column_inputs azero apos agt zf sortW sortP idxs inputs pci).
  Proof.
    intros Hne Hidx Hpci. unfold match_column_inputs_res, match_column_inputs.
    rewrite max_opt_lengths by auto. cbn [unwrap bind].
    rewrite (mapM_ok _ (fun t =>
       match wire_hits_at_t apos idxs inputs t with
       | [] => []
       | _ => map (fun '((w, wa), (z, pa)) => Aval w t z wa pa)
                  (combine (sortW (wire_hits_at_t apos idxs inputs t))
                           (sortP (pad_hits_at_t azero apos agt zf pci t)))
       end)).
    - cbn [bind]. now rewrite flat_map_concat_map.
    - intros t _. rewrite wire_hits_at_t_res_eq by auto. cbn [bind].
      pose proof (wire_hits_num idxs inputs t) as NW_.
      destruct (wire_hits_at_t apos idxs inputs t) as [|h wh] eqn:E; auto.
      rewrite pad_hits_at_t_res_eq by auto. cbn [bind].
      unfold cmpW, cmpP.
      rewrite (sort_by_res_ok (@snd N amp)) by auto. cbn [bind].
      rewrite (sort_by_res_ok (@snd zt amp)) by (apply pad_hits_num). cbn [bind]. reflexivity.
  Qed.
End MatchProofs.

(* ---------------------------------------------------------------- MainEvent::avalanches *)
Lemma btree_iter_lt bag c : In c (btree_iter bag) -> c < NCOLS.
Proof.
  unfold btree_iter. intros Hc. apply filter_In in Hc as [Hc _]. apply Nseq_in in Hc.
  destruct Hc as [_ Hc]. rewrite N.add_0_l in Hc. exact Hc.
Qed.

Section AvalProofs.
  Context {sig amp zt : Type}.
  Variable azero : amp.
  Variable apos : amp -> bool.
  Variable agt : amp -> amp -> bool.
  Variable pcmp : amp -> amp -> option comparison.
  Variable zf : N -> amp -> amp -> amp -> zt.
  Variable slen : sig -> nat.
  Variable solve : nat -> list sig -> list (list amp).
  Variable wdec : list amp -> res (list amp).
  Variable pdec : sig -> res (list amp).
  Variable sortW : list (N * amp) -> list (N * amp).
  Variable sortP : list (zt * amp) -> list (zt * amp).
  Variable num : amp -> Prop.
  Implicit Types ws : list (option sig).

  Hypothesis FAER : faer_shape solve.
  Hypothesis WDEC : kernel_total wdec.
  Hypothesis PDEC : kernel_total pdec.
  Hypothesis LAWS : cmp_laws apos agt pcmp num.

  Notation Dp := (D_of slen solve wdec).
  Notation Pp := (P_of pdec).

  Lemma fill_range_res_eq ws r (st : list (list amp) * list N) : wf ws -> good_range ws r ->
    length (fst st) = N.to_nat NW ->
    (do outs <- wire_range_deconvolution_res slen solve wdec ws r;
     foldM (fun st '(i, input) =>
              do wi <- upd_res (fst st) i input; Ok (wi, wire_to_pad_column i :: snd st)) outs st)
    = Ok (fill_range Dp ws st r) /\ length (fst (fill_range Dp ws st r)) = N.to_nat NW.
  Proof.
    intros W G L. rewrite (wire_range_deconvolution_res_eq slen solve wdec FAER WDEC azero) by auto.
    cbn [bind]. unfold fill_range.
    apply (foldM_ok _ (fun st '(i, input) => (upd (fst st) i input, wire_to_pad_column i :: snd st))
                    (fun st => length (fst st) = N.to_nat NW)); auto.
    intros s [i input] I Hin. apply in_combine_l in Hin.
    destruct G as (_ & _ & _ & G4). destruct (G4 i Hin) as [Hi _].
    unfold upd_res. replace (i <? N.of_nat (length (fst s))) with true by lia. cbn [bind fst].
    split. reflexivity. unfold upd. now rewrite upd_nat_length.
  Qed.

  Theorem wire_stage_res_eq ws : wf ws ->
    wire_stage_res slen solve wdec ws = Ok (wire_stage Dp ws) /\
    length (fst (wire_stage Dp ws)) = N.to_nat NW.
  Proof.
    intros W. unfold wire_stage_res, wire_stage. rewrite contiguous_ranges_res_eq by auto. cbn [bind].
    apply (foldM_ok _ (fill_range Dp ws) (fun st => length (fst st) = N.to_nat NW)).
    - intros s r I Hin. apply fill_range_res_eq; auto. now apply cr_good.
    - cbn [fst]. apply repeat_length.
  Qed.

  Lemma pad_column_res_eq (col : list (option sig)) : N.of_nat (length col) = NROWS ->
    mapM (fun row => do o <- idx col row; match o with Some signal => pdec signal | None => Ok [] end)
         (Nseq 0 NROWS)
    = Ok (pad_inputs_column Pp col).
  Proof.
    intros H. unfold Nseq. rewrite mapM_map. replace (N.to_nat NROWS) with (length col) by lia.
    rewrite (mapM_ext _ (fun k => do o <- unwrap (nth_error col k);
                                  match o with Some signal => pdec signal | None => Ok [] end)).
    2:{ intros k _. unfold idx. now rewrite N.add_0_l, Nat2N.id. }
    rewrite (mapM_nth (fun o : option sig => match o with Some signal => pdec signal | None => Ok [] end)).
    unfold pad_inputs_column. apply mapM_ok. intros [s|] _; auto.
    unfold P_of. destruct (PDEC s) as [v ->]. reflexivity.
  Qed.

  Theorem column_avalanches_res_eq (wi : list (list amp)) (pads : list (list (option sig))) c :
    length wi = N.to_nat NW -> N.of_nat (length pads) = NCOLS ->
    Forall (fun col => N.of_nat (length col) = NROWS) pads -> c < NCOLS ->
    column_avalanches_res azero apos agt pcmp zf pdec sortW sortP wi pads c
    = Ok (column_avalanches azero apos agt zf Pp sortW sortP wi pads c).
  Proof.
    intros Lw Lp Fp Hc. unfold column_avalanches_res, column_avalanches.
    destruct (nth_error pads (N.to_nat c)) as [padcol|] eqn:E.
    2:{ apply nth_error_None in E. lia. }
    rewrite (idx_ok _ _ _ E). cbn [bind]. rewrite (nth_error_nth _ _ [] E).
    assert (Hcol : N.of_nat (length padcol) = NROWS).
    { eapply Forall_forall in Fp; eauto. eapply nth_error_In; eauto. }
    rewrite pad_column_res_eq by auto. cbn [bind].
    pose proof (pctw_in_bounds c) as [B1 B2].
    destruct (pad_column_to_wires c) as [first last]. cbn [fst snd] in B1, B2.
    unfold arr_try_into at 1. rewrite Nseq_length.
    replace (N.to_nat (last - first) =? 8)%nat with true by (symmetry; apply Nat.eqb_eq; lia). cbn [bind].
    unfold slice_res. replace ((first <=? last) && (last <=? N.of_nat (length wi))) with true
      by (unfold NW in *; lia). cbn [bind].
    assert (L8 : length (Avalanches.slice wi first last) = 8%nat).
    { unfold Avalanches.slice. rewrite firstn_length, skipn_length. unfold NW in *. lia. }
    unfold arr_try_into. rewrite L8. cbn [Nat.eqb bind].
    apply (match_column_inputs_res_eq azero apos agt pcmp zf sortW sortP num LAWS).
    - intros X. pose proof (eq_trans (eq_sym L8) (f_equal (@length _) X)) as Y. cbn in Y. discriminate Y.
    - apply Forall_forall. intros i Hi. apply Nseq_in in Hi. unfold NW in *. lia.
    - unfold pad_inputs_column. now rewrite map_length.
  Qed.

  (* (5) the whole function equals the pure skeleton of Signal/Avalanches.v with kernels D_of / P_of *)
  Theorem avalanches_res_eq ws (pads : list (list (option sig))) :
    wf ws -> N.of_nat (length pads) = NCOLS -> Forall (fun col => N.of_nat (length col) = NROWS) pads ->
    avalanches_res azero apos agt pcmp zf slen solve wdec pdec sortW sortP ws pads
    = Ok (avalanches azero apos agt zf Dp Pp sortW sortP ws pads).
  Proof.
    intros W Lp Fp. unfold avalanches_res, avalanches.
    destruct (wire_stage_res_eq ws W) as [E L]. rewrite E. cbn [bind].
    destruct (wire_stage Dp ws) as [wi inserted]. cbn [fst] in L.
    rewrite (mapM_ok _ (column_avalanches azero apos agt zf Pp sortW sortP wi pads)).
    - cbn [bind]. now rewrite flat_map_concat_map.
    - intros c Hc. apply btree_iter_lt in Hc. now apply column_avalanches_res_eq.
  Qed.
End AvalProofs.

(* ---------------------------------------------------------------- statements at the level of "never panics" *)
Lemma ok_not_panic {A} (r : res A) v : r = Ok v -> r <> Panic.
Proof. intros ->. discriminate. Qed.

(* (1) *)
Lemma contiguous_ranges_total_lemma (sig : Type) (ws : list (option sig)) :
  N.of_nat (length ws) = NW ->
  contiguous_ranges_res ws = Ok (contiguous_ranges ws) /\ contiguous_ranges_res ws <> Panic.
Proof. intros W. pose proof (contiguous_ranges_res_eq ws W) as E. split; auto. eapply ok_not_panic; eauto. Qed.

(* the pop / swap_remove(0) of the merge can never fail, whatever vector reaches them *)
Lemma merge_seam_total_lemma (ranges : list (N * N)) : merge_seam_res ranges = Ok (merge_seam ranges).
Proof. apply merge_seam_res_eq. Qed.

(* (2) *)
Lemma wire_block_total_lemma (sig : Type) (slen : sig -> nat) (ws : list (option sig)) (r : N * N) :
  N.of_nat (length ws) = NW -> In r (contiguous_ranges ws) ->
  range_to_indices r <> [] /\
  length (block_sigs ws r) = length (range_to_indices r) /\
  problem_dimensions_res slen ws r = Ok (max_slen slen (block_sigs ws r), range_to_len r) /\
  y_matrix_res slen ws r = Ok (max_slen slen (block_sigs ws r), block_sigs ws r).
Proof.
  intros W Hin. pose proof (cr_good ws r Hin) as G. split. apply G. split. now apply block_sigs_length.
  split. now apply problem_dimensions_res_eq. now apply y_matrix_res_eq.
Qed.

Lemma wire_range_deconvolution_total_lemma (sig amp : Type) (azero : amp) (slen : sig -> nat)
      (solve : nat -> list sig -> list (list amp)) (wdec : list amp -> res (list amp))
      (ws : list (option sig)) (r : N * N) :
  faer_shape solve -> kernel_total wdec ->
  N.of_nat (length ws) = NW -> In r (contiguous_ranges ws) ->
  wire_range_deconvolution_res slen solve wdec ws r
  = Ok (combine (range_to_indices r) (D_of slen solve wdec (block_sigs ws r))).
Proof. intros F K W Hin. apply wire_range_deconvolution_res_eq; auto. now apply cr_good. Qed.

(* (4) *)
Lemma match_column_total_lemma (amp zt : Type) (azero : amp) (apos : amp -> bool) (agt : amp -> amp -> bool)
      (pcmp : amp -> amp -> option comparison) (zf : N -> amp -> amp -> amp -> zt)
      (sortW : list (N * amp) -> list (N * amp)) (sortP : list (zt * amp) -> list (zt * amp))
      (num : amp -> Prop) (column : N) (wire_inputs pci : list (list amp)) :
  cmp_laws apos agt pcmp num ->
  length wire_inputs = 8%nat -> N.of_nat (length pci) = NROWS ->
  let (first, last) := pad_column_to_wires column in
  match_column_inputs_res azero apos agt pcmp zf sortW sortP (Nseq first (last - first)) wire_inputs pci
  = Ok (match_column_inputs azero apos agt zf sortW sortP (Nseq first (last - first)) wire_inputs pci).
Proof.
  intros L L8 Lp. pose proof (pctw_in_bounds column) as [B1 B2].
  destruct (pad_column_to_wires column) as [first last]. cbn [fst snd] in B1, B2.
  apply (match_column_inputs_res_eq azero apos agt pcmp zf sortW sortP num L); auto.
  - intros X. rewrite X in L8. discriminate.
  - apply Forall_forall. intros i Hi. apply Nseq_in in Hi. unfold NW in *. lia.
Qed.

(* (5), for any sample type *)
Lemma avalanches_total_lemma (sig amp zt : Type) (azero : amp) (apos : amp -> bool) (agt : amp -> amp -> bool)
      (pcmp : amp -> amp -> option comparison) (zf : N -> amp -> amp -> amp -> zt) (slen : sig -> nat)
      (solve : nat -> list sig -> list (list amp)) (wdec : list amp -> res (list amp)) (pdec : sig -> res (list amp))
      (sortW : list (N * amp) -> list (N * amp)) (sortP : list (zt * amp) -> list (zt * amp))
      (num : amp -> Prop) (ev : main_event sig) :
  faer_shape solve -> kernel_total wdec -> kernel_total pdec -> cmp_laws apos agt pcmp num ->
  event_shape ev ->
  avalanches_res azero apos agt pcmp zf slen solve wdec pdec sortW sortP (wire_signals ev) (pad_signals ev)
  = Ok (avalanches azero apos agt zf (D_of slen solve wdec) (P_of pdec) sortW sortP (wire_signals ev) (pad_signals ev))
  /\ timestamp_res ev = Ok (trigger_timestamp ev).
Proof.
  intros F KW KP L (S1 & S2 & S3). split; [|reflexivity].
  apply (avalanches_res_eq azero apos agt pcmp zf slen solve wdec pdec sortW sortP num F KW KP L); auto.
Qed.

(* ---------------------------------------------------------------- binary64 *)
Definition f64_num (x : float) : Prop := Prim2SF x <> S754_nan.

Lemma SFltb_nan_r x : SFltb x S754_nan = false.
Proof. destruct x; reflexivity. Qed.
Lemma SFltb_nan_l y : SFltb S754_nan y = false.
Proof. reflexivity. Qed.
Lemma SFcompare_num x y : x <> S754_nan -> y <> S754_nan -> SFcompare x y <> None.
Proof. destruct x, y; cbn [SFcompare]; intros; try congruence; discriminate. Qed.

Lemma f64_cmp_laws : cmp_laws fpos fgt f_pcmp f64_num.
Proof.
  split; [|split].
  - intros v H E. unfold fpos in H. rewrite FloatAxioms.ltb_spec, E, SFltb_nan_r in H. discriminate.
  - intros a b H E. unfold fgt in H. rewrite FloatAxioms.ltb_spec, E, SFltb_nan_r in H. discriminate.
  - intros a b Ha Hb. unfold f_pcmp. rewrite FloatAxioms.compare_spec.
    pose proof (SFcompare_num _ _ Ha Hb) as H.
    destruct (SFcompare (Prim2SF a) (Prim2SF b)) as [[| |]|]; cbn; congruence.
Qed.

(* (3) imported from C17 (deconv_f64_all_inputs_lemma): for ALL binary64 waveforms - in particular for whatever
   column the cross-talk solve returned - the deconvolved vector is empty or has one entry per sample, each
   finite, with a clear sign bit, and not a NaN *)
Lemma ls_deconv_no_nan_lemma (signal response : list float) (offs las : list nat) (out : list float) :
  ls_deconv_f signal response offs las = Ok out ->
  (out = [] \/ length out = length signal) /\
  Forall (fun x => f_fin x /\ f_ge0 x /\ f64_num x) out.
Proof.
  intros H. destruct (deconv_f64_all_inputs_lemma _ _ _ _ _ H) as (A & B & C). split; auto.
  rewrite Forall_forall in *. intros x Hx. split; auto. split; auto.
  specialize (B x Hx). unfold f_fin, f64_num in *. destruct (Prim2SF x); cbn in B; congruence.
Qed.

(* ls_deconvolution returns (no panic) when every sweep of the grid does *)
Section LsTotal.
  Variable F : Type.
  Variable inf : F.
  Variable ltb : F -> F -> bool.
  Variable nn : list F -> list F -> nat -> nat -> res (F * list F).
  Variables signal response : list F.

  Lemma ls_inner_total las : forall best off,
    (forall la, In la las -> exists r inp, nn signal response off la = Ok (r, inp)) ->
    exists b, ls_inner F ltb nn signal response best off las = Ok b.
  Proof.
    induction las as [|la t IH]; intros best off H; cbn [ls_inner]. eauto.
    destruct (H la (or_introl eq_refl)) as (r & inp & E). unfold ls_step. rewrite E. cbn [bind].
    apply IH. intros; apply H; cbn; auto.
  Qed.

  Lemma ls_outer_total offs las : forall best,
    (forall off la, In off offs -> In la las -> exists r inp, nn signal response off la = Ok (r, inp)) ->
    exists b, ls_outer F ltb nn signal response best offs las = Ok b.
  Proof.
    induction offs as [|off t IH]; intros best H; cbn [ls_outer]. eauto.
    destruct (ls_inner_total las best off) as [b E]. { intros; apply H; cbn; auto. }
    rewrite E. cbn [bind]. apply IH. intros; apply H; cbn; auto.
  Qed.

  Lemma ls_deconv_total offs las :
    (forall off la, In off offs -> In la las -> exists r inp, nn signal response off la = Ok (r, inp)) ->
    exists out, ls_deconv F inf ltb nn signal response offs las = Ok out.
  Proof.
    intros H. unfold ls_deconv. destruct (ls_outer_total offs las (inf, []) H) as [b E]. rewrite E. cbn [bind]. eauto.
  Qed.
End LsTotal.

Lemma ls_deconv_f_total (response : list float) (offs las : list nat) :
  response_windows_ok response offs las ->
  forall signal, exists out, ls_deconv_f signal response offs las = Ok out.
Proof.
  intros R signal. apply ls_deconv_total. intros off la Ho Hl.
  destruct (R off la Ho Hl) as (rwin & S & Ng & L1).
  destruct (deconv_lengths_lemma float 0%float neg_zero PrimFloat.add PrimFloat.sub PrimFloat.mul PrimFloat.div
              f_min f_neg f_nonneg signal response off la) as (_ & _ & T & _).
  exact (T rwin S Ng L1).
Qed.

(* (5) binary64: every hypothesis that remains is in the statement *)
Lemma avalanches_f64_total_lemma (zf : N -> float -> float -> float -> float)
      (solve : nat -> list (list float) -> list (list float)) (wire_response pad_response : list float)
      (sortW : list (N * float) -> list (N * float)) (sortP : list (float * float) -> list (float * float))
      (ev : main_event (list float)) :
  faer_shape solve ->
  response_windows_ok wire_response (range_incl 0 1) (range_incl 3 12) ->
  response_windows_ok pad_response (range_incl 3 5) (range_incl 7 12) ->
  event_shape ev ->
  (exists avs, avalanches_res_f64 zf solve wire_response pad_response sortW sortP (wire_signals ev) (pad_signals ev)
               = Ok avs) /\
  avalanches_res_f64 zf solve wire_response pad_response sortW sortP (wire_signals ev) (pad_signals ev) <> Panic /\
  timestamp_res ev = Ok (trigger_timestamp ev).
Proof.
  intros F RW RP S.
  destruct (avalanches_total_lemma (list float) float float 0%float fpos fgt f_pcmp zf (@length float) solve
              (fun c => wire_deconv_f c wire_response) (fun s => pad_deconv_f s pad_response) sortW sortP
              f64_num ev F) as [E T]; auto.
  - intros c. apply (ls_deconv_f_total _ _ _ RW).
  - intros s. apply (ls_deconv_f_total _ _ _ RP).
  - apply f64_cmp_laws.
  - unfold avalanches_res_f64. rewrite E. split. eauto. split. discriminate. exact T.
Qed.

(* ---------------------------------------------------------------- the hypotheses are satisfiable; sharpness *)
(* identity cross-talk: every signal zero-padded to the block's length i (what the real solve does for A = 1) *)
Definition solve_pad (i : nat) (sigs : list (list float)) : list (list float) :=
  map (fun s => firstn i s ++ repeat 0%float (i - length s)) sigs.
Lemma solve_pad_shape : faer_shape solve_pad.
Proof.
  intros i sigs. unfold solve_pad. split. apply map_length.
  apply Forall_forall. intros c Hc. apply in_map_iff in Hc as (x & <- & _).
  rewrite app_length, firstn_length, repeat_length. lia.
Qed.

Definition resp18m : list float := repeat (-1)%float 18.
Ltac solve_windows :=
  intros off la Ho Hl; cbn in Ho, Hl;
  repeat (destruct Ho as [<-|Ho]; [|try (exfalso; exact Ho)]);
  repeat (destruct Hl as [<-|Hl]; [|try (exfalso; exact Hl)]);
  (eexists; split; [vm_compute; reflexivity|split; [vm_compute; reflexivity|lia]]).
Lemma resp18m_wire : response_windows_ok resp18m (range_incl 0 1) (range_incl 3 12).
Proof. solve_windows. Qed.
Lemma resp18m_pad : response_windows_ok resp18m (range_incl 3 5) (range_incl 7 12).
Proof. solve_windows. Qed.

(* a small event: wire 100 (pad column 11) carries a response-shaped pulse of amplitude 3 starting at sample 1,
   pads (11, 299..301) carry pulses 2 / 4 / 2 *)
Definition ex_pulse (k : nat) (a : float) (n : nat) : list float :=
  repeat 0%float k ++ repeat (PrimFloat.opp a) 18 ++ repeat 0%float (n - k - 18).
Definition ex_ws : list (option (list float)) :=
  map (fun i => if i =? 100 then Some (ex_pulse 1 3 24) else None) (Nseq 0 NW).
Definition ex_pads : list (list (option (list float))) :=
  map (fun c => map (fun r => if (c =? 11) && (r =? 299) then Some (ex_pulse 4 2 28)
                              else if (c =? 11) && (r =? 300) then Some (ex_pulse 4 4 28)
                              else if (c =? 11) && (r =? 301) then Some (ex_pulse 4 2 28) else None)
                   (Nseq 0 NROWS)) (Nseq 0 NCOLS).
Definition ex_event : main_event (list float) := MainEvent _ ex_ws ex_pads 12345.
Definition ex_zf (r : N) (f m l : float) : float := m.
Definition ex_run (ws : list (option (list float))) (pads : list (list (option (list float)))) :=
  avalanches_res_f64 ex_zf solve_pad resp18m resp18m (isort (lessW fgt)) (isort (lessP fgt)) ws pads.
Lemma ex_event_shape : event_shape ex_event.
Proof.
  split; [|split]; cbn [wire_signals pad_signals ex_event].
  - unfold ex_ws. rewrite map_length, Nseq_length. lia.
  - unfold ex_pads. rewrite map_length, Nseq_length. lia.
  - apply Forall_forall. intros col Hc. unfold ex_pads in Hc. apply in_map_iff in Hc as (c & <- & _).
    rewrite map_length, Nseq_length. lia.
Qed.

(* ---------------------------------------------------------------- vertex(): the wrapper (lib.rs:394-406) *)
From AG Require Recon.Cluster Recon.Cluster_proofs Recon.Fit Recon.Fit_proofs.

Lemma ok_filter_total {X Y} (f : X -> res Y) l : (forall x, In x l -> f x <> Panic) ->
  exists ys, ok_filter f l = Ok ys /\ forall y, In y ys -> exists x, In x l /\ f x = Ok y.
Proof.
  induction l as [|a l IH]; cbn [ok_filter]; intros H.
  - exists []. split; auto. intros y [].
  - destruct IH as (ys & E & Hy). { intros; apply H; cbn; auto. }
    destruct (f a) as [y0|k|] eqn:Ef.
    + rewrite E. cbn [bind]. exists (y0 :: ys). split; auto.
      intros y [<-|Hin]. exists a; cbn; auto. destruct (Hy y Hin) as (x & ? & ?). exists x; cbn; auto.
    + exists ys. split; auto. intros y Hin. destruct (Hy y Hin) as (x & ? & ?). exists x; cbn; auto.
    + exfalso. apply (H a); cbn; auto.
Qed.

Section VertexWrapper.
  Context {A SP TR V : Type}.
  Variable sp_of : A -> res SP.
  Variable cluster : list SP -> res (list (list SP) * list SP).
  Variable fit : list SP -> res TR.
  Variable find : list TR -> res (option V * list TR).
  Variable Pc : list SP -> Prop.     (* what clustering guarantees of a cluster and the fit needs *)

  (* the hypotheses on the fit and on find_vertices are needed only of the clusters / the track list that THIS avalanche
     list leads to *)
  Theorem vertex_res_total_rel avs :
    (forall a, In a avs -> sp_of a <> Panic) ->
    (forall pts, exists cl rem, cluster pts = Ok (cl, rem) /\ forall c, In c cl -> Pc c) ->
    (forall cl c, vertex_clusters sp_of cluster avs = Ok cl -> In c cl -> Pc c -> fit c <> Panic) ->
    (forall trs, vertex_tracks sp_of cluster fit avs = Ok trs -> exists r, find trs = Ok r) ->
    exists v, vertex_res sp_of cluster fit find (Ok avs) = Ok v.
  Proof.
    intros HS HC HF HV. unfold vertex_res, vertex_tracks, vertex_clusters in *. cbn [bind].
    destruct (ok_filter_total sp_of avs HS) as (pts & E1 & _). rewrite E1 in *. cbn [bind] in *.
    destruct (HC pts) as (cl & rem & E2 & Hcl). rewrite E2 in *. cbn [bind] in *.
    destruct (ok_filter_total fit cl) as (trs & E3 & _). { intros c Hc. apply (HF cl c eq_refl Hc), Hcl, Hc. }
    rewrite E3 in *. cbn [bind]. destruct (HV trs eq_refl) as ([v rest] & ->). cbn [bind]. eauto.
  Qed.

  Theorem vertex_res_total avs :
    (forall a, In a avs -> sp_of a <> Panic) ->
    (forall pts, exists cl rem, cluster pts = Ok (cl, rem) /\ forall c, In c cl -> Pc c) ->
    (forall c, Pc c -> fit c <> Panic) ->
    (forall trs, exists r, find trs = Ok r) ->
    exists v, vertex_res sp_of cluster fit find (Ok avs) = Ok v.
  Proof. intros HS HC HF HV. apply vertex_res_total_rel; auto. Qed.
End VertexWrapper.

(* (6) conditional: the stages are the models of C15 (cluster_spacepoints_pub over equality classes of points) and
   C14 (fit_cluster_to_helix, find_vertices) with the optimiser as an interaction tree (Fit.strategy: ftree for the track
   fit, vtree for the vertex fit).  The numeric hypotheses are those of C14_fit_skeleton_total / C14_vertex_skeleton_total
   in their evaluated-vector forms, and they are asked only of the clusters (vertex_clusters) and of the track list
   (vertex_tracks) this avalanche list leads to. *)
Lemma vertex_total_partial_lemma :
  forall (A F vpoint : Type) (sp_of : A -> res Cluster.point)
    (bins : Cluster.point -> list Cluster.bin) (near : Cluster.point -> Cluster.point -> bool)
    (p_r p_x p_y : Cluster.point -> F) (flt feq : F -> F -> bool)
    (fcmp : F -> F -> option comparison) (fnan : F -> bool) (fadd fsub fmul : F -> F -> F)
    (fhalf fabs : F -> F) (fzero : F)
    (guess6 : list Cluster.point -> Cluster.point -> Cluster.point -> Cluster.point -> list F) (bump : F -> F)
    (point_val closest : list F -> Cluster.point -> F)
    (ftree vtree : list (list F) -> Fit.strategy F) (good : F -> Prop) (sd_tol_ok : bool)
    (teq : Fit.track F -> Fit.track F -> bool) (t_zb t_rad : Fit.track F -> F) (is_primary : Fit.track F -> bool)
    (close_z : F -> F -> bool) (sumF : list F -> F) (mean_z : list (Fit.track F) -> F)
    (sortP : list (Fit.track F) -> list (Fit.track F)) (vpoint_of : list F -> vpoint)
    (vcost_val : list (Fit.track F) -> list F -> Fit.track F -> F) (vguess : F -> list F)
    (tclosest : Fit.track F -> vpoint -> F),
  let cluster := Cluster.cluster_spacepoints_pub bins near in
  let cost := Fit.cost F Cluster.point fnan fadd fzero point_val in
  let fit_simplex := Fit.fit_simplex F Cluster.point p_r p_x p_y flt feq fcmp fadd fsub fmul fhalf fabs guess6 bump in
  let fit := Fit.fit_cluster_to_helix F Cluster.point p_r p_x p_y flt feq fcmp fnan fadd fsub fmul fhalf fabs fzero
               guess6 bump point_val closest (fun c s => Fit.run_strategy c (ftree s)) sd_tol_ok in
  let vcost := Fit.vcost F fnan fadd fzero (Fit.track F) vcost_val in
  let beamline_clusters := Fit.beamline_clusters F fcmp (Fit.track F) t_zb close_z mean_z sortP in
  let vertex_best := Fit.vertex_best F fcmp (Fit.track F) t_zb t_rad is_primary close_z sumF mean_z sortP in
  let find := Fit.find_vertices F vpoint fcmp fnan fadd fzero bump (fun c s => Fit.run_strategy c (vtree s)) sd_tol_ok
                (Fit.track F) teq t_zb t_rad is_primary close_z sumF mean_z sortP vpoint_of vcost_val vguess tclosest in
  (* C15 *) (forall p, NoDup (bins p)) ->
  (* N1 *) (forall x y, fnan x = false -> fnan y = false -> fcmp x y <> None) ->
  sd_tol_ok = true ->
  (* std *) (forall l, Permutation (sortP l) l) ->
  (forall a b, teq a b = true -> teq b a = true) ->
  (forall a b c, teq a b = true -> teq b c = true -> teq a c = true) ->
  forall avs : list A,
  (* Z1 *) (forall a, In a avs -> sp_of a <> Panic) ->
  (* N2 *) (forall cl c, vertex_clusters sp_of cluster avs = Ok cl -> In c cl ->
              forall a b p, In a c -> In b c -> In p c ->
              fnan (Fit.dev F Cluster.point p_r fsub fabs (fhalf (fadd (p_r a) (p_r b))) p) = false) ->
  (* N3e *) (forall cl c, vertex_clusters sp_of cluster avs = Ok cl -> In c cl ->
              forall s, fit_simplex c = Ok s ->
              forall p, In p (Fit.asked (cost c) (ftree s)) -> exists y, cost c p = Ok y /\ good y) ->
  (* N4e *) (forall cl c, vertex_clusters sp_of cluster avs = Ok cl -> In c cl ->
              forall s, fit_simplex c = Ok s -> Fit.wf_strategy good 6 [] (ftree s)) ->
  (* V1 *) (forall trs, vertex_tracks sp_of cluster fit avs = Ok trs ->
              forall a b, In a trs -> In b trs -> fcmp (t_zb a) (t_zb b) <> None) ->
  (* V2bc *) (forall trs, vertex_tracks sp_of cluster fit avs = Ok trs ->
              forall bc a b, beamline_clusters (filter is_primary trs) = Ok bc -> In a bc -> In b bc ->
              fcmp (sumF (map t_rad (fst a))) (sumF (map t_rad (fst b))) <> None) ->
  (* V3e *) (forall trs, vertex_tracks sp_of cluster fit avs = Ok trs ->
              forall ts mz s, vertex_best trs = Ok (Some (ts, mz)) -> Fit.initial_simplex F bump (vguess mz) = Ok s ->
              forall p, In p (Fit.asked (vcost ts) (vtree s)) -> exists y, vcost ts p = Ok y /\ good y) ->
  (* V4e *) (forall trs, vertex_tracks sp_of cluster fit avs = Ok trs ->
              forall ts mz s, vertex_best trs = Ok (Some (ts, mz)) -> Fit.initial_simplex F bump (vguess mz) = Ok s ->
              Fit.wf_strategy good 3 [] (vtree s)) ->
  (* V5 *) (forall trs, vertex_tracks sp_of cluster fit avs = Ok trs -> forall t, In t trs -> teq t t = true) ->
  exists v, vertex_res sp_of cluster fit find (Ok avs) = Ok v.
Proof.
  intros A F vpoint sp_of bins near p_r p_x p_y flt feq fcmp fnan fadd fsub fmul fhalf fabs fzero guess6 bump
         point_val closest ftree vtree good sd_tol_ok teq t_zb t_rad is_primary close_z sumF mean_z sortP vpoint_of
         vcost_val vguess tclosest cluster cost fit_simplex fit vcost beamline_clusters vertex_best find
         HB N1 SD ST S T avs Z1 N2 N3 N4 V1 V2 V3 V4 V5.
  apply (vertex_res_total_rel sp_of cluster fit find (fun c => (13 <= length c)%nat)); auto.
  - intros pts. destruct (Cluster_proofs.cluster_pub_lemma bins near HB pts) as (cl & rem & E & _ & H).
    exists cl, rem. split; auto. intros c Hc. apply H, Hc.
  - intros cl c Hcl Hc L13.
    apply (Fit_proofs.fit_skeleton_total_evaluated_lemma F Cluster.point p_r p_x p_y flt feq fcmp fnan fadd fsub fmul
             fhalf fabs fzero guess6 bump point_val closest ftree good sd_tol_ok c); auto.
    + exact (N2 cl c Hcl Hc).
    + exact (N3 cl c Hcl Hc).
    + exact (N4 cl c Hcl Hc).
    + lia.
  - intros trs Htr.
    apply (Fit_proofs.vertex_skeleton_total_evaluated_bc_lemma F vpoint fcmp fnan fadd fzero bump vtree good sd_tol_ok
             (Fit.track F) teq t_zb t_rad is_primary close_z sumF mean_z sortP vpoint_of vcost_val vguess tclosest trs);
      auto.
    + exact (V1 trs Htr).
    + exact (V3 trs Htr).
    + exact (V4 trs Htr).
    + exact (V5 trs Htr).
    + exact (V2 trs Htr).
Qed.

(* the table fact in the form the harness measures it (rel17table): bins lo..hi of the response exist and are
   negative, and every window of the grid lies inside lo..hi *)
Lemma windows_from_table (response : list float) (lo hi : nat) (offs las : list nat) :
  (hi <= length response)%nat ->
  (forall k, (lo <= k < hi)%nat -> f_neg (nth k response 0%float) = true) ->
  (forall off la, In off offs -> In la las -> (lo <= off /\ off + la <= hi /\ 1 <= la)%nat) ->
  response_windows_ok response offs las.
Proof.
  intros Hlen Hneg Hgrid off la Ho Hl. destruct (Hgrid off la Ho Hl) as (G1 & G2 & G3).
  exists (firstn la (skipn off response)). split; [|split; auto].
  - apply slice_some_iff. split; auto. lia.
  - apply forallb_forall. intros x Hx. apply In_nth_error in Hx as (k & Hk).
    assert (Hk' : (k < la)%nat).
    { assert (X : nth_error (firstn la (skipn off response)) k <> None) by congruence.
      apply nth_error_Some in X. rewrite firstn_length in X. lia. }
    rewrite Ring_proofs.nth_error_firstn, Ring_proofs.nth_error_skipn in Hk by auto.
    rewrite <- (nth_error_nth _ _ 0%float Hk). apply Hneg. lia.
Qed.

Lemma wire_windows_from_table (response : list float) :
  (13 <= length response)%nat -> (forall k, (k < 13)%nat -> f_neg (nth k response 0%float) = true) ->
  response_windows_ok response (range_incl 0 1) (range_incl 3 12).
Proof.
  intros L H. apply (windows_from_table response 0 13); auto. intros; apply H; lia.
  intros off la Ho Hl. unfold range_incl in *. apply in_seq in Ho, Hl. lia.
Qed.
Lemma pad_windows_from_table (response : list float) :
  (17 <= length response)%nat -> (forall k, (3 <= k < 17)%nat -> f_neg (nth k response 0%float) = true) ->
  response_windows_ok response (range_incl 3 5) (range_incl 7 12).
Proof.
  intros L H. apply (windows_from_table response 3 17); auto.
  intros off la Ho Hl. unfold range_incl in *. apply in_seq in Ho, Hl. lia.
Qed.
