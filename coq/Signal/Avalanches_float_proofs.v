(* C13 — the mirror theorem on the EXECUTABLE binary64 skeleton (Signal/Avalanches.v: avalanches_f, avalanches_s).

   1. `>` of binary64 restricted to hit amplitudes (values exceeding a neighbour that is > 0.0: positive, not
      NaN, not a zero) is a strict total order: fgt_total_hit, fgt_asym, fgt_negtrans_hit.  Proved from the
      standard library's FloatAxioms (ltb_spec, Prim2SF_inj) by case analysis on SpecFloat.SFcompare.
   2. The stable insertion sort is sorted on lists of such values (it is not on lists containing NaN).
   3. The skeleton is parametric in the centroid: avalanches_f zf = map (eval zf) avalanches_s, where
      avalanches_s leaves z symbolic, z = (row, first, middle, last).
   4. Mirror theorem for the symbolic skeleton (zmir reflects the row and swaps first/last: antisymmetry is
      exact there) and its corollary for avalanches_f.
   5. Witness of the class centroid_ill_conditioned (F11) on PrimFloat, without libm. *)
From Coq Require Import Floats ZArith Lia Permutation Sorted.
From AG Require Import Base.Prelude Signal.Ring Signal.Ring_proofs Signal.Avalanches Signal.Avalanches_proofs.

(* ---------------------------------------------------------------- 1. the order on hit amplitudes *)
Definition spos (s : spec_float) : Prop :=
  match s with S754_infinity false | S754_finite false _ _ => True | _ => False end.

Lemma SFltb_zero_pos f : SFltb (S754_zero false) f = true -> spos f.
Proof. destruct f as [s|s| |s m e]; try destruct s; cbn; try discriminate; auto. Qed.

Lemma SFltb_pos_up f a : spos f -> SFltb f a = true -> spos a.
Proof.
  destruct f as [s|s| |s m e]; try destruct s; cbn; try contradiction; intros _;
    destruct a as [s'|s'| |s' m' e']; try destruct s'; cbn; try discriminate; auto.
Qed.

(* a <= b on positive spec floats (valid representations compare by exponent, then mantissa) *)
Definition sle (a b : spec_float) : Prop :=
  match a, b with
  | _, S754_infinity false => True
  | S754_finite false m1 e1, S754_finite false m2 e2 => (e1 < e2 \/ (e1 = e2 /\ Zpos m1 <= Zpos m2))%Z
  | _, _ => False
  end.

Lemma SFltb_false_sle a b : spos a -> spos b -> (SFltb b a = false <-> sle a b).
Proof.
  destruct a as [s|s| |s m1 e1]; try destruct s; cbn [spos]; try contradiction; intros _;
    destruct b as [s|s| |s m2 e2]; try destruct s; cbn [spos]; try contradiction; intros _;
    unfold SFltb, SFcompare, sle; try (split; [auto|reflexivity]); try (split; [discriminate|contradiction]).
  change (Pos.compare_cont Eq m2 m1) with (Pos.compare m2 m1).
  destruct (Z.compare_spec e2 e1); [destruct (Pos.compare_spec m2 m1)|..];
    split; intros; try discriminate; try reflexivity; lia.
Qed.

Lemma sle_trans a b c : spos a -> spos b -> spos c -> sle a b -> sle b c -> sle a c.
Proof.
  destruct a as [s|s| |s m1 e1]; try destruct s; cbn [spos]; try contradiction; intros _;
    destruct b as [s|s| |s m2 e2]; try destruct s; cbn [spos]; try contradiction; intros _;
    destruct c as [s|s| |s m3 e3]; try destruct s; cbn [spos]; try contradiction; intros _;
    unfold sle; auto; try contradiction; lia.
Qed.

Lemma sle_antisym a b : spos a -> spos b -> sle a b -> sle b a -> a = b.
Proof.
  destruct a as [s|s| |s m1 e1]; try destruct s; cbn [spos]; try contradiction; intros _;
    destruct b as [s|s| |s m2 e2]; try destruct s; cbn [spos]; try contradiction; intros _;
    unfold sle; auto; try contradiction.
  intros H1 H2. assert (e1 = e2 /\ m1 = m2) as (-> & ->) by lia. reflexivity.
Qed.

Lemma sle_total a b : spos a -> spos b -> sle a b \/ sle b a.
Proof.
  destruct a as [s|s| |s m1 e1]; try destruct s; cbn [spos]; try contradiction; intros _;
    destruct b as [s|s| |s m2 e2]; try destruct s; cbn [spos]; try contradiction; intros _;
    unfold sle; auto. lia.
Qed.

(* hit amplitudes of the binary64 instance *)
Notation fhit := (hit_amp fpos fgt).

Lemma fhit_spos a : fhit a -> spos (Prim2SF a).
Proof.
  intros (f & Hf & Ha). unfold fpos, fgt in *. rewrite ltb_spec in Hf, Ha.
  eapply SFltb_pos_up; [|exact Ha]. apply SFltb_zero_pos. exact Hf.
Qed.

Lemma fgt_false_sle a b : fhit a -> fhit b -> (fgt a b = false <-> sle (Prim2SF a) (Prim2SF b)).
Proof. intros Ha Hb. unfold fgt. rewrite ltb_spec. apply SFltb_false_sle; now apply fhit_spos. Qed.

(* comparability premise of the mirror theorem, for binary64 *)
Lemma fgt_total_hit a b : fhit a -> fhit b -> a <> b -> fgt a b = true \/ fgt b a = true.
Proof.
  intros Ha Hb Hne.
  destruct (fgt a b) eqn:E1; auto. destruct (fgt b a) eqn:E2; auto. exfalso. apply Hne.
  apply Prim2SF_inj. apply sle_antisym; try now apply fhit_spos.
  - now apply fgt_false_sle.
  - now apply fgt_false_sle.
Qed.

Lemma fgt_asym_hit a b : fhit a -> fhit b -> fgt a b = true -> fgt b a = false.
Proof.
  intros Ha Hb H. destruct (fgt b a) eqn:E; auto. exfalso.
  destruct (sle_total (Prim2SF a) (Prim2SF b)) as [S|S]; try now apply fhit_spos.
  - apply (fgt_false_sle a b Ha Hb) in S. congruence.
  - apply (fgt_false_sle b a Hb Ha) in S. congruence.
Qed.

Lemma fgt_negtrans_hit a b c : fhit a -> fhit b -> fhit c ->
  fgt b a = false -> fgt c b = false -> fgt c a = false.
Proof.
  intros Ha Hb Hc H1 H2. apply (fgt_false_sle c a Hc Ha).
  apply (fgt_false_sle b a Hb Ha) in H1. apply (fgt_false_sle c b Hc Hb) in H2.
  eapply sle_trans; eauto; now apply fhit_spos.
Qed.

(* the unrestricted premise of the earlier statement is FALSE for binary64 (NaN is not comparable) *)
Lemma fgt_total_unrestricted_false :
  ~ (forall a b : float, a <> b -> fgt a b = true \/ fgt b a = true).
Proof.
  intro H. destruct (H nan 1%float) as [E|E].
  - intro E. apply (f_equal (fun x => PrimFloat.eqb x x)) in E. vm_compute in E. discriminate.
  - vm_compute in E. discriminate.
  - vm_compute in E. discriminate.
Qed.

(* ---------------------------------------------------------------- 2. insertion sort on a good domain *)
Section IsortOn.
  Context {A : Type} (less : A -> A -> bool) (good : A -> Prop).
  Hypothesis less_asym : forall a b, good a -> good b -> less a b = true -> less b a = false.
  Hypothesis less_negtrans : forall a b c, good a -> good b -> good c ->
    less b a = false -> less c b = false -> less c a = false.

  Lemma insert_sorted_on x l : good x -> Forall good l ->
    StronglySorted (desc less) l -> StronglySorted (desc less) (insert less x l).
  Proof.
    intros Gx Gl S. induction S as [|y t S IH F]; cbn. repeat constructor.
    assert (Gy : good y) by (inversion Gl; auto).
    assert (Gt : Forall good t) by (inversion Gl; auto).
    destruct (less y x) eqn:E.
    - constructor; auto. rewrite Forall_forall in *. intros z Hz.
      apply (Permutation_in _ (insert_perm less x t)) in Hz. destruct Hz as [<-|Hz].
      apply less_asym; auto. apply F; auto.
    - constructor. constructor; auto. constructor; auto.
      rewrite Forall_forall in *. intros z Hz. unfold desc in *. eapply (less_negtrans x y z); eauto.
  Qed.

  Lemma isort_sorted_on l : Forall good l -> StronglySorted (desc less) (isort less l).
  Proof.
    unfold isort. induction l as [|x l IH]; cbn [fold_right]; intros G. constructor.
    apply insert_sorted_on.
    - inversion G; auto.
    - eapply Permutation_Forall. apply Permutation_sym, (isort_perm less). inversion G; auto.
    - apply IH. inversion G; auto.
  Qed.
End IsortOn.

Lemma isortP_sorted_f {zt} (l : list (zt * float)) :
  hitsP fpos fgt l -> StronglySorted (descP fgt) (isort (lessP fgt) l).
Proof.
  intros H. apply (isort_sorted_on (lessP fgt) (fun h : zt * float => fhit (snd h))); auto.
  - intros a b Ga Gb. unfold lessP. apply fgt_asym_hit; auto.
  - intros a b c Ga Gb Gc. unfold lessP. apply fgt_negtrans_hit; auto.
Qed.

Lemma float_hit_amplitudes_ordered_lemma :
  (forall a b : float, fhit a -> fhit b -> a <> b -> fgt a b = true \/ fgt b a = true) /\
  (forall (zt : Type) (l : list (zt * float)),
     hitsP fpos fgt l -> StronglySorted (descP fgt) (isort (lessP fgt) l)).
Proof. split. exact fgt_total_hit. intros zt l. apply isortP_sorted_f. Qed.

(* ---------------------------------------------------------------- 3. the skeleton is parametric in the centroid *)
Section ZParam.
  Context {sig amp zt zt' : Type}.
  Variable azero : amp.
  Variable apos : amp -> bool.
  Variable agt : amp -> amp -> bool.
  Variable zf : N -> amp -> amp -> amp -> zt.
  Variable D : list sig -> list (list amp).
  Variable P : sig -> list amp.
  Variable sortW : list (N * amp) -> list (N * amp).
  Variable sortP : list (zt * amp) -> list (zt * amp).
  Variable sortP' : list (zt' * amp) -> list (zt' * amp).
  Variable h : zt -> zt'.
  Notation gh := (fun p : zt * amp => (h (fst p), snd p)).
  Notation zf' := (fun r f m l => h (zf r f m l)).
  Hypothesis sortP_param : forall l, sortP' (map gh l) = map gh (sortP l).

  Lemma pad_loop_param rows : forall row first middle t,
    pad_loop azero apos agt zf' rows row first middle t
    = map gh (pad_loop azero apos agt zf rows row first middle t).
  Proof.
    induction rows as [|input rest IH]; intros; cbn [pad_loop]; auto.
    rewrite IH, map_app. f_equal.
    destruct (apos first && apos (at_t azero input t) && agt middle first && agt middle (at_t azero input t));
      reflexivity.
  Qed.

  Lemma pad_hits_param col t :
    pad_hits_at_t azero apos agt zf' col t = map gh (pad_hits_at_t azero apos agt zf col t).
  Proof. destruct col as [|r0 [|r1 rest]]; auto. apply pad_loop_param. Qed.

  Lemma match_param idxs inputs pic :
    match_column_inputs azero apos agt zf' sortW sortP' idxs inputs pic
    = map (map_z h) (match_column_inputs azero apos agt zf sortW sortP idxs inputs pic).
  Proof.
    unfold match_column_inputs. rewrite map_flat_map. apply flat_map_ext. intros t.
    destruct (wire_hits_at_t apos idxs inputs t) as [|wh0 wh]; auto.
    rewrite pad_hits_param, sortP_param, (combine_map_r gh), !map_map. apply map_ext.
    intros [[w wa] [z pa]]. reflexivity.
  Qed.

  Lemma avalanches_param ws (pads : list (list (option sig))) :
    avalanches azero apos agt zf' D P sortW sortP' ws pads
    = map (map_z h) (avalanches azero apos agt zf D P sortW sortP ws pads).
  Proof.
    unfold avalanches. destruct (wire_stage D ws) as [wi bag].
    rewrite map_flat_map. apply flat_map_ext. intros c.
    unfold column_avalanches. destruct (pad_column_to_wires c) as [first last]. apply match_param.
  Qed.
End ZParam.

Lemma isortP_param {zt zt'} (h : zt -> zt') (l : list (zt * float)) :
  isort (lessP fgt) (map (fun p => (h (fst p), snd p)) l)
  = map (fun p => (h (fst p), snd p)) (isort (lessP fgt) l).
Proof. apply isort_param. reflexivity. Qed.

(* the skeleton the differential run replays = the symbolic skeleton with the centroid evaluated afterwards *)
Theorem avalanches_f_factor zf D P (ws : list (option N)) (pads : list (list (option N))) :
  avalanches_f zf D P ws pads = map (map_z (zeval zf)) (avalanches_s D P ws pads).
Proof.
  unfold avalanches_f, avalanches_s.
  rewrite <- (avalanches_param 0%float fpos fgt zf_sym D P (isort (lessW fgt))
                (isort (lessP fgt)) (isort (lessP fgt)) (zeval zf)).
  - reflexivity.
  - intros l. apply isortP_param.
Qed.

(* the amplitudes of the pad hits do not depend on the centroid: NoPadTie is the same statement for every zf *)
Lemma NoPadTie_zf_irrelevant (zf : N -> float -> float -> float -> float) P
      (pads : list (list (option N))) :
  NoPadTie 0%float fpos fgt zf P pads <-> NoPadTie 0%float fpos fgt zf_sym P pads.
Proof.
  unfold NoPadTie. split; intros H c t; specialize (H c t).
  - rewrite (pad_hits_param 0%float fpos fgt zf_sym (zeval zf)) in H. rewrite map_map in H. exact H.
  - rewrite (pad_hits_param 0%float fpos fgt zf_sym (zeval zf)). rewrite map_map. exact H.
Qed.

(* ---------------------------------------------------------------- 4. mirror theorem, executable binary64 skeleton *)
Lemma zf_sym_antisym r f m l : r <= 575 -> zf_sym (575 - r) l m f = zmir (zf_sym r f m l).
Proof. intros _. reflexivity. Qed.

Theorem mirror_equivariant_s_lemma D P (ws : list (option N)) (pads : list (list (option N))) :
  Forall (fun col => N.of_nat (length col) = NROWS) pads ->
  NoPadTie 0%float fpos fgt zf_sym P pads ->
  avalanches_s D P ws (mirror pads) = map (map_z zmir) (avalanches_s D P ws pads).
Proof.
  intros Hrows Hnt. unfold avalanches_s.
  apply (mirror_equivariant_lemma 0%float fpos fgt zf_sym D P (isort (lessW fgt)) (isort (lessP fgt)) zmir).
  - intros r f m l _. reflexivity.
  - exact fgt_total_hit.
  - intros l. apply isort_perm.
  - intros l. apply isortP_sorted_f.
  - exact Hrows.
  - exact Hnt.
Qed.

(* every avalanche of the mirrored event is the avalanche of the event with the same wire, time bin and
   amplitudes, in the same order, whose z is the centroid evaluated on the reflected row and the swapped
   neighbours: zf (575 - row) last middle first  instead of  zf row first middle last *)
Theorem mirror_equivariant_f_lemma zf D P (ws : list (option N)) (pads : list (list (option N))) :
  Forall (fun col => N.of_nat (length col) = NROWS) pads ->
  NoPadTie 0%float fpos fgt zf P pads ->
  avalanches_f zf D P ws (mirror pads)
  = map (map_z (fun z => zeval zf (zmir z))) (avalanches_s D P ws pads).
Proof.
  intros Hrows Hnt. rewrite avalanches_f_factor, mirror_equivariant_s_lemma; auto.
  - rewrite map_map. apply map_ext. intros a. reflexivity.
  - apply (NoPadTie_zf_irrelevant zf). exact Hnt.
Qed.

(* ---------------------------------------------------------------- 5. class centroid_ill_conditioned: witness *)
(* The deconvolved pad amplitudes (first, middle, last) = 404e7a2fe56b7cee, ..7cfa, ..7cf1 (about 60.95, three
   and nine ulp apart) of the pad hit at row 366, time bin 20 of
     relkf-illcond n80/w94+15/h100@20*4059000000000000/p11.365@19*406613422ca69c26,11.366@19*406613422ca69c2c,11.367@19*406613422ca69c28
   (corpus/C13/illcond.case): the implementation gives z = +0.3143636... m, for the mirrored event
   -0.3142727... m, 9.09e-5 m apart from antisymmetry.

   WHERE THE ASYMMETRY COMES FROM (matching.rs:82-84):
     z = z_row + (sigma^2 / (2 w)) * ln (last / first),  sigma^2 = w^2 / ln (middle^2 / (first * last)).
   * first * last is commutative in binary64, so sigma^2 is BIT-IDENTICAL in both orientations; here
     middle^2 / (first * last) = 1 + 11 * 2^-52, ln of it = 11 * 2^-52 (2.4e-15).
   * the two other logarithm arguments are rounded INDEPENDENTLY: last / first = 1 + 1.57 * 2^-52 lies above 1,
     where binary64 has spacing 2^-52, and rounds to q1 = 1 + 2 * 2^-52; first / last = 1 - 3.15 * 2^-53 lies
     below 1, where the spacing is 2^-53, and rounds to q2 = 1 - 3 * 2^-53.  q1 * q2 <> 1 exactly (lemma below),
     so ln q1 + ln q2 = ln (q1 q2) <> 0 for the exact logarithm: ln q1 = 4.44e-16, ln q2 = -3.33e-16.  Near 1 the
     RELATIVE rounding error of a quotient (<= 2^-53) is an ABSOLUTE error of its logarithm.
   * that absolute error is divided by ln (middle^2 / (first * last)):
       z + z' = (w / 2) * (ln q1 + ln q2) / ln (m^2 / (f l)) = 0.002 * (2 * 2^-52 - 3 * 2^-53) / (11 * 2^-52)
              = 0.002 / 22 = 9.09e-5 m,   exactly the measured discrepancy (libm's ln plays no role).
   In general |z + z'| <= 0.002 * 1.5 * 2^-53 / cond + 6e-16 m (cond = m^2/(f l) - 1), so 1e-9 m is guaranteed for
   cond >= 3.33e-10; measured on the implementation: failures up to cond = 2.22e-10, none above
   (120 000 events); THETA = 3.4e-10. *)
Definition w11_f : float := 0x1.e7a2fe56b7ceep+5%float.
Definition w11_m : float := 0x1.e7a2fe56b7cfap+5%float.
Definition w11_l : float := 0x1.e7a2fe56b7cf1p+5%float.

Lemma illcond_witness_lemma :
  (* a pad hit of matching.rs:80, in both orientations *)
  (fpos w11_f && fpos w11_l && fgt w11_m w11_f && fgt w11_m w11_l)%bool = true /\
  (* in the class *)
  PrimFloat.ltb (cond_number w11_f w11_m w11_l) THETA = true /\
  Prim2SF (w11_m * w11_m / (w11_f * w11_l)) = S754_finite false (2 ^ 52 + 11) (-52) /\
  (* sigma^2 is bit-identical in both orientations *)
  Prim2SF (w11_f * w11_l) = Prim2SF (w11_l * w11_f) /\
  (* the arguments of the second logarithm: q1 = 1 + 2 * 2^-52, q2 = 1 - 3 * 2^-53, not reciprocal *)
  Prim2SF (w11_l / w11_f) = S754_finite false (2 ^ 52 + 2) (-52) /\
  Prim2SF (w11_f / w11_l) = S754_finite false (2 ^ 53 - 3) (-53) /\
  ((2 ^ 52 + 2) * (2 ^ 53 - 3) <> 2 ^ 105)%Z.
Proof.
  repeat split; try (vm_compute; reflexivity). vm_compute. discriminate.
Qed.

(* the witness as an event-level member of the class: a column holding the three amplitudes in rows 365..367 *)
Definition w11_col : list (option N) :=
  map (fun r => if (r =? 365)%N then Some 1 else if (r =? 366)%N then Some 2 else if (r =? 367)%N then Some 3
                else None) (Nseq 0 NROWS).
Definition w11_P (id : N) : list float :=
  if (id =? 1)%N then [w11_f] else if (id =? 2)%N then [w11_m] else if (id =? 3)%N then [w11_l] else [].

Lemma illcond_witness_in_class : centroid_ill_conditioned w11_P [w11_col].
Proof.
  exists 0%nat, 0%nat, (366, w11_f, w11_m, w11_l), w11_m. split.
  - vm_compute. left. reflexivity.
  - vm_compute. reflexivity.
Qed.
