(* C13 — proofs about the ring of wires (Signal/Ring.v):
   - contiguous_ranges returns exactly the maximal cyclic blocks of present wires, each once
     (cr_in, cr_nodup), with pairwise disjoint index sets (cr_indices_nodup);
   - rotating the ring rotates the SET of blocks (cr_rot_perm; the order of the blocks may change);
   - the signals of a rotated block are the same list in the same order (block_sigs_rot);
   - with all 256 wires present the single block always starts at wire 0 (full_ring_cr). *)
From Coq Require Import Permutation.
From AG Require Import Base.Prelude Signal.Ring.

(* ---------------------------------------------------------------- lists *)
Lemma nth_error_skipn {A} (l : list A) n i : nth_error (skipn n l) i = nth_error l (n + i)%nat.
Proof. revert l; induction n; intros [|x l]; cbn; auto. now destruct i. Qed.

Lemma nth_error_firstn {A} (l : list A) n i : (i < n)%nat -> nth_error (firstn n l) i = nth_error l i.
Proof.
  revert l i; induction n; intros l i H. lia.
  destruct l; cbn. now destruct i. destruct i; cbn; auto. apply IHn; lia.
Qed.

Lemma nth_error_ext {A} (l1 l2 : list A) :
  (forall i, nth_error l1 i = nth_error l2 i) -> l1 = l2.
Proof.
  revert l2; induction l1; intros [|y l2] H; auto.
  - specialize (H O); discriminate.
  - specialize (H O); discriminate.
  - f_equal. specialize (H O); cbn in H; congruence.
    apply IHl1; intro i; exact (H (S i)).
Qed.

Lemma NoDup_map_in {A B} (f : A -> B) l :
  NoDup l -> (forall x y, In x l -> In y l -> f x = f y -> x = y) -> NoDup (map f l).
Proof.
  induction 1; intros Hi; cbn; constructor.
  - intro Hin. apply in_map_iff in Hin as (y & E & Hy).
    assert (y = x) by (apply Hi; cbn; auto). subst; auto.
  - apply IHNoDup; intros; apply Hi; cbn; auto.
Qed.

Lemma flat_map_map {A B C} (f : B -> list C) (g : A -> B) l :
  flat_map f (map g l) = flat_map (fun x => f (g x)) l.
Proof. induction l; cbn; congruence. Qed.

Lemma flat_map_ext_in {A B} (f g : A -> list B) l :
  (forall x, In x l -> f x = g x) -> flat_map f l = flat_map g l.
Proof. induction l; cbn; intros H; auto. rewrite H, IHl; auto. Qed.

Lemma map_flat_map {A B C} (f : B -> C) (g : A -> list B) l :
  map f (flat_map g l) = flat_map (fun x => map f (g x)) l.
Proof. induction l; cbn; auto. now rewrite map_app, IHl. Qed.

Lemma NoDup_app_intro {A} (l1 l2 : list A) :
  NoDup l1 -> NoDup l2 -> (forall x, In x l1 -> ~ In x l2) -> NoDup (l1 ++ l2).
Proof.
  induction 1; cbn; intros H2 Hd; auto.
  constructor.
  - rewrite in_app_iff. intros [Hi|Hi]; [auto|]. apply (Hd x); cbn; auto.
  - apply IHNoDup; auto; intros y Hy; apply Hd; cbn; auto.
Qed.

(* ---------------------------------------------------------------- Nseq *)
Lemma Nseq_length a n : length (Nseq a n) = N.to_nat n.
Proof. unfold Nseq. now rewrite map_length, seq_length. Qed.

Lemma Nseq_in a n x : In x (Nseq a n) <-> a <= x < a + n.
Proof.
  unfold Nseq. rewrite in_map_iff. split.
  - intros (j & E & Hj). apply in_seq in Hj. lia.
  - intros H. exists (N.to_nat (x - a)). split. lia. apply in_seq. lia.
Qed.

Lemma Nseq_nth_error a n i : (i < N.to_nat n)%nat -> nth_error (Nseq a n) i = Some (a + N.of_nat i).
Proof.
  intros H. unfold Nseq. rewrite nth_error_map.
  rewrite (nth_error_nth' _ O) by (rewrite seq_length; auto).
  rewrite seq_nth by auto. reflexivity.
Qed.

Lemma Nseq_NoDup a n : NoDup (Nseq a n).
Proof.
  unfold Nseq. apply NoDup_map_in. apply seq_NoDup. intros; lia.
Qed.

Lemma seq_plus a b : seq a b = map (fun j => (a + j)%nat) (seq 0 b).
Proof.
  revert a; induction b; intros a; cbn [seq map]; auto.
  f_equal. lia. rewrite <- (seq_shift b 0), map_map, (IHb (S a)). apply map_ext; intros; lia.
Qed.

Lemma Nseq_app a n m : Nseq a (n + m) = Nseq a n ++ Nseq (a + n) m.
Proof.
  unfold Nseq. replace (N.to_nat (n + m)) with (N.to_nat n + N.to_nat m)%nat by lia.
  rewrite seq_app, map_app. f_equal. cbn [plus].
  rewrite seq_plus, map_map. apply map_ext; intros; lia.
Qed.

(* ---------------------------------------------------------------- the linear scan *)
Section RingProofs.
  Context {sig : Type}.
  Implicit Types ws : list (option sig).

  Definition wf ws : Prop := N.of_nat (length ws) = NW.
  Definition pres ws (i : N) : bool := is_some (get ws i).

  Lemma get_oob ws i : wf ws -> NW <= i -> get ws i = None.
  Proof.
    unfold wf, get; intros W H.
    replace (nth_error ws (N.to_nat i)) with (@None (option sig)); auto.
    symmetry; apply nth_error_None. lia.
  Qed.

  Lemma get_nth_error ws i : wf ws -> i < NW -> nth_error ws (N.to_nat i) = Some (get ws i).
  Proof.
    unfold wf, get; intros W H.
    destruct (nth_error ws (N.to_nat i)) eqn:E; auto.
    apply nth_error_None in E. lia.
  Qed.

  Lemma scan_end_ge fuel ws e : e <= scan_end fuel ws e.
  Proof.
    revert e; induction fuel; intros e; cbn [scan_end]. lia.
    case_if. specialize (IHfuel (e + 1)). lia. lia.
  Qed.

  Lemma scan_end_spec fuel ws e :
    e <= NW -> NW - e < N.of_nat fuel ->
    scan_end fuel ws e <= NW /\
    (forall j, e <= j < scan_end fuel ws e -> pres ws j = true) /\
    (scan_end fuel ws e = NW \/ pres ws (scan_end fuel ws e) = false).
  Proof.
    revert e; induction fuel; intros e H1 H2. lia.
    cbn [scan_end]. destruct ((e <? NW) && is_some (get ws e)) eqn:E.
    - apply andb_true_iff in E as [E1 E2].
      destruct (IHfuel (e + 1)) as (A & B & C); try lia.
      split; [exact A|]. split; [|exact C].
      intros j Hj. destruct (N.eq_dec j e) as [->|]. exact E2. apply B. lia.
    - split. lia. split. intros; lia.
      apply andb_false_iff in E as [E|E]. left; lia. right; exact E.
  Qed.

  Lemma ring_fuel_val : ring_fuel = S (N.to_nat 256).
  Proof. unfold ring_fuel. lia. Qed.

  Lemma scan_end_ring ws e :
    e <= NW ->
    scan_end ring_fuel ws e <= NW /\
    (forall j, e <= j < scan_end ring_fuel ws e -> pres ws j = true) /\
    (scan_end ring_fuel ws e = NW \/ pres ws (scan_end ring_fuel ws e) = false).
  Proof. intros H. apply scan_end_spec; auto. rewrite ring_fuel_val. unfold NW in *. lia. Qed.

  (* a maximal run of present wires in the linear array *)
  Definition linrun ws (a b : N) : Prop :=
    a < b /\ b <= NW /\ (forall j, a <= j < b -> pres ws j = true) /\
    (b = NW \/ pres ws b = false) /\ (a = 0 \/ pres ws (a - 1) = false).

  Definition startok ws (s : N) : Prop := s = 0 \/ NW <= s \/ pres ws (s - 1) = false.

  Lemma linrun_same_start ws a b b' : linrun ws a b -> linrun ws a b' -> b = b'.
  Proof.
    intros (A1 & A2 & A3 & A4 & _) (B1 & B2 & B3 & B4 & _).
    destruct (N.lt_trichotomy b b') as [L|[L|L]]; auto.
    - destruct A4 as [A4|A4]. lia. rewrite B3 in A4 by lia. discriminate.
    - destruct B4 as [B4|B4]. lia. rewrite A3 in B4 by lia. discriminate.
  Qed.

  Lemma scan_ranges_in fuel ws s :
    startok ws s -> NW + 1 - s <= N.of_nat fuel ->
    forall a b, In (a, b) (scan_ranges fuel ws s) <-> (s <= a /\ linrun ws a b).
  Proof.
    revert s; induction fuel; intros s Hs Hf a b.
    - cbn. split; [tauto|]. intros (H1 & H2 & H3 & _). lia.
    - cbn [scan_ranges]. destruct (s <? NW) eqn:E.
      2:{ cbn. split; [tauto|]. intros (H1 & H2 & H3 & _). lia. }
      assert (Hs' : s < NW) by lia.
      destruct (scan_end_ring ws s) as (E1 & E2 & E3). lia.
      pose proof (scan_end_ge ring_fuel ws s) as E0.
      set (e := scan_end ring_fuel ws s) in *.
      assert (Hok : startok ws (e + 1)).
      { destruct E3 as [E3|E3]. right; left; lia.
        right; right. now replace (e + 1 - 1) with e by lia. }
      rewrite in_app_iff, (IHfuel (e + 1) Hok) by lia.
      destruct (s <? e) eqn:Ese.
      + assert (R : linrun ws s e).
        { repeat split; auto. lia. destruct Hs as [Hs|[Hs|Hs]]; auto. lia. }
        split.
        * intros [[H|[]]|(H1 & H2)]. inversion H; subst. split; [lia|exact R].
          split; [lia|exact H2].
        * intros (H1 & H2). destruct (N.eq_dec a s) as [->|Hne].
          -- left; left. f_equal. eapply linrun_same_start; eauto.
          -- right. split; auto.
             destruct H2 as (A1 & A2 & A3 & A4 & A5).
             destruct (N.le_gt_cases a e) as [L|L]; [|lia].
             exfalso. destruct A5 as [A5|A5]. lia.
             rewrite E2 in A5 by lia. discriminate.
      + assert (e = s) by lia.
        split.
        * intros [[]|(H1 & H2)]. split; [lia|exact H2].
        * intros (H1 & H2). right. split; auto.
          destruct (N.eq_dec a s) as [->|Hne]; [|lia].
          exfalso. destruct H2 as (A1 & A2 & A3 & _).
          destruct E3 as [E3|E3]. lia. rewrite H, A3 in E3 by lia. discriminate.
  Qed.

  (* the pushed ranges are ordered and separated *)
  Inductive chain : N -> list (N * N) -> Prop :=
  | chain_nil lo : chain lo []
  | chain_cons lo a b t : lo <= a -> a < b -> chain (b + 1) t -> chain lo ((a, b) :: t).

  Lemma chain_weaken lo lo' l : chain lo l -> lo' <= lo -> chain lo' l.
  Proof. intros H L; inversion H; subst; constructor; auto; lia. Qed.

  Lemma scan_ranges_chain fuel ws s : chain s (scan_ranges fuel ws s).
  Proof.
    revert s; induction fuel; intros s; cbn [scan_ranges]. constructor.
    destruct (s <? NW); [|constructor].
    pose proof (scan_end_ge ring_fuel ws s).
    destruct (s <? scan_end ring_fuel ws s) eqn:E; cbn [app].
    - constructor. lia. lia. apply IHfuel.
    - eapply chain_weaken. apply IHfuel. lia.
  Qed.

  Lemma chain_in lo l a b : chain lo l -> In (a, b) l -> lo <= a /\ a < b.
  Proof.
    induction 1; cbn; intros Hin. tauto.
    destruct Hin as [Hin|Hin]. inversion Hin; subst; lia.
    apply IHchain in Hin. lia.
  Qed.

  Lemma chain_app lo l1 l2 : chain lo (l1 ++ l2) -> chain lo l1 /\
    exists lo2, chain lo2 l2 /\ lo <= lo2 /\ forall a b, In (a, b) l1 -> b < lo2.
  Proof.
    revert lo; induction l1 as [|[a b] t IH]; intros lo H; cbn in *.
    - split. constructor. exists lo. split; auto. split. lia. tauto.
    - inversion H; subst. apply IH in H6 as (C1 & lo2 & C2 & C3 & C4).
      split. constructor; auto. exists lo2. split; auto. split. lia.
      intros a' b' [E|Hin]. inversion E; subst. lia. eauto.
  Qed.

  Lemma chain_NoDup lo l : chain lo l -> NoDup l.
  Proof.
    induction 1; constructor; auto.
    intro Hin. eapply chain_in in Hin; eauto. lia.
  Qed.

  (* indices covered by a chain are distinct *)
  Lemma chain_indices_lower lo l i :
    chain lo l -> (forall a b, In (a, b) l -> b <= NW) ->
    In i (flat_map range_to_indices l) -> lo <= i.
  Proof.
    induction 1; cbn; intros Hb Hin. tauto.
    apply in_app_iff in Hin as [Hin|Hin].
    - replace (a <? b) with true in Hin by lia. apply Nseq_in in Hin. lia.
    - apply IHchain in Hin. lia. intros; eapply Hb; eauto.
  Qed.

  Lemma chain_indices_NoDup lo l :
    chain lo l -> (forall a b, In (a, b) l -> b <= NW) -> NoDup (flat_map range_to_indices l).
  Proof.
    induction 1; cbn; intros Hb. constructor.
    replace (a <? b) with true by lia.
    assert (Hb' : forall a0 b0, In (a0, b0) t -> b0 <= NW) by (intros; eapply Hb; eauto).
    apply NoDup_app_intro. apply Nseq_NoDup. apply IHchain; auto.
    intros x Hx Hx2. apply Nseq_in in Hx.
    eapply chain_indices_lower in Hx2; eauto. lia.
  Qed.

  (* ---------------------------------------------------------------- pop / swap_remove *)
  Lemma pop_snoc {A} (l : list A) x : pop (l ++ [x]) = Some (l, x).
  Proof. induction l; cbn; auto. now rewrite IHl. Qed.

  Lemma pop_inv {A} (l : list A) : match pop l with
                                   | None => l = []
                                   | Some (l', x) => l = l' ++ [x]
                                   end.
  Proof.
    induction l; cbn; auto.
    destruct (pop l) as [[l' y]|]; subst; cbn; auto.
  Qed.

  Lemma swap_remove0_perm {A} (x : A) t :
    exists l2, swap_remove0 (x :: t) = Some (l2, x) /\ Permutation l2 t.
  Proof.
    cbn. pose proof (pop_inv t) as H. destruct (pop t) as [[t' y]|]; subst.
    - eexists; split; eauto. rewrite Permutation_app_comm. reflexivity.
    - eexists; split; eauto.
  Qed.

  (* the two behaviours of the merge step *)
  Lemma merge_seam_cases L :
    (merge_seam L = L /\ ~ (exists ei M sf, L = (0, ei) :: M ++ [(sf, NW)]))
    \/ (exists ei M sf L2, L = (0, ei) :: M ++ [(sf, NW)] /\ Permutation L2 M /\
                            merge_seam L = L2 ++ [(sf, ei)]).
  Proof.
    unfold merge_seam.
    destruct (1 <? length L)%nat eqn:E1.
    2:{ left; split; auto. intros (ei & M & sf & ->). apply Nat.ltb_ge in E1.
        rewrite app_comm_cons, app_length in E1. cbn [length] in E1. lia. }
    apply Nat.ltb_lt in E1.
    destruct L as [|[a0 ei] t]. cbn [length] in E1; lia.
    cbn [hd_error].
    destruct a0 as [|p].
    2:{ left; split; auto. intros (ei' & M & sf & H). inversion H. }
    pose proof (pop_inv ((0, ei) :: t)) as Hp.
    destruct (pop ((0, ei) :: t)) as [[L1 [sf le]]|]; [|discriminate].
    destruct (le =? NW) eqn:E2.
    2:{ left; split; auto. intros (ei' & M & sf' & H). rewrite H, app_comm_cons in Hp.
        apply app_inj_tail in Hp as [_ Hp]. inversion Hp; subst. lia. }
    assert (le = NW) by lia; subst le.
    destruct L1 as [|h M].
    { cbn [app] in Hp. inversion Hp; subst. cbn [length] in E1. lia. }
    cbn [app] in Hp. inversion Hp; subst h t.
    destruct (swap_remove0_perm (0, ei) M) as (L2 & -> & HP).
    right. exists ei, M, sf, L2. auto.
  Qed.

  (* ---------------------------------------------------------------- coverage *)
  Lemma extend_down ws i : pres ws i = true ->
    exists a, a <= i /\ (forall j, a <= j <= i -> pres ws j = true) /\ (a = 0 \/ pres ws (a - 1) = false).
  Proof.
    induction i using N.peano_ind; intros H.
    - exists 0. split. lia. split; auto. intros j Hj. now replace j with 0 by lia.
    - destruct (pres ws i) eqn:E.
      + destruct (IHi eq_refl) as (a & A1 & A2 & A3). exists a. split. lia. split; auto.
        intros j Hj. destruct (N.eq_dec j (N.succ i)) as [->|]; auto. apply A2; lia.
      + exists (N.succ i). split. lia. split.
        intros j Hj. now replace j with (N.succ i) by lia.
        right. now replace (N.succ i - 1) with i by lia.
  Qed.

  Lemma covered ws i : i < NW -> pres ws i = true -> exists a b, linrun ws a b /\ a <= i < b.
  Proof.
    intros Hi Hp.
    destruct (extend_down ws i Hp) as (a & A1 & A2 & A3).
    destruct (scan_end_ring ws i) as (E1 & E2 & E3). lia.
    pose proof (scan_end_ge ring_fuel ws i) as E0.
    set (b := scan_end ring_fuel ws i) in *.
    assert (i < b).
    { destruct (N.eq_dec b i) as [E|]; [|lia]. exfalso.
      destruct E3 as [E3|E3]. lia. rewrite E, Hp in E3. discriminate. }
    exists a, b. split; [|lia].
    repeat split; auto. lia.
    intros j Hj. destruct (N.le_gt_cases j i). apply A2; lia. apply E2; lia.
  Qed.

  (* ---------------------------------------------------------------- blocks of the ring *)
  Definition lin ws := scan_ranges ring_fuel ws 0.

  Lemma lin_in ws a b : In (a, b) (lin ws) <-> linrun ws a b.
  Proof.
    unfold lin. rewrite scan_ranges_in. intuition lia.
    left; auto. rewrite ring_fuel_val. unfold NW. lia.
  Qed.
  Lemma lin_chain ws : chain 0 (lin ws).
  Proof. apply scan_ranges_chain. Qed.
  Lemma lin_le ws a b : In (a, b) (lin ws) -> b <= NW.
  Proof. intros H. apply lin_in in H. destruct H as (_ & H & _). exact H. Qed.

  Lemma chain_head0 l b : chain 0 l -> In (0, b) l -> exists t, l = (0, b) :: t.
  Proof.
    intros H Hin. inversion H; subst. destruct Hin.
    destruct Hin as [E|Hin]. inversion E; subst. eauto.
    eapply chain_in in Hin; eauto. lia.
  Qed.

  Lemma chain_lastNW lo l a : chain lo l -> (forall a b, In (a, b) l -> b <= NW) ->
    In (a, NW) l -> exists t, l = t ++ [(a, NW)].
  Proof.
    induction 1; intros Hb Hin. destruct Hin.
    destruct Hin as [E|Hin].
    - inversion E; subst. exists []. cbn. f_equal.
      destruct t as [|[a1 b1] t]; auto. exfalso.
      inversion H1; subst. assert (b1 <= NW) by (apply (Hb a1); cbn; auto). lia.
    - destruct IHchain as (t' & ->); auto. intros; eapply Hb; cbn; eauto.
      exists ((a0, b) :: t'). reflexivity.
  Qed.

  (* (first, last) as the code represents a cyclic block: first wire, last wire + 1 *)
  Definition rlen (f l : N) : N := if f <? l then l - f else NW - f + l.
  Definition block ws (f l : N) : Prop :=
    f < NW /\ 1 <= l <= NW /\
    (forall j, j < rlen f l -> pres ws ((f + j) mod NW) = true) /\
    pres ws ((f + NW - 1) mod NW) = false /\ pres ws (l mod NW) = false.

  Lemma range_to_len_rlen f l : range_to_len (f, l) = rlen f l.
  Proof. reflexivity. Qed.

  Lemma linrun_block ws a b :
    linrun ws a b -> (a = 0 -> pres ws (NW - 1) = false) -> (b = NW -> pres ws 0 = false) ->
    block ws a b.
  Proof.
    intros (A1 & A2 & A3 & A4 & A5) H0 HN. unfold block, rlen.
    replace (a <? b) with true by lia.
    split. lia. split. lia. split; [|split].
    - intros j Hj. rewrite N.mod_small by lia. apply A3. lia.
    - destruct (N.eq_dec a 0) as [->|Hne].
      + replace ((0 + NW - 1) mod NW) with (NW - 1) by (unfold NW; reflexivity). auto.
      + destruct A5 as [A5|A5]. lia.
        replace ((a + NW - 1) mod NW) with (a - 1). auto. unfold NW in *. lia.
    - destruct (N.eq_dec b NW) as [->|Hne].
      + rewrite N.mod_same by (unfold NW; lia). auto.
      + rewrite N.mod_small by lia. destruct A4; auto. lia.
  Qed.

  Lemma merged_block ws ei sf : linrun ws 0 ei -> linrun ws sf NW -> ei < sf -> block ws sf ei.
  Proof.
    intros (A1 & A2 & A3 & A4 & A5) (B1 & B2 & B3 & B4 & B5) H. unfold block, rlen.
    replace (sf <? ei) with false by lia.
    split. lia. split. lia. split; [|split].
    - intros j Hj. destruct (N.lt_ge_cases j (NW - sf)).
      + rewrite N.mod_small by lia. apply B3. lia.
      + replace ((sf + j) mod NW) with (sf + j - NW). apply A3. lia. unfold NW in *. lia.
    - destruct B5 as [B5|B5]. lia.
      replace ((sf + NW - 1) mod NW) with (sf - 1). auto. unfold NW in *. lia.
    - rewrite N.mod_small by lia. destruct A4; auto. lia.
  Qed.

  Lemma block_ne ws f l : block ws f l -> f <> l.
  Proof.
    intros (H1 & H2 & H3 & H4 & H5) ->. unfold rlen in H3.
    replace (l <? l) with false in H3 by lia.
    specialize (H3 (NW - 1)). replace (l + (NW - 1)) with (l + NW - 1) in H3 by lia.
    rewrite H3 in H4. discriminate. lia.
  Qed.

  Lemma block_nowrap ws f l : block ws f l -> f < l -> linrun ws f l.
  Proof.
    intros (H1 & H2 & H3 & H4 & H5) H. unfold rlen in H3.
    replace (f <? l) with true in H3 by lia.
    repeat split; auto. lia.
    - intros j Hj. specialize (H3 (j - f)). replace (f + (j - f)) with j in H3 by lia.
      rewrite N.mod_small in H3 by lia. apply H3. lia.
    - destruct (N.eq_dec l NW). auto. right. rewrite N.mod_small in H5 by lia. auto.
    - destruct (N.eq_dec f 0). auto. right.
      replace ((f + NW - 1) mod NW) with (f - 1) in H4. auto. unfold NW in *. lia.
  Qed.

  Lemma block_wrap ws f l : block ws f l -> l < f -> linrun ws 0 l /\ linrun ws f NW.
  Proof.
    intros (H1 & H2 & H3 & H4 & H5) H. unfold rlen in H3.
    replace (f <? l) with false in H3 by lia.
    rewrite N.mod_small in H5 by lia.
    replace ((f + NW - 1) mod NW) with (f - 1) in H4 by (unfold NW in *; lia).
    split; repeat split; auto; try lia.
    - intros j Hj. specialize (H3 (NW - f + j)).
      replace ((f + (NW - f + j)) mod NW) with j in H3 by (unfold NW in *; lia).
      apply H3. lia.
    - intros j Hj. specialize (H3 (j - f)). replace (f + (j - f)) with j in H3 by lia.
      rewrite N.mod_small in H3 by lia. apply H3. lia.
  Qed.

  (* decomposition of the linear scan when both ends are occupied *)
  Lemma lin_decomp ws ei sf :
    In (0, ei) (lin ws) -> In (sf, NW) (lin ws) -> (0, ei) <> (sf, NW) ->
    exists M, lin ws = (0, ei) :: M ++ [(sf, NW)].
  Proof.
    intros H1 H2 Hne.
    destruct (chain_head0 _ _ (lin_chain ws) H1) as (t & Et).
    destruct (chain_lastNW _ _ _ (lin_chain ws) (lin_le ws) H2) as (t' & Et').
    rewrite Et in Et'. destruct t' as [|h t'].
    - cbn in Et'. inversion Et'; subst. congruence.
    - cbn in Et'. inversion Et'; subst. exists t'. rewrite Et. reflexivity.
  Qed.

  Theorem cr_in ws f l : ~ full_ring ws -> (In (f, l) (contiguous_ranges ws) <-> block ws f l).
  Proof.
    intros NF. unfold contiguous_ranges. fold (lin ws).
    destruct (merge_seam_cases (lin ws)) as [(E & NM)|(ei & M & sf & L2 & EL & HP & E)]; rewrite E.
    - (* no merge *)
      split.
      + intros Hin. apply lin_in in Hin. apply linrun_block; auto.
        * intros ->. destruct (pres ws (NW - 1)) eqn:P; auto. exfalso.
          destruct (covered ws (NW - 1)) as (a & b & R & Hab). unfold NW; lia. auto.
          assert (b = NW) by (destruct R as (_ & ? & _); lia). subst b.
          apply NM. apply lin_in in Hin, R.
          destruct (lin_decomp ws l a) as (M & EM); auto.
          { intro X; inversion X; subst. apply NF. intros i Hi.
            apply lin_in in Hin. destruct Hin as (_ & _ & A & _). apply A. lia. }
          eauto.
        * intros ->. destruct (pres ws 0) eqn:P; auto. exfalso.
          destruct (covered ws 0) as (a & b & R & Hab). unfold NW; lia. auto.
          assert (a = 0) by lia. subst a.
          apply NM. apply lin_in in Hin, R.
          destruct (lin_decomp ws b f) as (M & EM); auto.
          { intro X; inversion X; subst. apply NF. intros i Hi.
            apply lin_in in Hin. destruct Hin as (_ & _ & A & _). apply A. lia. }
          eauto.
      + intros B. destruct (N.lt_trichotomy f l) as [L|[L|L]].
        * apply lin_in. apply block_nowrap; auto.
        * exfalso. eapply block_ne; eauto.
        * exfalso. destruct (block_wrap ws f l B L) as (R1 & R2).
          apply lin_in in R1, R2. apply NM.
          destruct (lin_decomp ws l f) as (M & EM); auto.
          { intro X; inversion X; subst. destruct B as (_ & ? & _). lia. }
          eauto.
    - (* merge *)
      assert (R1 : linrun ws 0 ei) by (apply lin_in; rewrite EL; cbn; auto).
      assert (R2 : linrun ws sf NW).
      { apply lin_in; rewrite EL. right. apply in_app_iff. right. cbn; auto. }
      pose proof (lin_chain ws) as C. rewrite EL in C.
      inversion C as [|? ? ? ? X1 X2 X3]; subst.
      apply chain_app in X3 as (C1 & lo2 & C2 & C3 & C4).
      inversion C2 as [|? ? ? ? Y1 Y2 Y3]; subst.
      assert (Hes : ei < sf) by lia.
      split.
      + rewrite in_app_iff. intros [Hin|[Hin|[]]].
        * apply (Permutation_in _ HP) in Hin.
          pose proof (chain_in _ _ _ _ C1 Hin) as G1. pose proof (C4 _ _ Hin) as G2.
          apply linrun_block. apply lin_in. rewrite EL. right. apply in_app_iff. auto.
          intros; lia. intros; lia.
        * inversion Hin; subst. apply merged_block; auto.
      + intros B. rewrite in_app_iff. destruct (N.lt_trichotomy f l) as [L|[L|L]].
        * left. apply (Permutation_in _ (Permutation_sym HP)).
          pose proof (block_nowrap ws f l B L) as R. apply lin_in in R. rewrite EL in R.
          destruct R as [X|R].
          { exfalso. inversion X; subst. destruct B as (_ & _ & _ & B4 & _).
            replace ((0 + NW - 1) mod NW) with (NW - 1) in B4 by (unfold NW; reflexivity).
            destruct R2 as (_ & _ & A & _). rewrite A in B4. discriminate. lia. }
          apply in_app_iff in R as [R|[X|[]]]; auto.
          exfalso. inversion X; subst. destruct B as (_ & _ & _ & _ & B5).
          rewrite N.mod_same in B5 by (unfold NW; lia).
          destruct R1 as (_ & _ & A & _). rewrite A in B5. discriminate. lia.
        * exfalso. eapply block_ne; eauto.
        * right. left. destruct (block_wrap ws f l B L) as (Q1 & Q2).
          assert (sf = f).
          { destruct R2 as (A1 & A2 & A3 & A4 & A5), Q2 as (B1 & B2 & B3 & B4 & B5).
            destruct (N.lt_trichotomy sf f) as [L'|[L'|L']]; auto; exfalso.
            - destruct B5 as [B5|B5]. lia. rewrite A3 in B5 by lia. discriminate.
            - destruct A5 as [A5|A5]. lia. rewrite B3 in A5 by lia. discriminate. }
          subst sf. f_equal. eapply linrun_same_start; eauto.
  Qed.

  Theorem cr_nodup ws : NoDup (contiguous_ranges ws).
  Proof.
    unfold contiguous_ranges. fold (lin ws).
    destruct (merge_seam_cases (lin ws)) as [(E & NM)|(ei & M & sf & L2 & EL & HP & E)]; rewrite E.
    - eapply chain_NoDup. apply lin_chain.
    - pose proof (lin_chain ws) as C. rewrite EL in C.
      inversion C as [|? ? ? ? X1 X2 X3]; subst.
      apply chain_app in X3 as (C1 & lo2 & C2 & C3 & C4).
      inversion C2 as [|? ? ? ? Y1 Y2 Y3]; subst.
      apply NoDup_app_intro.
      + eapply Permutation_NoDup. apply Permutation_sym, HP. eapply chain_NoDup; eauto.
      + repeat constructor. intros [].
      + intros [a b] Hin [X|[]]. inversion X; subst.
        apply (Permutation_in _ HP) in Hin.
        pose proof (chain_in _ _ _ _ C1 Hin). pose proof (C4 _ _ Hin). lia.
  Qed.

  (* the index sets of the blocks are pairwise disjoint *)
  Theorem cr_indices_nodup ws : NoDup (flat_map range_to_indices (contiguous_ranges ws)).
  Proof.
    unfold contiguous_ranges. fold (lin ws).
    destruct (merge_seam_cases (lin ws)) as [(E & NM)|(ei & M & sf & L2 & EL & HP & E)]; rewrite E.
    - eapply chain_indices_NoDup. apply lin_chain. apply lin_le.
    - pose proof (chain_indices_NoDup _ _ (lin_chain ws) (lin_le ws)) as ND.
      pose proof (lin_chain ws) as C. rewrite EL in C.
      inversion C as [|? ? ? ? X1 X2 X3]; subst.
      apply chain_app in X3 as (C1 & lo2 & C2 & C3 & C4).
      inversion C2 as [|? ? ? ? Y1 Y2 Y3]; subst.
      eapply Permutation_NoDup; [|exact ND]. rewrite EL.
      cbn [flat_map]. rewrite !flat_map_app. cbn [flat_map]. rewrite !app_nil_r.
      unfold range_to_indices at 1 3 5.
      replace (0 <? ei) with true by lia. replace (sf <? NW) with true by lia.
      replace (sf <? ei) with false by lia.
      replace (ei - 0) with ei by lia.
      etransitivity. apply Permutation_app_comm. rewrite <- app_assoc.
      apply Permutation_app_tail. apply Permutation_flat_map. apply Permutation_sym, HP.
  Qed.

  Lemma cr_valid ws f l : ~ full_ring ws -> In (f, l) (contiguous_ranges ws) -> f < NW /\ 1 <= l <= NW.
  Proof. intros NF H. apply cr_in in H; auto. destruct H as (? & ? & _). auto. Qed.
End RingProofs.

(* ---------------------------------------------------------------- rotation of a list *)
Lemma rot_length {A} n s (l : list A) : length (rot n s l) = length l.
Proof.
  unfold rot. rewrite app_length, Nat.add_comm, <- app_length, firstn_skipn. reflexivity.
Qed.

Lemma rot_nth_error {A} n s (l : list A) i :
  N.of_nat (length l) = n -> s <= n -> i < n ->
  nth_error (rot n s l) (N.to_nat i) = nth_error l (N.to_nat ((i + n - s) mod n)).
Proof.
  intros Hl Hs Hi. unfold rot.
  assert (Hk : length (skipn (N.to_nat (n - s)) l) = N.to_nat s) by (rewrite skipn_length; lia).
  destruct (N.lt_ge_cases i s) as [L|L].
  - rewrite nth_error_app1 by lia. rewrite nth_error_skipn. f_equal.
    rewrite N.mod_small by lia. lia.
  - rewrite nth_error_app2 by lia. rewrite Hk. rewrite nth_error_firstn by lia. f_equal.
    replace ((i + n - s) mod n) with (i - s). lia.
    replace (i + n - s) with (i - s + 1 * n) by lia. rewrite N.mod_add by lia.
    rewrite N.mod_small; lia.
Qed.

Lemma rot_map {A B} (f : A -> B) n s l : rot n s (map f l) = map f (rot n s l).
Proof. unfold rot. now rewrite map_app, firstn_map, skipn_map. Qed.

(* ---------------------------------------------------------------- arithmetic mod 256 *)
Lemma m256_unrot i s : i < 256 -> s <= 256 -> ((i + s) mod 256 + 256 - s) mod 256 = i.
Proof. intros; lia. Qed.
Lemma m256_add f j s : ((f + s) mod 256 + j) mod 256 = ((f + j) mod 256 + s) mod 256.
Proof. intros; lia. Qed.
Lemma m256_pred f s : ((f + s) mod 256 + 256 - 1) mod 256 = ((f + 256 - 1) mod 256 + s) mod 256.
Proof. intros; lia. Qed.
Lemma m256_end l s : 1 <= l -> ((l + 256 - 1 + s) mod 256 + 1) mod 256 = (l mod 256 + s) mod 256.
Proof. intros; lia. Qed.
Lemma m256_rlen f l : f < 256 -> 1 <= l <= 256 ->
  (if f <? l then l - f else 256 - f + l) = (l + 256 - 1 - f) mod 256 + 1.
Proof. intros; case_if; lia. Qed.
Lemma m256_rlen_rot f l s : f < 256 -> 1 <= l <= 256 ->
  (((l + 256 - 1 + s) mod 256 + 1) + 256 - 1 - (f + s) mod 256) mod 256 = (l + 256 - 1 - f) mod 256.
Proof. intros; lia. Qed.

Section RingRot.
  Context {sig : Type}.
  Implicit Types ws : list (option sig).

  Lemma wf_rotw ws s : wf ws -> wf (rotw s ws).
  Proof. unfold wf, rotw. now rewrite rot_length. Qed.

  Lemma get_rotw ws s i : wf ws -> s <= NW -> i < NW ->
    get (rotw s ws) i = get ws ((i + NW - s) mod NW).
  Proof. intros W Hs Hi. unfold get, rotw. now rewrite rot_nth_error. Qed.

  Lemma get_rotw_fwd ws s i : wf ws -> s <= NW -> i < NW ->
    get (rotw s ws) ((i + s) mod NW) = get ws i.
  Proof.
    intros W Hs Hi. rewrite get_rotw; auto. f_equal. unfold NW in *. now apply m256_unrot.
    unfold NW in *. lia.
  Qed.

  Lemma pres_rotw ws s i : wf ws -> s <= NW -> i < NW ->
    pres (rotw s ws) ((i + s) mod NW) = pres ws i.
  Proof. intros. unfold pres. now rewrite get_rotw_fwd. Qed.

  Lemma full_ring_rot ws s : wf ws -> s <= NW -> full_ring (rotw s ws) -> full_ring ws.
  Proof.
    intros W Hs F i Hi. rewrite <- (get_rotw_fwd ws s i) by auto. apply F. unfold NW; lia.
  Qed.

  Lemma rlen_rot f l s : f < NW -> 1 <= l <= NW ->
    rlen (fst (rot_range s (f, l))) (snd (rot_range s (f, l))) = rlen f l.
  Proof.
    intros Hf Hl. unfold rot_range, rlen, NW in *. cbn [fst snd].
    rewrite m256_rlen by lia. rewrite (m256_rlen f l) by lia.
    now rewrite m256_rlen_rot.
  Qed.

  Lemma block_rot ws s f l : wf ws -> s <= NW -> f < NW -> 1 <= l <= NW ->
    (block (rotw s ws) (fst (rot_range s (f, l))) (snd (rot_range s (f, l))) <-> block ws f l).
  Proof.
    intros W Hs Hf Hl. unfold block. rewrite rlen_rot by auto.
    unfold rot_range. cbn [fst snd].
    assert (G1 : forall j, pres (rotw s ws) (((f + s) mod NW + j) mod NW) = pres ws ((f + j) mod NW)).
    { intros j. unfold NW at 2 3. rewrite m256_add. apply pres_rotw; auto. unfold NW; lia. }
    assert (G2 : pres (rotw s ws) (((f + s) mod NW + NW - 1) mod NW) = pres ws ((f + NW - 1) mod NW)).
    { unfold NW at 2 3 4. rewrite m256_pred. apply pres_rotw; auto. unfold NW; lia. }
    assert (G3 : pres (rotw s ws) (((l + NW - 1 + s) mod NW + 1) mod NW) = pres ws (l mod NW)).
    { unfold NW at 2 3 4. rewrite m256_end by lia. apply pres_rotw; auto. unfold NW; lia. }
    rewrite G2, G3. setoid_rewrite G1.
    assert ((f + s) mod NW < NW) by (unfold NW; lia).
    assert (1 <= (l + NW - 1 + s) mod NW + 1 <= NW) by (unfold NW; lia).
    tauto.
  Qed.

  Lemma rot_range_inv s f l : s <= NW -> f < NW -> 1 <= l <= NW ->
    rot_range s (rot_range (NW - s) (f, l)) = (f, l).
  Proof. intros. unfold rot_range, NW in *. cbn [fst snd]. f_equal; lia. Qed.

  Lemma rot_range_valid s r : fst (rot_range s r) < NW /\ 1 <= snd (rot_range s r) <= NW.
  Proof. unfold rot_range, NW. cbn [fst snd]. lia. Qed.

  Lemma rot_range_inj s f1 l1 f2 l2 :
    f1 < NW -> 1 <= l1 <= NW -> f2 < NW -> 1 <= l2 <= NW ->
    rot_range s (f1, l1) = rot_range s (f2, l2) -> (f1, l1) = (f2, l2).
  Proof.
    unfold rot_range, NW. cbn [fst snd]. intros ? ? ? ? E. inversion E. f_equal; lia.
  Qed.

  (* rotating the ring rotates the set of blocks; their order in the vector may change *)
  Theorem cr_rot_perm ws s : wf ws -> ~ full_ring ws -> s <= NW ->
    Permutation (contiguous_ranges (rotw s ws)) (map (rot_range s) (contiguous_ranges ws)).
  Proof.
    intros W NF Hs.
    assert (NF' : ~ full_ring (rotw s ws)) by (intro F; apply NF; eapply full_ring_rot; eauto).
    apply NoDup_Permutation.
    - apply cr_nodup.
    - apply NoDup_map_in. apply cr_nodup.
      intros [f1 l1] [f2 l2] H1 H2 E.
      apply cr_valid in H1, H2; auto. apply (rot_range_inj s); tauto.
    - intros [f' l']. rewrite in_map_iff. split.
      + intros Hin. pose proof (cr_valid _ _ _ NF' Hin) as V.
        apply cr_in in Hin; auto.
        exists (rot_range (NW - s) (f', l')). split. apply rot_range_inv; tauto.
        destruct (rot_range (NW - s) (f', l')) as [f l] eqn:E.
        pose proof (rot_range_valid (NW - s) (f', l')) as V'. rewrite E in V'. cbn [fst snd] in V'.
        apply cr_in; auto. apply (block_rot ws s); auto; try tauto.
        rewrite <- E, rot_range_inv by tauto. exact Hin.
      + intros ([f l] & E & Hin). pose proof (cr_valid _ _ _ NF Hin) as V.
        apply cr_in in Hin; auto. apply cr_in; auto.
        apply (block_rot ws s) in Hin; auto; try tauto. rewrite E in Hin. exact Hin.
  Qed.
End RingRot.

(* ---------------------------------------------------------------- indices and signals of a block *)
Lemma m256_wrap f i : f < 256 -> i < f -> (f + (256 - f + i)) mod 256 = i.
Proof. intros; lia. Qed.

(* range_to_indices as a cyclic walk *)
Lemma rti_cyclic f l : f < NW -> 1 <= l <= NW ->
  range_to_indices (f, l) = map (fun j => (f + j) mod NW) (Nseq 0 (rlen f l)).
Proof.
  intros Hf Hl. unfold range_to_indices, rlen. destruct (f <? l) eqn:E.
  - unfold Nseq. rewrite map_map. apply map_ext_in. intros j Hj. apply in_seq in Hj.
    rewrite N.mod_small; lia.
  - rewrite Nseq_app, map_app. f_equal.
    + unfold Nseq. rewrite map_map. apply map_ext_in. intros j Hj. apply in_seq in Hj.
      rewrite N.mod_small; lia.
    + unfold Nseq. rewrite !map_map. apply map_ext_in. intros j Hj. apply in_seq in Hj.
      unfold NW in *. rewrite N.add_0_l. rewrite m256_wrap; lia.
Qed.

Lemma rti_length r : length (range_to_indices r) = N.to_nat (range_to_len r).
Proof.
  destruct r as [f l]. unfold range_to_indices, range_to_len. case_if.
  - apply Nseq_length.
  - rewrite app_length, !Nseq_length. lia.
Qed.

Lemma rti_rot s f l : f < NW -> 1 <= l <= NW ->
  range_to_indices (rot_range s (f, l)) = map (fun i => (i + s) mod NW) (range_to_indices (f, l)).
Proof.
  intros Hf Hl. pose proof (rot_range_valid s (f, l)) as V.
  pose proof (rlen_rot f l s Hf Hl) as R.
  destruct (rot_range s (f, l)) as [f' l'] eqn:E. cbn [fst snd] in *.
  rewrite !rti_cyclic by tauto. rewrite R, map_map. apply map_ext. intros j.
  unfold rot_range in E. inversion E. cbn [fst snd]. unfold NW. apply m256_add.
Qed.

Lemma rti_lt f l i : f < NW -> 1 <= l <= NW -> In i (range_to_indices (f, l)) -> i < NW.
Proof.
  intros Hf Hl. rewrite rti_cyclic by auto. rewrite in_map_iff. intros (j & <- & _).
  unfold NW; lia.
Qed.

Section BlockSigs.
  Context {sig : Type}.
  Implicit Types ws : list (option sig).

  (* every kernel call receives the same argument list: the signals of the rotated block are the
     signals of the block, in the same order *)
  Theorem block_sigs_rot ws s f l : wf ws -> s <= NW -> f < NW -> 1 <= l <= NW ->
    block_sigs (rotw s ws) (rot_range s (f, l)) = block_sigs ws (f, l).
  Proof.
    intros W Hs Hf Hl. unfold block_sigs. rewrite rti_rot by auto.
    rewrite flat_map_map. apply flat_map_ext_in. intros i Hi.
    rewrite get_rotw_fwd; auto. eapply rti_lt; eauto.
  Qed.

  (* the unwrap in y_matrix / problem_dimensions cannot fail on a block: all its signals are present *)
  Theorem block_sigs_all_some ws f l : block ws f l ->
    length (block_sigs ws (f, l)) = length (range_to_indices (f, l)).
  Proof.
    intros (Hf & Hl & Hall & _). unfold block_sigs. rewrite rti_cyclic by auto.
    rewrite flat_map_map, map_length.
    assert (G : forall L, (forall j, In j L -> j < rlen f l) ->
                length (flat_map (fun x => opt_list (get ws ((f + x) mod NW))) L) = length L).
    { induction L; cbn [flat_map length]; intros HL; auto.
      rewrite app_length, IHL by (intros; apply HL; cbn; auto).
      specialize (Hall a (HL a (or_introl eq_refl))). unfold pres in Hall.
      destruct (get ws ((f + a) mod NW)); cbn in *; auto. discriminate. }
    apply G. intros j Hj. apply Nseq_in in Hj. lia.
  Qed.
End BlockSigs.

(* ---------------------------------------------------------------- the full ring (finding F3) *)
Section FullRing.
  Context {sig : Type}.

  Lemma full_ring_cr (ws : list (option sig)) : full_ring ws -> contiguous_ranges ws = [(0, NW)].
  Proof.
    intros F. unfold contiguous_ranges.
    assert (E : scan_end ring_fuel ws 0 = NW).
    { destruct (scan_end_ring ws 0) as (E1 & E2 & [E3|E3]); auto. unfold NW; lia.
      destruct (N.eq_dec (scan_end ring_fuel ws 0) NW); auto.
      unfold pres in E3. rewrite F in E3 by lia. discriminate. }
    assert (L : scan_ranges ring_fuel ws 0 = [(0, NW)]).
    { rewrite ring_fuel_val at 1. cbn [scan_ranges]. rewrite E.
      replace (0 <? NW) with true by reflexivity. cbn [app]. f_equal. }
    rewrite L. reflexivity.
  Qed.

  Lemma ws_full_get (sigs : list sig) i : get (map Some sigs) i = nth_error sigs (N.to_nat i).
  Proof. unfold get. rewrite nth_error_map. destruct (nth_error sigs (N.to_nat i)); auto. Qed.

  Lemma block_sigs_full (sigs : list sig) : N.of_nat (length sigs) = NW ->
    block_sigs (map Some sigs) (0, NW) = sigs.
  Proof.
    intros W. unfold block_sigs, range_to_indices.
    replace (0 <? NW) with true by reflexivity. rewrite N.sub_0_r.
    apply nth_error_ext. intros i.
    assert (G : forall L, flat_map (fun i => opt_list (get (map Some sigs) i)) L =
                          flat_map (fun i => opt_list (nth_error sigs (N.to_nat i))) L).
    { intros L. apply flat_map_ext. intros; now rewrite ws_full_get. }
    rewrite G. clear G.
    (* every slot is present: the flat_map is a map *)
    assert (H : flat_map (fun i => opt_list (nth_error sigs (N.to_nat i))) (Nseq 0 NW) = sigs).
    { unfold Nseq. rewrite flat_map_map. replace (N.to_nat NW) with (length sigs) by lia.
      clear W. induction sigs using rev_ind; auto.
      rewrite app_length. cbn [length]. rewrite seq_app, flat_map_app. cbn [seq flat_map plus].
      rewrite app_nil_r. f_equal.
      - rewrite <- IHsigs at 2. apply flat_map_ext_in. intros j Hj. apply in_seq in Hj.
        rewrite N.add_0_l, Nat2N.id. rewrite nth_error_app1 by lia. reflexivity.
      - rewrite N.add_0_l, Nat2N.id. rewrite nth_error_app2 by lia.
        rewrite Nat.sub_diag. reflexivity. }
    now rewrite H.
  Qed.

  (* with all 256 wires present the single block always starts at wire 0, whatever the rotation:
     the deconvolution kernel receives the rotated list of signals *)
  Theorem full_ring_block_not_rotated (sigs : list sig) s :
    N.of_nat (length sigs) = NW -> s <= NW ->
    contiguous_ranges (rotw s (map Some sigs)) = [(0, NW)] /\
    block_sigs (rotw s (map Some sigs)) (0, NW) = rotw s sigs /\
    (0 < s < NW -> rot_range s (0, NW) = (s, s)).
  Proof.
    intros W Hs. unfold rotw. rewrite rot_map. split; [|split].
    - apply full_ring_cr. intros i Hi. rewrite ws_full_get.
      destruct (nth_error (rot NW s sigs) (N.to_nat i)) eqn:E; auto.
      apply nth_error_None in E. rewrite rot_length in E. lia.
    - apply block_sigs_full. now rewrite rot_length.
    - intros H. unfold rot_range, NW in *. cbn [fst snd]. f_equal; lia.
  Qed.
End FullRing.

(* ---------------------------------------------------------------- statements pinned in Props/C13.v *)
Lemma blocks_disjoint_lemma (sig : Type) (ws : list (option sig)) :
  NoDup (contiguous_ranges ws) /\ NoDup (flat_map range_to_indices (contiguous_ranges ws)).
Proof. split; [apply cr_nodup | apply cr_indices_nodup]. Qed.

Lemma block_arguments_rotation_lemma (sig : Type) (ws : list (option sig)) (s f l : N) :
  wf ws -> s <= NW -> f < NW -> 1 <= l <= NW ->
  block_sigs (rotw s ws) (rot_range s (f, l)) = block_sigs ws (f, l) /\
  range_to_indices (rot_range s (f, l)) = map (fun i => (i + s) mod NW) (range_to_indices (f, l)).
Proof. intros; split; [now apply block_sigs_rot | now apply rti_rot]. Qed.

Lemma block_signals_present_lemma (sig : Type) (ws : list (option sig)) (f l : N) :
  block ws f l ->
  length (block_sigs ws (f, l)) = length (range_to_indices (f, l)) /\
  length (range_to_indices (f, l)) = N.to_nat (range_to_len (f, l)).
Proof. intros; split; [now apply block_sigs_all_some | apply rti_length]. Qed.
