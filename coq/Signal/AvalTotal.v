(* C09 (avalanches half) — panic-aware model of MainEvent::avalanches and of everything it calls:
     physics/src/lib.rs:411-447                    timestamp, avalanches
     physics/src/deconvolution/wires.rs:40-208     contiguous_ranges, wire_range_deconvolution,
                                                   range_to_indices, range_to_len, problem_dimensions, y_matrix
     physics/src/matching.rs:47-133                wire_hits_at_t, pad_hits_at_t, match_column_inputs
   in the `res` monad of Base/Res.v: every index, slice, `unwrap`, `try_into().unwrap()`,
   `partial_cmp().unwrap()`, checked subtraction and assert is a primitive that returns Panic when its
   precondition fails.  Definitions only; proofs are in Signal/AvalTotal_proofs.v.

   Reused unchanged: Signal/Ring.v (pop, swap_remove0, range_to_indices, range_to_len, Nseq, get, block_sigs),
   Signal/Avalanches.v (wire_to_pad_column, pad_column_to_wires, upd, slice, btree_iter, get_t, at_t, aval and the
   pure skeleton `avalanches` the res model is proved equal to), Signal/Greedy.v (nn_greedy / ls_deconv, already
   written in the res monad, are the per-channel kernels of the binary64 instance at the end of this file).

   Kernels that stay abstract (Section variables):
     solve i sigs   wires.rs:84-120: a_matrix(j), the faer Cholesky factorisation of it (`.unwrap()` on the
                    factorisation of a constant banded matrix) and solve_transpose_in_place on the matrix Y.
                    Y is represented by what determines it: the padded length i and the block's signals in
                    ring order (Y[row][col] = sigs[col].get(row).copied().unwrap_or(0.0)).  Result: the columns
                    of Y'.  The only thing the totality proof asks of it is the shape law (AvalTotal_proofs:
                    `faer_shape`): one column per signal, each of length i.
     wdec, pdec     ls_deconvolution on a column of Y' with the wire response / on a pad signal with the pad
                    response (res-valued: the slicing, the assert and the unwrap of deconvolution.rs are panic
                    sites; Greedy.v);
     zf             the Gaussian centroid (float arithmetic and ln: no panic site);
     sortW, sortP   slice::sort_unstable_by.  Assumed of std: the comparator is only ever called on pairs of
                    elements of the slice, so the sort can panic only if the comparator panics on some pair
                    (sort_by_res below panics as soon as ANY pair is incomparable: it over-approximates). *)
From AG Require Import Base.Prelude Base.Res Signal.Ring Signal.Avalanches Signal.Greedy.
From Coq Require Import Floats.

(* a[i] on a slice / array / Vec: panics when i >= len *)
Definition idx {A} (l : list A) (i : N) : res A := unwrap (nth_error l (N.to_nat i)).
Definition idxn {A} (l : list A) (i : nat) : res A := unwrap (nth_error l i).

(* `for x in l { .. }` / `.map(..).collect()` with a body that may panic *)
Fixpoint mapM {A B} (f : A -> res B) (l : list A) : res (list B) :=
  match l with
  | [] => Ok []
  | x :: t => do y <- f x; do ys <- mapM f t; Ok (y :: ys)
  end.
Fixpoint foldM {A S} (f : S -> A -> res S) (l : list A) (s : S) : res S :=
  match l with
  | [] => Ok s
  | x :: t => do s' <- f s x; foldM f t s'
  end.

(* Iterator::max() over usize: None on an empty iterator *)
Definition max_opt (l : list nat) : option nat :=
  match l with [] => None | x :: t => Some (fold_left Nat.max t x) end.

(* a[first..last]: panics when first > last or last > len *)
Definition slice_res {A} (l : list A) (first last : N) : res (list A) :=
  if (first <=? last) && (last <=? N.of_nat (length l)) then Ok (Avalanches.slice l first last) else Panic.
(* a[i] = v *)
Definition upd_res {A} (l : list A) (i : N) (v : A) : res (list A) :=
  if i <? N.of_nat (length l) then Ok (upd l i v) else Panic.
(* <[T; n]>::try_from(vec / slice).unwrap() *)
Definition arr_try_into {A} (n : nat) (l : list A) : res (list A) :=
  if (length l =? n)%nat then Ok l else Panic.

(* alpha_g_detector: TpcWirePosition::try_from(usize) (aw_map.rs:112-118), TpcPadRow::try_from(usize) (map.rs:494-500) *)
Definition wire_pos_try_from (index : N) : option N := if index <? NW then Some index else None.
Definition pad_row_try_from (value : N) : option N := if value <? NROWS then Some value else None.

(* ------------------------------------------------------------------------------------------ *)
(* wires.rs:40-70  contiguous_ranges *)
Section RingRes.
  Context {sig : Type}.
  Implicit Types ws : list (option sig).

  (* :47-49   while end < TPC_ANODE_WIRES && wire_signals[end].is_some() { end += 1; }
     (`&&` short-circuits: the index is evaluated only when end < 256; end <= 257, no usize overflow).
     Err 1 = out of fuel; ring_fuel suffices (scan_end_res_eq). *)
  Fixpoint scan_end_res (fuel : nat) ws (e : N) : res N :=
    match fuel with
    | O => Err 1
    | S f =>
        if e <? NW then
          do s <- idx ws e;                                           (* :47 wire_signals[end] *)
          if is_some s then scan_end_res f ws (e + 1) else Ok e      (* :48 *)
        else Ok e
    end.

  (* :43-55   `ranges` is the Vec being pushed to *)
  Fixpoint scan_ranges_res (fuel : nat) ws (start : N) (ranges : list (N * N)) : res (list (N * N)) :=
    match fuel with
    | O => Err 1
    | S f =>
        if start <? NW then                                           (* :46 *)
          do e <- scan_end_res ring_fuel ws start;                    (* :47-49 (end = start on entry) *)
          let ranges' := if start <? e then ranges ++ [(start, e)] else ranges in   (* :50-52 push *)
          scan_ranges_res f ws (e + 1) ranges'                        (* :53-54 *)
        else Ok ranges
    end.

  (* :59-68 *)
  Definition merge_seam_res (ranges : list (N * N)) : res (list (N * N)) :=
    if (1 <? length ranges)%nat then                                  (* :59 if ranges.len() > 1 *)
      match hd_error ranges with
      | Some (0, _) =>                                                (* :60 if let Some((0, _)) = ranges.first() *)
          match pop ranges with                                       (* :61 ranges.last() (peek) *)
          | Some (_, (_, last_e)) =>
              if last_e =? NW then                                    (* :61 if let Some((_, 256)) *)
                do '(ranges1, (start_f, _)) <- unwrap (pop ranges);             (* :62 ranges.pop().unwrap() *)
                do '(ranges2, (_, end_i)) <- unwrap (swap_remove0 ranges1);     (* :63 ranges.swap_remove(0): panics on an empty Vec *)
                Ok (ranges2 ++ [(start_f, end_i)])                              (* :64 push *)
              else Ok ranges
          | None => Ok ranges
          end
      | _ => Ok ranges
      end
    else Ok ranges.

  Definition contiguous_ranges_res ws : res (list (N * N)) :=
    do ranges <- scan_ranges_res ring_fuel ws 0 [];
    merge_seam_res ranges.
End RingRes.

(* wires.rs:147-154  range_to_len: `TPC_ANODE_WIRES - first + last` in usize, modelled with overflow checks on
   (the stricter of the two build profiles) *)
Definition range_to_len_res (range : N * N) : res N :=
  let (first, last) := range in
  if first <? last then Ok (last - first)
  else do d <- usub Checked 64 NW first; uadd Checked 64 d last.

(* ------------------------------------------------------------------------------------------ *)
Section AvalRes.
  Context {sig amp zt : Type}.
  Variable azero : amp.                                   (* 0.0 *)
  Variable apos : amp -> bool.                            (* v > 0.0 *)
  Variable agt : amp -> amp -> bool.                      (* a > b *)
  Variable pcmp : amp -> amp -> option comparison.        (* f64::partial_cmp *)
  Variable zf : N -> amp -> amp -> amp -> zt.
  Variable slen : sig -> nat.                             (* Vec::len of a waveform *)
  Variable solve : nat -> list sig -> list (list amp).    (* see the header *)
  Variable wdec : list amp -> res (list amp).             (* wires.rs:130 *)
  Variable pdec : sig -> res (list amp).                  (* pads.rs:25-34 pad_deconvolution *)
  Variable sortW : list (N * amp) -> list (N * amp).
  Variable sortP : list (zt * amp) -> list (zt * amp).
  Implicit Types ws : list (option sig).

  (* wire_signals[i].as_ref().unwrap() *)
  Definition wire_sig ws (i : N) : res sig := do o <- idx ws i; unwrap o.

  (* wires.rs:178-190 *)
  Definition problem_dimensions_res ws (range : N * N) : res (nat * N) :=
    do lens <- mapM (fun i => do s <- wire_sig ws i; Ok (slen s))    (* :182-184 .map(|i| wire_signals[i].as_ref().unwrap().len()) *)
                    (range_to_indices range);
    do max_len <- unwrap (max_opt lens);                              (* :185-187 .max().unwrap() *)
    do j <- range_to_len_res range;                                   (* :189 *)
    Ok (max_len, j).

  (* wires.rs:193-208.  The closure of Mat::with_dims(i, j, ..) is evaluated for every (row, col); its two
     unwraps depend on col only, so they are evaluated once per column here (also when i = 0, where the real
     closure is never called: the model can only panic more often).  The matrix is represented by (i, columns'
     signals); cell (row, col) = signal.get(row).copied().unwrap_or(0.0) has no panic site. *)
  Definition y_matrix_res ws (range : N * N) : res (nat * list sig) :=
    do '(i, j) <- problem_dimensions_res ws range;                    (* :197 *)
    do cols <- mapM (fun col =>
                 do wire <- unwrap (nth_error (range_to_indices range) col);   (* :200 range_to_indices(range).nth(j).unwrap() *)
                 wire_sig ws wire)                                              (* :201-203 *)
               (seq 0 (N.to_nat j));
    Ok (i, cols).

  (* y.read(row, column) *)
  Definition mat_read (m : list (list amp)) (row column : nat) : res amp :=
    do c <- idxn m column; idxn c row.

  (* wires.rs:79-134 *)
  Definition wire_range_deconvolution_res ws (range : N * N) : res (list (N * list amp)) :=
    do '(i, j) <- problem_dimensions_res ws range;                    (* :83 *)
    do '(_, y) <- y_matrix_res ws range;                              (* :85 *)
    let y' := solve i y in                                            (* :84, :88-120 *)
    do sol <- mapM (fun column =>                                     (* :125 for column in 0..j *)
                do signal <- mapM (fun row => mat_read y' row column) (seq 0 i);   (* :126 *)
                wdec signal)                                          (* :130 ls_deconvolution(&signal, &WIRE_RESPONSE, 0..=1, 3..=12) *)
              (seq 0 (N.to_nat j));
    Ok (combine (range_to_indices range) sol).                        (* :133 range_to_indices(range).zip(sol).collect() *)

  (* matching.rs:47-62 *)
  Definition wire_hits_at_t_res (wire_indices : list N) (wire_inputs : list (list amp)) (t : nat)
    : res (list (N * amp)) :=
    do hs <- mapM (fun '(index, input) =>
                match get_t input t with                              (* :56 input.get(t).copied() *)
                | Some v =>
                    if apos v then                                    (* :56 .filter(|v| v > &0.0) *)
                      do _ <- unwrap (wire_pos_try_from index);       (* :57 TpcWirePosition::try_from(index).unwrap() *)
                      Ok [(index, v)]
                    else Ok []
                | None => Ok []
                end)
              (combine wire_indices wire_inputs);                     (* :52-54 .iter().zip(wire_inputs) *)
    Ok (concat hs).

  (* matching.rs:75-91   `row - 1` with row >= 2: no underflow *)
  Fixpoint pad_loop_res (rows : list (list amp)) (row : N) (first middle : amp) (t : nat)
    : res (list (zt * amp)) :=
    match rows with
    | [] => Ok []
    | input :: rest =>
        let last := at_t azero input t in                                                   (* :76 *)
        do h <- (if apos first && apos last && agt middle first && agt middle last          (* :78 *)
                 then do r <- unwrap (pad_row_try_from (row - 1));                          (* :82 TpcPadRow::try_from(row - 1).unwrap() *)
                      Ok [(zf r first middle last, middle)]                                 (* :82-86 *)
                 else Ok []);
        do hs <- pad_loop_res rest (row + 1) middle last t;                                 (* :89-90 *)
        Ok (h ++ hs)
    end.

  (* matching.rs:70-94 *)
  Definition pad_hits_at_t_res (pad_column_inputs : list (list amp)) (t : nat) : res (list (zt * amp)) :=
    do r0 <- idx pad_column_inputs 0;                                 (* :73 pad_column_inputs[0] *)
    do r1 <- idx pad_column_inputs 1;                                 (* :74 *)
    pad_loop_res (skipn 2 pad_column_inputs) 2 (at_t azero r0 t) (at_t azero r1 t) t.   (* :75 .enumerate().skip(2) *)

  (* sort_unstable_by(|a, b| cmp(a, b).unwrap()) *)
  Definition sort_by_res {A} (cmp : A -> A -> option comparison) (sortK : list A -> list A) (l : list A)
    : res (list A) :=
    if forallb (fun x => forallb (fun y => is_some (cmp x y)) l) l then Ok (sortK l) else Panic.
  (* matching.rs:115-116   |a, b| b.amplitude.partial_cmp(&a.amplitude) *)
  Definition cmpW (a b : N * amp) := pcmp (snd b) (snd a).
  Definition cmpP (a b : zt * amp) := pcmp (snd b) (snd a).

  (* matching.rs:98-133 *)
  Definition match_column_inputs_res (wire_indices : list N) (wire_inputs pad_column_inputs : list (list amp))
    : res (list (aval zt amp)) :=
    do t_max <- unwrap (max_opt (map (@length amp) wire_inputs));     (* :103 .max().unwrap() *)
    do per_t <- mapM (fun t =>                                        (* :106 for t in 0..t_max *)
                  do wire_hits <- wire_hits_at_t_res wire_indices wire_inputs t;       (* :107 *)
                  match wire_hits with
                  | [] => Ok []                                                       (* :108-110 continue *)
                  | _ =>
                      do pad_hits <- pad_hits_at_t_res pad_column_inputs t;           (* :111 *)
                      do sw <- sort_by_res cmpW sortW wire_hits;                      (* :115 *)
                      do sp <- sort_by_res cmpP sortP pad_hits;                       (* :116 *)
                      Ok (map (fun '((w, wa), (z, pa)) => Aval w t z wa pa) (combine sw sp))   (* :118-129 *)
                  end)
                (seq 0 t_max);
    Ok (concat per_t).

  (* lib.rs:422-427 *)
  Definition wire_stage_res ws : res (list (list amp) * list N) :=
    do ranges <- contiguous_ranges_res ws;                            (* :422 *)
    foldM (fun st range =>
             do outs <- wire_range_deconvolution_res ws range;        (* :423 *)
             foldM (fun st '(i, input) =>
                      do wi <- upd_res (fst st) i input;              (* :424 wire_inputs[i] = input *)
                      Ok (wi, wire_to_pad_column i :: snd st))        (* :425 pad_columns.insert(..) *)
                   outs st)
          ranges (repeat [] (N.to_nat NW), []).                       (* :419, :421 *)

  (* lib.rs:431-443, one column *)
  Definition column_avalanches_res (wire_inputs : list (list amp)) (pads : list (list (option sig)))
             (column : N) : res (list (aval zt amp)) :=
    do padcol <- idx pads column;                                     (* :433 self.pad_signals[column] *)
    do pic <- mapM (fun row =>                                        (* :432 for (row, input) in ..iter_mut().enumerate() *)
                do o <- idx padcol row;                               (* :433 [row] *)
                match o with
                | Some signal => pdec signal                          (* :434 *)
                | None => Ok []                                       (* :431 Vec::new() *)
                end)
              (Nseq 0 NROWS);
    let (first, last) := pad_column_to_wires column in                (* :438 *)
    do wire_indices <- arr_try_into 8 (Nseq first (last - first));    (* :440 .collect::<Vec<_>>().try_into().unwrap() *)
    do wslice <- slice_res wire_inputs first last;                    (* :441 wire_inputs[wire_indices] *)
    do wi8 <- arr_try_into 8 wslice;                                  (* :441 .try_into().unwrap() *)
    match_column_inputs_res wire_indices wi8 pic.                     (* :439 *)

  (* lib.rs:415-447 *)
  Definition avalanches_res ws (pads : list (list (option sig))) : res (list (aval zt amp)) :=
    do '(wire_inputs, inserted) <- wire_stage_res ws;
    do per_col <- mapM (column_avalanches_res wire_inputs pads) (btree_iter inserted);   (* :430 for column in pad_columns *)
    Ok (concat per_col).                                              (* :439 avalanches.extend(..) *)

  (* the pure kernels of Signal/Avalanches.v that correspond to (solve, wdec) and pdec when these return *)
  Definition unres {A} (r : res (list A)) : list A := match r with Ok v => v | _ => [] end.
  Definition max_slen (sigs : list sig) : nat := match max_opt (map slen sigs) with Some m => m | None => O end.
  Definition D_of (sigs : list sig) : list (list amp) := map (fun c => unres (wdec c)) (solve (max_slen sigs) sigs).
  Definition P_of (s : sig) : list amp := unres (pdec s).
End AvalRes.

(* lib.rs:411-413  timestamp(): a field read *)
Record main_event {sig : Type} := MainEvent {
  wire_signals : list (option sig);             (* [Option<Vec<f64>>; 256] *)
  pad_signals : list (list (option sig));       (* [[Option<Vec<f64>>; 576]; 32] *)
  trigger_timestamp : N }.
Arguments main_event : clear implicits.
Definition timestamp_res {sig} (ev : main_event sig) : res N := Ok (trigger_timestamp ev).
(* what the type of MainEvent guarantees *)
Definition event_shape {sig} (ev : main_event sig) : Prop :=
  N.of_nat (length (wire_signals ev)) = NW /\
  N.of_nat (length (pad_signals ev)) = NCOLS /\
  Forall (fun col => N.of_nat (length col) = NROWS) (pad_signals ev).

(* ------------------------------------------------------------------------------------------ *)
(* binary64 instance: waveforms are lists of floats, the per-channel kernels are Greedy.v's *)
Definition f_pcmp (a b : float) : option comparison :=
  match PrimFloat.compare a b with
  | FEq => Some Eq | FLt => Some Lt | FGt => Some Gt | FNotComparable => None
  end.

Definition avalanches_res_f64 (zf : N -> float -> float -> float -> float)
           (solve : nat -> list (list float) -> list (list float))
           (wire_response pad_response : list float)
           (sortW : list (N * float) -> list (N * float)) (sortP : list (float * float) -> list (float * float))
           (ws : list (option (list float))) (pads : list (list (option (list float))))
  : res (list (aval float float)) :=
  avalanches_res 0%float fpos fgt f_pcmp zf (@length float) solve
                 (fun c => wire_deconv_f c wire_response)
                 (fun s => pad_deconv_f s pad_response)
                 sortW sortP ws pads.

(* the windows `&response[offset..][..look_ahead]` of a grid exist, are negative (the assert of
   deconvolution.rs:31) and are not empty: a fact about the two response tables *)
Definition response_windows_ok (response : list float) (offs las : list nat) : Prop :=
  forall off la, In off offs -> In la las ->
    exists rwin, Greedy.slice float response off la = Some rwin /\ forallb f_neg rwin = true /\ (1 <= la)%nat.

(* ------------------------------------------------------------------------------------------ *)
(* differential instance (extraction unit avt): signals are identifiers, kernels are the oracle tables of the
   C13 `av` case lines; D = block table, so solve = table and wdec = identity *)
Definition avalanches_res_tab (zf : N -> float -> float -> float -> float)
           (slen : N -> nat) (D : list N -> list (list float)) (P : N -> list float)
           (ws : list (option N)) (pads : list (list (option N))) : res (list (aval float float)) :=
  avalanches_res 0%float fpos fgt f_pcmp zf slen (fun _ ids => D ids) (fun c => Ok c) (fun id => Ok (P id))
                 (isort (lessW fgt)) (isort (lessP fgt)) ws pads.
Definition contiguous_ranges_res_n (ws : list (option N)) : res (list (N * N)) := contiguous_ranges_res ws.

(* ------------------------------------------------------------------------------------------ *)
(* lib.rs:394-406  vertex(): the wrapper around the stages of C18 (SpacePoint::try_from), C15
   (cluster_spacepoints) and C14 (Track::try_from(Cluster), find_vertices).  The stages are parameters here;
   AvalTotal_proofs.vertex_total_partial_lemma instantiates them with the models of Recon/Cluster.v and Recon/Fit.v. *)

(* `.into_iter().filter_map(|x| f(x).ok()).collect()`: an Err is dropped, a panic inside f unwinds *)
Fixpoint ok_filter {X Y} (f : X -> res Y) (l : list X) : res (list Y) :=
  match l with
  | [] => Ok []
  | x :: t =>
      match f x with
      | Ok y => do ys <- ok_filter f t; Ok (y :: ys)
      | Err _ => ok_filter f t
      | Panic => Panic
      end
  end.

Section VertexRes.
  Context {A SP TR V : Type}.
  Variable sp_of : A -> res SP.                                    (* lib.rs:116-128 SpacePoint::try_from(Avalanche) *)
  Variable cluster : list SP -> res (list (list SP) * list SP).    (* reconstruction.rs cluster_spacepoints: (clusters, remainder) *)
  Variable fit : list SP -> res TR.                                (* track_fitting.rs Track::try_from(Cluster) *)
  Variable find : list TR -> res (option V * list TR).             (* vertex_fitting.rs find_vertices: (primary, remainder) *)

  Definition vertex_res (avalanches : res (list A)) : res (option V) :=
    do avs <- avalanches;                                          (* :396 self.avalanches() *)
    do points <- ok_filter sp_of avs;                              (* :397-399 *)
    do '(clusters, _) <- cluster points;                           (* :400-401 *)
    do tracks <- ok_filter fit clusters;                           (* :402-404 *)
    do '(primary, _) <- find tracks;                               (* :405 *)
    Ok primary.                                                    (* :405 .primary.map(|info| info.position) *)

  (* the intermediate values of vertex() for one avalanche list: the clusters Track::try_from is called on (:397-401)
     and the tracks find_vertices is handed (:402-404).  The hypotheses of C09_vertex_total_partial speak of these only. *)
  Definition vertex_clusters (avs : list A) : res (list (list SP)) :=
    do points <- ok_filter sp_of avs;
    do '(clusters, _) <- cluster points;
    Ok clusters.
  Definition vertex_tracks (avs : list A) : res (list TR) :=
    do clusters <- vertex_clusters avs;
    ok_filter fit clusters.
End VertexRes.
