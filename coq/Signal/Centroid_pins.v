(* C13 -- the hypothesis of C13_mirror_equivariant on the abstract centroid `zf`
     forall r f m l, r <= 575 -> zf (575 - r) l m f = zneg (zf r f m l)
   tied to the formula of pad_hits_at_t (physics/src/matching.rs:78-86) and TpcPadRow::z
   (detector/src/padwing/map.rs:520-524), OVER THE REALS.  This file only pins statements; definitions:
   Signal/Centroid.v, proofs: Signal/Centroid_proofs.v.

     zR r first middle last = pad_row_z r + (sigma^2 / (2 w)) * ln (last / first),
     sigma^2 = w^2 / ln (middle^2 / (first * last)),  w = PAD_PITCH_Z = 2.304 / 576,
     pad_row_z r = (r + 1/2) * w - 2.304 / 2,   576 = gen_TPC_PAD_ROWS (regenerated from the source).

   What remains between these theorems and the binary64 implementation -- ROUNDING ONLY:
   * pad_row_z: `(row as f64 + 0.5) * PAD_PITCH_Z - DETECTOR_HALF_LENGTH` is evaluated with PAD_PITCH_Z =
     fl(2.304 / 576), one rounded product and one rounded difference; the two mirrored rows round
     independently, so fl(z(575 - r)) = - fl(z(r)) holds only up to a few ulp of 1.152 m (~ 1e-16 m).
   * the centroid: powi(2), two products, two divisions and two libm `ln` calls, each correctly or
     faithfully rounded; fl(ln(last/first)) and fl(ln(first/last)) are negatives of each other only up to the
     rounding of the quotient and the accuracy of libm's ln; first * last is commutative in binary64, so
     sigma^2 is bit-identical on both sides.  The term is bounded by w/2 * |ln(l/f)| / ln(m^2/(f l)) < w/2 = 2 mm
     (under the hit condition |ln (l/f)| < ln (m^2/(f l))), hence the absolute discrepancy is of the order
     of 1e-18..1e-15 m except when ln (m^2/(f l)) is itself at rounding level (middle within a few ulp of
     both neighbours), where the quotient amplifies the relative error of the denominator.
   * no real-number fact is missing: the formula is EXACTLY antisymmetric (C13_centroid_antisymmetric_real),
     the hit condition is EXACTLY symmetric (C13_hit_condition_symmetric; the comparisons `>` on binary64
     are exact, so this part carries over to the implementation as it is), and under the hit condition
     every division and logarithm of the formula is well defined (C13_hit_condition_well_defined).
   The property tolerates 1e-9 m; the binary64 discrepancy |z(mirrored) + z(original)| is MEASURED against
   that tolerance by the `rel-mir` lines of the C13 differential run on every generated event (it is not
   proved: a proof needs an error model of libm's ln, which the tooling present does not provide).

   Allowed axioms: the standard library's real-number axioms (ClassicalDedekindReals.sig_forall_dec,
   sig_not_dec, FunctionalExtensionality.functional_extensionality_dep, Classical_Prop.classic). *)
From Coq Require Import Reals Lra.
From AG Require Import Base.Prelude Signal.Centroid Signal.Centroid_proofs.
Local Open Scope R_scope.

(* TpcPadRow::z is odd under row -> 575 - row, for every row 0..=575 *)
Theorem C13_pad_row_z_antisymmetric :
  forall r : N, (r <= 575)%N -> pad_row_z (575 - r) = - pad_row_z r.
Proof. exact pad_row_z_antisymmetric_lemma. Qed.
Print Assumptions C13_pad_row_z_antisymmetric.

(* the constants: z(row) = (row + 1/2) * 4 mm - 1.152 m *)
Theorem C13_pad_row_z_value :
  forall r : N, pad_row_z r = (NR r + /2) * (4 / 1000) - 1152 / 1000.
Proof. exact pad_row_z_value_lemma. Qed.
Print Assumptions C13_pad_row_z_value.

(* the hit test of matching.rs:78 is invariant under exchanging first and last *)
Theorem C13_hit_condition_symmetric :
  forall first middle last : R,
  hit_condition first middle last <-> hit_condition last middle first.
Proof. exact hit_condition_symmetric_lemma. Qed.
Print Assumptions C13_hit_condition_symmetric.

(* the centroid of the mirrored triple at the mirrored row is minus the centroid *)
Theorem C13_centroid_antisymmetric_real :
  forall (r : N) (first middle last : R), (r <= 575)%N ->
  hit_condition first middle last ->
  zR (575 - r) last middle first = - zR r first middle last.
Proof. exact centroid_antisymmetric_real_lemma. Qed.
Print Assumptions C13_centroid_antisymmetric_real.

(* under the hit condition the formula is a genuine real expression: non-zero divisors, positive arguments
   of both logarithms, sigma^2 > 0 *)
Theorem C13_hit_condition_well_defined :
  forall first middle last : R,
  hit_condition first middle last ->
  first <> 0 /\ first * last > 0 /\ last / first > 0 /\ middle ^ 2 / (first * last) > 1 /\
  ln (middle ^ 2 / (first * last)) > 0 /\ PAD_PITCH_Z > 0 /\
  sigma_squared PAD_PITCH_Z first middle last > 0.
Proof. exact hit_condition_well_defined_lemma. Qed.
Print Assumptions C13_hit_condition_well_defined.

(* the exact shape of the hypothesis of C13_mirror_equivariant (zt := R, amp := R, zf := zR, zneg := Ropp):
   with Coq's total / and ln the identity needs no condition on the amplitudes, so C13_mirror_equivariant
   can be instantiated with zf := zR and this theorem as its first premise *)
Theorem C13_centroid_antisymmetric_total :
  forall (r : N) (f m l : R), (r <= 575)%N -> zR (575 - r) l m f = Ropp (zR r f m l).
Proof. exact centroid_antisymmetric_total_lemma. Qed.
Print Assumptions C13_centroid_antisymmetric_total.

(* non-vacuity: a triple satisfying the hit condition; a symmetric triple is centred on its row *)
Example C13_hit_condition_example : hit_condition 1 3 2.
Proof. unfold hit_condition. repeat split; lra. Qed.
Example C13_centroid_symmetric_triple : forall r a m, zR r a m a = pad_row_z r.
Proof.
  intros. unfold zR, centroid_gen, pad_row_z. cbv zeta.
  destruct (Req_dec a 0) as [->|Ha].
  - unfold Rdiv at 4. rewrite Rinv_0, Rmult_0_r, ln_nonpos by lra. ring.
  - unfold Rdiv at 4. rewrite Rinv_r by exact Ha. rewrite ln_1. ring.
Qed.
