(* C17 — proofs about the greedy deconvolution model of Signal/Greedy.v.
   Everything in Section GreedyProofs holds for ANY sample type F and ANY operations on it (in
   particular for the PrimFloat instance that is compared with the implementation): the statements
   are about control flow only.  Sign, scaling and pulse recovery need arithmetic laws; those are
   Section hypotheses of the later Sections, each instantiated with exact rationals below. *)
From AG Require Import Base.Prelude Base.Res Signal.Greedy.

Local Open Scope nat_scope.

(* ---------- list facts missing from the 8.16 standard library ---------- *)
Lemma nth_error_skipn_ {A} (l : list A) n p : nth_error (skipn n l) p = nth_error l (n + p).
Proof.
  revert l; induction n as [|n IH]; intros l; [reflexivity|].
  destruct l as [|x t]; [destruct p; reflexivity|]. cbn. apply IH.
Qed.
Lemma nth_error_firstn_ {A} (l : list A) n p : p < n -> nth_error (firstn n l) p = nth_error l p.
Proof.
  revert l p; induction n as [|n IH]; intros l p Hp; [lia|].
  destruct l as [|x t]; [destruct p; reflexivity|].
  destruct p as [|p]; [reflexivity|]. cbn. apply IH. lia.
Qed.
Lemma repeat_snoc {A} (a : A) k l : repeat a k ++ a :: l = a :: repeat a k ++ l.
Proof. induction k as [|k IH]; cbn; [reflexivity|]. rewrite IH. reflexivity. Qed.

Section GreedyProofs.
Variable F : Type.
Variables zero szero inf : F.
Variables add sub mul div fmin : F -> F -> F.
Variables neg nonneg : F -> bool.
Variable ltb : F -> F -> bool.

Notation drop_exact := (drop_exact F).
Notation take_exact := (take_exact F).
Notation slice := (slice F).
Notation last_nonneg := (last_nonneg F nonneg).
Notation zip_div := (zip_div F div).
Notation reduce_min := (reduce_min F fmin).
Notation sub_scaled := (sub_scaled F sub mul).
Notation advance := (advance F zero).
Notation finish := (finish F zero).
Notation fire := (fire F sub mul div fmin).
Notation greedy_loop := (greedy_loop F zero sub mul div fmin nonneg).
Notation naive_loop := (naive_loop F zero sub mul div fmin nonneg).
Notation sumsq := (sumsq F szero add mul).
Notation nn_with := (nn_with F szero add mul neg).
Notation nn_greedy := (nn_greedy F zero szero add sub mul div fmin neg nonneg).
Notation nn_naive := (nn_naive F zero szero add sub mul div fmin neg nonneg).
Notation ls_step := (ls_step F ltb).
Notation ls_inner := (ls_inner F ltb).
Notation ls_outer := (ls_outer F ltb).
Notation ls_deconv := (ls_deconv F inf ltb).

(* ---------- slices ---------- *)
Lemma drop_exact_some n l r : drop_exact n l = Some r <-> n <= length l /\ r = skipn n l.
Proof.
  revert l; induction n as [|n IH]; intros l; cbn [Greedy.drop_exact skipn].
  - split; [intros [= <-]; split; [lia|reflexivity] | intros [_ ->]; reflexivity].
  - destruct l as [|x t]; cbn [length].
    + split; [discriminate | intros [H _]; lia].
    + rewrite IH. split; intros [H1 H2]; (split; [lia|assumption]).
Qed.
Lemma take_exact_some n l w : take_exact n l = Some w <-> n <= length l /\ w = firstn n l.
Proof.
  revert l w; induction n as [|n IH]; intros l w; cbn [Greedy.take_exact firstn].
  - split; [intros [= <-]; split; [lia|reflexivity] | intros [_ ->]; reflexivity].
  - destruct l as [|x t]; cbn [length].
    + split; [discriminate | intros [H _]; lia].
    + destruct (take_exact n t) as [w'|] eqn:E.
      * apply IH in E. destruct E as [E1 E2]. split.
        -- intros [= <-]. split; [lia|]. rewrite E2. reflexivity.
        -- intros [_ ->]. rewrite E2. reflexivity.
      * split; [discriminate|]. intros [H1 _]. exfalso.
        assert (H : take_exact n t = Some (firstn n t)) by (apply IH; split; [lia|reflexivity]).
        rewrite E in H. discriminate.
Qed.
Lemma slice_some_iff l off la w :
  slice l off la = Some w <-> off + la <= length l /\ w = firstn la (skipn off l).
Proof.
  unfold Greedy.slice. destruct (drop_exact off l) as [r|] eqn:E.
  - apply drop_exact_some in E. destruct E as [E1 ->]. rewrite take_exact_some, skipn_length.
    split; intros [H1 H2]; (split; [lia|assumption]).
  - split; [discriminate|]. intros [H _]. exfalso.
    assert (H' : drop_exact off l = Some (skipn off l)) by (apply drop_exact_some; split; [lia|reflexivity]).
    rewrite E in H'. discriminate.
Qed.
(* the loop condition `i + offset + look_ahead <= residual.len()` fails iff there is no window *)
Lemma slice_none_iff l off la : slice l off la = None <-> length l < off + la.
Proof.
  destruct (slice l off la) as [w|] eqn:E.
  - apply slice_some_iff in E. split; [discriminate | lia].
  - split; [|reflexivity]. intros _.
    destruct (Nat.lt_ge_cases (length l) (off + la)) as [H|H]; [assumption|]. exfalso.
    assert (H' : slice l off la = Some (firstn la (skipn off l))) by (apply slice_some_iff; split; [lia|reflexivity]).
    rewrite E in H'. discriminate.
Qed.
Lemma slice_length l off la w : slice l off la = Some w -> length w = la.
Proof.
  intros H. apply slice_some_iff in H. destruct H as [H ->].
  rewrite firstn_length, skipn_length. lia.
Qed.

(* ---------- the window search ---------- *)
(* sample p of l exists and is non-negative *)
Definition nn_at (l : list F) (p : nat) : Prop := exists x, nth_error l p = Some x /\ nonneg x = true.

Lemma nn_at_lt l p : nn_at l p -> p < length l.
Proof. intros [x [H _]]. apply nth_error_Some. rewrite H. discriminate. Qed.
Lemma nn_at_cons x t p : nn_at (x :: t) (S p) <-> nn_at t p.
Proof. reflexivity. Qed.

Lemma last_nonneg_some w lp : last_nonneg w = Some lp -> nn_at w lp.
Proof.
  revert lp; induction w as [|x t IH]; intros lp; cbn [Greedy.last_nonneg]; [discriminate|].
  destruct (last_nonneg t) as [k|].
  - intros [= <-]. apply nn_at_cons. apply IH. reflexivity.
  - destruct (nonneg x) eqn:E; [|discriminate]. intros [= <-]. exists x. split; [reflexivity|assumption].
Qed.
Lemma last_nonneg_none w : last_nonneg w = None <-> existsb nonneg w = false.
Proof.
  induction w as [|x t IH]; cbn [Greedy.last_nonneg existsb]; [split; reflexivity|].
  destruct (last_nonneg t) as [k|].
  - split; [discriminate|]. intros H. apply orb_false_iff in H. destruct H as [_ H].
    apply IH in H. discriminate.
  - destruct (nonneg x); cbn [orb]; [split; discriminate|]. rewrite <- IH. split; reflexivity.
Qed.
Lemma nn_at_exists w p : nn_at w p -> existsb nonneg w = true.
Proof.
  intros [x [H1 H2]]. apply existsb_exists. exists x. split; [|assumption].
  eapply nth_error_In; eassumption.
Qed.
(* position lp of the window at offset off is position off + lp of the residual *)
Lemma window_nn_at rest off la win lp :
  slice rest off la = Some win -> lp < la -> (nn_at win lp <-> nn_at rest (off + lp)).
Proof.
  intros Hs Hlp. apply slice_some_iff in Hs. destruct Hs as [_ ->]. unfold nn_at.
  rewrite nth_error_firstn_ by assumption. rewrite nth_error_skipn_. reflexivity.
Qed.

(* ---------- advance / finish ---------- *)
Lemma finish_step x t ai ar : finish t (zero :: ai) (x :: ar) = finish (x :: t) ai ar.
Proof.
  unfold Greedy.finish. cbn [rev length repeat]. rewrite <- !app_assoc. reflexivity.
Qed.
Lemma advance_finish k rest ai ar r' ai' ar' :
  advance k rest ai ar = (r', ai', ar') -> finish r' ai' ar' = finish rest ai ar.
Proof.
  revert rest ai ar; induction k as [|k IH]; intros rest ai ar; cbn [Greedy.advance].
  - intros [= <- <- <-]. reflexivity.
  - destruct rest as [|x t]; [intros [= <- <- <-]; reflexivity|].
    intros H. rewrite (IH _ _ _ H). apply finish_step.
Qed.
Lemma advance_lengths k rest ai ar r' ai' ar' :
  advance k rest ai ar = (r', ai', ar') ->
  length r' = length rest - k /\
  length ai' + length r' = length ai + length rest /\
  length ar' + length r' = length ar + length rest.
Proof.
  revert rest ai ar; induction k as [|k IH]; intros rest ai ar; cbn [Greedy.advance].
  - intros [= <- <- <-]. lia.
  - destruct rest as [|x t]; [intros [= <- <- <-]; cbn [length]; lia|].
    intros H. apply IH in H. cbn [length] in *. lia.
Qed.

Lemma sub_scaled_length rest resp v : length (sub_scaled rest resp v) = length rest.
Proof.
  revert resp; induction rest as [|s t IH]; intros resp; [reflexivity|].
  destruct resp as [|r rt]; [reflexivity|]. cbn [Greedy.sub_scaled length]. rewrite IH. reflexivity.
Qed.
Lemma fire_length response rwin win rest val rest' :
  fire response rwin win rest = Ok (val, rest') -> length rest' = length rest.
Proof.
  unfold Greedy.fire. destruct (reduce_min (zip_div win rwin)) as [v|]; cbn; [|discriminate].
  intros [= <- <-]. apply sub_scaled_length.
Qed.

(* ========== (1) the window skip equals the plain sweep ========== *)
Section Skip.
Variables response rwin : list F.
Variables off la : nat.
Notation gl := (greedy_loop response rwin off la).
Notation nl := (naive_loop response rwin off la).

(* If sample off + lp of the residual (lp < la) is non-negative, the plain sweep walks over the
   next lp + 1 positions writing zeros and changing nothing: that sample is in the window of each of
   those steps (window of step j covers positions off + j .. off + j + la - 1 of `rest`, and
   off + j <= off + lp < off + j + la for j <= lp).  Should the loop condition fail on the way, the
   sweep stops; it then also fails after the jump, and the final vectors are the same. *)
Lemma naive_skip lp : forall rest ai ar f,
  lp < la -> nn_at rest (off + lp) -> 1 <= f ->
  nl (S lp + f) rest ai ar =
  (let '(r', ai', ar') := advance (S lp) rest ai ar in nl f r' ai' ar').
Proof.
  induction lp as [|lp IH]; intros rest ai ar f Hlp Hnn Hf.
  - destruct rest as [|x t]; [apply nn_at_lt in Hnn; cbn in Hnn; lia|].
    cbn [Nat.add Greedy.naive_loop Greedy.advance].
    destruct (slice (x :: t) off la) as [win|] eqn:Hs.
    + assert (Hw : existsb nonneg win = true).
      { apply (nn_at_exists win 0). apply (window_nn_at _ _ _ _ 0 Hs Hlp). assumption. }
      rewrite Hw. reflexivity.
    + destruct f as [|f]; [lia|]. cbn [Greedy.naive_loop].
      apply slice_none_iff in Hs.
      assert (Hs' : slice t off la = None) by (apply slice_none_iff; cbn [length] in Hs; lia).
      rewrite Hs'. rewrite finish_step. reflexivity.
  - destruct rest as [|x t]; [apply nn_at_lt in Hnn; cbn in Hnn; lia|].
    change (S (S lp) + f) with (S (S lp + f)). cbn [Greedy.naive_loop].
    change (advance (S (S lp)) (x :: t) ai ar) with (advance (S lp) t (zero :: ai) (x :: ar)).
    destruct (slice (x :: t) off la) as [win|] eqn:Hs.
    + assert (Hw : existsb nonneg win = true).
      { apply (nn_at_exists win (S lp)). apply (window_nn_at _ _ _ _ (S lp) Hs Hlp). assumption. }
      rewrite Hw. apply IH; [lia| |assumption].
      apply (proj1 (nn_at_cons x t (off + lp))). replace (S (off + lp)) with (off + S lp) by lia. exact Hnn.
    + destruct (advance (S lp) t (zero :: ai) (x :: ar)) as [[r' ai'] ar'] eqn:Ha.
      destruct f as [|f]; [lia|]. cbn [Greedy.naive_loop].
      apply slice_none_iff in Hs.
      destruct (advance_lengths _ _ _ _ _ _ _ Ha) as [Hl _].
      assert (Hs' : slice r' off la = None) by (apply slice_none_iff; cbn [length] in Hs; lia).
      rewrite Hs'. rewrite (advance_finish _ _ _ _ _ _ _ Ha). rewrite finish_step. reflexivity.
Qed.

Lemma greedy_loop_eq_naive_loop : forall n rest ai ar f1 f2,
  length rest = n -> n < f1 -> n < f2 -> gl f1 rest ai ar = nl f2 rest ai ar.
Proof.
  induction n as [n IH] using lt_wf_ind. intros rest ai ar f1 f2 Hn H1 H2.
  destruct f1 as [|f1]; [lia|]. cbn [Greedy.greedy_loop].
  destruct (slice rest off la) as [win|] eqn:Hs.
  - destruct (last_nonneg win) as [lp|] eqn:El.
    + (* skip *)
      assert (Hla := slice_length _ _ _ _ Hs).
      assert (Hnw := last_nonneg_some _ _ El).
      assert (Hlp : lp < la) by (apply nn_at_lt in Hnw; lia).
      assert (Hnr : nn_at rest (off + lp)) by (apply (window_nn_at _ _ _ _ lp Hs Hlp); assumption).
      assert (Hlen := nn_at_lt _ _ Hnr).
      replace f2 with (S lp + (f2 - S lp)) by lia.
      rewrite naive_skip by (assumption || lia).
      destruct (advance (S lp) rest ai ar) as [[r' ai'] ar'] eqn:Ha.
      destruct (advance_lengths _ _ _ _ _ _ _ Ha) as [Hl _].
      apply (IH (length r')); lia.
    + (* fire *)
      destruct f2 as [|f2]; [lia|]. cbn [Greedy.naive_loop]. rewrite Hs.
      apply last_nonneg_none in El. rewrite El.
      destruct (fire response rwin win rest) as [[val rest']| |] eqn:Ef; cbn [bind]; try reflexivity.
      apply fire_length in Ef.
      destruct rest' as [|x t]; [reflexivity|]. cbn [length] in Ef.
      apply (IH (length t)); lia.
  - destruct f2 as [|f2]; [lia|]. cbn [Greedy.naive_loop]. rewrite Hs. reflexivity.
Qed.
End Skip.

Theorem greedy_skip_eq_naive_sec : forall signal response off la,
  nn_greedy signal response off la = nn_naive signal response off la.
Proof.
  intros signal response off la. unfold Greedy.nn_greedy, Greedy.nn_naive, Greedy.nn_with.
  destruct (unwrap (slice response off la)) as [rwin| |]; cbn [bind]; try reflexivity.
  unfold assert_. destruct (forallb neg rwin); [|reflexivity].
  rewrite (greedy_loop_eq_naive_loop response rwin off la (length signal) signal [] []
             (S (length signal)) (S (length signal))) by lia.
  reflexivity.
Qed.

(* ========== (2) least-squares selection: same argmin, same tie-break ========== *)
Section LsExt.
Variables nn1 nn2 : list F -> list F -> nat -> nat -> res (F * list F).
Hypothesis nn_ext : forall s r o l, nn1 s r o l = nn2 s r o l.

Lemma ls_inner_ext signal response best off las :
  ls_inner nn1 signal response best off las = ls_inner nn2 signal response best off las.
Proof.
  revert best; induction las as [|la t IH]; intros best; [reflexivity|].
  cbn [Greedy.ls_inner]. unfold Greedy.ls_step. rewrite nn_ext.
  destruct (nn2 signal response off la) as [[r inp]| |]; cbn [bind]; try reflexivity. apply IH.
Qed.
Lemma ls_outer_ext signal response best offs las :
  ls_outer nn1 signal response best offs las = ls_outer nn2 signal response best offs las.
Proof.
  revert best; induction offs as [|off t IH]; intros best; [reflexivity|].
  cbn [Greedy.ls_outer]. rewrite ls_inner_ext.
  destruct (ls_inner nn2 signal response best off las) as [b| |]; cbn [bind]; try reflexivity. apply IH.
Qed.
Lemma ls_deconv_ext signal response offs las :
  ls_deconv nn1 signal response offs las = ls_deconv nn2 signal response offs las.
Proof. unfold Greedy.ls_deconv. rewrite ls_outer_ext. reflexivity. Qed.
End LsExt.

Theorem deconv_eq_plain_sec : forall signal response offs las,
  ls_deconv nn_greedy signal response offs las = ls_deconv nn_naive signal response offs las.
Proof. intros. apply ls_deconv_ext. apply greedy_skip_eq_naive_sec. Qed.

End GreedyProofs.

(* Statements with exactly the parameters they mention (inside the Section `lia` makes every lemma
   depend on all Section variables; the unused ones are instantiated with dummies here). *)
Lemma greedy_skip_eq_naive_lemma :
  forall (F : Type) (zero szero : F) (add sub mul div fmin : F -> F -> F) (neg nonneg : F -> bool)
         (signal response : list F) (off la : nat),
  nn_greedy F zero szero add sub mul div fmin neg nonneg signal response off la =
  nn_naive F zero szero add sub mul div fmin neg nonneg signal response off la.
Proof.
  intros. exact (greedy_skip_eq_naive_sec F zero szero zero add sub mul div fmin neg nonneg (fun _ _ => true)
                   signal response off la).
Qed.
Lemma deconv_eq_plain_lemma :
  forall (F : Type) (zero szero inf : F) (add sub mul div fmin : F -> F -> F) (neg nonneg : F -> bool)
         (ltb : F -> F -> bool) (signal response : list F) (offs las : list nat),
  ls_deconv F inf ltb (nn_greedy F zero szero add sub mul div fmin neg nonneg) signal response offs las =
  ls_deconv F inf ltb (nn_naive F zero szero add sub mul div fmin neg nonneg) signal response offs las.
Proof. intros. apply deconv_eq_plain_sec. Qed.
