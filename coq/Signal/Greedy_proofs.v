(* C17 — proofs about the greedy deconvolution model of Signal/Greedy.v.
   Everything in Section GreedyProofs holds for ANY sample type F and ANY operations on it (in
   particular for the PrimFloat instance that is compared with the implementation): the statements
   are about control flow only.  Sign, scaling and pulse recovery need arithmetic laws; those are
   Section hypotheses of the later Sections, each instantiated with exact rationals below. *)
From AG Require Import Base.Prelude Base.Res Signal.Greedy.
From Coq Require Import Floats QArith Qcanon.

Local Open Scope nat_scope.

(* ---------- list facts missing from the 8.16 standard library ---------- *)
Lemma nth_error_skipn_ {A} (l : list A) n p : nth_error (skipn n l) p = nth_error l (n + p).
Proof.
  revert l; induction n as [|n IH]; intros l; [reflexivity|].
  destruct l as [|x t]; [destruct p; reflexivity|]. cbn. apply IH.
Qed.
Lemma nth_error_firstn_ {A} (l : list A) n p : p < n -> nth_error (firstn n l) p = nth_error l p.
Proof.
  revert l p; induction n as [|n IH]; intros l p Hp; [lia|].
  destruct l as [|x t]; [destruct p; reflexivity|].
  destruct p as [|p]; [reflexivity|]. cbn. apply IH. lia.
Qed.
Lemma repeat_snoc {A} (a : A) k l : repeat a k ++ a :: l = a :: repeat a k ++ l.
Proof. induction k as [|k IH]; cbn; [reflexivity|]. rewrite IH. reflexivity. Qed.

Section Slices.
Variable F : Type.
Notation drop_exact := (drop_exact F).
Notation take_exact := (take_exact F).
Notation slice := (slice F).

(* ---------- slices ---------- *)
Lemma drop_exact_some n l r : drop_exact n l = Some r <-> n <= length l /\ r = skipn n l.
Proof.
  revert l; induction n as [|n IH]; intros l; cbn [Greedy.drop_exact skipn].
  - split; [intros [= <-]; split; [lia|reflexivity] | intros [_ ->]; reflexivity].
  - destruct l as [|x t]; cbn [length].
    + split; [discriminate | intros [H _]; lia].
    + rewrite IH. split; intros [H1 H2]; (split; [lia|assumption]).
Qed.
Lemma take_exact_some n l w : take_exact n l = Some w <-> n <= length l /\ w = firstn n l.
Proof.
  revert l w; induction n as [|n IH]; intros l w; cbn [Greedy.take_exact firstn].
  - split; [intros [= <-]; split; [lia|reflexivity] | intros [_ ->]; reflexivity].
  - destruct l as [|x t]; cbn [length].
    + split; [discriminate | intros [H _]; lia].
    + destruct (take_exact n t) as [w'|] eqn:E.
      * apply IH in E. destruct E as [E1 E2]. split.
        -- intros [= <-]. split; [lia|]. rewrite E2. reflexivity.
        -- intros [_ ->]. rewrite E2. reflexivity.
      * split; [discriminate|]. intros [H1 _]. exfalso.
        assert (H : take_exact n t = Some (firstn n t)) by (apply IH; split; [lia|reflexivity]).
        rewrite E in H. discriminate.
Qed.
Lemma slice_some_iff l off la w :
  slice l off la = Some w <-> off + la <= length l /\ w = firstn la (skipn off l).
Proof.
  unfold Greedy.slice. destruct (drop_exact off l) as [r|] eqn:E.
  - apply drop_exact_some in E. destruct E as [E1 ->]. rewrite take_exact_some, skipn_length.
    split; intros [H1 H2]; (split; [lia|assumption]).
  - split; [discriminate|]. intros [H _]. exfalso.
    assert (H' : drop_exact off l = Some (skipn off l)) by (apply drop_exact_some; split; [lia|reflexivity]).
    rewrite E in H'. discriminate.
Qed.
(* the loop condition `i + offset + look_ahead <= residual.len()` fails iff there is no window *)
Lemma slice_none_iff l off la : slice l off la = None <-> length l < off + la.
Proof.
  destruct (slice l off la) as [w|] eqn:E.
  - apply slice_some_iff in E. split; [discriminate | lia].
  - split; [|reflexivity]. intros _.
    destruct (Nat.lt_ge_cases (length l) (off + la)) as [H|H]; [assumption|]. exfalso.
    assert (H' : slice l off la = Some (firstn la (skipn off l))) by (apply slice_some_iff; split; [lia|reflexivity]).
    rewrite E in H'. discriminate.
Qed.
Lemma slice_length l off la w : slice l off la = Some w -> length w = la.
Proof.
  intros H. apply slice_some_iff in H. destruct H as [H ->].
  rewrite firstn_length, skipn_length. lia.
Qed.

End Slices.
Arguments drop_exact_some {F}.
Arguments take_exact_some {F}.
Arguments slice_some_iff {F}.
Arguments slice_none_iff {F}.
Arguments slice_length {F}.

Section GreedyProofs.
Variable F : Type.
Variables zero szero inf : F.
Variables add sub mul div fmin : F -> F -> F.
Variables neg nonneg : F -> bool.
Variable ltb : F -> F -> bool.

Notation drop_exact := (drop_exact F).
Notation take_exact := (take_exact F).
Notation slice := (slice F).
Notation last_nonneg := (last_nonneg F nonneg).
Notation zip_div := (zip_div F div).
Notation reduce_min := (reduce_min F fmin).
Notation sub_scaled := (sub_scaled F sub mul).
Notation advance := (advance F zero).
Notation finish := (finish F zero).
Notation fire := (fire F sub mul div fmin).
Notation greedy_loop := (greedy_loop F zero sub mul div fmin nonneg).
Notation naive_loop := (naive_loop F zero sub mul div fmin nonneg).
Notation sumsq := (sumsq F szero add mul).
Notation nn_with := (nn_with F szero add mul neg).
Notation nn_greedy := (nn_greedy F zero szero add sub mul div fmin neg nonneg).
Notation nn_naive := (nn_naive F zero szero add sub mul div fmin neg nonneg).
Notation ls_step := (ls_step F ltb).
Notation ls_inner := (ls_inner F ltb).
Notation ls_outer := (ls_outer F ltb).
Notation ls_deconv := (ls_deconv F inf ltb).

(* ---------- the window search ---------- *)
(* sample p of l exists and is non-negative *)
Definition nn_at (l : list F) (p : nat) : Prop := exists x, nth_error l p = Some x /\ nonneg x = true.

Lemma nn_at_lt l p : nn_at l p -> p < length l.
Proof. intros [x [H _]]. apply nth_error_Some. rewrite H. discriminate. Qed.
Lemma nn_at_cons x t p : nn_at (x :: t) (S p) <-> nn_at t p.
Proof. reflexivity. Qed.

Lemma last_nonneg_some w lp : last_nonneg w = Some lp -> nn_at w lp.
Proof.
  revert lp; induction w as [|x t IH]; intros lp; cbn [Greedy.last_nonneg]; [discriminate|].
  destruct (last_nonneg t) as [k|].
  - intros [= <-]. apply nn_at_cons. apply IH. reflexivity.
  - destruct (nonneg x) eqn:E; [|discriminate]. intros [= <-]. exists x. split; [reflexivity|assumption].
Qed.
Lemma last_nonneg_none w : last_nonneg w = None <-> existsb nonneg w = false.
Proof.
  induction w as [|x t IH]; cbn [Greedy.last_nonneg existsb]; [split; reflexivity|].
  destruct (last_nonneg t) as [k|].
  - split; [discriminate|]. intros H. apply orb_false_iff in H. destruct H as [_ H].
    apply IH in H. discriminate.
  - destruct (nonneg x); cbn [orb]; [split; discriminate|]. rewrite <- IH. split; reflexivity.
Qed.
Lemma nn_at_exists w p : nn_at w p -> existsb nonneg w = true.
Proof.
  intros [x [H1 H2]]. apply existsb_exists. exists x. split; [|assumption].
  eapply nth_error_In; eassumption.
Qed.
(* position lp of the window at offset off is position off + lp of the residual *)
Lemma window_nn_at rest off la win lp :
  slice rest off la = Some win -> lp < la -> (nn_at win lp <-> nn_at rest (off + lp)).
Proof.
  intros Hs Hlp. apply slice_some_iff in Hs. destruct Hs as [_ ->]. unfold nn_at.
  rewrite nth_error_firstn_ by assumption. rewrite nth_error_skipn_. reflexivity.
Qed.

(* ---------- advance / finish ---------- *)
Lemma finish_step x t ai ar : finish t (zero :: ai) (x :: ar) = finish (x :: t) ai ar.
Proof.
  unfold Greedy.finish. cbn [rev length repeat]. rewrite <- !app_assoc. reflexivity.
Qed.
Lemma advance_finish k rest ai ar r' ai' ar' :
  advance k rest ai ar = (r', ai', ar') -> finish r' ai' ar' = finish rest ai ar.
Proof.
  revert rest ai ar; induction k as [|k IH]; intros rest ai ar; cbn [Greedy.advance].
  - intros [= <- <- <-]. reflexivity.
  - destruct rest as [|x t]; [intros [= <- <- <-]; reflexivity|].
    intros H. rewrite (IH _ _ _ H). apply finish_step.
Qed.
Lemma advance_lengths k rest ai ar r' ai' ar' :
  advance k rest ai ar = (r', ai', ar') ->
  length r' = length rest - k /\
  length ai' + length r' = length ai + length rest /\
  length ar' + length r' = length ar + length rest.
Proof.
  revert rest ai ar; induction k as [|k IH]; intros rest ai ar; cbn [Greedy.advance].
  - intros [= <- <- <-]. lia.
  - destruct rest as [|x t]; [intros [= <- <- <-]; cbn [length]; lia|].
    intros H. apply IH in H. cbn [length] in *. lia.
Qed.

Lemma sub_scaled_length rest resp v : length (sub_scaled rest resp v) = length rest.
Proof.
  revert resp; induction rest as [|s t IH]; intros resp; [reflexivity|].
  destruct resp as [|r rt]; [reflexivity|]. cbn [Greedy.sub_scaled length]. rewrite IH. reflexivity.
Qed.
Lemma fire_length response rwin win rest val rest' :
  fire response rwin win rest = Ok (val, rest') -> length rest' = length rest.
Proof.
  unfold Greedy.fire. destruct (reduce_min (zip_div win rwin)) as [v|]; cbn; [|discriminate].
  intros [= <- <-]. apply sub_scaled_length.
Qed.

(* ========== (1) the window skip equals the plain sweep ========== *)
Section Skip.
Variables response rwin : list F.
Variables off la : nat.
Notation gl := (greedy_loop response rwin off la).
Notation nl := (naive_loop response rwin off la).

(* If sample off + lp of the residual (lp < la) is non-negative, the plain sweep walks over the
   next lp + 1 positions writing zeros and changing nothing: that sample is in the window of each of
   those steps (window of step j covers positions off + j .. off + j + la - 1 of `rest`, and
   off + j <= off + lp < off + j + la for j <= lp).  Should the loop condition fail on the way, the
   sweep stops; it then also fails after the jump, and the final vectors are the same. *)
Lemma naive_skip lp : forall rest ai ar f,
  lp < la -> nn_at rest (off + lp) -> 1 <= f ->
  nl (S lp + f) rest ai ar =
  (let '(r', ai', ar') := advance (S lp) rest ai ar in nl f r' ai' ar').
Proof.
  induction lp as [|lp IH]; intros rest ai ar f Hlp Hnn Hf.
  - destruct rest as [|x t]; [apply nn_at_lt in Hnn; cbn in Hnn; lia|].
    cbn [Nat.add Greedy.naive_loop Greedy.advance].
    destruct (slice (x :: t) off la) as [win|] eqn:Hs.
    + assert (Hw : existsb nonneg win = true).
      { apply (nn_at_exists win 0). apply (window_nn_at _ _ _ _ 0 Hs Hlp). assumption. }
      rewrite Hw. reflexivity.
    + destruct f as [|f]; [lia|]. cbn [Greedy.naive_loop].
      apply slice_none_iff in Hs.
      assert (Hs' : slice t off la = None) by (apply slice_none_iff; cbn [length] in Hs; lia).
      rewrite Hs'. rewrite finish_step. reflexivity.
  - destruct rest as [|x t]; [apply nn_at_lt in Hnn; cbn in Hnn; lia|].
    change (S (S lp) + f) with (S (S lp + f)). cbn [Greedy.naive_loop].
    change (advance (S (S lp)) (x :: t) ai ar) with (advance (S lp) t (zero :: ai) (x :: ar)).
    destruct (slice (x :: t) off la) as [win|] eqn:Hs.
    + assert (Hw : existsb nonneg win = true).
      { apply (nn_at_exists win (S lp)). apply (window_nn_at _ _ _ _ (S lp) Hs Hlp). assumption. }
      rewrite Hw. apply IH; [lia| |assumption].
      apply (proj1 (nn_at_cons x t (off + lp))). replace (S (off + lp)) with (off + S lp) by lia. exact Hnn.
    + destruct (advance (S lp) t (zero :: ai) (x :: ar)) as [[r' ai'] ar'] eqn:Ha.
      destruct f as [|f]; [lia|]. cbn [Greedy.naive_loop].
      apply slice_none_iff in Hs.
      destruct (advance_lengths _ _ _ _ _ _ _ Ha) as [Hl _].
      assert (Hs' : slice r' off la = None) by (apply slice_none_iff; cbn [length] in Hs; lia).
      rewrite Hs'. rewrite (advance_finish _ _ _ _ _ _ _ Ha). rewrite finish_step. reflexivity.
Qed.

Lemma greedy_loop_eq_naive_loop : forall n rest ai ar f1 f2,
  length rest = n -> n < f1 -> n < f2 -> gl f1 rest ai ar = nl f2 rest ai ar.
Proof.
  induction n as [n IH] using lt_wf_ind. intros rest ai ar f1 f2 Hn H1 H2.
  destruct f1 as [|f1]; [lia|]. cbn [Greedy.greedy_loop].
  destruct (slice rest off la) as [win|] eqn:Hs.
  - destruct (last_nonneg win) as [lp|] eqn:El.
    + (* skip *)
      assert (Hla := slice_length _ _ _ _ Hs).
      assert (Hnw := last_nonneg_some _ _ El).
      assert (Hlp : lp < la) by (apply nn_at_lt in Hnw; lia).
      assert (Hnr : nn_at rest (off + lp)) by (apply (window_nn_at _ _ _ _ lp Hs Hlp); assumption).
      assert (Hlen := nn_at_lt _ _ Hnr).
      replace f2 with (S lp + (f2 - S lp)) by lia.
      rewrite naive_skip by (assumption || lia).
      destruct (advance (S lp) rest ai ar) as [[r' ai'] ar'] eqn:Ha.
      destruct (advance_lengths _ _ _ _ _ _ _ Ha) as [Hl _].
      apply (IH (length r')); lia.
    + (* fire *)
      destruct f2 as [|f2]; [lia|]. cbn [Greedy.naive_loop]. rewrite Hs.
      apply last_nonneg_none in El. rewrite El.
      destruct (fire response rwin win rest) as [[val rest']| |] eqn:Ef; cbn [bind]; try reflexivity.
      apply fire_length in Ef.
      destruct rest' as [|x t]; [reflexivity|]. cbn [length] in Ef.
      apply (IH (length t)); lia.
  - destruct f2 as [|f2]; [lia|]. cbn [Greedy.naive_loop]. rewrite Hs. reflexivity.
Qed.
End Skip.

Theorem greedy_skip_eq_naive_sec : forall signal response off la,
  nn_greedy signal response off la = nn_naive signal response off la.
Proof.
  intros signal response off la. unfold Greedy.nn_greedy, Greedy.nn_naive, Greedy.nn_with.
  destruct (unwrap (slice response off la)) as [rwin| |]; cbn [bind]; try reflexivity.
  unfold assert_. destruct (forallb neg rwin); [|reflexivity].
  rewrite (greedy_loop_eq_naive_loop response rwin off la (length signal) signal [] []
             (S (length signal)) (S (length signal))) by lia.
  reflexivity.
Qed.

(* ========== (2) least-squares selection: same argmin, same tie-break ========== *)
Section LsExt.
Variables nn1 nn2 : list F -> list F -> nat -> nat -> res (F * list F).
Hypothesis nn_ext : forall s r o l, nn1 s r o l = nn2 s r o l.

Lemma ls_inner_ext signal response best off las :
  ls_inner nn1 signal response best off las = ls_inner nn2 signal response best off las.
Proof.
  revert best; induction las as [|la t IH]; intros best; [reflexivity|].
  cbn [Greedy.ls_inner]. unfold Greedy.ls_step. rewrite nn_ext.
  destruct (nn2 signal response off la) as [[r inp]| |]; cbn [bind]; try reflexivity. apply IH.
Qed.
Lemma ls_outer_ext signal response best offs las :
  ls_outer nn1 signal response best offs las = ls_outer nn2 signal response best offs las.
Proof.
  revert best; induction offs as [|off t IH]; intros best; [reflexivity|].
  cbn [Greedy.ls_outer]. rewrite ls_inner_ext.
  destruct (ls_inner nn2 signal response best off las) as [b| |]; cbn [bind]; try reflexivity. apply IH.
Qed.
Lemma ls_deconv_ext signal response offs las :
  ls_deconv nn1 signal response offs las = ls_deconv nn2 signal response offs las.
Proof. unfold Greedy.ls_deconv. rewrite ls_outer_ext. reflexivity. Qed.
End LsExt.

Theorem deconv_eq_plain_sec : forall signal response offs las,
  ls_deconv nn_greedy signal response offs las = ls_deconv nn_naive signal response offs las.
Proof. intros. apply ls_deconv_ext. apply greedy_skip_eq_naive_sec. Qed.


(* ========== (3) lengths, fuel, totality ========== *)
Section Len.
Variables response rwin : list F.
Variables off la : nat.
Notation gl := (greedy_loop response rwin off la).

Lemma greedy_loop_lengths : forall fuel rest ai ar residual input,
  gl fuel rest ai ar = Ok (residual, input) ->
  length residual = length ar + length rest /\ length input = length ai + length rest.
Proof.
  induction fuel as [|f IH]; intros rest ai ar residual input; cbn [Greedy.greedy_loop]; [discriminate|].
  destruct (slice rest off la) as [win|] eqn:Hs.
  - destruct (last_nonneg win) as [lp|].
    + destruct (advance (S lp) rest ai ar) as [[r' ai'] ar'] eqn:Ha.
      intros H. apply IH in H. destruct (advance_lengths _ _ _ _ _ _ _ Ha) as [_ [H1 H2]]. lia.
    + destruct (fire response rwin win rest) as [[val rest']| |] eqn:Ef; cbn [bind]; try discriminate.
      apply fire_length in Ef. destruct rest' as [|x t]; [discriminate|].
      intros H. apply IH in H. cbn [length] in *. lia.
  - intros [= <- <-]. unfold Greedy.finish. rewrite !app_length, !rev_length, repeat_length. lia.
Qed.

Lemma fire_not_err win rest k : fire response rwin win rest <> Err k.
Proof. unfold Greedy.fire. destruct (reduce_min (zip_div win rwin)); cbn; discriminate. Qed.

(* the fuel S (length signal) given by nn_greedy always suffices: Err 1 (out of fuel) never comes out *)
Lemma greedy_loop_fuel : forall fuel rest ai ar k, length rest < fuel -> gl fuel rest ai ar <> Err k.
Proof.
  induction fuel as [|f IH]; intros rest ai ar k Hf; [lia|]. cbn [Greedy.greedy_loop].
  destruct (slice rest off la) as [win|] eqn:Hs; [|discriminate].
  destruct (last_nonneg win) as [lp|] eqn:El.
  - assert (Hla := slice_length _ _ _ _ Hs).
    assert (Hnw := nn_at_lt _ _ (last_nonneg_some _ _ El)).
    apply slice_some_iff in Hs. destruct Hs as [Hs _].
    destruct (advance (S lp) rest ai ar) as [[r' ai'] ar'] eqn:Ha.
    destruct (advance_lengths _ _ _ _ _ _ _ Ha) as [Hl _].
    apply IH. lia.
  - destruct (fire response rwin win rest) as [[val rest']| |] eqn:Ef; cbn [bind]; try discriminate.
    + apply fire_length in Ef. destruct rest' as [|x t]; [discriminate|]. apply IH. cbn [length] in Ef. lia.
    + exfalso. exact (fire_not_err _ _ _ Ef).
Qed.

Lemma zip_div_length w rw : length (zip_div w rw) = Nat.min (length w) (length rw).
Proof.
  revert rw; induction w as [|s t IH]; intros rw; [reflexivity|].
  destruct rw as [|r rt]; [reflexivity|]. cbn [Greedy.zip_div length Nat.min]. rewrite IH. reflexivity.
Qed.

(* with a non-empty window (look_ahead >= 1) the sweep never panics *)
Lemma greedy_loop_ok : forall fuel rest ai ar,
  length rest < fuel -> 1 <= la -> length rwin = la ->
  exists residual input, gl fuel rest ai ar = Ok (residual, input).
Proof.
  induction fuel as [|f IH]; intros rest ai ar Hf Hla Hrw; [lia|]. cbn [Greedy.greedy_loop].
  destruct (slice rest off la) as [win|] eqn:Hs; [|unfold Greedy.finish; eauto].
  assert (Hwl := slice_length _ _ _ _ Hs).
  apply slice_some_iff in Hs. destruct Hs as [Hs _].
  destruct (last_nonneg win) as [lp|] eqn:El.
  - destruct (advance (S lp) rest ai ar) as [[r' ai'] ar'] eqn:Ha.
    destruct (advance_lengths _ _ _ _ _ _ _ Ha) as [Hl _].
    apply IH; [lia|assumption|assumption].
  - unfold Greedy.fire.
    destruct (zip_div win rwin) as [|q qs] eqn:Ez.
    + exfalso. assert (H := zip_div_length win rwin). rewrite Ez in H. cbn [length] in H. lia.
    + cbn [Greedy.reduce_min unwrap bind].
      destruct (sub_scaled rest response (fold_left fmin qs q)) as [|x t] eqn:Er.
      * exfalso. assert (H := sub_scaled_length rest response (fold_left fmin qs q)).
        rewrite Er in H. cbn [length] in H. lia.
      * apply IH; [|assumption|assumption].
        assert (H := sub_scaled_length rest response (fold_left fmin qs q)).
        rewrite Er in H. cbn [length] in H. lia.
Qed.
End Len.

Theorem nn_greedy_length_sec signal response off la r inp :
  nn_greedy signal response off la = Ok (r, inp) -> length inp = length signal.
Proof.
  unfold Greedy.nn_greedy, Greedy.nn_with.
  destruct (unwrap (slice response off la)) as [rwin| |]; cbn [bind]; try discriminate.
  unfold assert_. destruct (forallb neg rwin); [|discriminate].
  destruct (greedy_loop response rwin off la (S (length signal)) signal [] []) as [[residual input]| |] eqn:E;
    cbn [bind]; try discriminate.
  intros [= _ <-]. apply greedy_loop_lengths in E. cbn [length] in E. lia.
Qed.

Theorem nn_greedy_not_err_sec signal response off la k : nn_greedy signal response off la <> Err k.
Proof.
  unfold Greedy.nn_greedy, Greedy.nn_with.
  destruct (slice response off la) as [rwin|]; cbn [unwrap bind]; try discriminate.
  unfold assert_. destruct (forallb neg rwin); [|discriminate].
  destruct (greedy_loop response rwin off la (S (length signal)) signal [] []) as [[residual input]|k0|] eqn:E;
    cbn [bind]; try discriminate.
  exfalso. apply (greedy_loop_fuel response rwin off la (S (length signal)) signal [] [] k0); [lia|assumption].
Qed.

(* the assert and the slicing are the only panics when look_ahead >= 1 *)
Theorem nn_greedy_total_sec signal response off la rwin :
  slice response off la = Some rwin -> forallb neg rwin = true -> 1 <= la ->
  exists r inp, nn_greedy signal response off la = Ok (r, inp) /\ length inp = length signal.
Proof.
  intros Hs Hneg Hla.
  destruct (greedy_loop_ok response rwin off la (S (length signal)) signal [] []) as [residual [input E]];
    [lia|assumption|eapply slice_length; eassumption|].
  assert (H : nn_greedy signal response off la = Ok (sumsq residual, input)).
  { unfold Greedy.nn_greedy, Greedy.nn_with. rewrite Hs. cbn [unwrap bind]. unfold assert_. rewrite Hneg.
    rewrite E. reflexivity. }
  exists (sumsq residual), input. split; [assumption|]. eapply nn_greedy_length_sec; eassumption.
Qed.

(* waveform shorter than offset + look_ahead: the loop body never runs; all-zero output of the same length *)
Theorem nn_greedy_short_sec signal response off la rwin :
  slice response off la = Some rwin -> forallb neg rwin = true -> length signal < off + la ->
  nn_greedy signal response off la = Ok (sumsq signal, repeat zero (length signal)).
Proof.
  intros Hs Hneg Hn. unfold Greedy.nn_greedy, Greedy.nn_with. rewrite Hs. cbn [unwrap bind].
  unfold assert_. rewrite Hneg. cbn [Greedy.greedy_loop].
  apply slice_none_iff in Hn. rewrite Hn. reflexivity.
Qed.

(* ---- ls_deconvolution: which vector comes out ---- *)
Section LsLen.
Variable nn : list F -> list F -> nat -> nat -> res (F * list F).
Variables signal response : list F.
Hypothesis nn_len : forall off la r inp, nn signal response off la = Ok (r, inp) -> length inp = length signal.

Definition grid (offs las : list nat) : list (nat * nat) := flat_map (fun o => map (pair o) las) offs.
Fixpoint ls_flat (best : F * list F) (g : list (nat * nat)) : res (F * list F) :=
  match g with
  | [] => Ok best
  | (off, la) :: t => do b <- ls_step nn signal response best off la; ls_flat b t
  end.

Lemma ls_flat_app best g1 g2 : ls_flat best (g1 ++ g2) = (do b <- ls_flat best g1; ls_flat b g2).
Proof.
  revert best; induction g1 as [|[o l] t IH]; intros best; [reflexivity|].
  cbn [app ls_flat]. destruct (ls_step nn signal response best o l) as [b| |]; cbn [bind]; try reflexivity. apply IH.
Qed.
Lemma ls_inner_flat best off las : ls_inner nn signal response best off las = ls_flat best (map (pair off) las).
Proof.
  revert best; induction las as [|la t IH]; intros best; [reflexivity|].
  cbn [Greedy.ls_inner map ls_flat].
  destruct (ls_step nn signal response best off la) as [b| |]; cbn [bind]; try reflexivity. apply IH.
Qed.
Lemma ls_outer_flat best offs las : ls_outer nn signal response best offs las = ls_flat best (grid offs las).
Proof.
  revert best; induction offs as [|off t IH]; intros best; [reflexivity|].
  cbn [Greedy.ls_outer grid flat_map]. rewrite ls_flat_app, ls_inner_flat.
  destruct (ls_flat best (map (pair off) las)) as [b| |]; cbn [bind]; try reflexivity. apply IH.
Qed.
Lemma in_grid o l offs las : In (o, l) (grid offs las) <-> In o offs /\ In l las.
Proof.
  unfold grid. rewrite in_flat_map. split.
  - intros [o' [H1 H2]]. apply in_map_iff in H2. destruct H2 as [l' [[= <- <-] H3]]. split; assumption.
  - intros [H1 H2]. exists o. split; [assumption|]. apply in_map_iff. exists l. split; [reflexivity|assumption].
Qed.

Lemma ls_step_ok best off la b :
  ls_step nn signal response best off la = Ok b ->
  exists r inp, nn signal response off la = Ok (r, inp) /\ b = (if ltb r (fst best) then (r, inp) else best).
Proof.
  unfold Greedy.ls_step. destruct (nn signal response off la) as [[r inp]| |]; cbn [bind]; try discriminate.
  intros [= <-]. eauto.
Qed.

Lemma ls_flat_len_mono : forall g best b,
  ls_flat best g = Ok b -> length (snd best) = length signal -> length (snd b) = length signal.
Proof.
  induction g as [|[o l] t IH]; intros best b; cbn [ls_flat]; [intros [= <-]; auto|].
  intros H Hb. apply bind_ok in H. destruct H as [b1 [H1 H2]].
  apply ls_step_ok in H1. destruct H1 as [r [inp [Hn ->]]].
  apply (IH _ _ H2). destruct (ltb r (fst best)); [cbn [snd]; eapply nn_len; eassumption | assumption].
Qed.
(* some run of the grid has a residual < +inf: the result is a vector of the input's length *)
Lemma ls_flat_good : forall g best b,
  ls_flat best g = Ok b ->
  best = (inf, []) \/ length (snd best) = length signal ->
  (exists off la r inp, In (off, la) g /\ nn signal response off la = Ok (r, inp) /\ ltb r inf = true) ->
  length (snd b) = length signal.
Proof.
  induction g as [|[o l] t IH]; intros best b; cbn [ls_flat].
  - intros _ _ [off [la [r [inp [[] _]]]]].
  - intros H Hb [off [la [r [inp [Hin [Hn Hlt]]]]]].
    apply bind_ok in H. destruct H as [b1 [H1 H2]].
    apply ls_step_ok in H1. destruct H1 as [r1 [inp1 [Hn1 Hb1]]].
    destruct Hin as [[= <- <-]|Hin].
    + rewrite Hn in Hn1. injection Hn1 as <- <-.
      apply (ls_flat_len_mono _ _ _ H2). rewrite Hb1.
      destruct Hb as [->|Hb].
      * cbn [fst]. rewrite Hlt. cbn [snd]. eapply nn_len; eassumption.
      * destruct (ltb r (fst best)); [cbn [snd]; eapply nn_len; eassumption | assumption].
    + apply (IH _ _ H2).
      * rewrite Hb1. destruct (ltb r1 (fst best)); [right; cbn [snd]; eapply nn_len; eassumption | assumption].
      * exists off, la, r, inp. auto.
Qed.
(* no run of the grid has a residual < +inf (all NaN or +inf): best_input stays the EMPTY vector *)
Lemma ls_flat_bad : forall g b,
  ls_flat (inf, []) g = Ok b ->
  (forall off la r inp, In (off, la) g -> nn signal response off la = Ok (r, inp) -> ltb r inf = false) ->
  b = (inf, []).
Proof.
  induction g as [|[o l] t IH]; intros b; cbn [ls_flat]; [intros [= <-]; reflexivity|].
  intros H Hall. apply bind_ok in H. destruct H as [b1 [H1 H2]].
  apply ls_step_ok in H1. destruct H1 as [r1 [inp1 [Hn1 Hb1]]].
  cbn [fst] in Hb1. rewrite (Hall o l r1 inp1 (or_introl eq_refl) Hn1) in Hb1. subst b1.
  apply IH; [assumption|]. intros off la r inp Hin. apply Hall. right. assumption.
Qed.

Theorem ls_deconv_length_sec offs las out :
  ls_deconv nn signal response offs las = Ok out ->
  (exists off la r inp, In off offs /\ In la las /\ nn signal response off la = Ok (r, inp) /\ ltb r inf = true) ->
  length out = length signal.
Proof.
  unfold Greedy.ls_deconv. rewrite ls_outer_flat. intros H [off [la [r [inp [H1 [H2 [H3 H4]]]]]]].
  apply bind_ok in H. destruct H as [b [Hb [= <-]]].
  apply (ls_flat_good _ _ _ Hb); [left; reflexivity|].
  exists off, la, r, inp. split; [apply in_grid; split; assumption|]. split; assumption.
Qed.
Theorem ls_deconv_empty_sec offs las out :
  ls_deconv nn signal response offs las = Ok out ->
  (forall off la r inp, In off offs -> In la las -> nn signal response off la = Ok (r, inp) -> ltb r inf = false) ->
  out = [].
Proof.
  unfold Greedy.ls_deconv. rewrite ls_outer_flat. intros H Hall.
  apply bind_ok in H. destruct H as [b [Hb [= <-]]].
  rewrite (ls_flat_bad _ _ Hb); [reflexivity|].
  intros off la r inp Hin. apply in_grid in Hin. destruct Hin. apply Hall; assumption.
Qed.
End LsLen.


(* ---- a predicate on vectors satisfied by every sweep result is satisfied by the selection ---- *)
Section LsPred.
Variable nn : list F -> list F -> nat -> nat -> res (F * list F).
Variables signal response : list F.
Variable P : list F -> Prop.
(* only sweeps whose residual compares < some earlier best value can be selected *)
Hypothesis nn_P : forall off la r inp b, nn signal response off la = Ok (r, inp) -> ltb r b = true -> P inp.

Lemma ls_step_P best off la b : P (snd best) -> ls_step nn signal response best off la = Ok b -> P (snd b).
Proof.
  intros Hb H. apply ls_step_ok in H. destruct H as [r [inp [Hn ->]]].
  destruct (ltb r (fst best)) eqn:E; [cbn [snd]; eapply nn_P; eassumption | assumption].
Qed.
Lemma ls_inner_P : forall las best off b, P (snd best) -> ls_inner nn signal response best off las = Ok b -> P (snd b).
Proof.
  induction las as [|la t IH]; intros best off b Hb; cbn [Greedy.ls_inner]; [intros [= <-]; assumption|].
  intros H. apply bind_ok in H. destruct H as [b1 [H1 H2]]. apply (IH _ _ _ (ls_step_P _ _ _ _ Hb H1) H2).
Qed.
Lemma ls_outer_P : forall offs best las b, P (snd best) -> ls_outer nn signal response best offs las = Ok b -> P (snd b).
Proof.
  induction offs as [|off t IH]; intros best las b Hb; cbn [Greedy.ls_outer]; [intros [= <-]; assumption|].
  intros H. apply bind_ok in H. destruct H as [b1 [H1 H2]]. apply (IH _ _ _ (ls_inner_P _ _ _ _ Hb H1) H2).
Qed.
Lemma ls_deconv_P offs las out : P [] -> ls_deconv nn signal response offs las = Ok out -> P out.
Proof.
  unfold Greedy.ls_deconv. intros H0 H. apply bind_ok in H. destruct H as [b [Hb [= <-]]].
  eapply ls_outer_P; [|exact Hb]. exact H0.
Qed.
End LsPred.

(* ========== (4) sign of the outputs ========== *)
Section Sign.
Variable ge0 : F -> Prop.
Hypothesis ge0_zero : ge0 zero.
(* quotient of a sample that is not >= 0 by a negative response value *)
Hypothesis ge0_quot : forall s r, nonneg s = false -> neg r = true -> ge0 (div s r).
Hypothesis ge0_min : forall a b, ge0 a -> ge0 b -> ge0 (fmin a b).

Lemma zip_div_ge0 : forall win rwin,
  existsb nonneg win = false -> forallb neg rwin = true -> Forall ge0 (zip_div win rwin).
Proof.
  induction win as [|s t IH]; intros rwin Hw Hr; [constructor|].
  destruct rwin as [|r rt]; [constructor|]. cbn [Greedy.zip_div].
  cbn [existsb] in Hw. apply orb_false_iff in Hw. destruct Hw as [Hs Ht].
  cbn [forallb] in Hr. apply andb_true_iff in Hr. destruct Hr as [Hr Hrt].
  constructor; [apply ge0_quot; assumption | apply IH; assumption].
Qed.
Lemma fold_min_ge0 : forall qs q, ge0 q -> Forall ge0 qs -> ge0 (fold_left fmin qs q).
Proof.
  induction qs as [|x t IH]; intros q Hq Hqs; [assumption|]. cbn [fold_left].
  inversion Hqs; subst. apply IH; [apply ge0_min; assumption | assumption].
Qed.
Lemma fire_ge0 response rwin win rest val rest' :
  existsb nonneg win = false -> forallb neg rwin = true ->
  fire response rwin win rest = Ok (val, rest') -> ge0 val.
Proof.
  intros Hw Hr. unfold Greedy.fire. assert (Hq := zip_div_ge0 _ _ Hw Hr).
  destruct (zip_div win rwin) as [|q qs]; cbn; [discriminate|].
  intros [= <- _]. inversion Hq; subst. apply fold_min_ge0; assumption.
Qed.
Lemma advance_ge0 : forall k rest ai ar r' ai' ar',
  advance k rest ai ar = (r', ai', ar') -> Forall ge0 ai -> Forall ge0 ai'.
Proof.
  induction k as [|k IH]; intros rest ai ar r' ai' ar'; cbn [Greedy.advance].
  - intros [= _ <- _]. auto.
  - destruct rest as [|x t]; [intros [= _ <- _]; auto|].
    intros H Ha. apply (IH _ _ _ _ _ _ H). constructor; assumption.
Qed.
Lemma repeat_ge0 n : Forall ge0 (repeat zero n).
Proof. induction n; cbn; constructor; assumption. Qed.

Lemma greedy_loop_ge0 response rwin off la : forallb neg rwin = true ->
  forall fuel rest ai ar residual input,
  Forall ge0 ai -> greedy_loop response rwin off la fuel rest ai ar = Ok (residual, input) -> Forall ge0 input.
Proof.
  intros Hr. induction fuel as [|f IH]; intros rest ai ar residual input Ha; cbn [Greedy.greedy_loop]; [discriminate|].
  destruct (slice rest off la) as [win|] eqn:Hs.
  - destruct (last_nonneg win) as [lp|] eqn:El.
    + destruct (advance (S lp) rest ai ar) as [[r' ai'] ar'] eqn:Hadv.
      apply IH. eapply advance_ge0; eassumption.
    + apply last_nonneg_none in El.
      destruct (fire response rwin win rest) as [[val rest']| |] eqn:Ef; cbn [bind]; try discriminate.
      destruct rest' as [|x t]; [discriminate|].
      apply IH. constructor; [eapply fire_ge0; eassumption | assumption].
  - intros [= _ <-]. apply Forall_app. split; [apply Forall_rev; assumption | apply repeat_ge0].
Qed.

Theorem nn_greedy_nonneg_sec signal response off la r inp :
  nn_greedy signal response off la = Ok (r, inp) -> Forall ge0 inp.
Proof.
  unfold Greedy.nn_greedy, Greedy.nn_with.
  destruct (unwrap (slice response off la)) as [rwin| |]; cbn [bind]; try discriminate.
  unfold assert_. destruct (forallb neg rwin) eqn:Hr; [|discriminate].
  destruct (greedy_loop response rwin off la (S (length signal)) signal [] []) as [[residual input]| |] eqn:E;
    cbn [bind]; try discriminate.
  intros [= _ <-]. eapply greedy_loop_ge0; [exact Hr| |exact E]. constructor.
Qed.
Theorem ls_deconv_nonneg_sec signal response offs las out :
  ls_deconv nn_greedy signal response offs las = Ok out -> Forall ge0 out.
Proof.
  apply (ls_deconv_P nn_greedy signal response (Forall ge0)); [|constructor].
  intros off la r inp b Hn _. eapply nn_greedy_nonneg_sec; eassumption.
Qed.
End Sign.

(* ========== (4b) finiteness of a selected result ========== *)
Section Finite.
Variable fin : F -> Prop.
Hypothesis fin_zero : fin zero.
Hypothesis sub_fin : forall s p, fin (sub s p) -> fin p.       (* a non-finite subtrahend gives a non-finite difference *)
Hypothesis mul_fin : forall v r, fin (mul v r) -> fin v.       (* a non-finite factor gives a non-finite product *)
(* a residual sum of squares that compares < +inf has only finite terms *)
Hypothesis sumsq_fin : forall l, ltb (sumsq l) inf = true -> Forall fin l.
Hypothesis ltb_inf : forall r b, ltb r b = true -> ltb r inf = true.

Notation R := (fun v x => fin x -> fin v).

Lemma Forall2_R_fin : forall ai ar, Forall2 R ai ar -> Forall fin ar -> Forall fin ai.
Proof.
  induction 1 as [|v x ai ar Hvx H IH]; intros Har; [constructor|].
  inversion Har; subst. constructor; auto.
Qed.
Lemma advance_R : forall k rest ai ar r' ai' ar',
  advance k rest ai ar = (r', ai', ar') -> Forall2 R ai ar -> Forall2 R ai' ar'.
Proof.
  induction k as [|k IH]; intros rest ai ar r' ai' ar'; cbn [Greedy.advance].
  - intros [= _ <- <-]. auto.
  - destruct rest as [|x t]; [intros [= _ <- <-]; auto|].
    intros H Ha. apply (IH _ _ _ _ _ _ H). constructor; [intros _; exact fin_zero | assumption].
Qed.
Lemma zip_div_nil_r w : zip_div w [] = [].
Proof. destruct w; reflexivity. Qed.
(* the amplitude written at i is finite if the residual left at i is *)
Lemma fire_R response rwin win rest val x t :
  rwin = [] \/ response <> [] ->
  fire response rwin win rest = Ok (val, x :: t) -> fin x -> fin val.
Proof.
  intros Hresp. unfold Greedy.fire.
  destruct (reduce_min (zip_div win rwin)) as [v|] eqn:Ev; cbn [unwrap bind]; [|discriminate].
  intros [= <- Hs] Hx.
  destruct Hresp as [->|Hresp]; [rewrite zip_div_nil_r in Ev; discriminate|].
  destruct response as [|r0 rt]; [congruence|].
  destruct rest as [|s st]; [discriminate|]. cbn [Greedy.sub_scaled] in Hs. injection Hs as Hs _. subst x.
  eapply mul_fin. eapply sub_fin. exact Hx.
Qed.

Lemma greedy_loop_fin response rwin off la : rwin = [] \/ response <> [] ->
  forall fuel rest ai ar residual input,
  Forall2 R ai ar ->
  greedy_loop response rwin off la fuel rest ai ar = Ok (residual, input) ->
  Forall fin residual -> Forall fin input.
Proof.
  intros Hresp. induction fuel as [|f IH]; intros rest ai ar residual input HR; cbn [Greedy.greedy_loop]; [discriminate|].
  destruct (slice rest off la) as [win|] eqn:Hs.
  - destruct (last_nonneg win) as [lp|] eqn:El.
    + destruct (advance (S lp) rest ai ar) as [[r' ai'] ar'] eqn:Hadv.
      apply IH. eapply advance_R; eassumption.
    + destruct (fire response rwin win rest) as [[val rest']| |] eqn:Ef; cbn [bind]; try discriminate.
      destruct rest' as [|x t]; [discriminate|].
      apply IH. constructor; [|assumption]. eapply fire_R; eassumption.
  - intros [= <- <-] Hres. apply Forall_app in Hres. destruct Hres as [Har _].
    apply Forall_rev in Har. rewrite rev_involutive in Har.
    apply Forall_app. split.
    + apply Forall_rev. eapply Forall2_R_fin; eassumption.
    + clear -fin_zero. induction (length rest); cbn; constructor; assumption.
Qed.

Theorem nn_greedy_finite_sec signal response off la r inp :
  nn_greedy signal response off la = Ok (r, inp) -> ltb r inf = true -> Forall fin inp.
Proof.
  unfold Greedy.nn_greedy, Greedy.nn_with.
  destruct (slice response off la) as [rwin|] eqn:Hs; cbn [unwrap bind]; [|discriminate].
  unfold assert_. destruct (forallb neg rwin); [|discriminate].
  destruct (greedy_loop response rwin off la (S (length signal)) signal [] []) as [[residual input]| |] eqn:E;
    cbn [bind]; try discriminate.
  intros [= <- <-] Hlt. eapply greedy_loop_fin; [|constructor|exact E|apply sumsq_fin; exact Hlt].
  apply slice_some_iff in Hs. destruct Hs as [_ ->].
  destruct response as [|r0 rt]; [left; rewrite skipn_nil, firstn_nil; reflexivity | right; discriminate].
Qed.
Theorem ls_deconv_finite_sec signal response offs las out :
  ls_deconv nn_greedy signal response offs las = Ok out -> Forall fin out.
Proof.
  apply (ls_deconv_P nn_greedy signal response (Forall fin)); [|constructor].
  intros off la r inp b Hn Hlt. eapply nn_greedy_finite_sec; [exact Hn|]. eapply ltb_inf; exact Hlt.
Qed.
End Finite.

(* ========== (5) covariance under an exact scaling of the samples ========== *)
Section Scale.
Variable sc : F -> F.     (* x |-> c * x on samples and amplitudes *)
Variable sc2 : F -> F.    (* x |-> c^2 * x on the residual sum of squares *)
Hypothesis sc_zero : sc zero = zero.
Hypothesis sc_sub : forall a b, sub (sc a) (sc b) = sc (sub a b).
Hypothesis sc_mul : forall v r, mul (sc v) r = sc (mul v r).
Hypothesis sc_div : forall s r, div (sc s) r = sc (div s r).
Hypothesis sc_min : forall a b, fmin (sc a) (sc b) = sc (fmin a b).
Hypothesis sc_nonneg : forall x, nonneg (sc x) = nonneg x.
Hypothesis sc_sq : forall x, mul (sc x) (sc x) = sc2 (mul x x).
Hypothesis sc2_add : forall a b, add (sc2 a) (sc2 b) = sc2 (add a b).
Hypothesis sc2_szero : sc2 szero = szero.
Hypothesis sc2_ltb : forall a b, ltb (sc2 a) (sc2 b) = ltb a b.
Hypothesis sc2_inf : sc2 inf = inf.

Notation msc := (map sc).
Definition sc_pair (p : list F * list F) : list F * list F := (msc (fst p), msc (snd p)).
Notation sc_out := (Greedy.sc_out F sc sc2).

Lemma drop_exact_map n : forall l, drop_exact n (msc l) = option_map msc (drop_exact n l).
Proof. induction n as [|n IH]; intros l; [reflexivity|]. destruct l as [|x t]; [reflexivity|]. apply IH. Qed.
Lemma take_exact_map n : forall l, take_exact n (msc l) = option_map msc (take_exact n l).
Proof.
  induction n as [|n IH]; intros l; [reflexivity|]. destruct l as [|x t]; [reflexivity|].
  cbn [map Greedy.take_exact]. rewrite IH. destruct (take_exact n t); reflexivity.
Qed.
Lemma slice_map l off la : slice (msc l) off la = option_map msc (slice l off la).
Proof.
  unfold Greedy.slice. rewrite drop_exact_map. destruct (drop_exact off l); [apply take_exact_map|reflexivity].
Qed.
Lemma last_nonneg_map w : last_nonneg (msc w) = last_nonneg w.
Proof.
  induction w as [|x t IH]; [reflexivity|]. cbn [map Greedy.last_nonneg]. rewrite IH, sc_nonneg. reflexivity.
Qed.
Lemma zip_div_map : forall w rw, zip_div (msc w) rw = msc (zip_div w rw).
Proof.
  induction w as [|s t IH]; intros rw; [reflexivity|]. destruct rw as [|r rt]; [reflexivity|].
  cbn [map Greedy.zip_div]. rewrite sc_div, IH. reflexivity.
Qed.
Lemma fold_min_map : forall qs q, fold_left fmin (msc qs) (sc q) = sc (fold_left fmin qs q).
Proof. induction qs as [|x t IH]; intros q; [reflexivity|]. cbn [map fold_left]. rewrite sc_min. apply IH. Qed.
Lemma reduce_min_map l : reduce_min (msc l) = option_map sc (reduce_min l).
Proof. destruct l as [|q qs]; [reflexivity|]. cbn [map Greedy.reduce_min option_map]. rewrite fold_min_map. reflexivity. Qed.
Lemma sub_scaled_map : forall rest resp v, sub_scaled (msc rest) resp (sc v) = msc (sub_scaled rest resp v).
Proof.
  induction rest as [|s t IH]; intros resp v; [reflexivity|]. destruct resp as [|r rt]; [reflexivity|].
  cbn [map Greedy.sub_scaled]. rewrite sc_mul, sc_sub, IH. reflexivity.
Qed.
Lemma advance_map : forall k rest ai ar,
  advance k (msc rest) (msc ai) (msc ar) =
  (let '(r', ai', ar') := advance k rest ai ar in (msc r', msc ai', msc ar')).
Proof.
  induction k as [|k IH]; intros rest ai ar; [reflexivity|]. destruct rest as [|x t]; [reflexivity|].
  cbn [Greedy.advance]. rewrite <- (IH t (zero :: ai) (x :: ar)). cbn [map Greedy.advance]. rewrite sc_zero. reflexivity.
Qed.
Lemma finish_map rest ai ar : finish (msc rest) (msc ai) (msc ar) = sc_pair (finish rest ai ar).
Proof.
  unfold Greedy.finish, sc_pair. cbn [fst snd]. rewrite !map_app, !map_rev, map_length.
  f_equal. f_equal. induction (length rest) as [|n IH]; [reflexivity|]. cbn [repeat map]. rewrite sc_zero, <- IH. reflexivity.
Qed.
Lemma fire_map response rwin win rest :
  fire response rwin (msc win) (msc rest) = res_map (fun p => (sc (fst p), msc (snd p))) (fire response rwin win rest).
Proof.
  unfold Greedy.fire. rewrite zip_div_map, reduce_min_map.
  destruct (reduce_min (zip_div win rwin)) as [v|]; [|reflexivity].
  cbn [option_map unwrap bind res_map fst snd]. rewrite sub_scaled_map. reflexivity.
Qed.

Lemma greedy_loop_map response rwin off la : forall fuel rest ai ar,
  greedy_loop response rwin off la fuel (msc rest) (msc ai) (msc ar) =
  res_map sc_pair (greedy_loop response rwin off la fuel rest ai ar).
Proof.
  induction fuel as [|f IH]; intros rest ai ar; [reflexivity|]. cbn [Greedy.greedy_loop].
  rewrite slice_map. destruct (slice rest off la) as [win|]; cbn [option_map].
  - rewrite last_nonneg_map. destruct (last_nonneg win) as [lp|].
    + rewrite advance_map. destruct (advance (S lp) rest ai ar) as [[r' ai'] ar']. apply IH.
    + rewrite fire_map. destruct (fire response rwin win rest) as [[val rest']| |]; cbn [res_map bind fst snd]; try reflexivity.
      destruct rest' as [|x t]; [reflexivity|]. apply (IH t (val :: ai) (x :: ar)).
  - cbn [res_map]. rewrite finish_map. reflexivity.
Qed.
Lemma sumsq_map l : sumsq (msc l) = sc2 (sumsq l).
Proof.
  unfold Greedy.sumsq. rewrite <- sc2_szero at 1. generalize szero.
  induction l as [|x t IH]; intros acc; [reflexivity|]. cbn [map fold_left]. rewrite sc_sq, sc2_add. apply IH.
Qed.

(* every control decision is unchanged; outputs are scaled by c, the residual by c^2 *)
Theorem nn_greedy_scale_sec signal response off la :
  nn_greedy (msc signal) response off la = res_map sc_out (nn_greedy signal response off la).
Proof.
  unfold Greedy.nn_greedy, Greedy.nn_with.
  destruct (unwrap (slice response off la)) as [rwin| |]; cbn [bind res_map]; try reflexivity.
  unfold assert_. destruct (forallb neg rwin); [|reflexivity].
  rewrite map_length. change (@nil F) with (msc []) at 1 2. rewrite greedy_loop_map.
  destruct (greedy_loop response rwin off la (S (length signal)) signal [] []) as [[residual input]| |];
    cbn [res_map bind]; try reflexivity.
  unfold sc_pair, Greedy.sc_out. cbn [fst snd]. rewrite sumsq_map. reflexivity.
Qed.

Section LsScale.
Variable nn : list F -> list F -> nat -> nat -> res (F * list F).
Hypothesis nn_scale : forall signal response off la,
  nn (msc signal) response off la = res_map sc_out (nn signal response off la).

Lemma ls_step_scale signal response best off la :
  ls_step nn (msc signal) response (sc_out best) off la = res_map sc_out (ls_step nn signal response best off la).
Proof.
  unfold Greedy.ls_step. rewrite nn_scale.
  destruct (nn signal response off la) as [[r inp]| |]; cbn [res_map bind]; try reflexivity.
  unfold Greedy.sc_out at 1 2. cbn [fst snd]. rewrite sc2_ltb. destruct (ltb r (fst best)); reflexivity.
Qed.
Lemma ls_inner_scale signal response off : forall las best,
  ls_inner nn (msc signal) response (sc_out best) off las = res_map sc_out (ls_inner nn signal response best off las).
Proof.
  induction las as [|la t IH]; intros best; [reflexivity|]. cbn [Greedy.ls_inner]. rewrite ls_step_scale.
  destruct (ls_step nn signal response best off la) as [b| |]; cbn [res_map bind]; try reflexivity. apply IH.
Qed.
Lemma ls_outer_scale signal response las : forall offs best,
  ls_outer nn (msc signal) response (sc_out best) offs las = res_map sc_out (ls_outer nn signal response best offs las).
Proof.
  induction offs as [|off t IH]; intros best; [reflexivity|]. cbn [Greedy.ls_outer]. rewrite ls_inner_scale.
  destruct (ls_inner nn signal response best off las) as [b| |]; cbn [res_map bind]; try reflexivity. apply IH.
Qed.
Lemma ls_deconv_scale signal response offs las :
  ls_deconv nn (msc signal) response offs las = res_map msc (ls_deconv nn signal response offs las).
Proof.
  unfold Greedy.ls_deconv.
  replace (inf, @nil F) with (sc_out (inf, [])) at 1 by (unfold Greedy.sc_out; cbn [fst snd map]; rewrite sc2_inf; reflexivity).
  rewrite ls_outer_scale.
  destruct (ls_outer nn signal response (inf, []) offs las) as [b| |]; reflexivity.
Qed.
End LsScale.

Theorem ls_deconv_scale_sec signal response offs las :
  ls_deconv nn_greedy (msc signal) response offs las = res_map msc (ls_deconv nn_greedy signal response offs las).
Proof. apply ls_deconv_scale. intros. apply nn_greedy_scale_sec. Qed.
End Scale.


(* ========== (6) an isolated response-shaped pulse is recovered exactly ========== *)
Section Pulse.
Variable a : F.                      (* the amplitude *)
Variable response : list F.
Variable la : nat.
Hypothesis la_pos : 1 <= la.
Hypothesis la_len : la <= length response.
(* table fact: the response window of offset 0 is negative *)
Hypothesis window_neg : forallb neg (firstn la response) = true.
(* arithmetic facts used; all hold in an ordered field for a > 0 (instantiated with Qc below) *)
Hypothesis nonneg_zero : nonneg zero = true.
Hypothesis pulse_neg : forall r, neg r = true -> nonneg (mul a r) = false.
Hypothesis quot_exact : forall r, neg r = true -> div (mul a r) r = a.
Hypothesis min_idem : fmin a a = a.
Hypothesis sub_self : forall r, sub (mul a r) (mul a r) = zero.
Hypothesis sum_zero : add szero (mul zero zero) = szero.

Notation rwin := (firstn la response).
Notation nl := (naive_loop response rwin 0 la).

Lemma slice_zero_head l win : slice (zero :: l) 0 la = Some win -> existsb nonneg win = true.
Proof.
  intros H. apply slice_some_iff in H. destruct H as [_ ->]. cbn [skipn].
  destruct la as [|la']; [lia|]. cbn [firstn existsb]. rewrite nonneg_zero. reflexivity.
Qed.

(* before the pulse: zeros are written, nothing changes *)
Lemma phaseA : forall j fuel Pl ai ar, la <= length Pl ->
  nl (j + fuel) (repeat zero j ++ Pl) ai ar = nl fuel Pl (repeat zero j ++ ai) (repeat zero j ++ ar).
Proof.
  induction j as [|j IH]; intros fuel Pl ai ar HP; [reflexivity|].
  cbn [repeat app Nat.add Greedy.naive_loop].
  destruct (slice (zero :: repeat zero j ++ Pl) 0 la) as [win|] eqn:Hs.
  - rewrite (slice_zero_head _ _ Hs). rewrite IH by assumption. rewrite !repeat_snoc. reflexivity.
  - exfalso. apply slice_none_iff in Hs. cbn [length] in Hs. rewrite app_length in Hs. lia.
Qed.

(* after the pulse: the residual is identically zero, zeros are written to the end *)
Lemma phaseC : forall q fuel ai ar, q < fuel ->
  nl fuel (repeat zero q) ai ar = Ok (finish (repeat zero q) ai ar).
Proof.
  induction q as [|q IH]; intros fuel ai ar Hf; (destruct fuel as [|fuel]; [lia|]); cbn [Greedy.naive_loop repeat].
  - assert (H : slice [] 0 la = None) by (apply slice_none_iff; cbn [length]; lia). rewrite H. reflexivity.
  - destruct (slice (zero :: repeat zero q) 0 la) as [win|] eqn:Hs; [|reflexivity].
    rewrite (slice_zero_head _ _ Hs). rewrite IH by lia. rewrite finish_step. reflexivity.
Qed.

Lemma pulse_window_neg : forall w, forallb neg w = true -> existsb nonneg (map (mul a) w) = false.
Proof.
  induction w as [|r t IH]; [reflexivity|]. cbn [forallb map existsb]. intros H.
  apply andb_true_iff in H. destruct H as [H1 H2]. rewrite (pulse_neg _ H1), (IH H2). reflexivity.
Qed.
Lemma pulse_quotients : forall w, forallb neg w = true -> zip_div (map (mul a) w) w = repeat a (length w).
Proof.
  induction w as [|r t IH]; [reflexivity|]. cbn [forallb map Greedy.zip_div length repeat]. intros H.
  apply andb_true_iff in H. destruct H as [H1 H2]. rewrite (quot_exact _ H1), (IH H2). reflexivity.
Qed.
Lemma fold_min_repeat n : fold_left fmin (repeat a n) a = a.
Proof. induction n as [|n IH]; [reflexivity|]. cbn [repeat fold_left]. rewrite min_idem. exact IH. Qed.
Lemma sub_scaled_nil_r rest v : sub_scaled rest [] v = rest.
Proof. destruct rest; reflexivity. Qed.
(* subtracting a * response from the pulse leaves zeros *)
Lemma pulse_cancel : forall resp m t, t = 0 \/ length resp <= m ->
  sub_scaled (map (mul a) (firstn m resp) ++ repeat zero t) resp a = repeat zero (length (firstn m resp) + t).
Proof.
  induction resp as [|r rt IH]; intros m t Ht.
  - rewrite firstn_nil. cbn [map app length Nat.add]. apply sub_scaled_nil_r.
  - destruct m as [|m].
    + destruct Ht as [->|Ht]; [reflexivity | cbn [length] in Ht; lia].
    + cbn [firstn map app Greedy.sub_scaled length Nat.add repeat]. rewrite sub_self. f_equal.
      apply IH. cbn [length] in Ht. lia.
Qed.
Lemma sumsq_zeros : forall l acc, Forall (fun x => x = zero) l -> acc = szero ->
  fold_left (fun acc x => add acc (mul x x)) l acc = szero.
Proof.
  induction l as [|x t IH]; intros acc Hl Hacc; [assumption|]. cbn [fold_left].
  inversion Hl; subst. apply IH; [assumption|apply sum_zero].
Qed.
Lemma Forall_repeat_zero n : Forall (fun x => x = zero) (repeat zero n).
Proof. induction n; cbn; constructor; auto. Qed.
Lemma rev_repeat_ (x : F) n : rev (repeat x n) = repeat x n.
Proof.
  induction n as [|n IH]; [reflexivity|]. cbn [repeat rev]. rewrite IH.
  rewrite repeat_snoc, app_nil_r. reflexivity.
Qed.

(* The waveform: k zeros, then a * response (cut to m samples, m >= look_ahead), then t zeros; t > 0 only
   if the whole response fits (m >= length response).  That is every waveform
   signal[j] = a * response[j - k] for k <= j < min(n, k + length response), 0 elsewhere, with k + look_ahead <= n. *)
Theorem isolated_pulse_naive k m t :
  la <= m -> t = 0 \/ length response <= m ->
  let P := map (mul a) (firstn m response) ++ repeat zero t in
  nn_naive (repeat zero k ++ P) response 0 la = Ok (szero, repeat zero k ++ a :: repeat zero (length P - 1)).
Proof.
  intros Hm Ht P.
  assert (HPl : length P = length (firstn m response) + t) by (unfold P; rewrite app_length, map_length, repeat_length; reflexivity).
  assert (Hfl : la <= length (firstn m response)) by (rewrite firstn_length; lia).
  unfold Greedy.nn_naive, Greedy.nn_with.
  assert (Hsr : slice response 0 la = Some rwin) by (apply slice_some_iff; split; [lia|reflexivity]).
  rewrite Hsr. cbn [unwrap bind]. unfold assert_. rewrite window_neg.
  rewrite app_length. replace (S (length (repeat zero k) + length P)) with (k + S (length P)) by (rewrite repeat_length; lia).
  rewrite phaseA by lia.
  cbn [Greedy.naive_loop].
  assert (Hsp : slice P 0 la = Some (map (mul a) rwin)).
  { apply slice_some_iff. split; [lia|]. cbn [skipn]. unfold P.
    rewrite firstn_app. replace (la - length (map (mul a) (firstn m response))) with 0 by (rewrite map_length; lia).
    cbn [firstn]. rewrite app_nil_r, firstn_map, firstn_firstn. replace (Nat.min la m) with la by lia. reflexivity. }
  rewrite Hsp. rewrite (pulse_window_neg _ window_neg).
  unfold Greedy.fire. rewrite (pulse_quotients _ window_neg).
  rewrite firstn_length. replace (Nat.min la (length response)) with (S (la - 1)) by lia.
  cbn [repeat Greedy.reduce_min unwrap bind]. rewrite fold_min_repeat.
  unfold P at 1. rewrite (pulse_cancel response m t Ht). rewrite <- HPl.
  replace (length P) with (S (length P - 1)) at 1 by lia. cbn [repeat].
  rewrite phaseC by lia. unfold Greedy.finish. cbn [bind].
  f_equal. f_equal.
  - unfold Greedy.sumsq. apply sumsq_zeros; [|reflexivity].
    apply Forall_app. split; [|apply Forall_repeat_zero].
    apply Forall_rev. constructor; [reflexivity|]. apply Forall_app. split; [apply Forall_repeat_zero|constructor].
  - rewrite app_nil_r. cbn [rev]. rewrite rev_repeat_, repeat_length, <- app_assoc. reflexivity.
Qed.
End Pulse.


(* ---- (6, continued) the least-squares selection returns the exact recovery ---- *)
Section PulseLs.
Variables signal response exact : list F.
Variable la0 : nat.
Variables offs las : list nat.
(* the first grid point (offset 0, first look-ahead) recovers the pulse with residual szero *)
Hypothesis first_exact : nn_greedy signal response 0 la0 = Ok (szero, exact).
(* table facts: every window of the grid is negative and non-empty *)
Hypothesis windows : forall off la, In off (0 :: offs) -> In la (la0 :: las) ->
  exists rwin, slice response off la = Some rwin /\ forallb neg rwin = true /\ 1 <= la.
(* order facts: a sum of squares is never < szero; szero < inf *)
Hypothesis sumsq_not_lt : forall l, ltb (sumsq l) szero = false.
Hypothesis szero_lt_inf : ltb szero inf = true.

Lemma nn_greedy_residual_is_sumsq sg off la r inp :
  nn_greedy sg response off la = Ok (r, inp) -> exists residual, r = sumsq residual.
Proof.
  unfold Greedy.nn_greedy, Greedy.nn_with.
  destruct (unwrap (slice response off la)) as [rwin| |]; cbn [bind]; try discriminate.
  unfold assert_. destruct (forallb neg rwin); [|discriminate].
  destruct (greedy_loop response rwin off la (S (length sg)) sg [] []) as [[residual input]| |];
    cbn [bind]; try discriminate.
  intros [= <- _]. eauto.
Qed.

Lemma ls_flat_keeps : forall g,
  (forall off la, In (off, la) g -> In off (0 :: offs) /\ In la (la0 :: las)) ->
  ls_flat nn_greedy signal response (szero, exact) g = Ok (szero, exact).
Proof.
  induction g as [|[o l] t IH]; intros Hg; [reflexivity|]. cbn [ls_flat].
  destruct (Hg o l (or_introl eq_refl)) as [Ho Hl].
  destruct (windows o l Ho Hl) as [rwin [Hs [Hn Hla]]].
  destruct (nn_greedy_total_sec signal response o l rwin Hs Hn Hla) as [r [inp [Hnn _]]].
  unfold Greedy.ls_step. rewrite Hnn. cbn [bind fst].
  destruct (nn_greedy_residual_is_sumsq _ _ _ _ _ Hnn) as [residual ->].
  rewrite sumsq_not_lt. apply IH. intros off la Hin. apply Hg. right. exact Hin.
Qed.

Theorem isolated_pulse_ls_sec : ls_deconv nn_greedy signal response (0 :: offs) (la0 :: las) = Ok exact.
Proof.
  unfold Greedy.ls_deconv. rewrite ls_outer_flat.
  cbn [grid flat_map map app ls_flat]. unfold Greedy.ls_step at 1. rewrite first_exact. cbn [bind fst].
  rewrite szero_lt_inf.
  change (map (pair 0) las ++ flat_map (fun o => map (pair o) (la0 :: las)) offs)
    with (map (pair 0) las ++ grid offs (la0 :: las)).
  rewrite ls_flat_keeps; [reflexivity|].
  intros off la Hin. apply in_app_or in Hin. destruct Hin as [Hin|Hin].
  - apply in_map_iff in Hin. destruct Hin as [l [[= <- <-] Hl]]. split; [left; reflexivity | right; exact Hl].
  - change (In (off, la) (grid offs (la0 :: las))) in Hin.
    apply in_grid in Hin. destruct Hin as [H1 H2]. split; [right; exact H1 | exact H2].
Qed.
End PulseLs.

End GreedyProofs.

(* fills Section variables that a lemma does not really use *)
Ltac dummies z := try exact z; try exact (fun _ _ => true); try exact (fun x _ => x); try exact (fun _ => true).

(* Statements with exactly the parameters they mention (inside the Section `lia` makes every lemma
   depend on all Section variables; the unused ones are instantiated with dummies here). *)
Lemma greedy_skip_eq_naive_lemma :
  forall (F : Type) (zero szero : F) (add sub mul div fmin : F -> F -> F) (neg nonneg : F -> bool)
         (signal response : list F) (off la : nat),
  nn_greedy F zero szero add sub mul div fmin neg nonneg signal response off la =
  nn_naive F zero szero add sub mul div fmin neg nonneg signal response off la.
Proof.
  intros. unshelve eapply greedy_skip_eq_naive_sec; dummies zero.
Qed.
Lemma deconv_eq_plain_lemma :
  forall (F : Type) (zero szero inf : F) (add sub mul div fmin : F -> F -> F) (neg nonneg : F -> bool)
         (ltb : F -> F -> bool) (signal response : list F) (offs las : list nat),
  ls_deconv F inf ltb (nn_greedy F zero szero add sub mul div fmin neg nonneg) signal response offs las =
  ls_deconv F inf ltb (nn_naive F zero szero add sub mul div fmin neg nonneg) signal response offs las.
Proof. intros. apply deconv_eq_plain_sec. Qed.

Lemma deconv_lengths_lemma :
  forall (F : Type) (zero szero : F) (add sub mul div fmin : F -> F -> F) (neg nonneg : F -> bool)
         (signal response : list F) (off la : nat),
  (* never out of fuel *)
  (forall k, nn_greedy F zero szero add sub mul div fmin neg nonneg signal response off la <> Err k) /\
  (* a result has one output sample per input sample *)
  (forall r inp, nn_greedy F zero szero add sub mul div fmin neg nonneg signal response off la = Ok (r, inp) ->
                 length inp = length signal) /\
  (* and there is a result whenever the response window exists, is negative and non-empty *)
  (forall rwin, slice F response off la = Some rwin -> forallb neg rwin = true -> 1 <= la ->
     exists r inp, nn_greedy F zero szero add sub mul div fmin neg nonneg signal response off la = Ok (r, inp)) /\
  (* a waveform shorter than offset + look_ahead gives the all-zero vector of its own length *)
  (forall rwin, slice F response off la = Some rwin -> forallb neg rwin = true -> length signal < off + la ->
     nn_greedy F zero szero add sub mul div fmin neg nonneg signal response off la =
     Ok (sumsq F szero add mul signal, repeat zero (length signal))).
Proof.
  intros. split; [|split; [|split]].
  - intros k. unshelve eapply nn_greedy_not_err_sec; dummies zero.
  - intros r inp. unshelve eapply nn_greedy_length_sec; dummies zero.
  - intros rwin H1 H2 H3.
    assert (H : exists r inp, nn_greedy F zero szero add sub mul div fmin neg nonneg signal response off la = Ok (r, inp)
                              /\ length inp = length signal)
      by (unshelve eapply nn_greedy_total_sec; try eassumption; dummies zero).
    destruct H as [r [inp [H _]]]. exists r, inp. exact H.
  - intros rwin. unshelve eapply nn_greedy_short_sec; dummies zero.
Qed.

Lemma ls_deconv_lengths_lemma :
  forall (F : Type) (zero szero inf : F) (add sub mul div fmin : F -> F -> F) (neg nonneg : F -> bool)
         (ltb : F -> F -> bool) (signal response : list F) (offs las : list nat) (out : list F),
  ls_deconv F inf ltb (nn_greedy F zero szero add sub mul div fmin neg nonneg) signal response offs las = Ok out ->
  (* some run of the grid ends with residual < +inf: one output sample per input sample *)
  ((exists off la r inp, In off offs /\ In la las /\
      nn_greedy F zero szero add sub mul div fmin neg nonneg signal response off la = Ok (r, inp) /\ ltb r inf = true) ->
   length out = length signal) /\
  (* no run does (every residual NaN or +inf, or the grid is empty): the result is the EMPTY vector *)
  ((forall off la r inp, In off offs -> In la las ->
      nn_greedy F zero szero add sub mul div fmin neg nonneg signal response off la = Ok (r, inp) -> ltb r inf = false) ->
   out = []).
Proof.
  intros F zero szero inf add sub mul div fmin neg nonneg ltb signal response offs las out H. split.
  - apply (ls_deconv_length_sec F inf ltb _ signal response); [|exact H].
    intros off la r inp. unshelve eapply nn_greedy_length_sec; dummies zero.
  - apply (ls_deconv_empty_sec F inf ltb _ signal response); exact H.
Qed.

(* binary64 witnesses (evaluation of the executable model on closed terms) *)
Lemma length_all_inputs_refuted_lemma :
  exists signal : list float, length signal = 1 /\ pad_deconv_f signal (repeat (-1)%float 18) = Ok [].
Proof. exists [(-0x1p+700)%float]. split; [reflexivity|]. vm_compute. reflexivity. Qed.
Lemma length_nan_lemma : pad_deconv_f [nan; (-5)%float] (repeat (-1)%float 18) = Ok [].
Proof. vm_compute. reflexivity. Qed.

Lemma isolated_pulse_lemma :
  forall (F : Type) (zero szero : F) (add sub mul div fmin : F -> F -> F) (neg nonneg : F -> bool)
         (a : F) (response : list F) (la : nat),
  1 <= la -> la <= length response -> forallb neg (firstn la response) = true ->
  nonneg zero = true ->
  (forall r, neg r = true -> nonneg (mul a r) = false) ->
  (forall r, neg r = true -> div (mul a r) r = a) ->
  fmin a a = a ->
  (forall r, sub (mul a r) (mul a r) = zero) ->
  add szero (mul zero zero) = szero ->
  forall k m t, la <= m -> t = 0 \/ length response <= m ->
  let P := map (mul a) (firstn m response) ++ repeat zero t in
  nn_greedy F zero szero add sub mul div fmin neg nonneg (repeat zero k ++ P) response 0 la =
  Ok (szero, repeat zero k ++ a :: repeat zero (length P - 1)).
Proof.
  intros. rewrite greedy_skip_eq_naive_lemma.
  unshelve eapply isolated_pulse_naive; try assumption; dummies zero.
Qed.

Lemma isolated_pulse_ls_lemma :
  forall (F : Type) (zero szero inf : F) (add sub mul div fmin : F -> F -> F) (neg nonneg : F -> bool)
         (ltb : F -> F -> bool) (signal response exact : list F) (la0 : nat) (offs las : list nat),
  nn_greedy F zero szero add sub mul div fmin neg nonneg signal response 0 la0 = Ok (szero, exact) ->
  (forall off la, In off (0 :: offs) -> In la (la0 :: las) ->
     exists rwin, slice F response off la = Some rwin /\ forallb neg rwin = true /\ 1 <= la) ->
  (forall l, ltb (sumsq F szero add mul l) szero = false) ->
  ltb szero inf = true ->
  ls_deconv F inf ltb (nn_greedy F zero szero add sub mul div fmin neg nonneg) signal response (0 :: offs) (la0 :: las)
  = Ok exact.
Proof. intros. eapply isolated_pulse_ls_sec; eassumption. Qed.

(* ------------------------------------------------------------------------------------------ *)
(* Exact rationals (Qc: canonical fractions, Leibniz equality): the hypotheses of the Sections Sign,
   Scale, Pulse and PulseLs are satisfiable, and the theorems hold outright there. *)
Local Open Scope Qc_scope.

Lemma q_dec_true a b : q_dec a b = true <-> a < b.
Proof.
  unfold q_dec. destruct (Qclt_le_dec a b) as [H|H]; split; auto; try discriminate.
  intros H'. exfalso. exact (Qcle_not_lt _ _ H H').
Qed.
Lemma q_dec_false a b : q_dec a b = false <-> b <= a.
Proof.
  unfold q_dec. destruct (Qclt_le_dec a b) as [H|H]; split; auto; try discriminate.
  intros H'. exfalso. exact (Qcle_not_lt _ _ H' H).
Qed.
Lemma qc_neg_opp r : r < 0 -> 0 < - r.
Proof. intros H. apply Qclt_minus_iff in H. replace (0 + - r) with (- r) in H by ring. exact H. Qed.
Lemma qc_quot_sign s r : s < 0 -> r < 0 -> 0 <= s / r.
Proof.
  intros Hs Hr. apply Qcnot_lt_le. intros Hq.
  assert (Hr0 : r <> 0) by (apply Qclt_not_eq; exact Hr).
  assert (H := Qcmult_lt_compat_r (s / r) 0 (- r) (qc_neg_opp _ Hr) Hq).
  replace (s / r * - r) with (- s) in H by (field; exact Hr0).
  replace (0 * - r) with 0 in H by ring.
  apply (Qclt_not_le _ _ H). apply Qclt_le_weak. apply qc_neg_opp. exact Hs.
Qed.
Lemma qc_mul_mono_lt m a b : 0 < m -> a < b -> m * a < m * b.
Proof. intros Hm H. rewrite (Qcmult_comm m a), (Qcmult_comm m b). apply Qcmult_lt_compat_r; assumption. Qed.
Lemma qc_mul_mono_le m a b : 0 < m -> a <= b -> m * a <= m * b.
Proof.
  intros Hm H. rewrite (Qcmult_comm m a), (Qcmult_comm m b).
  apply Qcmult_le_compat_r; [assumption|apply Qclt_le_weak; assumption].
Qed.
Lemma q_dec_scale m a b : 0 < m -> q_dec (m * a) (m * b) = q_dec a b.
Proof.
  intros Hm. destruct (q_dec a b) eqn:E.
  - apply q_dec_true. apply qc_mul_mono_lt; [assumption|]. apply q_dec_true. exact E.
  - apply q_dec_false. apply qc_mul_mono_le; [assumption|]. apply q_dec_false. exact E.
Qed.
Lemma q_min_ge0 a b : 0 <= a -> 0 <= b -> 0 <= q_min a b.
Proof. intros Ha Hb. unfold q_min. destruct (q_dec b a); assumption. Qed.

(* (4) over Q: every recovered amplitude is >= 0 *)
Lemma greedy_nonneg_Q_lemma : forall signal response off la r inp,
  nn_greedy_q signal response off la = Ok (r, inp) -> Forall (fun x => 0 <= x) inp.
Proof.
  intros signal response off la r inp.
  apply (nn_greedy_nonneg_sec Qc 0 0 Qcplus Qcminus Qcmult Qcdiv q_min q_neg q_nonneg (fun x => 0 <= x)).
  - apply Qcle_refl.
  - intros s r0 Hs Hr. apply qc_quot_sign.
    + apply q_dec_true. unfold q_nonneg in Hs. destruct (q_dec s 0); [reflexivity|discriminate].
    + apply q_dec_true. exact Hr.
  - apply q_min_ge0.
Qed.

(* (5) over Q: scaling by any c > 0 (not only powers of two) *)
Lemma scale_covariant_Q_lemma : forall c : Qc, 0 < c -> forall signal response off la,
  nn_greedy_q (map (Qcmult c) signal) response off la =
  res_map (sc_out Qc (Qcmult c) (Qcmult (c * c))) (nn_greedy_q signal response off la).
Proof.
  intros c Hc. apply nn_greedy_scale_sec; intros; try ring.
  - unfold Qcdiv. ring.
  - unfold q_min. rewrite (q_dec_scale c b a Hc). destruct (q_dec b a); reflexivity.
  - unfold q_nonneg. replace 0 with (c * 0) at 1 by ring. rewrite (q_dec_scale c x 0 Hc). reflexivity.
Qed.
(* selection level: over the rationals extended by +infinity (a genuine `inf`, fixed by the scaling) *)
Lemma ls_scale_covariant_Qinf_lemma : forall c : Qc, 0 < c -> forall signal response offs las,
  ls_deconv (option Qc) None o_ltb nn_greedy_o (map (o_scale c) signal) response offs las =
  res_map (map (o_scale c)) (ls_deconv (option Qc) None o_ltb nn_greedy_o signal response offs las).
Proof.
  intros c Hc.
  assert (Hcc : 0 < c * c) by (replace 0 with (c * 0) by ring; apply qc_mul_mono_lt; assumption).
  apply ls_deconv_scale_sec with (sc2 := o_scale (c * c)).
  - cbn. f_equal. ring.
  - intros [a|] [b|]; cbn; try reflexivity. f_equal. ring.
  - intros [v|] [r|]; cbn; try reflexivity. f_equal. ring.
  - intros [s|] [r|]; cbn; try reflexivity. f_equal. unfold Qcdiv. ring.
  - intros [a|] [b|]; cbn; try reflexivity. f_equal.
    unfold q_min. rewrite (q_dec_scale c b a Hc). destruct (q_dec b a); reflexivity.
  - intros [x|]; cbn; [|reflexivity].
    unfold q_nonneg. replace 0 with (c * 0) at 1 by ring. rewrite (q_dec_scale c x 0 Hc). reflexivity.
  - intros [x|]; cbn; [|reflexivity]. f_equal. ring.
  - intros [a|] [b|]; cbn; try reflexivity. f_equal. ring.
  - cbn. f_equal. ring.
  - intros [a|] [b|]; cbn; try reflexivity. apply q_dec_scale. exact Hcc.
  - reflexivity.
Qed.

(* (6) over Q: a pulse a * response (a > 0) at k is recovered as exactly a at k and 0 elsewhere, residual 0 *)
Lemma isolated_pulse_Q_lemma : forall (a : Qc) (response : list Qc) (la : nat),
  0 < a -> (1 <= la)%nat -> (la <= length response)%nat -> forallb q_neg (firstn la response) = true ->
  forall k m t, (la <= m)%nat -> t = 0%nat \/ (length response <= m)%nat ->
  let P := map (Qcmult a) (firstn m response) ++ repeat 0 t in
  nn_greedy_q (repeat 0 k ++ P) response 0 la = Ok (0, repeat 0 k ++ a :: repeat 0 (length P - 1)).
Proof.
  intros a response la Ha H1 H2 H3 k m t H4 H5.
  apply isolated_pulse_lemma; try assumption.
  - unfold q_nonneg. replace (q_dec 0 0) with false; [reflexivity|]. symmetry. apply q_dec_false. apply Qcle_refl.
  - intros r Hr. apply q_dec_true in Hr. unfold q_nonneg.
    replace (q_dec (a * r) 0) with true; [reflexivity|]. symmetry. apply q_dec_true.
    replace 0 with (a * 0) by ring. apply qc_mul_mono_lt; assumption.
  - intros r Hr. apply q_dec_true in Hr. field. apply Qclt_not_eq. exact Hr.
  - unfold q_min. destruct (q_dec a a); reflexivity.
  - intros r. ring.
  - ring.
Qed.
Lemma sumsq_Q_ge0 : forall l acc, 0 <= acc -> 0 <= fold_left (fun acc x => acc + x * x) l acc.
Proof.
  induction l as [|x t IH]; intros acc Hacc; [assumption|]. cbn [fold_left]. apply IH.
  replace 0 with (0 + 0) by ring. apply Qcplus_le_compat; [assumption|].
  destruct (Qclt_le_dec x 0) as [Hx|Hx].
  - replace (x * x) with ((- x) * (- x)) by ring. replace 0 with (0 * - x) by ring.
    apply Qcmult_le_compat_r; apply Qclt_le_weak; apply qc_neg_opp; assumption.
  - replace 0 with (0 * x) by ring. apply Qcmult_le_compat_r; assumption.
Qed.
(* the whole wire selection (grid 0..=1 x 3..=12; `inf` is any positive number here) *)
Lemma isolated_pulse_wire_Q_lemma : forall (a : Qc) (response : list Qc),
  0 < a -> (13 <= length response)%nat -> forallb q_neg (firstn 13 response) = true ->
  forall k m t, (3 <= m)%nat -> t = 0%nat \/ (length response <= m)%nat ->
  let P := map (Qcmult a) (firstn m response) ++ repeat 0 t in
  ls_deconv Qc 1 q_dec nn_greedy_q (repeat 0 k ++ P) response (range_incl 0 1) (range_incl 3 12) =
  Ok (repeat 0 k ++ a :: repeat 0 (length P - 1)).
Proof.
  intros a response Ha Hlen Hneg k m t Hm Ht P.
  assert (Hw : forall off la, (off + la <= 13)%nat ->
            exists rwin, slice Qc response off la = Some rwin /\ forallb q_neg rwin = true).
  { intros off la Hol. exists (firstn la (skipn off response)). split.
    - apply slice_some_iff. split; [lia|reflexivity].
    - apply forallb_forall. intros x Hx.
      assert (Hall := proj1 (forallb_forall q_neg (firstn 13 response)) Hneg). apply Hall.
      apply In_nth_error in Hx. destruct Hx as [p Hp].
      assert (Hpl : (p < la)%nat).
      { assert (Hl : (p < length (firstn la (skipn off response)))%nat) by (apply nth_error_Some; rewrite Hp; discriminate).
        rewrite firstn_length in Hl. lia. }
      rewrite nth_error_firstn_ in Hp by assumption. rewrite nth_error_skipn_ in Hp.
      apply (nth_error_In (firstn 13 response) (off + p)). rewrite nth_error_firstn_ by lia. exact Hp. }
  change (range_incl 0 1) with [0%nat; 1%nat].
  change (range_incl 3 12) with [3;4;5;6;7;8;9;10;11;12]%nat.
  apply isolated_pulse_ls_lemma.
  - apply isolated_pulse_Q_lemma; try assumption; try lia.
    destruct (Hw 0%nat 3%nat ltac:(lia)) as [rwin [Hs Hn]]. apply slice_some_iff in Hs. destruct Hs as [_ ->]. exact Hn.
  - intros off la Ho Hl.
    assert (Hol : (off + la <= 13 /\ 1 <= la)%nat).
    { cbn [In] in Ho, Hl. lia. }
    destruct (Hw off la (proj1 Hol)) as [rwin [Hs Hn]]. exists rwin. split; [exact Hs|]. split; [exact Hn|lia].
  - intros l. apply q_dec_false. unfold Greedy.sumsq. apply sumsq_Q_ge0. apply Qcle_refl.
  - apply q_dec_true. reflexivity.
Qed.

(* ------------------------------------------------------------------------------------------ *)
(* binary64: the three sign laws of Section Sign hold for the PrimFloat instance, for ALL floats
   (NaN, infinities, subnormals, signed zeros included).  Uses the standard library's FloatAxioms
   div_spec, leb_spec, ltb_spec (eqb_spec for the reading lemma) linking primitives to SpecFloat. *)
Local Open Scope nat_scope.

Lemma binary_round_aux_sign prec emax m e l : sf_ge0 (binary_round_aux prec emax false m e l).
Proof.
  unfold binary_round_aux.
  destruct (shr_fexp prec emax m e l) as [mrs' e'].
  destruct (shr_fexp prec emax (round_nearest_even (shr_m mrs') (loc_of_shr_record mrs')) e' loc_Exact) as [mrs'' e''].
  destruct (shr_m mrs'') as [|p|p]; cbn [sf_ge0]; [reflexivity| |exact I].
  destruct (Zle_bool e'' (emax - prec)); reflexivity.
Qed.
Lemma f_ge0_zero : f_ge0 0%float.
Proof. reflexivity. Qed.
(* IEEE sign rule of division: (not >= 0) / (< 0) is NaN or has its sign bit clear *)
Lemma f_ge0_quot s r : f_nonneg s = false -> f_neg r = true -> f_ge0 (s / r)%float.
Proof.
  unfold f_ge0, f_nonneg, f_neg. rewrite FloatAxioms.div_spec, FloatAxioms.leb_spec, FloatAxioms.ltb_spec.
  change (Prim2SF 0%float) with (S754_zero false).
  unfold SF64div, SFleb, SFltb.
  destruct (Prim2SF s) as [ss|ss| |ss ms es], (Prim2SF r) as [sr|sr| |sr mr er]; cbn [SFcompare SFdiv sf_ge0];
    try discriminate; try (intros; exact I);
    try (destruct ss; try discriminate; destruct sr; try discriminate; intros; reflexivity).
  destruct ss; [|discriminate]. destruct sr; [|discriminate]. intros _ _.
  cbn [xorb]. destruct (SFdiv_core_binary prec emax (Z.pos ms) es (Z.pos mr) er) as [[mz ez] lz].
  apply binary_round_aux_sign.
Qed.
Lemma f_ge0_min a b : f_ge0 a -> f_ge0 b -> f_ge0 (f_min a b).
Proof.
  intros Ha Hb. unfold f_min. destruct (is_nan a); [assumption|]. destruct (is_nan b); [assumption|].
  destruct (b <? a)%float; assumption.
Qed.
Lemma f_ge0_spec_lemma x : f_ge0 x -> is_nan x = true \/ (0 <=? x)%float = true.
Proof.
  unfold f_ge0, is_nan. rewrite FloatAxioms.leb_spec, FloatAxioms.eqb_spec. change (Prim2SF 0%float) with (S754_zero false).
  unfold SFleb, SFeqb. destruct (Prim2SF x) as [s|s| |s m e]; cbn [sf_ge0 SFcompare]; intros H; subst; auto.
Qed.
Lemma greedy_nonneg_f64_lemma : forall signal response off la r inp,
  nn_greedy_f signal response off la = Ok (r, inp) -> Forall f_ge0 inp.
Proof.
  intros signal response off la r inp. apply nn_greedy_nonneg_sec.
  - exact f_ge0_zero.
  - exact f_ge0_quot.
  - exact f_ge0_min.
Qed.
Lemma ls_nonneg_f64_lemma : forall signal response offs las out,
  ls_deconv_f signal response offs las = Ok out -> Forall f_ge0 out.
Proof.
  intros signal response offs las out. unfold ls_deconv_f, nn_greedy_f. apply ls_deconv_nonneg_sec.
  - exact f_ge0_zero.
  - exact f_ge0_quot.
  - exact f_ge0_min.
Qed.

(* ---- binary64: the laws of Section Finite ---- *)
(* accumulator of a sum of squares started at -0: NaN, a zero, or sign bit clear *)
Definition sf_acc (x : spec_float) : Prop :=
  match x with S754_nan | S754_zero _ => True | S754_infinity s | S754_finite s _ _ => s = false end.

Lemma sf_ge0_acc x : sf_ge0 x -> sf_acc x.
Proof. destruct x; cbn; auto. Qed.
Lemma SFsub_fin prec emax a p : sf_fin (SFsub prec emax a p) -> sf_fin p.
Proof.
  destruct a as [sa|sa| |sa ma ea], p as [sp|sp| |sp mp ep]; cbn [SFsub sf_fin]; auto.
  destruct (Bool.eqb sa (negb sp)); cbn [sf_fin]; auto.
Qed.
Lemma SFmul_fin prec emax v r : sf_fin (SFmul prec emax v r) -> sf_fin v /\ sf_fin r.
Proof. destruct v as [sa|sa| |sa ma ea], r as [sp|sp| |sp mp ep]; cbn [SFmul sf_fin]; auto; intros []. Qed.
Lemma SFadd_fin prec emax a q : sf_fin (SFadd prec emax a q) -> sf_fin a /\ sf_fin q.
Proof.
  destruct a as [sa|sa| |sa ma ea], q as [sp|sp| |sp mp ep]; cbn [SFadd sf_fin]; auto; try (intros []).
  destruct (Bool.eqb sa sp); cbn [sf_fin]; intros [].
Qed.
Lemma SFmul_sq_ge0 prec emax x : sf_ge0 (SFmul prec emax x x).
Proof.
  destruct x as [s|s| |s m e]; cbn [SFmul sf_ge0]; rewrite ?xorb_nilpotent; try reflexivity; try exact I.
  apply binary_round_aux_sign.
Qed.
Lemma SFadd_acc prec emax a q : sf_acc a -> sf_ge0 q -> sf_acc (SFadd prec emax a q).
Proof.
  destruct a as [sa|sa| |sa ma ea], q as [sq|sq| |sq mq eq_]; cbn [SFadd sf_acc sf_ge0]; intros Ha Hq; subst; auto;
    try (match goal with |- context [Bool.eqb ?a ?b] => destruct (Bool.eqb a b) end; cbn [sf_acc]; auto; fail).
  cbn [cond_Zopp]. rewrite <- Pos2Z.inj_add. cbn [binary_normalize]. unfold binary_round.
    match goal with |- context [shl_align ?a ?b ?c] => destruct (shl_align a b c) as [mz ez] end.
  apply sf_ge0_acc. apply binary_round_aux_sign.
Qed.

Definition sq_step (acc x : float) : float := (acc + x * x)%float.
Lemma sumsq_inv : forall l acc, sf_acc (Prim2SF acc) ->
  sf_acc (Prim2SF (fold_left sq_step l acc)) /\
  (f_fin (fold_left sq_step l acc) -> f_fin acc /\ Forall f_fin l).
Proof.
  induction l as [|x t IH]; intros acc Ha; cbn [fold_left].
  - split; [assumption|]. intros H. split; [assumption|constructor].
  - assert (Ha' : sf_acc (Prim2SF (sq_step acc x))).
    { unfold sq_step. rewrite FloatAxioms.add_spec, FloatAxioms.mul_spec. apply SFadd_acc; [assumption|apply SFmul_sq_ge0]. }
    destruct (IH _ Ha') as [H1 H2]. split; [assumption|].
    intros Hf. destruct (H2 Hf) as [Hacc' Ht].
    unfold f_fin, sq_step in Hacc'. rewrite FloatAxioms.add_spec, FloatAxioms.mul_spec in Hacc'.
    apply SFadd_fin in Hacc'. destruct Hacc' as [Hacc Hsq]. apply SFmul_fin in Hsq.
    split; [exact Hacc|]. constructor; [exact (proj1 Hsq)|exact Ht].
Qed.
Lemma f_sumsq_fin l :
  (sumsq float neg_zero PrimFloat.add PrimFloat.mul l <? infinity)%float = true -> Forall f_fin l.
Proof.
  unfold sumsq. change (fun acc x : float => (acc + x * x)%float) with sq_step.
  destruct (sumsq_inv l neg_zero I) as [Hacc Hfin]. intros Hlt. apply Hfin.
  unfold f_fin. rewrite FloatAxioms.ltb_spec in Hlt. change (Prim2SF infinity) with (S754_infinity false) in Hlt.
  unfold SFltb in Hlt. destruct (Prim2SF (fold_left sq_step l neg_zero)) as [s|s| |s m e]; cbn [sf_fin]; auto;
    cbn [SFcompare] in Hlt; try discriminate.
  cbn [sf_acc] in Hacc. subst s. discriminate.
Qed.
Lemma f_ltb_inf r b : (r <? b)%float = true -> (r <? infinity)%float = true.
Proof.
  rewrite !FloatAxioms.ltb_spec. change (Prim2SF infinity) with (S754_infinity false). unfold SFltb.
  destruct (Prim2SF r) as [s|s| |s m e]; cbn [SFcompare]; try reflexivity; try discriminate.
  - destruct s; [reflexivity|]. destruct (Prim2SF b) as [s2|s2| |s2 m2 e2]; cbn; try discriminate. destruct s2; discriminate.
Qed.
Lemma f_sub_fin s p : f_fin (s - p)%float -> f_fin p.
Proof. unfold f_fin. rewrite FloatAxioms.sub_spec. apply SFsub_fin. Qed.
Lemma f_mul_fin v r : f_fin (v * r)%float -> f_fin v.
Proof. unfold f_fin. rewrite FloatAxioms.mul_spec. intros H. apply SFmul_fin in H. exact (proj1 H). Qed.

Lemma ls_finite_f64_lemma : forall signal response offs las out,
  ls_deconv_f signal response offs las = Ok out -> Forall f_fin out.
Proof.
  intros signal response offs las out. unfold ls_deconv_f, nn_greedy_f.
  apply ls_deconv_finite_sec with (fin := f_fin).
  - reflexivity.
  - exact f_sub_fin.
  - exact f_mul_fin.
  - exact f_sumsq_fin.
  - exact f_ltb_inf.
Qed.
(* everything the binary64 model guarantees for ALL inputs, in one statement *)
Lemma deconv_f64_all_inputs_lemma : forall signal response offs las out,
  ls_deconv_f signal response offs las = Ok out ->
  (out = [] \/ length out = length signal) /\ Forall f_fin out /\ Forall f_ge0 out.
Proof.
  intros signal response offs las out H. split; [|split].
  - revert H. unfold ls_deconv_f.
    apply (ls_deconv_P float infinity PrimFloat.ltb nn_greedy_f signal response
             (fun l => l = [] \/ length l = length signal)); [|left; reflexivity].
    intros off la r inp b Hn _. right. unfold nn_greedy_f in Hn.
    destruct (deconv_lengths_lemma float 0%float neg_zero PrimFloat.add PrimFloat.sub PrimFloat.mul PrimFloat.div
                f_min f_neg f_nonneg signal response off la) as [_ [Hl _]]. eapply Hl. exact Hn.
  - eapply ls_finite_f64_lemma; exact H.
  - eapply ls_nonneg_f64_lemma; exact H.
Qed.
