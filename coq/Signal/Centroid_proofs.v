(* Antisymmetry of the pad-row z and of the three-pad centroid under the mirror row -> 575 - row with first and
   last exchanged, over the reals.  Axioms: those of the standard library's real numbers only. *)
From Coq Require Import Reals Lra.
From AG Require Import Base.Prelude Gen.PadMaps Signal.Centroid.
Local Open Scope R_scope.

Lemma NR_sub a b : (b <= a)%N -> NR (a - b) = NR a - NR b.
Proof. intros H. unfold NR. rewrite N2Z.inj_sub by exact H. apply minus_IZR. Qed.

Lemma NR_pos n : (0 < n)%N -> 0 < NR n.
Proof. intros H. unfold NR. apply IZR_lt. lia. Qed.

(* ---- the row coordinate: z(rows - 1 - r) = - z(r), any length, any positive number of rows ---- *)
Lemma row_z_gen_antisym len rows r : (r < rows)%N ->
  row_z_gen len rows (rows - 1 - r) = - row_z_gen len rows r.
Proof.
  intros H. unfold row_z_gen. rewrite NR_sub by lia. rewrite NR_sub by lia.
  change (NR 1) with 1. assert (Hn : NR rows <> 0) by (apply Rgt_not_eq, NR_pos; lia).
  field. exact Hn.
Qed.

Lemma rows_val : TPC_PAD_ROWS = 576%N.
Proof. reflexivity. Qed.

Lemma pad_row_z_antisymmetric_lemma : forall r : N, (r <= 575)%N ->
  pad_row_z (575 - r) = - pad_row_z r.
Proof.
  intros r H. unfold pad_row_z.
  replace (575 - r)%N with (TPC_PAD_ROWS - 1 - r)%N by (rewrite rows_val; lia).
  apply row_z_gen_antisym. rewrite rows_val. lia.
Qed.

(* the closed form with the constants of the source: z(row) = (row + 1/2) * 0.004 m - 1.152 m *)
Lemma pad_row_z_value_lemma : forall r : N, pad_row_z r = (NR r + /2) * (4 / 1000) - 1152 / 1000.
Proof.
  intros r. unfold pad_row_z, row_z_gen, DETECTOR_LENGTH. rewrite rows_val. unfold NR.
  change (Z.of_N 576%N) with 576%Z. field.
Qed.

(* ---- logarithms ---- *)
Lemma ln_nonpos x : x <= 0 -> ln x = 0.
Proof. intros H. unfold ln. destruct (Rlt_dec 0 x); [exfalso; lra|reflexivity]. Qed.

(* with Coq's total functions (/ 0 = 0, ln x = 0 for x <= 0) the law holds everywhere; for x > 0 it is the
   usual ln (1 / x) = - ln x *)
Lemma ln_Rinv_total x : ln (/ x) = - ln x.
Proof.
  destruct (Rtotal_order 0 x) as [H|[H|H]].
  - now apply ln_Rinv.
  - subst. rewrite Rinv_0, ln_nonpos; lra.
  - rewrite (ln_nonpos x) by lra. rewrite ln_nonpos; [lra|].
    apply Rlt_le, Rinv_lt_0_compat. exact H.
Qed.

Lemma ln_div_swap a b : ln (a / b) = - ln (b / a).
Proof.
  unfold Rdiv. rewrite <- ln_Rinv_total. f_equal.
  rewrite Rinv_mult, Rinv_inv. apply Rmult_comm.
Qed.

Lemma sigma_squared_sym w f m l : sigma_squared w l m f = sigma_squared w f m l.
Proof. unfold sigma_squared. now rewrite (Rmult_comm l f). Qed.

(* ---- the centroid ---- *)
Lemma centroid_gen_antisym len rows r f m l : (r < rows)%N ->
  centroid_gen len rows (rows - 1 - r) l m f = - centroid_gen len rows r f m l.
Proof.
  intros H. unfold centroid_gen. cbv zeta.
  rewrite row_z_gen_antisym by exact H. rewrite sigma_squared_sym, (ln_div_swap f l). ring.
Qed.

(* total form: no condition on the amplitudes (outside the hit condition both sides are values of Coq's
   totalised ln and /, not of the code, which does not evaluate the formula there) *)
Lemma centroid_antisymmetric_total_lemma : forall (r : N) (f m l : R), (r <= 575)%N ->
  zR (575 - r) l m f = - zR r f m l.
Proof.
  intros r f m l H. unfold zR.
  replace (575 - r)%N with (TPC_PAD_ROWS - 1 - r)%N by (rewrite rows_val; lia).
  apply centroid_gen_antisym. rewrite rows_val. lia.
Qed.

Lemma centroid_antisymmetric_real_lemma : forall (r : N) (first middle last : R), (r <= 575)%N ->
  hit_condition first middle last ->
  zR (575 - r) last middle first = - zR r first middle last.
Proof. intros r f m l H _. now apply centroid_antisymmetric_total_lemma. Qed.

Lemma hit_condition_symmetric_lemma : forall first middle last : R,
  hit_condition first middle last <-> hit_condition last middle first.
Proof. intros. unfold hit_condition. tauto. Qed.

(* under the hit condition every sub-expression of the formula is a genuine real operation: the two divisors
   are non-zero and the two logarithms have positive arguments (so the statement above is about the
   mathematical formula, not about Coq's conventions for / 0 and ln of a non-positive number) *)
Lemma hit_condition_well_defined_lemma : forall first middle last : R,
  hit_condition first middle last ->
  first <> 0 /\ first * last > 0 /\ last / first > 0 /\ middle ^ 2 / (first * last) > 1 /\
  ln (middle ^ 2 / (first * last)) > 0 /\ PAD_PITCH_Z > 0 /\
  sigma_squared PAD_PITCH_Z first middle last > 0.
Proof.
  intros f m l (Hf & Hl & Hmf & Hml).
  assert (Hfl : f * l > 0) by (apply Rmult_lt_0_compat; lra).
  assert (Hq : m ^ 2 / (f * l) > 1).
  { apply Rlt_gt. apply Rmult_lt_reg_r with (f * l); [lra|].
    unfold Rdiv. rewrite Rmult_assoc, Rinv_l by lra. rewrite Rmult_1_r, Rmult_1_l.
    simpl. rewrite Rmult_1_r. apply Rmult_le_0_lt_compat; lra. }
  assert (Hln : ln (m ^ 2 / (f * l)) > 0).
  { rewrite <- ln_1. apply ln_increasing; lra. }
  assert (Hw : PAD_PITCH_Z > 0).
  { unfold PAD_PITCH_Z, DETECTOR_LENGTH. apply Rdiv_lt_0_compat; [lra|]. apply NR_pos. rewrite rows_val. lia. }
  repeat split; try lra.
  - apply Rdiv_lt_0_compat; lra.
  - unfold sigma_squared. apply Rdiv_lt_0_compat; [|lra]. apply pow_lt. lra.
Qed.

(* ---- the boolean tests on R ---- *)
Lemma Rgtb_total : forall a b : R, a <> b -> Rgtb a b = true \/ Rgtb b a = true.
Proof.
  intros a b H. unfold Rgtb. destruct (Rlt_dec b a); [now left|]. destruct (Rlt_dec a b); [now right|].
  exfalso. apply H. apply Rle_antisym; apply Rnot_lt_le; assumption.
Qed.

Lemma hit_condition_bool f m l :
  (Rposb f && Rposb l && Rgtb m f && Rgtb m l)%bool = true <-> hit_condition f m l.
Proof.
  unfold Rposb, Rgtb, hit_condition.
  destruct (Rlt_dec 0 f), (Rlt_dec 0 l), (Rlt_dec f m), (Rlt_dec l m); cbn; split; intros H;
    try discriminate; try reflexivity; try (repeat split; assumption);
    destruct H as (? & ? & ? & ?); exfalso; auto.
Qed.
