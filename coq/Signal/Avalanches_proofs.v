(* C13 — proofs about the index skeleton of MainEvent::avalanches (Signal/Avalanches.v):
   rotation_equivariant, mirror_equivariant, and the two refutation witnesses for the
   known findings F3 (full ring) and F6 (pad amplitude tie). *)
From Coq Require Import Permutation Sorted.
From AG Require Import Base.Prelude Signal.Ring Signal.Ring_proofs Signal.Avalanches.

(* ---------------------------------------------------------------- lists *)
Lemma fold_left_flat_map {A B C} (g : A -> C -> A) (h : B -> list C) L st :
  fold_left (fun st r => fold_left g (h r) st) L st = fold_left g (flat_map h L) st.
Proof. revert st; induction L; intros st; cbn; auto. now rewrite fold_left_app, IHL. Qed.

Lemma combine_map_l {A A' B} (f : A -> A') (a : list A) (b : list B) :
  combine (map f a) b = map (fun p => (f (fst p), snd p)) (combine a b).
Proof. revert b; induction a; intros [|y b]; cbn; auto. now rewrite IHa. Qed.

Lemma combine_map_r {A B B'} (f : B -> B') (a : list A) (b : list B) :
  combine a (map f b) = map (fun p => (fst p, f (snd p))) (combine a b).
Proof. revert b; induction a; intros [|y b]; cbn; auto. now rewrite IHa. Qed.

Lemma map_fst_combine {A B} (a : list A) (b : list B) :
  length a = length b -> map fst (combine a b) = a.
Proof. revert b; induction a; intros [|y b]; cbn; intros; auto; try lia. f_equal; auto. Qed.

Lemma nth_of_nth_error {A} (l : list A) n d :
  nth n l d = match nth_error l n with Some x => x | None => d end.
Proof. revert n; induction l; intros [|n]; cbn; auto. Qed.

Lemma slice_ext {A} (l l' : list A) a a' n :
  (forall j, (j < n)%nat -> nth_error l (a + j) = nth_error l' (a' + j)) ->
  firstn n (skipn a l) = firstn n (skipn a' l').
Proof.
  intros H. apply nth_error_ext. intros j.
  destruct (Nat.lt_ge_cases j n).
  - rewrite !nth_error_firstn, !nth_error_skipn by auto. auto.
  - transitivity (@None A); [|symmetry]; apply nth_error_None;
      (eapply Nat.le_trans; [apply firstn_le_length|auto]).
Qed.

(* ---------------------------------------------------------------- array update *)
Lemma upd_nat_length {A} (l : list A) n v : length (upd_nat l n v) = length l.
Proof. revert n; induction l; intros [|n]; cbn; auto. Qed.

Lemma upd_nat_same {A} (l : list A) n v : (n < length l)%nat -> nth_error (upd_nat l n v) n = Some v.
Proof. revert n; induction l; intros [|n]; cbn; intros; auto; try lia. apply IHl; lia. Qed.

Lemma upd_nat_other {A} (l : list A) n m v : n <> m -> nth_error (upd_nat l n v) m = nth_error l m.
Proof. revert n m; induction l; intros [|n] [|m]; cbn; intros; auto; try lia. Qed.

Section Updates.
  Context {A : Type}.
  Definition upds (U : list (N * A)) (wi : list A) : list A :=
    fold_left (fun wi '(i, x) => upd wi i x) U wi.

  Lemma upds_length U wi : length (upds U wi) = length wi.
  Proof.
    revert wi; induction U as [|[i x] U IH]; intros wi; cbn; auto.
    unfold upds in IH. rewrite IH. apply upd_nat_length.
  Qed.

  Lemma upds_notin U wi i : ~ In i (map fst U) ->
    nth_error (upds U wi) (N.to_nat i) = nth_error wi (N.to_nat i).
  Proof.
    revert wi; induction U as [|[i0 x] U IH]; intros wi Hn; cbn; auto.
    cbn in Hn. unfold upds in IH. rewrite IH by tauto.
    apply upd_nat_other. intro E. apply Hn. left. lia.
  Qed.

  Lemma upds_in U wi i x : NoDup (map fst U) -> In (i, x) U -> (N.to_nat i < length wi)%nat ->
    nth_error (upds U wi) (N.to_nat i) = Some x.
  Proof.
    revert wi; induction U as [|[i0 x0] U IH]; intros wi ND Hin Hl; cbn. destruct Hin.
    cbn in ND. inversion ND; subst. destruct Hin as [E|Hin].
    - inversion E; subst. fold (upds U (upd wi i x)). rewrite upds_notin by auto.
      apply upd_nat_same. auto.
    - unfold upds in IH. apply IH; auto. unfold upd. now rewrite upd_nat_length.
  Qed.
End Updates.

(* ---------------------------------------------------------------- arithmetic *)
Lemma land255 x : N.land x 255 = x mod 256.
Proof. change 255 with (N.ones 8). now rewrite N.land_ones. Qed.

Lemma wtpc_simple i : i < 256 -> wire_to_pad_column i = ((i + 248) mod 256) / 8.
Proof.
  intros H. unfold wire_to_pad_column, wsub64, WIRE_SHIFT, WIRES_PER_COLUMN. rewrite land255.
  change (2 ^ 64) with 18446744073709551616. f_equal. lia.
Qed.

Lemma wtpc_lt i : wire_to_pad_column i < NCOLS.
Proof.
  unfold wire_to_pad_column, WIRES_PER_COLUMN, NCOLS. rewrite land255. lia.
Qed.

Lemma wtpc_shift i k : i < 256 -> k < 32 ->
  wire_to_pad_column ((i + 8 * k) mod 256) = (wire_to_pad_column i + k) mod 32.
Proof. intros. rewrite !wtpc_simple by lia. lia. Qed.

Lemma pctw_simple c : pad_column_to_wires c = ((8 * c + 8) mod 256, (8 * c + 8) mod 256 + 8).
Proof.
  unfold pad_column_to_wires, WIRES_PER_COLUMN, WIRE_SHIFT. rewrite land255.
  replace (c * 8 + 8) with (8 * c + 8) by lia. reflexivity.
Qed.

(* wire_inputs[first..first + 8] never exceeds the 256 slots *)
Lemma pctw_in_bounds c : snd (pad_column_to_wires c) <= NW /\ fst (pad_column_to_wires c) + 8 = snd (pad_column_to_wires c).
Proof. rewrite pctw_simple. cbn [fst snd]. unfold NW. lia. Qed.

Lemma first_shift c k j : c < 32 -> k < 32 -> j < 8 ->
  (8 * ((c + k) mod 32) + 8) mod 256 + j = ((8 * c + 8) mod 256 + j + 8 * k) mod 256.
Proof. intros; lia. Qed.

Lemma col_unrot c k : c < 32 -> k <= 32 -> ((c + k) mod 32 + 32 - k) mod 32 = c.
Proof. intros; lia. Qed.

(* ---------------------------------------------------------------- rotation *)
Section Rotation.
  Context {sig amp zt : Type}.
  Variable azero : amp.
  Variable apos : amp -> bool.
  Variable agt : amp -> amp -> bool.
  Variable zf : N -> amp -> amp -> amp -> zt.
  Variable D : list sig -> list (list amp).
  Variable P : sig -> list amp.
  Variable sortW : list (N * amp) -> list (N * amp).
  Variable sortP : list (zt * amp) -> list (zt * amp).

  (* assumed of the kernels *)
  (* wire_range_deconvolution returns one input per wire of the block (wires.rs:118-134) *)
  Hypothesis D_len : forall l, length (D l) = length l.
  (* the sort looks at amplitudes only: relabelling the wires commutes with it *)
  Hypothesis sortW_param : forall (f : N -> N) l,
      sortW (map (fun h => (f (fst h), snd h)) l) = map (fun h => (f (fst h), snd h)) (sortW l).

  Implicit Types ws : list (option sig).
  Notation shiftp s := (fun p : N * list amp => ((fst p + s) mod NW, snd p)).

  Definition pairs ws (r : N * N) : list (N * list amp) :=
    combine (range_to_indices r) (D (block_sigs ws r)).
  Definition updates ws : list (N * list amp) := flat_map (pairs ws) (contiguous_ranges ws).
  Definition step (st : list (list amp) * list N) (p : N * list amp) :=
    let '(i, input) := p in (upd (fst st) i input, wire_to_pad_column i :: snd st).

  Lemma wire_stage_updates ws :
    wire_stage D ws = fold_left step (updates ws) (repeat [] (N.to_nat NW), []).
  Proof. unfold wire_stage, updates, fill_range. now rewrite <- fold_left_flat_map. Qed.

  Lemma step_fst U st : fst (fold_left step U st) = upds U (fst st).
  Proof.
    revert st; induction U as [|[i x] U IH]; intros st; cbn; auto.
    rewrite IH. reflexivity.
  Qed.

  Lemma step_snd U st c :
    In c (snd (fold_left step U st)) <-> In c (snd st) \/ exists p, In p U /\ wire_to_pad_column (fst p) = c.
  Proof.
    revert st; induction U as [|[i x] U IH]; intros st; cbn [fold_left step].
    - split; auto. intros [H|(p & [] & _)]; auto.
    - rewrite IH. cbn [snd In]. split.
      + intros [[H|H]|(p & H1 & H2)].
        * right. exists (i, x). cbn; auto.
        * auto.
        * right. exists p. cbn; auto.
      + intros [H|(p & [H1|H1] & H2)].
        * auto.
        * subst p. cbn in H2. auto.
        * right. eauto.
  Qed.

  Lemma pairs_fst ws f l : block ws f l -> map fst (pairs ws (f, l)) = range_to_indices (f, l).
  Proof.
    intros B. unfold pairs. apply map_fst_combine. rewrite D_len.
    symmetry. now apply block_sigs_all_some.
  Qed.

  Lemma updates_fst ws : ~ full_ring ws ->
    map fst (updates ws) = flat_map range_to_indices (contiguous_ranges ws).
  Proof.
    intros NF. unfold updates. rewrite map_flat_map. apply flat_map_ext_in.
    intros [f l] Hin. apply pairs_fst. now apply cr_in.
  Qed.

  Lemma updates_nodup ws : ~ full_ring ws -> NoDup (map fst (updates ws)).
  Proof. intros NF. rewrite updates_fst by auto. apply cr_indices_nodup. Qed.

  Lemma updates_lt ws i : ~ full_ring ws -> In i (map fst (updates ws)) -> i < NW.
  Proof.
    intros NF. rewrite updates_fst by auto. rewrite in_flat_map. intros ([f l] & H1 & H2).
    apply cr_valid in H1; auto. eapply rti_lt; eauto; tauto.
  Qed.

  Lemma pairs_rot ws s f l : wf ws -> s <= NW -> f < NW -> 1 <= l <= NW ->
    pairs (rotw s ws) (rot_range s (f, l)) = map (shiftp s) (pairs ws (f, l)).
  Proof.
    intros. unfold pairs. rewrite block_sigs_rot, rti_rot by auto.
    exact (combine_map_l (fun i => (i + s) mod NW) _ _).
  Qed.

  Lemma updates_rot_perm ws s : wf ws -> ~ full_ring ws -> s <= NW ->
    Permutation (updates (rotw s ws)) (map (shiftp s) (updates ws)).
  Proof.
    intros W NF Hs. unfold updates.
    rewrite (Permutation_flat_map _ (cr_rot_perm ws s W NF Hs)).
    rewrite flat_map_map, map_flat_map.
    erewrite flat_map_ext_in. reflexivity.
    intros [f l] Hin. apply cr_valid in Hin; auto. apply pairs_rot; tauto.
  Qed.

  Definition WI ws := fst (wire_stage D ws).
  Definition BAG ws := snd (wire_stage D ws).

  Lemma WI_upds ws : WI ws = upds (updates ws) (repeat [] (N.to_nat NW)).
  Proof. unfold WI. now rewrite wire_stage_updates, step_fst. Qed.

  Lemma WI_length ws : length (WI ws) = N.to_nat NW.
  Proof. now rewrite WI_upds, upds_length, repeat_length. Qed.

  Lemma BAG_in ws c : In c (BAG ws) <-> exists p, In p (updates ws) /\ wire_to_pad_column (fst p) = c.
  Proof. unfold BAG. rewrite wire_stage_updates, step_snd. cbn [snd In]. tauto. Qed.

  (* the deconvolved inputs of the rotated event are the rotated deconvolved inputs *)
  Lemma WI_rot ws s i : wf ws -> ~ full_ring ws -> s <= NW -> i < NW ->
    nth_error (WI (rotw s ws)) (N.to_nat ((i + s) mod NW)) = nth_error (WI ws) (N.to_nat i).
  Proof.
    intros W NF Hs Hi.
    assert (NF' : ~ full_ring (rotw s ws)) by (intro F; apply NF; eapply full_ring_rot; eauto).
    pose proof (updates_rot_perm ws s W NF Hs) as HP.
    rewrite !WI_upds.
    destruct (in_dec N.eq_dec i (map fst (updates ws))) as [Hin|Hn].
    - apply in_map_iff in Hin as ([i0 x] & E & Hin). cbn in E. subst i0.
      rewrite (upds_in _ _ i x); auto.
      2: now apply updates_nodup. 2: rewrite repeat_length; lia.
      apply upds_in. now apply updates_nodup.
      + apply (Permutation_in _ (Permutation_sym HP)).
        apply in_map_iff. exists (i, x). auto.
      + rewrite repeat_length. unfold NW; lia.
    - assert (Hn' : ~ In ((i + s) mod NW) (map fst (updates (rotw s ws)))).
      { intro Hin. apply Hn.
        apply (Permutation_in _ (Permutation_map fst HP)) in Hin.
        rewrite map_map in Hin. cbn [fst] in Hin.
        apply in_map_iff in Hin as ([i0 x] & E & Hin). cbn [fst] in E.
        assert (i0 < NW) by (apply (updates_lt ws i0 NF); apply in_map_iff; exists (i0, x); auto).
        assert (i0 = i) by (unfold NW in *; lia). subst i0.
        apply in_map_iff. exists (i, x). auto. }
      rewrite (upds_notin _ _ _ Hn), (upds_notin _ _ _ Hn').
      rewrite !(nth_error_nth' _ []) by (rewrite repeat_length; unfold NW in *; lia).
      now rewrite !nth_repeat.
  Qed.

  Lemma BAG_rot ws k c : wf ws -> ~ full_ring ws -> k < 32 -> c < 32 ->
    (In ((c + k) mod 32) (BAG (rotw (8 * k) ws)) <-> In c (BAG ws)).
  Proof.
    intros W NF Hk Hc. assert (Hs : 8 * k <= NW) by (unfold NW; lia).
    pose proof (updates_rot_perm ws (8 * k) W NF Hs) as HP.
    rewrite !BAG_in. split.
    - intros (p' & H1 & H2). apply (Permutation_in _ HP) in H1.
      apply in_map_iff in H1 as ([i x] & <- & Hin). cbn [fst] in H2.
      assert (i < NW) by (apply (updates_lt ws i NF); apply in_map_iff; exists (i, x); auto).
      unfold NW in *. rewrite wtpc_shift in H2 by lia.
      exists (i, x). split; auto. cbn [fst]. pose proof (wtpc_lt i). unfold NCOLS in *. lia.
    - intros ([i x] & H1 & H2). cbn [fst] in H2.
      assert (i < NW) by (apply (updates_lt ws i NF); apply in_map_iff; exists (i, x); auto).
      exists ((i + 8 * k) mod NW, x). split.
      + apply (Permutation_in _ (Permutation_sym HP)). apply in_map_iff. exists (i, x). auto.
      + cbn [fst]. unfold NW in *. rewrite wtpc_shift by lia. now rewrite H2.
  Qed.

  (* ------------------------------------------------------------ pad columns in ascending order *)
  Lemma btree_iter_in bag c : In c (btree_iter bag) <-> c < NCOLS /\ In c bag.
  Proof.
    unfold btree_iter. rewrite filter_In, Nseq_in, existsb_exists. split.
    - intros (H1 & x & H2 & H3). apply N.eqb_eq in H3. subst. split; auto. lia.
    - intros (H1 & H2). split. lia. exists c. split; auto. apply N.eqb_refl.
  Qed.

  Lemma btree_iter_nodup bag : NoDup (btree_iter bag).
  Proof. apply NoDup_filter, Nseq_NoDup. Qed.

  Lemma btree_rot_perm bag bag' k : k < 32 ->
    (forall c, c < 32 -> (In ((c + k) mod 32) bag' <-> In c bag)) ->
    Permutation (btree_iter bag') (map (fun c => (c + k) mod 32) (btree_iter bag)).
  Proof.
    intros Hk H. apply NoDup_Permutation.
    - apply btree_iter_nodup.
    - apply NoDup_map_in. apply btree_iter_nodup.
      intros x y Hx Hy E. apply btree_iter_in in Hx, Hy. unfold NCOLS in *. lia.
    - intros c'. rewrite in_map_iff, btree_iter_in. split.
      + intros (H1 & H2). unfold NCOLS in *.
        exists ((c' + 32 - k) mod 32). split. lia.
        apply btree_iter_in. unfold NCOLS. split. lia.
        apply H. lia. replace (((c' + 32 - k) mod 32 + k) mod 32) with c' by lia. auto.
      + intros (c & <- & Hc). apply btree_iter_in in Hc as (H1 & H2). unfold NCOLS in *.
        split. lia. apply H; auto.
  Qed.

  (* ------------------------------------------------------------ one column *)
  Notation shifth f := (fun h : N * amp => (f (fst h), snd h)).

  Lemma wire_hits_shift (f : N -> N) idxs inputs t :
    wire_hits_at_t apos (map f idxs) inputs t = map (shifth f) (wire_hits_at_t apos idxs inputs t).
  Proof.
    unfold wire_hits_at_t. revert inputs; induction idxs as [|i idxs IH]; intros [|x inputs]; cbn; auto.
    rewrite map_app, IH. f_equal.
    destruct (get_t x t) as [v|]; auto. destruct (apos v); auto.
  Qed.

  Lemma match_shift s idxs inputs pic :
    match_column_inputs azero apos agt zf sortW sortP (map (fun i => (i + s) mod NW) idxs) inputs pic
    = map (shift_wire s) (match_column_inputs azero apos agt zf sortW sortP idxs inputs pic).
  Proof.
    unfold match_column_inputs. rewrite map_flat_map. apply flat_map_ext. intros t.
    rewrite wire_hits_shift.
    pose proof (sortW_param (fun i => (i + s) mod NW) (wire_hits_at_t apos idxs inputs t)) as Hs.
    destruct (wire_hits_at_t apos idxs inputs t) as [|h wh]; cbn [map] in *; auto.
    rewrite Hs.
    rewrite (combine_map_l (fun h : N * amp => ((fst h + s) mod NW, snd h))), !map_map. apply map_ext.
    intros [[w wa] [z pa]]. reflexivity.
  Qed.

  Lemma column_rot ws (pads : list (list (option sig))) k c :
    wf ws -> ~ full_ring ws -> N.of_nat (length pads) = NCOLS -> k < 32 -> c < 32 ->
    column_avalanches azero apos agt zf P sortW sortP (WI (rotw (8 * k) ws)) (rotc k pads) ((c + k) mod 32)
    = map (shift_wire (8 * k))
          (column_avalanches azero apos agt zf P sortW sortP (WI ws) pads c).
  Proof.
    intros W NF Hp Hk Hc. unfold column_avalanches.
    rewrite !pctw_simple.
    replace ((8 * ((c + k) mod 32) + 8) mod 256 + 8 - (8 * ((c + k) mod 32) + 8) mod 256) with 8 by lia.
    replace ((8 * c + 8) mod 256 + 8 - (8 * c + 8) mod 256) with 8 by lia.
    (* same pad column *)
    assert (E1 : nth (N.to_nat ((c + k) mod 32)) (rotc k pads) [] = nth (N.to_nat c) pads []).
    { rewrite !nth_of_nth_error. unfold rotc. unfold NCOLS in *.
      rewrite rot_nth_error by lia. now rewrite col_unrot by lia. }
    rewrite E1.
    (* shifted wire indices *)
    assert (E2 : Nseq ((8 * ((c + k) mod 32) + 8) mod 256) 8
                 = map (fun i => (i + 8 * k) mod NW) (Nseq ((8 * c + 8) mod 256) 8)).
    { unfold Nseq. rewrite map_map. apply map_ext_in. intros j Hj. apply in_seq in Hj.
      unfold NW. rewrite first_shift by lia. reflexivity. }
    rewrite E2.
    (* same deconvolved inputs *)
    assert (E3 : slice (WI (rotw (8 * k) ws)) ((8 * ((c + k) mod 32) + 8) mod 256) ((8 * ((c + k) mod 32) + 8) mod 256 + 8)
                 = slice (WI ws) ((8 * c + 8) mod 256) ((8 * c + 8) mod 256 + 8)).
    { unfold slice.
      replace ((8 * ((c + k) mod 32) + 8) mod 256 + 8 - (8 * ((c + k) mod 32) + 8) mod 256) with 8 by lia.
      replace ((8 * c + 8) mod 256 + 8 - (8 * c + 8) mod 256) with 8 by lia.
      apply slice_ext. intros j Hj.
      replace (N.to_nat ((8 * ((c + k) mod 32) + 8) mod 256) + j)%nat
        with (N.to_nat ((((8 * c + 8) mod 256 + N.of_nat j) + 8 * k) mod NW)).
      2:{ unfold NW. rewrite <- first_shift by lia. lia. }
      replace (N.to_nat ((8 * c + 8) mod 256) + j)%nat
        with (N.to_nat ((8 * c + 8) mod 256 + N.of_nat j)) by lia.
      apply WI_rot; auto; unfold NW; lia. }
    rewrite E3. apply match_shift.
  Qed.

  (* ------------------------------------------------------------ the theorem *)
  Theorem rotation_equivariant_lemma ws (pads : list (list (option sig))) k :
    wf ws -> N.of_nat (length pads) = NCOLS -> ~ full_ring ws -> k < 32 ->
    Permutation
      (avalanches azero apos agt zf D P sortW sortP (rotw (8 * k) ws) (rotc k pads))
      (map (shift_wire (8 * k)) (avalanches azero apos agt zf D P sortW sortP ws pads)).
  Proof.
    intros W Hp NF Hk. unfold avalanches.
    destruct (wire_stage D (rotw (8 * k) ws)) as [wi' bag'] eqn:E'.
    destruct (wire_stage D ws) as [wi bag] eqn:E.
    assert (wi' = WI (rotw (8 * k) ws)) by (unfold WI; now rewrite E').
    assert (bag' = BAG (rotw (8 * k) ws)) by (unfold BAG; now rewrite E').
    assert (wi = WI ws) by (unfold WI; now rewrite E).
    assert (bag = BAG ws) by (unfold BAG; now rewrite E).
    subst. clear E E'.
    rewrite (Permutation_flat_map _ (btree_rot_perm (BAG ws) (BAG (rotw (8 * k) ws)) k Hk
                                                    (fun c Hc => BAG_rot ws k c W NF Hk Hc))).
    rewrite flat_map_map, map_flat_map.
    erewrite flat_map_ext_in. reflexivity.
    intros c Hc. apply btree_iter_in in Hc as (Hc & _). apply column_rot; auto.
  Qed.
End Rotation.

(* ---------------------------------------------------------------- mirror *)
Section Mirror.
  Context {sig amp zt : Type}.
  Variable azero : amp.
  Variable apos : amp -> bool.
  Variable agt : amp -> amp -> bool.
  Variable zf : N -> amp -> amp -> amp -> zt.
  Variable D : list sig -> list (list amp).
  Variable P : sig -> list amp.
  Variable sortW : list (N * amp) -> list (N * amp).
  Variable sortP : list (zt * amp) -> list (zt * amp).
  Variable zneg : zt -> zt.

  (* assumed of the kernels *)
  (* the centroid of the mirrored three-row pattern is the negated centroid
     (z(575 - r) = -z(r), ln(first/last) = -ln(last/first); exact here, to 1e-9 m in binary64:
     checked numerically by the rel-mir lines of the differential run) *)
  Hypothesis zf_antisym : forall r f m l, r <= 575 -> zf (575 - r) l m f = zneg (zf r f m l).
  (* an amplitude that passes the hit test of matching.rs:80 as `middle`: it exceeds a neighbour that is > 0.0.
     Only such amplitudes reach the pad-hit sort; in binary64 they are positive and not NaN, in particular
     neither NaN nor +-0, the values on which `>` is not a total order. *)
  Definition hit_amp (a : amp) : Prop := exists f, apos f = true /\ agt a f = true.
  (* distinct HIT amplitudes are comparable (false for arbitrary binary64 values: NaN vs 1.0, +0 vs -0;
     true for hit amplitudes: Avalanches_float.fgt_total_hit) *)
  Hypothesis agt_total : forall a b : amp, hit_amp a -> hit_amp b -> a <> b -> agt a b = true \/ agt b a = true.
  (* sort_unstable_by: a permutation, sorted in descending amplitude on lists of hit amplitudes (the insertion
     sort is NOT sorted on lists containing NaN); nothing about ties *)
  Hypothesis sortP_perm : forall l, Permutation (sortP l) l.
  Definition descP (x y : zt * amp) : Prop := agt (snd y) (snd x) = false.
  Definition hitsP (l : list (zt * amp)) : Prop := Forall (fun h => hit_amp (snd h)) l.
  Hypothesis sortP_sorted : forall l, hitsP l -> StronglySorted descP (sortP l).

  Notation g := (fun h : zt * amp => (zneg (fst h), snd h)).

  Definition cond3 (f m l : amp) : bool := apos f && apos l && agt m f && agt m l.
  Definition hit3 (row : N) (f m l : amp) : list (zt * amp) :=
    if cond3 f m l then [(zf row f m l, m)] else [].

  (* the sliding three-row window of pad_hits_at_t over the amplitudes of one time bin *)
  Fixpoint win (row : N) (l : list amp) : list (zt * amp) :=
    match l with
    | [] => []
    | f :: tl => match tl with
                 | m :: la :: _ => hit3 row f m la ++ win (row + 1) tl
                 | _ => []
                 end
    end.

  Lemma pad_loop_win rest row first middle t : 1 <= row ->
    pad_loop azero apos agt zf rest row first middle t
    = win (row - 1) (first :: middle :: map (fun i => at_t azero i t) rest).
  Proof.
    revert row first middle; induction rest as [|input rest IH]; intros row first middle Hr; cbn; auto.
    rewrite IH by lia. unfold hit3, cond3. replace (row - 1 + 1) with (row + 1 - 1) by lia.
    reflexivity.
  Qed.

  Lemma pad_hits_win col t :
    pad_hits_at_t azero apos agt zf col t = win 1 (map (fun i => at_t azero i t) col).
  Proof.
    destruct col as [|r0 [|r1 rest]]; auto.
    unfold pad_hits_at_t. rewrite pad_loop_win by lia. reflexivity.
  Qed.

  Lemma win_snoc3 row l y2 y1 x :
    win row (l ++ [y2; y1; x]) = win row (l ++ [y2; y1]) ++ hit3 (row + N.of_nat (length l)) y2 y1 x.
  Proof.
    revert row; induction l as [|a l IH]; intros row.
    - cbn. rewrite N.add_0_r, !app_nil_r. reflexivity.
    - specialize (IH (row + 1)).
      replace (row + N.of_nat (length (a :: l))) with (row + 1 + N.of_nat (length l)) by (cbn [length]; lia).
      destruct l as [|b [|c l]].
      + cbn. rewrite N.add_0_r, !app_nil_r. reflexivity.
      + cbn [app] in *. cbn [win]. cbn [win] in IH. rewrite IH. rewrite app_assoc. reflexivity.
      + cbn [app] in *. cbn [win]. cbn [win] in IH. rewrite IH. rewrite app_assoc. reflexivity.
  Qed.

  Lemma cond3_hit f m l : cond3 f m l = true -> hit_amp m.
  Proof.
    unfold cond3. intros H. apply andb_prop in H as (H & _). apply andb_prop in H as (H & Hm).
    apply andb_prop in H as (Hf & _). exists f. auto.
  Qed.

  Lemma win_hits l : forall row, hitsP (win row l).
  Proof.
    unfold hitsP. induction l as [|f tl IH]; intros row; cbn [win]. constructor.
    destruct tl as [|m [|la tl']]; try constructor.
    apply Forall_app. split; [|apply IH].
    unfold hit3. destruct (cond3 f m la) eqn:E; constructor; [|constructor].
    cbn [snd]. eapply cond3_hit; eauto.
  Qed.

  Lemma pad_hits_hits col t : hitsP (pad_hits_at_t azero apos agt zf col t).
  Proof. rewrite pad_hits_win. apply win_hits. Qed.

  Lemma cond3_sym f m l : cond3 l m f = cond3 f m l.
  Proof. unfold cond3. destruct (apos f), (apos l), (agt m f), (agt m l); reflexivity. Qed.

  Lemma win_rev l row row' : row + row' + N.of_nat (length l) = 578 ->
    win row' (rev l) = rev (map g (win row l)).
  Proof.
    revert row; induction l as [|a l1 IH]; intros row H; auto.
    destruct l1 as [|b [|c l2]]; auto.
    specialize (IH (row + 1)).
    change (rev (a :: b :: c :: l2)) with (((rev l2 ++ [c]) ++ [b]) ++ [a]).
    rewrite <- !app_assoc. cbn [app]. rewrite win_snoc3.
    change (rev (b :: c :: l2)) with ((rev l2 ++ [c]) ++ [b]) in IH.
    rewrite <- !app_assoc in IH. cbn [app] in IH. rewrite IH by (cbn [length] in *; lia).
    cbn [win]. rewrite map_app, rev_app_distr. f_equal.
    unfold hit3. rewrite cond3_sym. destruct (cond3 a b c); auto. cbn.
    rewrite rev_length. cbn [length] in H.
    replace (row' + N.of_nat (length l2)) with (575 - row) by lia.
    rewrite zf_antisym by lia. reflexivity.
  Qed.

  Lemma pad_hits_mirror col t : N.of_nat (length col) = NROWS ->
    pad_hits_at_t azero apos agt zf (rev col) t = rev (map g (pad_hits_at_t azero apos agt zf col t)).
  Proof.
    intros H. rewrite !pad_hits_win, map_rev. apply win_rev.
    rewrite map_length. unfold NROWS in H. lia.
  Qed.

  (* a strictly descending list is determined by its multiset *)
  Lemma sorted_unique (s1 s2 : list (zt * amp)) :
    hitsP s1 ->
    StronglySorted descP s1 -> StronglySorted descP s2 -> Permutation s1 s2 ->
    NoDup (map snd s1) -> s1 = s2.
  Proof.
    revert s2; induction s1 as [|x t1 IH]; intros s2 HH S1 S2 HP ND.
    - apply Permutation_nil in HP. auto.
    - destruct s2 as [|y t2]. apply Permutation_sym, Permutation_nil in HP. discriminate.
      apply StronglySorted_inv in S1 as (S1 & F1). apply StronglySorted_inv in S2 as (S2 & F2).
      cbn [map] in ND. inversion ND as [|? ? N1 N2]; subst.
      assert (x = y).
      { pose proof (Permutation_in x HP (or_introl eq_refl)) as [E|Hx]; auto.
        pose proof (Permutation_in y (Permutation_sym HP) (or_introl eq_refl)) as [E|Hy]; auto.
        exfalso. rewrite Forall_forall in F1, F2.
        pose proof (F1 _ Hy) as R1. pose proof (F2 _ Hx) as R2. unfold descP in *.
        assert (Hne : snd x <> snd y).
        { intro E. apply N1. rewrite E. now apply in_map. }
        assert (Hhx : hit_amp (snd x)) by (inversion HH; auto).
        assert (Hhy : hit_amp (snd y)).
        { unfold hitsP in HH. rewrite Forall_forall in HH. apply HH. right. exact Hy. }
        destruct (agt_total _ _ Hhx Hhy Hne) as [G|G]; congruence. }
      subst y. f_equal. apply IH; auto. inversion HH; auto. eapply Permutation_cons_inv; eauto.
  Qed.

  Lemma sorted_map_g l : StronglySorted descP l -> StronglySorted descP (map g l).
  Proof.
    induction 1; cbn [map]; constructor; auto.
    rewrite Forall_forall in *. intros y Hy. apply in_map_iff in Hy as (y0 & <- & Hy0).
    apply H0 in Hy0. exact Hy0.
  Qed.

  Lemma hitsP_perm l l' : Permutation l l' -> hitsP l -> hitsP l'.
  Proof. unfold hitsP. intros HP H. eapply Permutation_Forall; eauto. Qed.

  Lemma hitsP_map_g l : hitsP l -> hitsP (map g l).
  Proof. unfold hitsP. rewrite Forall_map. cbn [snd]. auto. Qed.

  Lemma sortP_mirror ph : hitsP ph -> NoDup (map snd ph) -> sortP (rev (map g ph)) = map g (sortP ph).
  Proof.
    intros HH ND.
    assert (HP : Permutation (sortP (rev (map g ph))) (map g ph)).
    { rewrite sortP_perm. apply Permutation_sym, Permutation_rev. }
    assert (HG : hitsP (rev (map g ph))).
    { eapply hitsP_perm. apply Permutation_rev. apply hitsP_map_g; auto. }
    assert (HS : hitsP (sortP (rev (map g ph)))).
    { eapply hitsP_perm. apply Permutation_sym, sortP_perm. exact HG. }
    apply sorted_unique.
    - exact HS.
    - apply sortP_sorted. exact HG.
    - apply sorted_map_g. apply sortP_sorted. exact HH.
    - rewrite HP. apply Permutation_map, Permutation_sym, sortP_perm.
    - eapply Permutation_NoDup. apply Permutation_sym, (Permutation_map snd HP).
      rewrite map_map. cbn [snd]. exact ND.
  Qed.

  Lemma match_mirror idxs inputs pic : N.of_nat (length pic) = NROWS ->
    (forall t, NoDup (map snd (pad_hits_at_t azero apos agt zf pic t))) ->
    match_column_inputs azero apos agt zf sortW sortP idxs inputs (rev pic)
    = map (neg_z zneg) (match_column_inputs azero apos agt zf sortW sortP idxs inputs pic).
  Proof.
    intros Hl Hn. unfold match_column_inputs. rewrite map_flat_map. apply flat_map_ext. intros t.
    destruct (wire_hits_at_t apos idxs inputs t) as [|h wh]; auto.
    rewrite pad_hits_mirror by auto. rewrite sortP_mirror by (auto using pad_hits_hits).
    rewrite (combine_map_r g), !map_map. apply map_ext.
    intros [[w wa] [z pa]]. reflexivity.
  Qed.

  Theorem mirror_equivariant_lemma ws (pads : list (list (option sig))) :
    Forall (fun col => N.of_nat (length col) = NROWS) pads ->
    NoPadTie azero apos agt zf P pads ->
    avalanches azero apos agt zf D P sortW sortP ws (mirror pads)
    = map (neg_z zneg) (avalanches azero apos agt zf D P sortW sortP ws pads).
  Proof.
    intros Hrows Hnt. unfold avalanches. destruct (wire_stage D ws) as [wi bag].
    rewrite map_flat_map. apply flat_map_ext. intros c.
    unfold column_avalanches. destruct (pad_column_to_wires c) as [first last].
    unfold mirror. change (@nil (option sig)) with (rev (@nil (option sig))) at 1.
    rewrite map_nth. unfold pad_inputs_column at 1. rewrite map_rev.
    fold (pad_inputs_column P (nth (N.to_nat c) pads [])).
    destruct (Nat.lt_ge_cases (N.to_nat c) (length pads)) as [L|L].
    - apply match_mirror.
      + unfold pad_inputs_column. rewrite map_length.
        rewrite Forall_forall in Hrows. apply Hrows. now apply nth_In.
      + intros t. apply Hnt.
    - rewrite nth_overflow by auto.
      change (pad_inputs_column P []) with (@nil (list amp)). change (rev (@nil (list amp))) with (@nil (list amp)).
      assert (E : sortP [] = []) by (apply Permutation_nil, Permutation_sym, sortP_perm).
      unfold match_column_inputs. rewrite map_flat_map. apply flat_map_ext. intros t.
      destruct (wire_hits_at_t apos _ _ t); auto.
      change (pad_hits_at_t azero apos agt zf [] t) with (@nil (zt * amp)).
      rewrite E, combine_nil. reflexivity.
  Qed.
End Mirror.

(* ---------------------------------------------------------------- the executable sort satisfies the hypotheses *)
Section IsortProps.
  Context {A : Type} (less : A -> A -> bool).

  Lemma insert_perm x l : Permutation (insert less x l) (x :: l).
  Proof.
    induction l as [|y t IH]; cbn; auto. destruct (less y x); auto.
    rewrite IH. apply perm_swap.
  Qed.

  Lemma isort_perm l : Permutation (isort less l) l.
  Proof. unfold isort. induction l; cbn [fold_right]; auto. rewrite insert_perm. auto. Qed.

  Hypothesis less_asym : forall a b, less a b = true -> less b a = false.
  Hypothesis less_negtrans : forall a b c, less b a = false -> less c b = false -> less c a = false.

  Definition desc (x y : A) : Prop := less y x = false.

  Lemma insert_sorted x l : StronglySorted desc l -> StronglySorted desc (insert less x l).
  Proof.
    induction 1 as [|y t S IH F]; cbn. repeat constructor.
    destruct (less y x) eqn:E.
    - constructor; auto. rewrite Forall_forall in *. intros z Hz.
      apply (Permutation_in _ (insert_perm x t)) in Hz. destruct Hz as [<-|Hz].
      apply less_asym; auto. apply F; auto.
    - constructor. constructor; auto. constructor; auto.
      rewrite Forall_forall in *. intros z Hz. unfold desc in *. eapply less_negtrans; eauto.
  Qed.

  Lemma isort_sorted l : StronglySorted desc (isort less l).
  Proof. unfold isort. induction l; cbn [fold_right]. constructor. now apply insert_sorted. Qed.
End IsortProps.

Lemma isort_param {A B} (less : A -> A -> bool) (less' : B -> B -> bool) (g : A -> B) :
  (forall a b, less' (g a) (g b) = less a b) ->
  forall l, isort less' (map g l) = map g (isort less l).
Proof.
  intros H. unfold isort. induction l as [|x l IH]; cbn [map fold_right]; auto. rewrite IH. clear IH.
  induction (fold_right (insert less) [] l) as [|y t IH]; cbn [map insert]; auto.
  rewrite H. destruct (less y x); cbn [map]; now rewrite ?IH.
Qed.

Lemma isortW_param {amp} (agt : amp -> amp -> bool) (f : N -> N) (l : list (N * amp)) :
  isort (lessW agt) (map (fun h => (f (fst h), snd h)) l)
  = map (fun h => (f (fst h), snd h)) (isort (lessW agt) l).
Proof. apply isort_param. reflexivity. Qed.

(* rotation equivariance of the executable binary64 skeleton (the one the differential run replays):
   only the shape law of the block kernel is assumed *)
Theorem rotation_equivariant_f_lemma zf D P (ws : list (option N)) (pads : list (list (option N))) k :
  (forall l, length (D l) = length l) ->
  wf ws -> N.of_nat (length pads) = NCOLS -> ~ full_ring ws -> k < 32 ->
  Permutation (avalanches_f zf D P (rotw (8 * k) ws) (rotc k pads))
              (map (shift_wire (8 * k)) (avalanches_f zf D P ws pads)).
Proof.
  intros HD. unfold avalanches_f. apply rotation_equivariant_lemma; auto.
  intros f l. apply isortW_param.
Qed.

(* ---------------------------------------------------------------- a small exact instance (amplitudes and z in Z) *)
Module Toy.
  Local Open Scope Z_scope.
  Definition apos (v : Z) : bool := 0 <? v.
  Definition agt (a b : Z) : bool := b <? a.
  Definition zf (r : N) (f m l : Z) : Z := 2 * (2 * Z.of_N r - 575) + (l - f).
  Definition P (s : list Z) : list Z := s.
  Definition sortW := isort (@lessW Z agt).
  Definition sortP := isort (@lessP Z Z agt).
  Definition av (D : list (list Z) -> list (list Z)) := avalanches 0 apos agt zf D P sortW sortP.

  Lemma zf_antisym r f m l : (r <= 575)%N -> zf (575 - r) l m f = - zf r f m l.
  Proof. unfold zf. intros. lia. Qed.
  Lemma agt_total a b : a <> b -> agt a b = true \/ agt b a = true.
  Proof. unfold agt. lia. Qed.
  Lemma sortP_perm l : Permutation (sortP l) l.
  Proof. apply isort_perm. Qed.
  Lemma sortP_sorted l : StronglySorted (descP agt) (sortP l).
  Proof.
    apply (isort_sorted (@lessP Z Z agt)); unfold lessP, agt; intros; lia.
  Qed.
  Lemma sortW_param (f : N -> N) l :
    sortW (map (fun h => (f (fst h), snd h)) l) = map (fun h => (f (fst h), snd h)) (sortW l).
  Proof. apply isortW_param. Qed.

  (* the hypotheses of both theorems are satisfiable together *)
  Theorem toy_rotation D ws pads k : (forall l, length (D l) = length l) ->
    wf ws -> N.of_nat (length pads) = NCOLS -> ~ full_ring ws -> (k < 32)%N ->
    Permutation (av D (rotw (8 * k) ws) (rotc k pads)) (map (shift_wire (8 * k)) (av D ws pads)).
  Proof. intros. apply rotation_equivariant_lemma; auto. apply sortW_param. Qed.

  Theorem toy_mirror D ws pads :
    Forall (fun col => N.of_nat (length col) = NROWS) pads -> NoPadTie 0 apos agt zf P pads ->
    av D ws (mirror pads) = map (neg_z Z.opp) (av D ws pads).
  Proof.
    intros. apply mirror_equivariant_lemma; auto.
    apply zf_antisym. intros a b _ _. apply agt_total. apply sortP_perm. intros l _. apply sortP_sorted.
  Qed.

  (* ---- events ---- *)
  Definition mkws (f : N -> option (list Z)) : list (option (list Z)) := map f (Nseq 0 NW).
  Definition mkpads (f : N -> N -> option (list Z)) : list (list (option (list Z))) :=
    map (fun c => map (f c) (Nseq 0 NROWS)) (Nseq 0 NCOLS).
  Definition peak (c0 r0 : N) (c r : N) : option (list Z) :=
    if (c =? c0)%N then
      if (r + 1 =? r0)%N then Some [0; 30] else if (r =? r0)%N then Some [0; 80]
      else if (r =? r0 + 1)%N then Some [0; 40] else None
    else None.
  Definition orelse {A} (a b : option A) := match a with Some _ => a | None => b end.

  (* F6 (DESIGN.md A.12): wires 94..108 present, hits on 100 (amp 100) and 102 (amp 60) in one time bin,
     two identical pad peaks 30/80/40 at rows 99-101 and 299-301 of column 11 *)
  Definition ws6 := mkws (fun i => if (94 <=? i)%N && (i <=? 108)%N
                                   then Some (if (i =? 100)%N then [0; 100] else if (i =? 102)%N then [0; 60] else [0; 0])
                                   else None).
  Definition pads6 := mkpads (fun c r => orelse (peak 11 100 c r) (peak 11 300 c r)).
  Definition Did (l : list (list Z)) := l.

  (* F3: all 256 wires present, one hit on wire 0; a block kernel whose answer depends on the position
     inside the block (here: the first wire of the block is scaled by 2), as a banded solve does *)
  Definition ws3 := mkws (fun i => Some (if (i =? 0)%N then [0; 100] else [0; 0])).
  Definition pads3 := mkpads (peak 31 100).
  Definition D3 (l : list (list Z)) := match l with x :: rest => map (Z.mul 2) x :: rest | [] => [] end.
End Toy.

Lemma toy_av6 : Toy.av Toy.Did Toy.ws6 Toy.pads6
                = [Aval 100 1 (-740)%Z 100%Z 80%Z; Aval 102 1 60%Z 60%Z 80%Z].
Proof. vm_compute. reflexivity. Qed.

(* witness for the class pad_amplitude_tie: every other hypothesis of mirror_equivariant holds, the
   two pad hits of time bin 1 in column 11 tie, and the conclusion fails (wire 100 is paired with
   z = -60 instead of +740) *)
Theorem pad_tie_witness_lemma :
  Forall (fun col => N.of_nat (length col) = NROWS) Toy.pads6 /\
  ~ NoPadTie 0%Z Toy.apos Toy.agt Toy.zf Toy.P Toy.pads6 /\
  Toy.av Toy.Did Toy.ws6 (mirror Toy.pads6) <> map (neg_z Z.opp) (Toy.av Toy.Did Toy.ws6 Toy.pads6).
Proof.
  split; [|split].
  - apply Forall_forall. intros col Hc. unfold Toy.pads6, Toy.mkpads in Hc.
    apply in_map_iff in Hc as (c & <- & _). now rewrite map_length, Nseq_length, N2Nat.id.
  - intros H. specialize (H 11%nat 1%nat). vm_compute in H.
    inversion H as [|? ? H1 H2]; subst. apply H1. left; reflexivity.
  - vm_compute. discriminate.
Qed.

(* witness for the class full_ring_256: with all wires present the conclusion of rotation_equivariant
   fails for a position-dependent block kernel *)
Theorem rotation_full_ring_refuted_lemma :
  exists (D : list (list Z) -> list (list Z)) ws pads k,
    (forall l, length (D l) = length l) /\ wf ws /\ N.of_nat (length pads) = NCOLS /\
    full_ring ws /\ k < 32 /\
    ~ Permutation (Toy.av D (rotw (8 * k) ws) (rotc k pads))
                  (map (shift_wire (8 * k)) (Toy.av D ws pads)).
Proof.
  exists Toy.D3, Toy.ws3, Toy.pads3, 1. split; [|split; [|split; [|split; [|split]]]].
  - intros [|x l]; reflexivity.
  - reflexivity.
  - reflexivity.
  - intros i Hi. unfold Toy.ws3, Toy.mkws, get.
    rewrite nth_error_map, Nseq_nth_error by (unfold NW in *; lia). reflexivity.
  - lia.
  - intros HP. vm_compute in HP. apply Permutation_length_1 in HP. discriminate.
Qed.

(* non-vacuity of the premise NoPadTie: the F6 column with a single peak has no tie *)
Lemma toy_no_tie : NoPadTie 0%Z Toy.apos Toy.agt Toy.zf Toy.P (Toy.mkpads (Toy.peak 11 100)).
Proof.
  assert (Fin : forall c t, (c <? 32)%nat = true -> (t <? 3)%nat = true ->
                NoDup (map snd (pad_hits_at_t 0%Z Toy.apos Toy.agt Toy.zf
                  (pad_inputs_column Toy.P (nth c (Toy.mkpads (Toy.peak 11 100)) [])) t))).
  { assert (B : forallb (fun c => forallb (fun t =>
        match map snd (pad_hits_at_t 0%Z Toy.apos Toy.agt Toy.zf
                (pad_inputs_column Toy.P (nth c (Toy.mkpads (Toy.peak 11 100)) [])) t) with
        | [] | [_] => true | _ => false end) (seq 0 3)) (seq 0 32) = true) by (vm_compute; reflexivity).
    intros c t Hc Ht. rewrite forallb_forall in B.
    assert (Hc' : In c (seq 0 32)) by (apply in_seq; apply Nat.ltb_lt in Hc; lia).
    specialize (B c Hc'). rewrite forallb_forall in B.
    assert (Ht' : In t (seq 0 3)) by (apply in_seq; apply Nat.ltb_lt in Ht; lia).
    specialize (B t Ht').
    destruct (map snd _) as [|x [|y l]]; try discriminate; repeat constructor; intros []. }
  intros c t.
  destruct (c <? 32)%nat eqn:Hc.
  2:{ rewrite nth_overflow. constructor.
      unfold Toy.mkpads. rewrite map_length, Nseq_length. apply Nat.ltb_ge in Hc. unfold NCOLS. lia. }
  destruct (t <? 3)%nat eqn:Ht. now apply Fin.
  (* beyond the last sample every amplitude reads 0.0: same as time bin 2 *)
  apply Nat.ltb_ge in Ht.
  replace (pad_hits_at_t 0%Z Toy.apos Toy.agt Toy.zf
             (pad_inputs_column Toy.P (nth c (Toy.mkpads (Toy.peak 11 100)) [])) t)
    with (pad_hits_at_t 0%Z Toy.apos Toy.agt Toy.zf
             (pad_inputs_column Toy.P (nth c (Toy.mkpads (Toy.peak 11 100)) [])) 2).
  apply Fin; auto.
  rewrite !(pad_hits_win 0%Z Toy.apos Toy.agt Toy.zf Z.opp Toy.zf_antisym (fun a b _ _ => Toy.agt_total a b)). f_equal. apply map_ext_in.
  intros input Hin. unfold pad_inputs_column in Hin. apply in_map_iff in Hin as (o & <- & Ho).
  unfold Toy.mkpads in Ho.
  assert (Hlen : (length (match o with Some signal => Toy.P signal | None => [] end) <= 2)%nat).
  { destruct (Nat.lt_ge_cases c (length (map (fun c0 => map (Toy.peak 11 100 c0) (Nseq 0 NROWS)) (Nseq 0 NCOLS)))) as [L|L].
    - rewrite (nth_indep _ [] (map (Toy.peak 11 100 0) (Nseq 0 NROWS))) in Ho by auto.
      rewrite (map_nth (fun c0 => map (Toy.peak 11 100 c0) (Nseq 0 NROWS))) in Ho.
      apply in_map_iff in Ho as (r & <- & _). unfold Toy.peak, Toy.P.
      repeat case_if; cbn; lia.
    - rewrite nth_overflow in Ho by auto. destruct Ho. }
  unfold at_t. rewrite !(proj2 (nth_error_None _ _)) by lia. reflexivity.
Qed.
