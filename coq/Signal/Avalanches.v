(* C13 — index skeleton of MainEvent::avalanches (physics/src/lib.rs:415-447) and of
   physics/src/matching.rs, with the numeric kernels abstract.  Definitions only; proofs in
   Signal/Avalanches_proofs.v.

   Kernels (Section variables; instantiated by oracle tables in the differential run):
     D  : block deconvolution (wire_range_deconvolution): input = the block's signals in ring order
          starting at `first`, output = one deconvolved input per wire of the block, same order;
     P  : pad_deconvolution;
     zf : the three-row Gaussian centroid of pad_hits_at_t (row of the middle pad, first, middle, last);
     sortW, sortP : slice::sort_unstable_by on wire hits / pad hits (descending amplitude).
   Amplitudes are an abstract type with the two tests the code performs: v > 0.0 and a > b. *)
From AG Require Import Base.Prelude Signal.Ring.

Definition NCOLS : N := 32.      (* TPC_PAD_COLUMNS *)
Definition NROWS : N := 576.     (* TPC_PAD_ROWS *)
Definition WIRES_PER_COLUMN : N := 8.
Definition WIRE_SHIFT : N := 8.

(* usize wrapping_sub *)
Definition wsub64 (a b : N) : N := (a + 2 ^ 64 - b) mod 2 ^ 64.

(* matching.rs:21-32 *)
Definition wire_to_pad_column (wire : N) : N :=
  let shifted_index := N.land (wsub64 wire WIRE_SHIFT) 255 in
  shifted_index / WIRES_PER_COLUMN.

(* matching.rs:36-40   [first, last) *)
Definition pad_column_to_wires (pad_column : N) : N * N :=
  let first := N.land (pad_column * WIRES_PER_COLUMN + WIRE_SHIFT) 255 in
  (first, first + WIRES_PER_COLUMN).

(* a[i] = v on a fixed-size array *)
Fixpoint upd_nat {A} (l : list A) (n : nat) (v : A) : list A :=
  match l, n with
  | [], _ => []
  | _ :: t, O => v :: t
  | x :: t, S n => x :: upd_nat t n v
  end.
Definition upd {A} (l : list A) (i : N) (v : A) : list A := upd_nat l (N.to_nat i) v.

(* a[first..last] *)
Definition slice {A} (l : list A) (first last : N) : list A :=
  firstn (N.to_nat (last - first)) (skipn (N.to_nat first) l).

(* BTreeSet<usize> of pad columns: iteration yields the distinct members in ascending order
   (all members are < 32: Avalanches_proofs.wire_to_pad_column_lt) *)
Definition btree_iter (inserted : list N) : list N :=
  filter (fun c => existsb (N.eqb c) inserted) (Nseq 0 NCOLS).

(* stable insertion sort: what slice::sort_unstable_by does on slices of at most 20 elements
   (insertion_sort_shift_left: an element moves left past its left neighbour y only while
   is_less(x, y), so equal elements keep their order) *)
Section Isort.
  Context {A : Type} (less : A -> A -> bool).
  Fixpoint insert (x : A) (l : list A) : list A :=
    match l with
    | [] => [x]
    | y :: t => if less y x then y :: insert x t else x :: y :: t
    end.
  Definition isort (l : list A) : list A := fold_right insert [] l.
End Isort.

Record aval {zt amp : Type} := Aval {
  av_wire : N;       (* wire index (phi = pitch * (((w - 8) & 0xff) + 0.5)) *)
  av_t : nat;        (* time bin (t = bin / ADC32_RATE) *)
  av_z : zt;
  av_wamp : amp;
  av_pamp : amp }.
Arguments aval : clear implicits.
Arguments Aval {zt amp}.

Section Skeleton.
  Context {sig amp zt : Type}.
  Variable azero : amp.                       (* 0.0 *)
  Variable apos : amp -> bool.                (* v > 0.0 *)
  Variable agt : amp -> amp -> bool.          (* a > b *)
  Variable zf : N -> amp -> amp -> amp -> zt.
  Variable D : list sig -> list (list amp).
  Variable P : sig -> list amp.

  Definition inp := list amp.
  Definition whit := (N * amp)%type.          (* WireHit: wire index (for phi), amplitude *)
  Definition phit := (zt * amp)%type.         (* PadHit: z, amplitude *)

  Variable sortW : list whit -> list whit.
  Variable sortP : list phit -> list phit.

  (* input.get(t).copied() *)
  Definition get_t (input : inp) (t : nat) : option amp := nth_error input t.
  (* input.get(t).copied().unwrap_or(0.0) *)
  Definition at_t (input : inp) (t : nat) : amp :=
    match nth_error input t with Some v => v | None => azero end.

  (* matching.rs:48-64 *)
  Definition wire_hits_at_t (wire_indices : list N) (wire_inputs : list inp) (t : nat) : list whit :=
    flat_map (fun '(index, input) =>
                match get_t input t with
                | Some v => if apos v then [(index, v)] else []
                | None => []
                end)
             (combine wire_indices wire_inputs).

  (* matching.rs:77-95   the loop over rows 2.. with the sliding (first, middle, last) *)
  Fixpoint pad_loop (rows : list inp) (row : N) (first middle : amp) (t : nat) : list phit :=
    match rows with
    | [] => []
    | input :: rest =>
        let last := at_t input t in                                            (* :78 *)
        (if apos first && apos last && agt middle first && agt middle last     (* :80 *)
         then [(zf (row - 1) first middle last, middle)]                       (* :84-88  z of row - 1 *)
         else [])
        ++ pad_loop rest (row + 1) middle last t                               (* :91-92 *)
    end.

  (* matching.rs:72-96 *)
  Definition pad_hits_at_t (pad_column_inputs : list inp) (t : nat) : list phit :=
    match pad_column_inputs with
    | r0 :: r1 :: rest => pad_loop rest 2 (at_t r0 t) (at_t r1 t) t           (* :75-76 *)
    | _ => []                                                                  (* [_; 576]: not reachable *)
    end.

  Definition max_len (l : list inp) : nat := fold_right (fun i m => Nat.max (length i) m) O l.

  (* matching.rs:100-135 *)
  Definition match_column_inputs (wire_indices : list N) (wire_inputs : list inp)
             (pad_column_inputs : list inp) : list (aval zt amp) :=
    let t_max := max_len wire_inputs in                                        (* :105 *)
    flat_map (fun t =>
                let wire_hits := wire_hits_at_t wire_indices wire_inputs t in  (* :109 *)
                match wire_hits with
                | [] => []                                                     (* :110 continue *)
                | _ =>
                    let pad_hits := pad_hits_at_t pad_column_inputs t in       (* :113 *)
                    map (fun '((w, wa), (z, pa)) => Aval w t z wa pa)          (* :121-131 *)
                        (combine (sortW wire_hits) (sortP pad_hits))           (* :117-118, zip *)
                end)
             (seq 0 t_max).

  (* lib.rs:422-427   one block: wire_inputs[i] = input; pad_columns.insert(wire_to_pad_column(i)) *)
  Definition fill_range (ws : list (option sig)) (st : list inp * list N) (range : N * N)
    : list inp * list N :=
    fold_left (fun st '(i, input) => (upd (fst st) i input, wire_to_pad_column i :: snd st))
              (combine (range_to_indices range) (D (block_sigs ws range)))    (* wires.rs:134 zip *)
              st.

  Definition wire_stage (ws : list (option sig)) : list inp * list N :=
    fold_left (fill_range ws) (contiguous_ranges ws) (repeat [] (N.to_nat NW), []).   (* lib.rs:421 *)

  (* lib.rs:431-436 *)
  Definition pad_inputs_column (col : list (option sig)) : list inp :=
    map (fun o => match o with Some signal => P signal | None => [] end) col.

  (* lib.rs:430-444, one column *)
  Definition column_avalanches (wire_inputs : list inp) (pads : list (list (option sig))) (column : N)
    : list (aval zt amp) :=
    let pic := pad_inputs_column (nth (N.to_nat column) pads []) in
    let (first, last) := pad_column_to_wires column in                         (* :438 *)
    match_column_inputs (Nseq first (last - first))                           (* :440 *)
                        (slice wire_inputs first last)                        (* :441 wire_inputs[first..last] *)
                        pic.

  (* lib.rs:415-447 *)
  Definition avalanches (ws : list (option sig)) (pads : list (list (option sig))) : list (aval zt amp) :=
    let (wire_inputs, inserted) := wire_stage ws in
    flat_map (column_avalanches wire_inputs pads) (btree_iter inserted).
End Skeleton.

(* --- the symmetry group acting on events and on avalanches ------------------------------- *)
Definition rotc {A} (k : N) (pads : list A) : list A := rot NCOLS k pads.
Definition mirror {A} (pads : list (list A)) : list (list A) := map (@rev A) pads.

Definition shift_wire {zt amp} (s : N) (a : aval zt amp) : aval zt amp :=
  Aval ((av_wire a + s) mod NW) (av_t a) (av_z a) (av_wamp a) (av_pamp a).
Definition neg_z {zt amp} (zneg : zt -> zt) (a : aval zt amp) : aval zt amp :=
  Aval (av_wire a) (av_t a) (zneg (av_z a)) (av_wamp a) (av_pamp a).

(* known-finding class pad_amplitude_tie (F6), negated: in no time bin of any pad column do two pad
   hits have the same amplitude *)
Definition NoPadTie {sig amp zt} (azero : amp) (apos : amp -> bool) (agt : amp -> amp -> bool)
           (zf : N -> amp -> amp -> amp -> zt) (P : sig -> list amp)
           (pads : list (list (option sig))) : Prop :=
  forall (c t : nat),
    NoDup (map snd (pad_hits_at_t azero apos agt zf (pad_inputs_column P (nth c pads [])) t)).

(* comparison closures of matching.rs:117-118: |a, b| b.amplitude.partial_cmp(&a.amplitude).unwrap();
   is_less(a, b) = (cmp(a, b) == Less) = (b.amplitude < a.amplitude) *)
Definition lessW {amp} (agt : amp -> amp -> bool) (a b : N * amp) : bool := agt (snd a) (snd b).
Definition lessP {zt amp} (agt : amp -> amp -> bool) (a b : zt * amp) : bool := agt (snd a) (snd b).

(* --- executable instance over binary64 (the differential run) ---------------------------- *)
From Coq Require Import Floats.
Definition fpos (v : float) : bool := PrimFloat.ltb 0%float v.
Definition fgt (a b : float) : bool := PrimFloat.ltb b a.

(* sig = N (an identifier of the signal: wire index / 576 * column + row); D, P, zf = oracle tables *)
Definition avalanches_f (zf : N -> float -> float -> float -> float)
           (D : list N -> list (list float)) (P : N -> list float)
           (ws : list (option N)) (pads : list (list (option N))) : list (aval float float) :=
  avalanches 0%float fpos fgt zf D P (isort (lessW fgt)) (isort (lessP fgt)) ws pads.

(* --- the same executable skeleton with the centroid left SYMBOLIC ------------------------ *)
(* z = (row of the middle pad, first, middle, last): what pad_hits_at_t feeds into the centroid formula.
   zmir = the effect of mirroring the pad rows on these arguments (row -> 575 - row, first <-> last); on this
   representation the antisymmetry premise of the mirror theorem holds EXACTLY, so the theorem applies to
   binary64 amplitudes (Signal/Avalanches_float_proofs.v).  avalanches_f zf = map (eval zf) avalanches_s. *)
Definition zsym : Type := (N * float * float * float)%type.
Definition zf_sym (row : N) (f m l : float) : zsym := (row, f, m, l).
Definition zmir (z : zsym) : zsym := let '(r, f, m, l) := z in (575 - r, l, m, f).
Definition zeval (zf : N -> float -> float -> float -> float) (z : zsym) : float :=
  let '(r, f, m, l) := z in zf r f m l.
Definition map_z {zt zt' amp} (h : zt -> zt') (a : aval zt amp) : aval zt' amp :=
  Aval (av_wire a) (av_t a) (h (av_z a)) (av_wamp a) (av_pamp a).
Definition avalanches_s (D : list N -> list (list float)) (P : N -> list float)
           (ws : list (option N)) (pads : list (list (option N))) : list (aval zsym float) :=
  avalanches 0%float fpos fgt zf_sym D P (isort (lessW fgt)) (isort (lessP fgt)) ws pads.

(* --- known-finding class centroid_ill_conditioned (F11) ----------------------------------- *)
(* the argument of the first logarithm of matching.rs:82, minus one, in binary64 (what the harness recogniser
   evaluates): sigma^2 = w^2 / ln (middle^2 / (first * last)) *)
Definition cond_number (f m l : float) : float := (m * m / (f * l) - 1)%float.
(* measured boundary 2.22e-10 (largest conditioning number at which the implementation misses 1e-9 m);
   0x1.75d57df90fadfp-32 = 3.4e-10 is the value of THETA in harness/phys/src/c13.rs *)
Definition THETA : float := 0x1.75d57df90fadfp-32%float.
(* some pad hit of some column and time bin has cond_number < THETA *)
Definition centroid_ill_conditioned (P : N -> list float) (pads : list (list (option N))) : Prop :=
  exists (c t : nat) (z : zsym) (a : float),
    In (z, a) (pad_hits_at_t 0%float fpos fgt zf_sym (pad_inputs_column P (nth c pads [])) t) /\
    (let '(_, f, m, l) := z in PrimFloat.ltb (cond_number f m l) THETA) = true.

Definition contiguous_ranges_n (ws : list (option N)) : list (N * N) := contiguous_ranges ws.
