(* C13 -- C13_mirror_equivariant instantiated over the reals with the ACTUAL centroid formula
   (zt := R, amp := R, zf := zR of Signal/Centroid.v, zneg := Ropp, `> 0.0` and `>` the order of R):
   the antisymmetry premise on zf and the comparability premise are discharged; what is left are the
   premises on the sort (any permutation sorted by descending amplitude), the shape of the pad table and
   NoPadTie (class pad_amplitude_tie, F6).  Pins only; axioms: the standard library's real-number axioms. *)
From Coq Require Import Reals Permutation Sorted.
From AG Require Import Base.Prelude Signal.Ring Signal.Avalanches Signal.Avalanches_proofs
  Signal.Centroid Signal.Centroid_proofs.

Theorem C13_mirror_equivariant_real :
  forall (sig : Type) (D : list sig -> list (list R)) (P : sig -> list R)
         (sortW : list (N * R) -> list (N * R)) (sortP : list (R * R) -> list (R * R)),
    (forall l, Permutation (sortP l) l) ->
    (forall l, StronglySorted (descP Rgtb) (sortP l)) ->
    forall (ws : list (option sig)) (pads : list (list (option sig))),
      Forall (fun col => N.of_nat (length col) = NROWS) pads ->
      NoPadTie 0%R Rposb Rgtb zR P pads ->
      avalanches 0%R Rposb Rgtb zR D P sortW sortP ws (mirror pads)
      = map (neg_z Ropp) (avalanches 0%R Rposb Rgtb zR D P sortW sortP ws pads).
Proof.
  intros sig D P sortW sortP Hperm Hsorted ws pads Hrows Hnt.
  apply (@mirror_equivariant_lemma sig R R 0%R Rposb Rgtb zR D P sortW sortP Ropp); auto.
  - intros r f m l Hr. apply centroid_antisymmetric_total_lemma. exact Hr.
  - exact Rgtb_total.
Qed.
Print Assumptions C13_mirror_equivariant_real.

(* the boolean test used by the instance is the hit condition of the pinned real theorems *)
Theorem C13_hit_condition_bool :
  forall f m l : R, (Rposb f && Rposb l && Rgtb m f && Rgtb m l)%bool = true <-> hit_condition f m l.
Proof. exact hit_condition_bool. Qed.
Print Assumptions C13_hit_condition_bool.
