(* C17 — the executable hypothesis of the binary64 scale theorems in the form the model runner evaluates.

   `nn_safe` / `ls_safe` of Signal/GreedyScale.v recompute the four bounds 2^(K-1021), 2^(1023-K), 2^(2K-1021),
   2^(1023-2K) (`pow2`, a conversion from Z through SF2Prim) inside every single range test.  The definitions
   below compute the bounds ONCE (a `let`, evaluated eagerly by the extracted OCaml) and are otherwise the same
   terms: `nn_safe_fast_eq` / `ls_safe_fast_eq` are proved by conversion (Props/C17.v pins them).  The runner
   evaluates the `_fast` form on every rel17scale case line. *)
From AG Require Import Base.Prelude Base.Res Signal.Greedy Signal.GreedyScale.
From Coq Require Import Floats.
Local Open Scope float_scope.

Definition inr2 (lo hi x : float) : bool := (lo <=? abs x) && (abs x <=? hi).
Definition okv2 (lo hi x : float) : bool := is_zero x || inr2 lo hi x.
Definition f_ok_sub2 (lo hi a b : float) : bool := okv2 lo hi a && okv2 lo hi b && okv2 lo hi (a - b).
Definition f_ok_add2 (lo hi a b : float) : bool := okv2 lo hi a && okv2 lo hi b && okv2 lo hi (a + b).
Definition f_ok_mul2 (lo hi v r : float) : bool :=
  okv2 lo hi v && finb r && okv2 lo hi (v * r) && (is_zero v || is_zero r || negb (is_zero (v * r))).
Definition f_ok_div2 (lo hi s r : float) : bool :=
  okv2 lo hi s && finb r && negb (is_zero r) && okv2 lo hi (s / r) && (is_zero s || negb (is_zero (s / r))).
Definition f_ok_sq2 (lo hi lo2 hi2 x : float) : bool :=
  okv2 lo hi x && okv2 lo2 hi2 (x * x) && (is_zero x || negb (is_zero (x * x))).
Definition f_ok_lt22 (lo2 hi2 a b : float) : bool := okv2 lo2 hi2 a && (okv2 lo2 hi2 b || is_pinf b).

Definition nn_safe_fast (k : Z) (signal response : list float) (off la : nat) : bool :=
  let K := Z.abs k in
  let K2 := (2 * Z.abs k)%Z in
  let lo := pow2 (K - 1021) in
  let hi := pow2 (1023 - K) in
  let lo2 := pow2 (K2 - 1021) in
  let hi2 := pow2 (1023 - K2) in
  (K <=? kmax)%Z &&
  nn_ok float 0 neg_zero PrimFloat.add PrimFloat.sub PrimFloat.mul PrimFloat.div f_min f_neg f_nonneg
        (okv2 lo hi) (f_ok_sub2 lo hi) (f_ok_mul2 lo hi) (f_ok_div2 lo hi) (f_ok_sq2 lo hi lo2 hi2) (f_ok_add2 lo2 hi2)
        signal response off la.

Definition ls_safe_fast (k : Z) (signal response : list float) (offs las : list nat) : bool :=
  let K := Z.abs k in
  let K2 := (2 * Z.abs k)%Z in
  let lo := pow2 (K - 1021) in
  let hi := pow2 (1023 - K) in
  let lo2 := pow2 (K2 - 1021) in
  let hi2 := pow2 (1023 - K2) in
  (K <=? kmax)%Z &&
  ls_ok float 0 neg_zero infinity PrimFloat.add PrimFloat.sub PrimFloat.mul PrimFloat.div f_min f_neg f_nonneg
        PrimFloat.ltb
        (okv2 lo hi) (f_ok_sub2 lo hi) (f_ok_mul2 lo hi) (f_ok_div2 lo hi) (f_ok_sq2 lo hi lo2 hi2) (f_ok_add2 lo2 hi2)
        (f_ok_lt22 lo2 hi2)
        signal response offs las.

Lemma nn_safe_fast_eq k signal response off la :
  nn_safe_fast k signal response off la = nn_safe k signal response off la.
Proof. reflexivity. Qed.

Lemma ls_safe_fast_eq k signal response offs las :
  ls_safe_fast k signal response offs las = ls_safe k signal response offs las.
Proof. reflexivity. Qed.
