
(** val negb : bool -> bool **)

let negb = function
| true -> false
| false -> true

type nat =
| O
| S of nat

(** val fst : ('a1 * 'a2) -> 'a1 **)

let fst = function
| (x, _) -> x

(** val snd : ('a1 * 'a2) -> 'a2 **)

let snd = function
| (_, y) -> y

(** val length : 'a1 list -> nat **)

let rec length = function
| [] -> O
| _ :: l' -> S (length l')

(** val app : 'a1 list -> 'a1 list -> 'a1 list **)

let rec app l m =
  match l with
  | [] -> m
  | a :: l1 -> a :: (app l1 m)

type comparison =
| Eq
| Lt
| Gt

module Coq__1 = struct
 (** val add : nat -> nat -> nat **)
 let rec add n0 m =
   match n0 with
   | O -> m
   | S p -> S (add p m)
end
include Coq__1

type positive =
| XI of positive
| XO of positive
| XH

type n =
| N0
| Npos of positive

module Pos =
 struct
  type mask =
  | IsNul
  | IsPos of positive
  | IsNeg
 end

module Coq_Pos =
 struct
  (** val succ : positive -> positive **)

  let rec succ = function
  | XI p -> XO (succ p)
  | XO p -> XI p
  | XH -> XO XH

  (** val add : positive -> positive -> positive **)

  let rec add x y =
    match x with
    | XI p ->
      (match y with
       | XI q -> XO (add_carry p q)
       | XO q -> XI (add p q)
       | XH -> XO (succ p))
    | XO p ->
      (match y with
       | XI q -> XI (add p q)
       | XO q -> XO (add p q)
       | XH -> XI p)
    | XH -> (match y with
             | XI q -> XO (succ q)
             | XO q -> XI q
             | XH -> XO XH)

  (** val add_carry : positive -> positive -> positive **)

  and add_carry x y =
    match x with
    | XI p ->
      (match y with
       | XI q -> XI (add_carry p q)
       | XO q -> XO (add_carry p q)
       | XH -> XI (succ p))
    | XO p ->
      (match y with
       | XI q -> XO (add_carry p q)
       | XO q -> XI (add p q)
       | XH -> XO (succ p))
    | XH ->
      (match y with
       | XI q -> XI (succ q)
       | XO q -> XO (succ q)
       | XH -> XI XH)

  (** val pred_double : positive -> positive **)

  let rec pred_double = function
  | XI p -> XI (XO p)
  | XO p -> XI (pred_double p)
  | XH -> XH

  type mask = Pos.mask =
  | IsNul
  | IsPos of positive
  | IsNeg

  (** val succ_double_mask : mask -> mask **)

  let succ_double_mask = function
  | IsNul -> IsPos XH
  | IsPos p -> IsPos (XI p)
  | IsNeg -> IsNeg

  (** val double_mask : mask -> mask **)

  let double_mask = function
  | IsPos p -> IsPos (XO p)
  | x0 -> x0

  (** val double_pred_mask : positive -> mask **)

  let double_pred_mask = function
  | XI p -> IsPos (XO (XO p))
  | XO p -> IsPos (XO (pred_double p))
  | XH -> IsNul

  (** val sub_mask : positive -> positive -> mask **)

  let rec sub_mask x y =
    match x with
    | XI p ->
      (match y with
       | XI q -> double_mask (sub_mask p q)
       | XO q -> succ_double_mask (sub_mask p q)
       | XH -> IsPos (XO p))
    | XO p ->
      (match y with
       | XI q -> succ_double_mask (sub_mask_carry p q)
       | XO q -> double_mask (sub_mask p q)
       | XH -> IsPos (pred_double p))
    | XH -> (match y with
             | XH -> IsNul
             | _ -> IsNeg)

  (** val sub_mask_carry : positive -> positive -> mask **)

  and sub_mask_carry x y =
    match x with
    | XI p ->
      (match y with
       | XI q -> succ_double_mask (sub_mask_carry p q)
       | XO q -> double_mask (sub_mask p q)
       | XH -> IsPos (pred_double p))
    | XO p ->
      (match y with
       | XI q -> double_mask (sub_mask_carry p q)
       | XO q -> succ_double_mask (sub_mask_carry p q)
       | XH -> double_pred_mask p)
    | XH -> IsNeg

  (** val mul : positive -> positive -> positive **)

  let rec mul x y =
    match x with
    | XI p -> add y (XO (mul p y))
    | XO p -> XO (mul p y)
    | XH -> y

  (** val iter : ('a1 -> 'a1) -> 'a1 -> positive -> 'a1 **)

  let rec iter f x = function
  | XI n' -> f (iter f (iter f x n') n')
  | XO n' -> iter f (iter f x n') n'
  | XH -> f x

  (** val compare_cont : comparison -> positive -> positive -> comparison **)

  let rec compare_cont r x y =
    match x with
    | XI p ->
      (match y with
       | XI q -> compare_cont r p q
       | XO q -> compare_cont Gt p q
       | XH -> Gt)
    | XO p ->
      (match y with
       | XI q -> compare_cont Lt p q
       | XO q -> compare_cont r p q
       | XH -> Gt)
    | XH -> (match y with
             | XH -> r
             | _ -> Lt)

  (** val compare : positive -> positive -> comparison **)

  let compare =
    compare_cont Eq

  (** val eqb : positive -> positive -> bool **)

  let rec eqb p q =
    match p with
    | XI p0 -> (match q with
                | XI q0 -> eqb p0 q0
                | _ -> false)
    | XO p0 -> (match q with
                | XO q0 -> eqb p0 q0
                | _ -> false)
    | XH -> (match q with
             | XH -> true
             | _ -> false)

  (** val coq_Nsucc_double : n -> n **)

  let coq_Nsucc_double = function
  | N0 -> Npos XH
  | Npos p -> Npos (XI p)

  (** val coq_Ndouble : n -> n **)

  let coq_Ndouble = function
  | N0 -> N0
  | Npos p -> Npos (XO p)

  (** val coq_land : positive -> positive -> n **)

  let rec coq_land p q =
    match p with
    | XI p0 ->
      (match q with
       | XI q0 -> coq_Nsucc_double (coq_land p0 q0)
       | XO q0 -> coq_Ndouble (coq_land p0 q0)
       | XH -> Npos XH)
    | XO p0 ->
      (match q with
       | XI q0 -> coq_Ndouble (coq_land p0 q0)
       | XO q0 -> coq_Ndouble (coq_land p0 q0)
       | XH -> N0)
    | XH -> (match q with
             | XO _ -> N0
             | _ -> Npos XH)

  (** val iter_op : ('a1 -> 'a1 -> 'a1) -> positive -> 'a1 -> 'a1 **)

  let rec iter_op op p a =
    match p with
    | XI p0 -> op a (iter_op op p0 (op a a))
    | XO p0 -> iter_op op p0 (op a a)
    | XH -> a

  (** val to_nat : positive -> nat **)

  let to_nat x =
    iter_op Coq__1.add x (S O)

  (** val of_succ_nat : nat -> positive **)

  let rec of_succ_nat = function
  | O -> XH
  | S x -> succ (of_succ_nat x)
 end

module N =
 struct
  (** val succ_double : n -> n **)

  let succ_double = function
  | N0 -> Npos XH
  | Npos p -> Npos (XI p)

  (** val double : n -> n **)

  let double = function
  | N0 -> N0
  | Npos p -> Npos (XO p)

  (** val add : n -> n -> n **)

  let add n0 m =
    match n0 with
    | N0 -> m
    | Npos p -> (match m with
                 | N0 -> n0
                 | Npos q -> Npos (Coq_Pos.add p q))

  (** val sub : n -> n -> n **)

  let sub n0 m =
    match n0 with
    | N0 -> N0
    | Npos n' ->
      (match m with
       | N0 -> n0
       | Npos m' ->
         (match Coq_Pos.sub_mask n' m' with
          | Coq_Pos.IsPos p -> Npos p
          | _ -> N0))

  (** val mul : n -> n -> n **)

  let mul n0 m =
    match n0 with
    | N0 -> N0
    | Npos p -> (match m with
                 | N0 -> N0
                 | Npos q -> Npos (Coq_Pos.mul p q))

  (** val compare : n -> n -> comparison **)

  let compare n0 m =
    match n0 with
    | N0 -> (match m with
             | N0 -> Eq
             | Npos _ -> Lt)
    | Npos n' -> (match m with
                  | N0 -> Gt
                  | Npos m' -> Coq_Pos.compare n' m')

  (** val eqb : n -> n -> bool **)

  let eqb n0 m =
    match n0 with
    | N0 -> (match m with
             | N0 -> true
             | Npos _ -> false)
    | Npos p -> (match m with
                 | N0 -> false
                 | Npos q -> Coq_Pos.eqb p q)

  (** val leb : n -> n -> bool **)

  let leb x y =
    match compare x y with
    | Gt -> false
    | _ -> true

  (** val ltb : n -> n -> bool **)

  let ltb x y =
    match compare x y with
    | Lt -> true
    | _ -> false

  (** val div2 : n -> n **)

  let div2 = function
  | N0 -> N0
  | Npos p0 -> (match p0 with
                | XI p -> Npos p
                | XO p -> Npos p
                | XH -> N0)

  (** val pos_div_eucl : positive -> n -> n * n **)

  let rec pos_div_eucl a b =
    match a with
    | XI a' ->
      let (q, r) = pos_div_eucl a' b in
      let r' = succ_double r in
      if leb b r' then ((succ_double q), (sub r' b)) else ((double q), r')
    | XO a' ->
      let (q, r) = pos_div_eucl a' b in
      let r' = double r in
      if leb b r' then ((succ_double q), (sub r' b)) else ((double q), r')
    | XH ->
      (match b with
       | N0 -> (N0, (Npos XH))
       | Npos p -> (match p with
                    | XH -> ((Npos XH), N0)
                    | _ -> (N0, (Npos XH))))

  (** val div_eucl : n -> n -> n * n **)

  let div_eucl a b =
    match a with
    | N0 -> (N0, N0)
    | Npos na -> (match b with
                  | N0 -> (N0, a)
                  | Npos _ -> pos_div_eucl na b)

  (** val div : n -> n -> n **)

  let div a b =
    fst (div_eucl a b)

  (** val modulo : n -> n -> n **)

  let modulo a b =
    snd (div_eucl a b)

  (** val coq_land : n -> n -> n **)

  let coq_land n0 m =
    match n0 with
    | N0 -> N0
    | Npos p -> (match m with
                 | N0 -> N0
                 | Npos q -> Coq_Pos.coq_land p q)

  (** val shiftr : n -> n -> n **)

  let shiftr a = function
  | N0 -> a
  | Npos p -> Coq_Pos.iter div2 a p

  (** val to_nat : n -> nat **)

  let to_nat = function
  | N0 -> O
  | Npos p -> Coq_Pos.to_nat p

  (** val of_nat : nat -> n **)

  let of_nat = function
  | O -> N0
  | S n' -> Npos (Coq_Pos.of_succ_nat n')
 end

(** val firstn : nat -> 'a1 list -> 'a1 list **)

let rec firstn n0 l =
  match n0 with
  | O -> []
  | S n1 -> (match l with
             | [] -> []
             | a :: l0 -> a :: (firstn n1 l0))

(** val skipn : nat -> 'a1 list -> 'a1 list **)

let rec skipn n0 l =
  match n0 with
  | O -> l
  | S n1 -> (match l with
             | [] -> []
             | _ :: l0 -> skipn n1 l0)

type 'a res =
| Ok of 'a
| Err of n
| Panic

(** val bind : 'a1 res -> ('a1 -> 'a2 res) -> 'a2 res **)

let bind r f =
  match r with
  | Ok a -> f a
  | Err k -> Err k
  | Panic -> Panic

(** val guard : bool -> n -> 'a1 res -> 'a1 res **)

let guard c k f =
  if c then Err k else f

(** val lenN : 'a1 list -> n **)

let lenN l =
  N.of_nat (length l)

(** val dropN : n -> 'a1 list -> 'a1 list **)

let dropN n0 l =
  skipn (N.to_nat n0) l

(** val takeN : n -> 'a1 list -> 'a1 list **)

let takeN n0 l =
  firstn (N.to_nat n0) l

(** val subN : 'a1 list -> n -> n -> 'a1 list **)

let subN l a n0 =
  takeN n0 (dropN a l)

(** val le_val : n list -> n **)

let rec le_val = function
| [] -> N0
| b :: t ->
  N.add b (N.mul (Npos (XO (XO (XO (XO (XO (XO (XO (XO XH))))))))) (le_val t))

(** val le_enc : nat -> n -> n list **)

let rec le_enc n0 x =
  match n0 with
  | O -> []
  | S k ->
    (N.modulo x (Npos (XO (XO (XO (XO (XO (XO (XO (XO XH)))))))))) :: 
      (le_enc k (N.div x (Npos (XO (XO (XO (XO (XO (XO (XO (XO XH)))))))))))

(** val slice : 'a1 list -> n -> n -> 'a1 list res **)

let slice l a b =
  if (&&) (N.leb a b) (N.leb b (lenN l))
  then Ok (subN l a (N.sub b a))
  else Panic

(** val arr : n -> 'a1 list -> 'a1 list res **)

let arr n0 s =
  if N.eqb (lenN s) n0 then Ok s else Panic

type trg = { t_udp : n; t_ts : n; t_out : n; t_in : n; t_pulser : n;
             t_trigbm : n; t_nim : n; t_esata : n; t_mlu : bool; t_aw16p : 
             n; t_drift : n; t_scaled : n; t_aw16m : n; t_aw16b : n;
             t_bsc : n; t_bscm : n; t_coin : n; t_fw : n }

(** val rd_le : n list -> n -> n -> n res **)

let rd_le l a n0 =
  bind (slice l a (N.add a n0)) (fun s ->
    bind (arr n0 s) (fun s' -> Ok (le_val s')))

(** val e_len : n **)

let e_len =
  N0

(** val e_zero : n **)

let e_zero =
  Npos XH

(** val e_hdr : n **)

let e_hdr =
  Npos (XO XH)

(** val e_in : n **)

let e_in =
  Npos (XI XH)

(** val e_drift : n **)

let e_drift =
  Npos (XO (XO XH))

(** val e_scaled : n **)

let e_scaled =
  Npos (XI (XO XH))

(** val e_ftr : n **)

let e_ftr =
  Npos (XO (XI XH))

(** val e_out : n **)

let e_out =
  Npos (XI (XI XH))

(** val trg_decode : n list -> trg res **)

let trg_decode l =
  guard (negb (N.eqb (lenN l) (Npos (XO (XO (XO (XO (XI (XO XH))))))))) e_len
    (bind (rd_le l N0 (Npos (XO (XO XH)))) (fun udp ->
      guard
        (negb
          (N.eqb
            (N.coq_land udp (Npos (XO (XO (XO (XO (XO (XO (XO (XO (XO (XO (XO
              (XO (XO (XO (XO (XO (XO (XO (XO (XO (XO (XO (XO (XO (XO (XO (XO
              (XO (XO (XO (XO XH))))))))))))))))))))))))))))))))) N0)) e_zero
        (bind (rd_le l (Npos (XO (XO XH))) (Npos (XO (XO XH))))
          (fun header ->
          guard
            (negb
              (N.eqb
                (N.coq_land header (Npos (XO (XO (XO (XO (XO (XO (XO (XO (XO
                  (XO (XO (XO (XO (XO (XO (XO (XO (XO (XO (XO (XO (XO (XO (XO
                  (XO (XO (XO (XO (XI (XI (XI
                  XH))))))))))))))))))))))))))))))))) (Npos (XO (XO (XO (XO
                (XO (XO (XO (XO (XO (XO (XO (XO (XO (XO (XO (XO (XO (XO (XO
                (XO (XO (XO (XO (XO (XO (XO (XO (XO (XO (XO (XO
                XH)))))))))))))))))))))))))))))))))) e_hdr
            (bind (rd_le l (Npos (XO (XO (XO XH)))) (Npos (XO (XO XH))))
              (fun ts ->
              bind (rd_le l (Npos (XO (XO (XI XH)))) (Npos (XO (XO XH))))
                (fun outc ->
                bind
                  (rd_le l (Npos (XO (XO (XO (XO XH))))) (Npos (XO (XO XH))))
                  (fun inc ->
                  guard (N.ltb inc outc) e_in
                    (bind
                      (rd_le l (Npos (XO (XO (XI (XO XH))))) (Npos (XO (XO
                        XH)))) (fun pulser ->
                      bind
                        (rd_le l (Npos (XO (XO (XO (XI XH))))) (Npos (XO (XO
                          XH)))) (fun trigbm ->
                        bind
                          (rd_le l (Npos (XO (XO (XI (XI XH))))) (Npos (XO
                            (XO XH)))) (fun nim ->
                          bind
                            (rd_le l (Npos (XO (XO (XO (XO (XO XH)))))) (Npos
                              (XO (XO XH)))) (fun esata ->
                            bind
                              (rd_le l (Npos (XO (XO (XI (XO (XO XH))))))
                                (Npos (XO (XO XH)))) (fun d36 ->
                              guard
                                (negb
                                  (N.eqb
                                    (N.coq_land d36 (Npos (XO (XO (XO (XO (XO
                                      (XO (XO (XO (XO (XO (XO (XO (XO (XO (XO
                                      (XO (XI (XI (XI (XI (XI (XI (XI (XI (XI
                                      (XI (XI (XI (XI (XI
                                      XH)))))))))))))))))))))))))))))))) N0))
                                e_zero
                                (let mlu =
                                   negb
                                     (N.eqb
                                       (N.coq_land d36 (Npos (XO (XO (XO (XO
                                         (XO (XO (XO (XO (XO (XO (XO (XO (XO
                                         (XO (XO (XO (XO (XO (XO (XO (XO (XO
                                         (XO (XO (XO (XO (XO (XO (XO (XO (XO
                                         XH)))))))))))))))))))))))))))))))))
                                       N0)
                                 in
                                 let aw16p =
                                   N.coq_land d36 (Npos (XI (XI (XI (XI (XI
                                     (XI (XI (XI (XI (XI (XI (XI (XI (XI (XI
                                     XH))))))))))))))))
                                 in
                                 bind
                                   (rd_le l (Npos (XO (XO (XO (XI (XO
                                     XH)))))) (Npos (XO (XO XH))))
                                   (fun drift ->
                                   guard
                                     ((||) (N.ltb inc drift)
                                       (N.ltb drift outc)) e_drift
                                     (bind
                                       (rd_le l (Npos (XO (XO (XI (XI (XO
                                         XH)))))) (Npos (XO (XO XH))))
                                       (fun scaled ->
                                       guard
                                         ((||) (N.ltb drift scaled)
                                           (N.ltb scaled outc)) e_scaled
                                         (bind
                                           (rd_le l (Npos (XO (XO (XO (XO (XI
                                             XH)))))) (Npos (XO (XO XH))))
                                           (fun z48 ->
                                           guard (negb (N.eqb z48 N0)) e_zero
                                             (bind
                                               (rd_le l (Npos (XO (XO (XI (XO
                                                 (XI XH)))))) (Npos (XO (XO
                                                 XH)))) (fun d52 ->
                                               guard
                                                 (negb
                                                   (N.eqb
                                                     (N.coq_land d52 (Npos
                                                       (XO (XO (XO (XO (XO
                                                       (XO (XO (XO (XO (XO
                                                       (XO (XO (XO (XO (XO
                                                       (XO (XO (XO (XO (XO
                                                       (XO (XO (XO (XO (XI
                                                       (XI (XI (XI (XI (XI
                                                       (XI
                                                       XH)))))))))))))))))))))))))))))))))
                                                     N0)) e_zero
                                                 (bind
                                                   (let v =
                                                      N.shiftr d52 (Npos (XO
                                                        (XO (XO (XO XH)))))
                                                    in
                                                    if N.ltb v (Npos (XO (XO
                                                         (XO (XO (XO (XO (XO
                                                         (XO XH)))))))))
                                                    then Ok v
                                                    else Panic) (fun aw16m ->
                                                   let aw16b =
                                                     N.coq_land d52 (Npos (XI
                                                       (XI (XI (XI (XI (XI
                                                       (XI (XI (XI (XI (XI
                                                       (XI (XI (XI (XI
                                                       XH))))))))))))))))
                                                   in
                                                   bind
                                                     (rd_le l (Npos (XO (XO
                                                       (XO (XI (XI XH))))))
                                                       (Npos (XO (XO (XO
                                                       XH))))) (fun bsc ->
                                                     bind
                                                       (rd_le l (Npos (XO (XO
                                                         (XO (XO (XO (XO
                                                         XH))))))) (Npos (XO
                                                         (XO XH))))
                                                       (fun d64 ->
                                                       guard
                                                         (negb
                                                           (N.eqb
                                                             (N.coq_land d64
                                                               (Npos (XO (XO
                                                               (XO (XO (XO
                                                               (XO (XO (XO
                                                               (XI (XI (XI
                                                               (XI (XI (XI
                                                               (XI (XI (XI
                                                               (XI (XI (XI
                                                               (XI (XI (XI
                                                               (XI (XI (XI
                                                               (XI (XI (XI
                                                               (XI (XI
                                                               XH)))))))))))))))))))))))))))))))))
                                                             N0)) e_zero
                                                         (let bscm =
                                                            N.coq_land d64
                                                              (Npos (XI (XI
                                                              (XI (XI (XI (XI
                                                              (XI XH))))))))
                                                          in
                                                          bind
                                                            (rd_le l (Npos
                                                              (XO (XO (XI (XO
                                                              (XO (XO
                                                              XH))))))) (Npos
                                                              (XO (XO XH))))
                                                            (fun d68 ->
                                                            guard
                                                              (negb
                                                                (N.eqb
                                                                  (N.coq_land
                                                                    d68 (Npos
                                                                    (XO (XO
                                                                    (XO (XO
                                                                    (XO (XO
                                                                    (XO (XO
                                                                    (XI (XI
                                                                    (XI (XI
                                                                    (XI (XI
                                                                    (XI (XI
                                                                    (XI (XI
                                                                    (XI (XI
                                                                    (XI (XI
                                                                    (XI (XI
                                                                    (XI (XI
                                                                    (XI (XI
                                                                    (XI (XI
                                                                    (XI
                                                                    XH)))))))))))))))))))))))))))))))))
                                                                  N0)) e_zero
                                                              (let coin =
                                                                 N.coq_land
                                                                   d68 (Npos
                                                                   (XI (XI
                                                                   (XI (XI
                                                                   (XI (XI
                                                                   (XI
                                                                   XH))))))))
                                                               in
                                                               bind
                                                                 (rd_le l
                                                                   (Npos (XO
                                                                   (XO (XO
                                                                   (XI (XO
                                                                   (XO
                                                                   XH)))))))
                                                                   (Npos (XO
                                                                   (XO XH))))
                                                                 (fun fw ->
                                                                 bind
                                                                   (rd_le l
                                                                    (Npos (XO
                                                                    (XO (XI
                                                                    (XI (XO
                                                                    (XO
                                                                    XH)))))))
                                                                    (Npos (XO
                                                                    (XO XH))))
                                                                   (fun footer ->
                                                                   guard
                                                                    (negb
                                                                    (N.eqb
                                                                    (N.coq_land
                                                                    footer
                                                                    (Npos (XO
                                                                    (XO (XO
                                                                    (XO (XO
                                                                    (XO (XO
                                                                    (XO (XO
                                                                    (XO (XO
                                                                    (XO (XO
                                                                    (XO (XO
                                                                    (XO (XO
                                                                    (XO (XO
                                                                    (XO (XO
                                                                    (XO (XO
                                                                    (XO (XO
                                                                    (XO (XO
                                                                    (XO (XI
                                                                    (XI (XI
                                                                    XH)))))))))))))))))))))))))))))))))
                                                                    (Npos (XO
                                                                    (XO (XO
                                                                    (XO (XO
                                                                    (XO (XO
                                                                    (XO (XO
                                                                    (XO (XO
                                                                    (XO (XO
                                                                    (XO (XO
                                                                    (XO (XO
                                                                    (XO (XO
                                                                    (XO (XO
                                                                    (XO (XO
                                                                    (XO (XO
                                                                    (XO (XO
                                                                    (XO (XO
                                                                    (XI (XI
                                                                    XH))))))))))))))))))))))))))))))))))
                                                                    e_ftr
                                                                    (guard
                                                                    ((||)
                                                                    (negb
                                                                    (N.eqb
                                                                    (N.coq_land
                                                                    header
                                                                    (Npos (XI
                                                                    (XI (XI
                                                                    (XI (XI
                                                                    (XI (XI
                                                                    (XI (XI
                                                                    (XI (XI
                                                                    (XI (XI
                                                                    (XI (XI
                                                                    (XI (XI
                                                                    (XI (XI
                                                                    (XI (XI
                                                                    (XI (XI
                                                                    (XI (XI
                                                                    (XI (XI
                                                                    XH)))))))))))))))))))))))))))))
                                                                    (N.coq_land
                                                                    footer
                                                                    (Npos (XI
                                                                    (XI (XI
                                                                    (XI (XI
                                                                    (XI (XI
                                                                    (XI (XI
                                                                    (XI (XI
                                                                    (XI (XI
                                                                    (XI (XI
                                                                    (XI (XI
                                                                    (XI (XI
                                                                    (XI (XI
                                                                    (XI (XI
                                                                    (XI (XI
                                                                    (XI (XI
                                                                    XH)))))))))))))))))))))))))))))))
                                                                    (negb
                                                                    (N.eqb
                                                                    (N.coq_land
                                                                    header
                                                                    (Npos (XI
                                                                    (XI (XI
                                                                    (XI (XI
                                                                    (XI (XI
                                                                    (XI (XI
                                                                    (XI (XI
                                                                    (XI (XI
                                                                    (XI (XI
                                                                    (XI (XI
                                                                    (XI (XI
                                                                    (XI (XI
                                                                    (XI (XI
                                                                    (XI (XI
                                                                    (XI (XI
                                                                    XH)))))))))))))))))))))))))))))
                                                                    (N.coq_land
                                                                    outc
                                                                    (Npos (XI
                                                                    (XI (XI
                                                                    (XI (XI
                                                                    (XI (XI
                                                                    (XI (XI
                                                                    (XI (XI
                                                                    (XI (XI
                                                                    (XI (XI
                                                                    (XI (XI
                                                                    (XI (XI
                                                                    (XI (XI
                                                                    (XI (XI
                                                                    (XI (XI
                                                                    (XI (XI
                                                                    XH))))))))))))))))))))))))))))))))
                                                                    e_out (Ok
                                                                    { t_udp =
                                                                    udp;
                                                                    t_ts =
                                                                    ts;
                                                                    t_out =
                                                                    outc;
                                                                    t_in =
                                                                    inc;
                                                                    t_pulser =
                                                                    pulser;
                                                                    t_trigbm =
                                                                    trigbm;
                                                                    t_nim =
                                                                    nim;
                                                                    t_esata =
                                                                    esata;
                                                                    t_mlu =
                                                                    mlu;
                                                                    t_aw16p =
                                                                    aw16p;
                                                                    t_drift =
                                                                    drift;
                                                                    t_scaled =
                                                                    scaled;
                                                                    t_aw16m =
                                                                    aw16m;
                                                                    t_aw16b =
                                                                    aw16b;
                                                                    t_bsc =
                                                                    bsc;
                                                                    t_bscm =
                                                                    bscm;
                                                                    t_coin =
                                                                    coin;
                                                                    t_fw =
                                                                    fw })))))))))))))))))))))))))))))))))

(** val e32 : n -> n list **)

let e32 x =
  le_enc (S (S (S (S O)))) x

(** val trg_encode : trg -> n list **)

let trg_encode p =
  app (e32 p.t_udp)
    (app
      (e32
        (N.add (Npos (XO (XO (XO (XO (XO (XO (XO (XO (XO (XO (XO (XO (XO (XO
          (XO (XO (XO (XO (XO (XO (XO (XO (XO (XO (XO (XO (XO (XO (XO (XO (XO
          XH))))))))))))))))))))))))))))))))
          (N.modulo p.t_out (Npos (XO (XO (XO (XO (XO (XO (XO (XO (XO (XO (XO
            (XO (XO (XO (XO (XO (XO (XO (XO (XO (XO (XO (XO (XO (XO (XO (XO
            (XO XH))))))))))))))))))))))))))))))))
      (app (e32 p.t_ts)
        (app (e32 p.t_out)
          (app (e32 p.t_in)
            (app (e32 p.t_pulser)
              (app (e32 p.t_trigbm)
                (app (e32 p.t_nim)
                  (app (e32 p.t_esata)
                    (app
                      (e32
                        (N.add
                          (if p.t_mlu
                           then Npos (XO (XO (XO (XO (XO (XO (XO (XO (XO (XO
                                  (XO (XO (XO (XO (XO (XO (XO (XO (XO (XO (XO
                                  (XO (XO (XO (XO (XO (XO (XO (XO (XO (XO
                                  XH)))))))))))))))))))))))))))))))
                           else N0) p.t_aw16p))
                      (app (e32 p.t_drift)
                        (app (e32 p.t_scaled)
                          (app (e32 N0)
                            (app
                              (e32
                                (N.add
                                  (N.mul p.t_aw16m (Npos (XO (XO (XO (XO (XO
                                    (XO (XO (XO (XO (XO (XO (XO (XO (XO (XO
                                    (XO XH)))))))))))))))))) p.t_aw16b))
                              (app
                                (le_enc (S (S (S (S (S (S (S (S O))))))))
                                  p.t_bsc)
                                (app (e32 p.t_bscm)
                                  (app (e32 p.t_coin)
                                    (app (e32 p.t_fw)
                                      (e32
                                        (N.add (Npos (XO (XO (XO (XO (XO (XO
                                          (XO (XO (XO (XO (XO (XO (XO (XO (XO
                                          (XO (XO (XO (XO (XO (XO (XO (XO (XO
                                          (XO (XO (XO (XO (XO (XI (XI
                                          XH))))))))))))))))))))))))))))))))
                                          (N.modulo p.t_out (Npos (XO (XO (XO
                                            (XO (XO (XO (XO (XO (XO (XO (XO
                                            (XO (XO (XO (XO (XO (XO (XO (XO
                                            (XO (XO (XO (XO (XO (XO (XO (XO
                                            (XO
                                            XH)))))))))))))))))))))))))))))))))))))))))))))))))

(** val trg_obs : trg -> n list **)

let trg_obs p =
  p.t_udp :: (p.t_ts :: (p.t_out :: (p.t_in :: (p.t_pulser :: (p.t_trigbm :: (p.t_nim :: (p.t_esata :: ((
    if p.t_mlu then Npos XH else N0) :: (p.t_aw16p :: (p.t_drift :: (p.t_scaled :: (p.t_aw16m :: (p.t_aw16b :: (p.t_bsc :: (p.t_bscm :: (p.t_coin :: (p.t_fw :: [])))))))))))))))))
