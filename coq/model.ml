
(** val negb : bool -> bool **)

let negb = function
| true -> false
| false -> true

type nat =
| O
| S of nat

(** val fst : ('a1 * 'a2) -> 'a1 **)

let fst = function
| (x, _) -> x

(** val snd : ('a1 * 'a2) -> 'a2 **)

let snd = function
| (_, y) -> y

(** val length : 'a1 list -> nat **)

let rec length = function
| [] -> O
| _ :: l' -> S (length l')

(** val app : 'a1 list -> 'a1 list -> 'a1 list **)

let rec app l m =
  match l with
  | [] -> m
  | a :: l1 -> a :: (app l1 m)

type comparison =
| Eq
| Lt
| Gt

(** val compOpp : comparison -> comparison **)

let compOpp = function
| Eq -> Eq
| Lt -> Gt
| Gt -> Lt

module Coq__1 = struct
 (** val add : nat -> nat -> nat **)
 let rec add n0 m =
   match n0 with
   | O -> m
   | S p -> S (add p m)
end
include Coq__1

type positive =
| XI of positive
| XO of positive
| XH

type n =
| N0
| Npos of positive

type z =
| Z0
| Zpos of positive
| Zneg of positive

module Pos =
 struct
  type mask =
  | IsNul
  | IsPos of positive
  | IsNeg
 end

module Coq_Pos =
 struct
  (** val succ : positive -> positive **)

  let rec succ = function
  | XI p -> XO (succ p)
  | XO p -> XI p
  | XH -> XO XH

  (** val add : positive -> positive -> positive **)

  let rec add x y =
    match x with
    | XI p ->
      (match y with
       | XI q -> XO (add_carry p q)
       | XO q -> XI (add p q)
       | XH -> XO (succ p))
    | XO p ->
      (match y with
       | XI q -> XI (add p q)
       | XO q -> XO (add p q)
       | XH -> XI p)
    | XH -> (match y with
             | XI q -> XO (succ q)
             | XO q -> XI q
             | XH -> XO XH)

  (** val add_carry : positive -> positive -> positive **)

  and add_carry x y =
    match x with
    | XI p ->
      (match y with
       | XI q -> XI (add_carry p q)
       | XO q -> XO (add_carry p q)
       | XH -> XI (succ p))
    | XO p ->
      (match y with
       | XI q -> XO (add_carry p q)
       | XO q -> XI (add p q)
       | XH -> XO (succ p))
    | XH ->
      (match y with
       | XI q -> XI (succ q)
       | XO q -> XO (succ q)
       | XH -> XI XH)

  (** val pred_double : positive -> positive **)

  let rec pred_double = function
  | XI p -> XI (XO p)
  | XO p -> XI (pred_double p)
  | XH -> XH

  type mask = Pos.mask =
  | IsNul
  | IsPos of positive
  | IsNeg

  (** val succ_double_mask : mask -> mask **)

  let succ_double_mask = function
  | IsNul -> IsPos XH
  | IsPos p -> IsPos (XI p)
  | IsNeg -> IsNeg

  (** val double_mask : mask -> mask **)

  let double_mask = function
  | IsPos p -> IsPos (XO p)
  | x0 -> x0

  (** val double_pred_mask : positive -> mask **)

  let double_pred_mask = function
  | XI p -> IsPos (XO (XO p))
  | XO p -> IsPos (XO (pred_double p))
  | XH -> IsNul

  (** val sub_mask : positive -> positive -> mask **)

  let rec sub_mask x y =
    match x with
    | XI p ->
      (match y with
       | XI q -> double_mask (sub_mask p q)
       | XO q -> succ_double_mask (sub_mask p q)
       | XH -> IsPos (XO p))
    | XO p ->
      (match y with
       | XI q -> succ_double_mask (sub_mask_carry p q)
       | XO q -> double_mask (sub_mask p q)
       | XH -> IsPos (pred_double p))
    | XH -> (match y with
             | XH -> IsNul
             | _ -> IsNeg)

  (** val sub_mask_carry : positive -> positive -> mask **)

  and sub_mask_carry x y =
    match x with
    | XI p ->
      (match y with
       | XI q -> succ_double_mask (sub_mask_carry p q)
       | XO q -> double_mask (sub_mask p q)
       | XH -> IsPos (pred_double p))
    | XO p ->
      (match y with
       | XI q -> double_mask (sub_mask_carry p q)
       | XO q -> succ_double_mask (sub_mask_carry p q)
       | XH -> double_pred_mask p)
    | XH -> IsNeg

  (** val mul : positive -> positive -> positive **)

  let rec mul x y =
    match x with
    | XI p -> add y (XO (mul p y))
    | XO p -> XO (mul p y)
    | XH -> y

  (** val iter : ('a1 -> 'a1) -> 'a1 -> positive -> 'a1 **)

  let rec iter f x = function
  | XI n' -> f (iter f (iter f x n') n')
  | XO n' -> iter f (iter f x n') n'
  | XH -> f x

  (** val pow : positive -> positive -> positive **)

  let pow x =
    iter (mul x) XH

  (** val compare_cont : comparison -> positive -> positive -> comparison **)

  let rec compare_cont r x y =
    match x with
    | XI p ->
      (match y with
       | XI q -> compare_cont r p q
       | XO q -> compare_cont Gt p q
       | XH -> Gt)
    | XO p ->
      (match y with
       | XI q -> compare_cont Lt p q
       | XO q -> compare_cont r p q
       | XH -> Gt)
    | XH -> (match y with
             | XH -> r
             | _ -> Lt)

  (** val compare : positive -> positive -> comparison **)

  let compare =
    compare_cont Eq

  (** val eqb : positive -> positive -> bool **)

  let rec eqb p q =
    match p with
    | XI p0 -> (match q with
                | XI q0 -> eqb p0 q0
                | _ -> false)
    | XO p0 -> (match q with
                | XO q0 -> eqb p0 q0
                | _ -> false)
    | XH -> (match q with
             | XH -> true
             | _ -> false)

  (** val coq_Nsucc_double : n -> n **)

  let coq_Nsucc_double = function
  | N0 -> Npos XH
  | Npos p -> Npos (XI p)

  (** val coq_Ndouble : n -> n **)

  let coq_Ndouble = function
  | N0 -> N0
  | Npos p -> Npos (XO p)

  (** val coq_land : positive -> positive -> n **)

  let rec coq_land p q =
    match p with
    | XI p0 ->
      (match q with
       | XI q0 -> coq_Nsucc_double (coq_land p0 q0)
       | XO q0 -> coq_Ndouble (coq_land p0 q0)
       | XH -> Npos XH)
    | XO p0 ->
      (match q with
       | XI q0 -> coq_Ndouble (coq_land p0 q0)
       | XO q0 -> coq_Ndouble (coq_land p0 q0)
       | XH -> N0)
    | XH -> (match q with
             | XO _ -> N0
             | _ -> Npos XH)

  (** val iter_op : ('a1 -> 'a1 -> 'a1) -> positive -> 'a1 -> 'a1 **)

  let rec iter_op op p a =
    match p with
    | XI p0 -> op a (iter_op op p0 (op a a))
    | XO p0 -> iter_op op p0 (op a a)
    | XH -> a

  (** val to_nat : positive -> nat **)

  let to_nat x =
    iter_op Coq__1.add x (S O)

  (** val of_succ_nat : nat -> positive **)

  let rec of_succ_nat = function
  | O -> XH
  | S x -> succ (of_succ_nat x)
 end

module N =
 struct
  (** val succ_double : n -> n **)

  let succ_double = function
  | N0 -> Npos XH
  | Npos p -> Npos (XI p)

  (** val double : n -> n **)

  let double = function
  | N0 -> N0
  | Npos p -> Npos (XO p)

  (** val add : n -> n -> n **)

  let add n0 m =
    match n0 with
    | N0 -> m
    | Npos p -> (match m with
                 | N0 -> n0
                 | Npos q -> Npos (Coq_Pos.add p q))

  (** val sub : n -> n -> n **)

  let sub n0 m =
    match n0 with
    | N0 -> N0
    | Npos n' ->
      (match m with
       | N0 -> n0
       | Npos m' ->
         (match Coq_Pos.sub_mask n' m' with
          | Coq_Pos.IsPos p -> Npos p
          | _ -> N0))

  (** val mul : n -> n -> n **)

  let mul n0 m =
    match n0 with
    | N0 -> N0
    | Npos p -> (match m with
                 | N0 -> N0
                 | Npos q -> Npos (Coq_Pos.mul p q))

  (** val compare : n -> n -> comparison **)

  let compare n0 m =
    match n0 with
    | N0 -> (match m with
             | N0 -> Eq
             | Npos _ -> Lt)
    | Npos n' -> (match m with
                  | N0 -> Gt
                  | Npos m' -> Coq_Pos.compare n' m')

  (** val eqb : n -> n -> bool **)

  let eqb n0 m =
    match n0 with
    | N0 -> (match m with
             | N0 -> true
             | Npos _ -> false)
    | Npos p -> (match m with
                 | N0 -> false
                 | Npos q -> Coq_Pos.eqb p q)

  (** val leb : n -> n -> bool **)

  let leb x y =
    match compare x y with
    | Gt -> false
    | _ -> true

  (** val ltb : n -> n -> bool **)

  let ltb x y =
    match compare x y with
    | Lt -> true
    | _ -> false

  (** val div2 : n -> n **)

  let div2 = function
  | N0 -> N0
  | Npos p0 -> (match p0 with
                | XI p -> Npos p
                | XO p -> Npos p
                | XH -> N0)

  (** val pow : n -> n -> n **)

  let pow n0 = function
  | N0 -> Npos XH
  | Npos p0 -> (match n0 with
                | N0 -> N0
                | Npos q -> Npos (Coq_Pos.pow q p0))

  (** val pos_div_eucl : positive -> n -> n * n **)

  let rec pos_div_eucl a b =
    match a with
    | XI a' ->
      let (q, r) = pos_div_eucl a' b in
      let r' = succ_double r in
      if leb b r' then ((succ_double q), (sub r' b)) else ((double q), r')
    | XO a' ->
      let (q, r) = pos_div_eucl a' b in
      let r' = double r in
      if leb b r' then ((succ_double q), (sub r' b)) else ((double q), r')
    | XH ->
      (match b with
       | N0 -> (N0, (Npos XH))
       | Npos p -> (match p with
                    | XH -> ((Npos XH), N0)
                    | _ -> (N0, (Npos XH))))

  (** val div_eucl : n -> n -> n * n **)

  let div_eucl a b =
    match a with
    | N0 -> (N0, N0)
    | Npos na -> (match b with
                  | N0 -> (N0, a)
                  | Npos _ -> pos_div_eucl na b)

  (** val div : n -> n -> n **)

  let div a b =
    fst (div_eucl a b)

  (** val modulo : n -> n -> n **)

  let modulo a b =
    snd (div_eucl a b)

  (** val coq_land : n -> n -> n **)

  let coq_land n0 m =
    match n0 with
    | N0 -> N0
    | Npos p -> (match m with
                 | N0 -> N0
                 | Npos q -> Coq_Pos.coq_land p q)

  (** val shiftr : n -> n -> n **)

  let shiftr a = function
  | N0 -> a
  | Npos p -> Coq_Pos.iter div2 a p

  (** val to_nat : n -> nat **)

  let to_nat = function
  | N0 -> O
  | Npos p -> Coq_Pos.to_nat p

  (** val of_nat : nat -> n **)

  let of_nat = function
  | O -> N0
  | S n' -> Npos (Coq_Pos.of_succ_nat n')
 end

(** val nth_error : 'a1 list -> nat -> 'a1 option **)

let rec nth_error l = function
| O -> (match l with
        | [] -> None
        | x :: _ -> Some x)
| S n1 -> (match l with
           | [] -> None
           | _ :: l0 -> nth_error l0 n1)

(** val rev : 'a1 list -> 'a1 list **)

let rec rev = function
| [] -> []
| x :: l' -> app (rev l') (x :: [])

(** val map : ('a1 -> 'a2) -> 'a1 list -> 'a2 list **)

let rec map f = function
| [] -> []
| a :: t -> (f a) :: (map f t)

(** val existsb : ('a1 -> bool) -> 'a1 list -> bool **)

let rec existsb f = function
| [] -> false
| a :: l0 -> (||) (f a) (existsb f l0)

(** val firstn : nat -> 'a1 list -> 'a1 list **)

let rec firstn n0 l =
  match n0 with
  | O -> []
  | S n1 -> (match l with
             | [] -> []
             | a :: l0 -> a :: (firstn n1 l0))

(** val skipn : nat -> 'a1 list -> 'a1 list **)

let rec skipn n0 l =
  match n0 with
  | O -> l
  | S n1 -> (match l with
             | [] -> []
             | _ :: l0 -> skipn n1 l0)

module Z =
 struct
  (** val double : z -> z **)

  let double = function
  | Z0 -> Z0
  | Zpos p -> Zpos (XO p)
  | Zneg p -> Zneg (XO p)

  (** val succ_double : z -> z **)

  let succ_double = function
  | Z0 -> Zpos XH
  | Zpos p -> Zpos (XI p)
  | Zneg p -> Zneg (Coq_Pos.pred_double p)

  (** val pred_double : z -> z **)

  let pred_double = function
  | Z0 -> Zneg XH
  | Zpos p -> Zpos (Coq_Pos.pred_double p)
  | Zneg p -> Zneg (XI p)

  (** val pos_sub : positive -> positive -> z **)

  let rec pos_sub x y =
    match x with
    | XI p ->
      (match y with
       | XI q -> double (pos_sub p q)
       | XO q -> succ_double (pos_sub p q)
       | XH -> Zpos (XO p))
    | XO p ->
      (match y with
       | XI q -> pred_double (pos_sub p q)
       | XO q -> double (pos_sub p q)
       | XH -> Zpos (Coq_Pos.pred_double p))
    | XH ->
      (match y with
       | XI q -> Zneg (XO q)
       | XO q -> Zneg (Coq_Pos.pred_double q)
       | XH -> Z0)

  (** val add : z -> z -> z **)

  let add x y =
    match x with
    | Z0 -> y
    | Zpos x' ->
      (match y with
       | Z0 -> x
       | Zpos y' -> Zpos (Coq_Pos.add x' y')
       | Zneg y' -> pos_sub x' y')
    | Zneg x' ->
      (match y with
       | Z0 -> x
       | Zpos y' -> pos_sub y' x'
       | Zneg y' -> Zneg (Coq_Pos.add x' y'))

  (** val opp : z -> z **)

  let opp = function
  | Z0 -> Z0
  | Zpos x0 -> Zneg x0
  | Zneg x0 -> Zpos x0

  (** val sub : z -> z -> z **)

  let sub m n0 =
    add m (opp n0)

  (** val mul : z -> z -> z **)

  let mul x y =
    match x with
    | Z0 -> Z0
    | Zpos x' ->
      (match y with
       | Z0 -> Z0
       | Zpos y' -> Zpos (Coq_Pos.mul x' y')
       | Zneg y' -> Zneg (Coq_Pos.mul x' y'))
    | Zneg x' ->
      (match y with
       | Z0 -> Z0
       | Zpos y' -> Zneg (Coq_Pos.mul x' y')
       | Zneg y' -> Zpos (Coq_Pos.mul x' y'))

  (** val compare : z -> z -> comparison **)

  let compare x y =
    match x with
    | Z0 -> (match y with
             | Z0 -> Eq
             | Zpos _ -> Lt
             | Zneg _ -> Gt)
    | Zpos x' -> (match y with
                  | Zpos y' -> Coq_Pos.compare x' y'
                  | _ -> Gt)
    | Zneg x' ->
      (match y with
       | Zneg y' -> compOpp (Coq_Pos.compare x' y')
       | _ -> Lt)

  (** val leb : z -> z -> bool **)

  let leb x y =
    match compare x y with
    | Gt -> false
    | _ -> true

  (** val ltb : z -> z -> bool **)

  let ltb x y =
    match compare x y with
    | Lt -> true
    | _ -> false

  (** val eqb : z -> z -> bool **)

  let eqb x y =
    match x with
    | Z0 -> (match y with
             | Z0 -> true
             | _ -> false)
    | Zpos p -> (match y with
                 | Zpos q -> Coq_Pos.eqb p q
                 | _ -> false)
    | Zneg p -> (match y with
                 | Zneg q -> Coq_Pos.eqb p q
                 | _ -> false)

  (** val to_N : z -> n **)

  let to_N = function
  | Zpos p -> Npos p
  | _ -> N0

  (** val of_N : n -> z **)

  let of_N = function
  | N0 -> Z0
  | Npos p -> Zpos p

  (** val pos_div_eucl : positive -> z -> z * z **)

  let rec pos_div_eucl a b =
    match a with
    | XI a' ->
      let (q, r) = pos_div_eucl a' b in
      let r' = add (mul (Zpos (XO XH)) r) (Zpos XH) in
      if ltb r' b
      then ((mul (Zpos (XO XH)) q), r')
      else ((add (mul (Zpos (XO XH)) q) (Zpos XH)), (sub r' b))
    | XO a' ->
      let (q, r) = pos_div_eucl a' b in
      let r' = mul (Zpos (XO XH)) r in
      if ltb r' b
      then ((mul (Zpos (XO XH)) q), r')
      else ((add (mul (Zpos (XO XH)) q) (Zpos XH)), (sub r' b))
    | XH -> if leb (Zpos (XO XH)) b then (Z0, (Zpos XH)) else ((Zpos XH), Z0)

  (** val div_eucl : z -> z -> z * z **)

  let div_eucl a b =
    match a with
    | Z0 -> (Z0, Z0)
    | Zpos a' ->
      (match b with
       | Z0 -> (Z0, a)
       | Zpos _ -> pos_div_eucl a' b
       | Zneg b' ->
         let (q, r) = pos_div_eucl a' (Zpos b') in
         (match r with
          | Z0 -> ((opp q), Z0)
          | _ -> ((opp (add q (Zpos XH))), (add b r))))
    | Zneg a' ->
      (match b with
       | Z0 -> (Z0, a)
       | Zpos _ ->
         let (q, r) = pos_div_eucl a' b in
         (match r with
          | Z0 -> ((opp q), Z0)
          | _ -> ((opp (add q (Zpos XH))), (sub b r)))
       | Zneg b' -> let (q, r) = pos_div_eucl a' (Zpos b') in (q, (opp r)))

  (** val modulo : z -> z -> z **)

  let modulo a b =
    let (_, r) = div_eucl a b in r

  (** val quotrem : z -> z -> z * z **)

  let quotrem a b =
    match a with
    | Z0 -> (Z0, Z0)
    | Zpos a0 ->
      (match b with
       | Z0 -> (Z0, a)
       | Zpos b0 ->
         let (q, r) = N.pos_div_eucl a0 (Npos b0) in ((of_N q), (of_N r))
       | Zneg b0 ->
         let (q, r) = N.pos_div_eucl a0 (Npos b0) in
         ((opp (of_N q)), (of_N r)))
    | Zneg a0 ->
      (match b with
       | Z0 -> (Z0, a)
       | Zpos b0 ->
         let (q, r) = N.pos_div_eucl a0 (Npos b0) in
         ((opp (of_N q)), (opp (of_N r)))
       | Zneg b0 ->
         let (q, r) = N.pos_div_eucl a0 (Npos b0) in
         ((of_N q), (opp (of_N r))))

  (** val quot : z -> z -> z **)

  let quot a b =
    fst (quotrem a b)

  (** val rem : z -> z -> z **)

  let rem a b =
    snd (quotrem a b)
 end

type 'a res =
| Ok of 'a
| Err of n
| Panic

(** val bind : 'a1 res -> ('a1 -> 'a2 res) -> 'a2 res **)

let bind r f =
  match r with
  | Ok a -> f a
  | Err k -> Err k
  | Panic -> Panic

(** val guard : bool -> n -> 'a1 res -> 'a1 res **)

let guard c k f =
  if c then Err k else f

type ovf =
| Checked
| Wrapping

(** val usub : ovf -> n -> n -> n -> n res **)

let usub m w a b =
  if N.leb b a
  then Ok (N.sub a b)
  else (match m with
        | Checked -> Panic
        | Wrapping -> Ok (N.sub (N.add a (N.pow (Npos (XO XH)) w)) b))

(** val umul : ovf -> n -> n -> n -> n res **)

let umul m w a b =
  if N.ltb (N.mul a b) (N.pow (Npos (XO XH)) w)
  then Ok (N.mul a b)
  else (match m with
        | Checked -> Panic
        | Wrapping -> Ok (N.modulo (N.mul a b) (N.pow (Npos (XO XH)) w)))

(** val lenN : 'a1 list -> n **)

let lenN l =
  N.of_nat (length l)

(** val dropN : n -> 'a1 list -> 'a1 list **)

let dropN n0 l =
  skipn (N.to_nat n0) l

(** val takeN : n -> 'a1 list -> 'a1 list **)

let takeN n0 l =
  firstn (N.to_nat n0) l

(** val subN : 'a1 list -> n -> n -> 'a1 list **)

let subN l a n0 =
  takeN n0 (dropN a l)

(** val le_val : n list -> n **)

let rec le_val = function
| [] -> N0
| b :: t ->
  N.add b (N.mul (Npos (XO (XO (XO (XO (XO (XO (XO (XO XH))))))))) (le_val t))

(** val be_val : n list -> n **)

let be_val l =
  le_val (rev l)

(** val le_enc : nat -> n -> n list **)

let rec le_enc n0 x =
  match n0 with
  | O -> []
  | S k ->
    (N.modulo x (Npos (XO (XO (XO (XO (XO (XO (XO (XO XH)))))))))) :: 
      (le_enc k (N.div x (Npos (XO (XO (XO (XO (XO (XO (XO (XO XH)))))))))))

(** val slice : 'a1 list -> n -> n -> 'a1 list res **)

let slice l a b =
  if (&&) (N.leb a b) (N.leb b (lenN l))
  then Ok (subN l a (N.sub b a))
  else Panic

(** val slice_from : 'a1 list -> n -> 'a1 list res **)

let slice_from l a =
  if N.leb a (lenN l) then Ok (dropN a l) else Panic

(** val slice_to : 'a1 list -> n -> 'a1 list res **)

let slice_to l b =
  if N.leb b (lenN l) then Ok (takeN b l) else Panic

(** val idx : 'a1 list -> n -> 'a1 res **)

let idx l i =
  match nth_error l (N.to_nat i) with
  | Some b -> Ok b
  | None -> Panic

(** val arr : n -> 'a1 list -> 'a1 list res **)

let arr n0 s =
  if N.eqb (lenN s) n0 then Ok s else Panic

(** val to_signed : n -> n -> z **)

let to_signed w x =
  if N.ltb x (N.pow (Npos (XO XH)) (N.sub w (Npos XH)))
  then Z.of_N x
  else Z.sub (Z.of_N x) (Z.of_N (N.pow (Npos (XO XH)) w))

(** val of_signed : n -> z -> n **)

let of_signed w z0 =
  Z.to_N (Z.modulo z0 (Z.of_N (N.pow (Npos (XO XH)) w)))

(** val rd_le : n list -> n -> n -> n res **)

let rd_le l a n0 =
  bind (slice l a (N.add a n0)) (fun s ->
    bind (arr n0 s) (fun s' -> Ok (le_val s')))

(** val rd_be : n list -> n -> n -> n res **)

let rd_be l a n0 =
  bind (slice l a (N.add a n0)) (fun s ->
    bind (arr n0 s) (fun s' -> Ok (be_val s')))

type trg = { t_udp : n; t_ts : n; t_out : n; t_in : n; t_pulser : n;
             t_trigbm : n; t_nim : n; t_esata : n; t_mlu : bool; t_aw16p : 
             n; t_drift : n; t_scaled : n; t_aw16m : n; t_aw16b : n;
             t_bsc : n; t_bscm : n; t_coin : n; t_fw : n }

(** val e_len : n **)

let e_len =
  N0

(** val e_zero : n **)

let e_zero =
  Npos XH

(** val e_hdr : n **)

let e_hdr =
  Npos (XO XH)

(** val e_in : n **)

let e_in =
  Npos (XI XH)

(** val e_drift : n **)

let e_drift =
  Npos (XO (XO XH))

(** val e_scaled : n **)

let e_scaled =
  Npos (XI (XO XH))

(** val e_ftr : n **)

let e_ftr =
  Npos (XO (XI XH))

(** val e_out : n **)

let e_out =
  Npos (XI (XI XH))

(** val trg_decode : n list -> trg res **)

let trg_decode l =
  guard (negb (N.eqb (lenN l) (Npos (XO (XO (XO (XO (XI (XO XH))))))))) e_len
    (bind (rd_le l N0 (Npos (XO (XO XH)))) (fun udp ->
      guard
        (negb
          (N.eqb
            (N.coq_land udp (Npos (XO (XO (XO (XO (XO (XO (XO (XO (XO (XO (XO
              (XO (XO (XO (XO (XO (XO (XO (XO (XO (XO (XO (XO (XO (XO (XO (XO
              (XO (XO (XO (XO XH))))))))))))))))))))))))))))))))) N0)) e_zero
        (bind (rd_le l (Npos (XO (XO XH))) (Npos (XO (XO XH))))
          (fun header ->
          guard
            (negb
              (N.eqb
                (N.coq_land header (Npos (XO (XO (XO (XO (XO (XO (XO (XO (XO
                  (XO (XO (XO (XO (XO (XO (XO (XO (XO (XO (XO (XO (XO (XO (XO
                  (XO (XO (XO (XO (XI (XI (XI
                  XH))))))))))))))))))))))))))))))))) (Npos (XO (XO (XO (XO
                (XO (XO (XO (XO (XO (XO (XO (XO (XO (XO (XO (XO (XO (XO (XO
                (XO (XO (XO (XO (XO (XO (XO (XO (XO (XO (XO (XO
                XH)))))))))))))))))))))))))))))))))) e_hdr
            (bind (rd_le l (Npos (XO (XO (XO XH)))) (Npos (XO (XO XH))))
              (fun ts ->
              bind (rd_le l (Npos (XO (XO (XI XH)))) (Npos (XO (XO XH))))
                (fun outc ->
                bind
                  (rd_le l (Npos (XO (XO (XO (XO XH))))) (Npos (XO (XO XH))))
                  (fun inc ->
                  guard (N.ltb inc outc) e_in
                    (bind
                      (rd_le l (Npos (XO (XO (XI (XO XH))))) (Npos (XO (XO
                        XH)))) (fun pulser ->
                      bind
                        (rd_le l (Npos (XO (XO (XO (XI XH))))) (Npos (XO (XO
                          XH)))) (fun trigbm ->
                        bind
                          (rd_le l (Npos (XO (XO (XI (XI XH))))) (Npos (XO
                            (XO XH)))) (fun nim ->
                          bind
                            (rd_le l (Npos (XO (XO (XO (XO (XO XH)))))) (Npos
                              (XO (XO XH)))) (fun esata ->
                            bind
                              (rd_le l (Npos (XO (XO (XI (XO (XO XH))))))
                                (Npos (XO (XO XH)))) (fun d36 ->
                              guard
                                (negb
                                  (N.eqb
                                    (N.coq_land d36 (Npos (XO (XO (XO (XO (XO
                                      (XO (XO (XO (XO (XO (XO (XO (XO (XO (XO
                                      (XO (XI (XI (XI (XI (XI (XI (XI (XI (XI
                                      (XI (XI (XI (XI (XI
                                      XH)))))))))))))))))))))))))))))))) N0))
                                e_zero
                                (let mlu =
                                   negb
                                     (N.eqb
                                       (N.coq_land d36 (Npos (XO (XO (XO (XO
                                         (XO (XO (XO (XO (XO (XO (XO (XO (XO
                                         (XO (XO (XO (XO (XO (XO (XO (XO (XO
                                         (XO (XO (XO (XO (XO (XO (XO (XO (XO
                                         XH)))))))))))))))))))))))))))))))))
                                       N0)
                                 in
                                 let aw16p =
                                   N.coq_land d36 (Npos (XI (XI (XI (XI (XI
                                     (XI (XI (XI (XI (XI (XI (XI (XI (XI (XI
                                     XH))))))))))))))))
                                 in
                                 bind
                                   (rd_le l (Npos (XO (XO (XO (XI (XO
                                     XH)))))) (Npos (XO (XO XH))))
                                   (fun drift ->
                                   guard
                                     ((||) (N.ltb inc drift)
                                       (N.ltb drift outc)) e_drift
                                     (bind
                                       (rd_le l (Npos (XO (XO (XI (XI (XO
                                         XH)))))) (Npos (XO (XO XH))))
                                       (fun scaled ->
                                       guard
                                         ((||) (N.ltb drift scaled)
                                           (N.ltb scaled outc)) e_scaled
                                         (bind
                                           (rd_le l (Npos (XO (XO (XO (XO (XI
                                             XH)))))) (Npos (XO (XO XH))))
                                           (fun z48 ->
                                           guard (negb (N.eqb z48 N0)) e_zero
                                             (bind
                                               (rd_le l (Npos (XO (XO (XI (XO
                                                 (XI XH)))))) (Npos (XO (XO
                                                 XH)))) (fun d52 ->
                                               guard
                                                 (negb
                                                   (N.eqb
                                                     (N.coq_land d52 (Npos
                                                       (XO (XO (XO (XO (XO
                                                       (XO (XO (XO (XO (XO
                                                       (XO (XO (XO (XO (XO
                                                       (XO (XO (XO (XO (XO
                                                       (XO (XO (XO (XO (XI
                                                       (XI (XI (XI (XI (XI
                                                       (XI
                                                       XH)))))))))))))))))))))))))))))))))
                                                     N0)) e_zero
                                                 (bind
                                                   (let v =
                                                      N.shiftr d52 (Npos (XO
                                                        (XO (XO (XO XH)))))
                                                    in
                                                    if N.ltb v (Npos (XO (XO
                                                         (XO (XO (XO (XO (XO
                                                         (XO XH)))))))))
                                                    then Ok v
                                                    else Panic) (fun aw16m ->
                                                   let aw16b =
                                                     N.coq_land d52 (Npos (XI
                                                       (XI (XI (XI (XI (XI
                                                       (XI (XI (XI (XI (XI
                                                       (XI (XI (XI (XI
                                                       XH))))))))))))))))
                                                   in
                                                   bind
                                                     (rd_le l (Npos (XO (XO
                                                       (XO (XI (XI XH))))))
                                                       (Npos (XO (XO (XO
                                                       XH))))) (fun bsc ->
                                                     bind
                                                       (rd_le l (Npos (XO (XO
                                                         (XO (XO (XO (XO
                                                         XH))))))) (Npos (XO
                                                         (XO XH))))
                                                       (fun d64 ->
                                                       guard
                                                         (negb
                                                           (N.eqb
                                                             (N.coq_land d64
                                                               (Npos (XO (XO
                                                               (XO (XO (XO
                                                               (XO (XO (XO
                                                               (XI (XI (XI
                                                               (XI (XI (XI
                                                               (XI (XI (XI
                                                               (XI (XI (XI
                                                               (XI (XI (XI
                                                               (XI (XI (XI
                                                               (XI (XI (XI
                                                               (XI (XI
                                                               XH)))))))))))))))))))))))))))))))))
                                                             N0)) e_zero
                                                         (let bscm =
                                                            N.coq_land d64
                                                              (Npos (XI (XI
                                                              (XI (XI (XI (XI
                                                              (XI XH))))))))
                                                          in
                                                          bind
                                                            (rd_le l (Npos
                                                              (XO (XO (XI (XO
                                                              (XO (XO
                                                              XH))))))) (Npos
                                                              (XO (XO XH))))
                                                            (fun d68 ->
                                                            guard
                                                              (negb
                                                                (N.eqb
                                                                  (N.coq_land
                                                                    d68 (Npos
                                                                    (XO (XO
                                                                    (XO (XO
                                                                    (XO (XO
                                                                    (XO (XO
                                                                    (XI (XI
                                                                    (XI (XI
                                                                    (XI (XI
                                                                    (XI (XI
                                                                    (XI (XI
                                                                    (XI (XI
                                                                    (XI (XI
                                                                    (XI (XI
                                                                    (XI (XI
                                                                    (XI (XI
                                                                    (XI (XI
                                                                    (XI
                                                                    XH)))))))))))))))))))))))))))))))))
                                                                  N0)) e_zero
                                                              (let coin =
                                                                 N.coq_land
                                                                   d68 (Npos
                                                                   (XI (XI
                                                                   (XI (XI
                                                                   (XI (XI
                                                                   (XI
                                                                   XH))))))))
                                                               in
                                                               bind
                                                                 (rd_le l
                                                                   (Npos (XO
                                                                   (XO (XO
                                                                   (XI (XO
                                                                   (XO
                                                                   XH)))))))
                                                                   (Npos (XO
                                                                   (XO XH))))
                                                                 (fun fw ->
                                                                 bind
                                                                   (rd_le l
                                                                    (Npos (XO
                                                                    (XO (XI
                                                                    (XI (XO
                                                                    (XO
                                                                    XH)))))))
                                                                    (Npos (XO
                                                                    (XO XH))))
                                                                   (fun footer ->
                                                                   guard
                                                                    (negb
                                                                    (N.eqb
                                                                    (N.coq_land
                                                                    footer
                                                                    (Npos (XO
                                                                    (XO (XO
                                                                    (XO (XO
                                                                    (XO (XO
                                                                    (XO (XO
                                                                    (XO (XO
                                                                    (XO (XO
                                                                    (XO (XO
                                                                    (XO (XO
                                                                    (XO (XO
                                                                    (XO (XO
                                                                    (XO (XO
                                                                    (XO (XO
                                                                    (XO (XO
                                                                    (XO (XI
                                                                    (XI (XI
                                                                    XH)))))))))))))))))))))))))))))))))
                                                                    (Npos (XO
                                                                    (XO (XO
                                                                    (XO (XO
                                                                    (XO (XO
                                                                    (XO (XO
                                                                    (XO (XO
                                                                    (XO (XO
                                                                    (XO (XO
                                                                    (XO (XO
                                                                    (XO (XO
                                                                    (XO (XO
                                                                    (XO (XO
                                                                    (XO (XO
                                                                    (XO (XO
                                                                    (XO (XO
                                                                    (XI (XI
                                                                    XH))))))))))))))))))))))))))))))))))
                                                                    e_ftr
                                                                    (guard
                                                                    ((||)
                                                                    (negb
                                                                    (N.eqb
                                                                    (N.coq_land
                                                                    header
                                                                    (Npos (XI
                                                                    (XI (XI
                                                                    (XI (XI
                                                                    (XI (XI
                                                                    (XI (XI
                                                                    (XI (XI
                                                                    (XI (XI
                                                                    (XI (XI
                                                                    (XI (XI
                                                                    (XI (XI
                                                                    (XI (XI
                                                                    (XI (XI
                                                                    (XI (XI
                                                                    (XI (XI
                                                                    XH)))))))))))))))))))))))))))))
                                                                    (N.coq_land
                                                                    footer
                                                                    (Npos (XI
                                                                    (XI (XI
                                                                    (XI (XI
                                                                    (XI (XI
                                                                    (XI (XI
                                                                    (XI (XI
                                                                    (XI (XI
                                                                    (XI (XI
                                                                    (XI (XI
                                                                    (XI (XI
                                                                    (XI (XI
                                                                    (XI (XI
                                                                    (XI (XI
                                                                    (XI (XI
                                                                    XH)))))))))))))))))))))))))))))))
                                                                    (negb
                                                                    (N.eqb
                                                                    (N.coq_land
                                                                    header
                                                                    (Npos (XI
                                                                    (XI (XI
                                                                    (XI (XI
                                                                    (XI (XI
                                                                    (XI (XI
                                                                    (XI (XI
                                                                    (XI (XI
                                                                    (XI (XI
                                                                    (XI (XI
                                                                    (XI (XI
                                                                    (XI (XI
                                                                    (XI (XI
                                                                    (XI (XI
                                                                    (XI (XI
                                                                    XH)))))))))))))))))))))))))))))
                                                                    (N.coq_land
                                                                    outc
                                                                    (Npos (XI
                                                                    (XI (XI
                                                                    (XI (XI
                                                                    (XI (XI
                                                                    (XI (XI
                                                                    (XI (XI
                                                                    (XI (XI
                                                                    (XI (XI
                                                                    (XI (XI
                                                                    (XI (XI
                                                                    (XI (XI
                                                                    (XI (XI
                                                                    (XI (XI
                                                                    (XI (XI
                                                                    XH))))))))))))))))))))))))))))))))
                                                                    e_out (Ok
                                                                    { t_udp =
                                                                    udp;
                                                                    t_ts =
                                                                    ts;
                                                                    t_out =
                                                                    outc;
                                                                    t_in =
                                                                    inc;
                                                                    t_pulser =
                                                                    pulser;
                                                                    t_trigbm =
                                                                    trigbm;
                                                                    t_nim =
                                                                    nim;
                                                                    t_esata =
                                                                    esata;
                                                                    t_mlu =
                                                                    mlu;
                                                                    t_aw16p =
                                                                    aw16p;
                                                                    t_drift =
                                                                    drift;
                                                                    t_scaled =
                                                                    scaled;
                                                                    t_aw16m =
                                                                    aw16m;
                                                                    t_aw16b =
                                                                    aw16b;
                                                                    t_bsc =
                                                                    bsc;
                                                                    t_bscm =
                                                                    bscm;
                                                                    t_coin =
                                                                    coin;
                                                                    t_fw =
                                                                    fw })))))))))))))))))))))))))))))))))

(** val e32 : n -> n list **)

let e32 x =
  le_enc (S (S (S (S O)))) x

(** val trg_encode : trg -> n list **)

let trg_encode p =
  app (e32 p.t_udp)
    (app
      (e32
        (N.add (Npos (XO (XO (XO (XO (XO (XO (XO (XO (XO (XO (XO (XO (XO (XO
          (XO (XO (XO (XO (XO (XO (XO (XO (XO (XO (XO (XO (XO (XO (XO (XO (XO
          XH))))))))))))))))))))))))))))))))
          (N.modulo p.t_out (Npos (XO (XO (XO (XO (XO (XO (XO (XO (XO (XO (XO
            (XO (XO (XO (XO (XO (XO (XO (XO (XO (XO (XO (XO (XO (XO (XO (XO
            (XO XH))))))))))))))))))))))))))))))))
      (app (e32 p.t_ts)
        (app (e32 p.t_out)
          (app (e32 p.t_in)
            (app (e32 p.t_pulser)
              (app (e32 p.t_trigbm)
                (app (e32 p.t_nim)
                  (app (e32 p.t_esata)
                    (app
                      (e32
                        (N.add
                          (if p.t_mlu
                           then Npos (XO (XO (XO (XO (XO (XO (XO (XO (XO (XO
                                  (XO (XO (XO (XO (XO (XO (XO (XO (XO (XO (XO
                                  (XO (XO (XO (XO (XO (XO (XO (XO (XO (XO
                                  XH)))))))))))))))))))))))))))))))
                           else N0) p.t_aw16p))
                      (app (e32 p.t_drift)
                        (app (e32 p.t_scaled)
                          (app (e32 N0)
                            (app
                              (e32
                                (N.add
                                  (N.mul p.t_aw16m (Npos (XO (XO (XO (XO (XO
                                    (XO (XO (XO (XO (XO (XO (XO (XO (XO (XO
                                    (XO XH)))))))))))))))))) p.t_aw16b))
                              (app
                                (le_enc (S (S (S (S (S (S (S (S O))))))))
                                  p.t_bsc)
                                (app (e32 p.t_bscm)
                                  (app (e32 p.t_coin)
                                    (app (e32 p.t_fw)
                                      (e32
                                        (N.add (Npos (XO (XO (XO (XO (XO (XO
                                          (XO (XO (XO (XO (XO (XO (XO (XO (XO
                                          (XO (XO (XO (XO (XO (XO (XO (XO (XO
                                          (XO (XO (XO (XO (XO (XI (XI
                                          XH))))))))))))))))))))))))))))))))
                                          (N.modulo p.t_out (Npos (XO (XO (XO
                                            (XO (XO (XO (XO (XO (XO (XO (XO
                                            (XO (XO (XO (XO (XO (XO (XO (XO
                                            (XO (XO (XO (XO (XO (XO (XO (XO
                                            (XO
                                            XH)))))))))))))))))))))))))))))))))))))))))))))))))

(** val trg_obs : trg -> n list **)

let trg_obs p =
  p.t_udp :: (p.t_ts :: (p.t_out :: (p.t_in :: (p.t_pulser :: (p.t_trigbm :: (p.t_nim :: (p.t_esata :: ((
    if p.t_mlu then Npos XH else N0) :: (p.t_aw16p :: (p.t_drift :: (p.t_scaled :: (p.t_aw16m :: (p.t_aw16b :: (p.t_bsc :: (p.t_bscm :: (p.t_coin :: (p.t_fw :: [])))))))))))))))))

type entry =
| TS of n * bool * n
| MK of bool * n

(** val nUM_INPUT_CHANNELS : n **)

let nUM_INPUT_CHANNELS =
  Npos (XI (XI (XO (XI (XI XH)))))

(** val word : n -> n -> n -> n -> entry option **)

let word b0 b1 b2 b3 =
  let temp =
    N.add
      (N.add b0 (N.mul (Npos (XO (XO (XO (XO (XO (XO (XO (XO XH))))))))) b1))
      (N.mul (Npos (XO (XO (XO (XO (XO (XO (XO (XO (XO (XO (XO (XO (XO (XO
        (XO (XO XH))))))))))))))))) b2)
  in
  if (&&)
       (N.eqb (N.coq_land b3 (Npos (XO (XO (XO (XO (XO (XO (XO XH)))))))))
         (Npos (XO (XO (XO (XO (XO (XO (XO XH)))))))))
       (N.ltb (N.coq_land b3 (Npos (XI (XI (XI (XI (XI (XI XH))))))))
         nUM_INPUT_CHANNELS)
  then Some (TS ((N.coq_land b3 (Npos (XI (XI (XI (XI (XI (XI XH)))))))),
         (N.eqb (N.coq_land temp (Npos XH)) (Npos XH)),
         (N.coq_land temp (Npos (XO (XI (XI (XI (XI (XI (XI (XI (XI (XI (XI
           (XI (XI (XI (XI (XI (XI (XI (XI (XI (XI (XI (XI
           XH)))))))))))))))))))))))))))
  else if N.eqb b3 (Npos (XI (XI (XI (XI (XI (XI (XI XH))))))))
       then Some (MK
              ((N.eqb
                 (N.coq_land temp (Npos (XO (XO (XO (XO (XO (XO (XO (XO (XO
                   (XO (XO (XO (XO (XO (XO (XO (XO (XO (XO (XO (XO (XO (XO
                   XH))))))))))))))))))))))))) (Npos (XO (XO (XO (XO (XO (XO
                 (XO (XO (XO (XO (XO (XO (XO (XO (XO (XO (XO (XO (XO (XO (XO
                 (XO (XO XH))))))))))))))))))))))))),
              (N.coq_land temp (Npos (XI (XI (XI (XI (XI (XI (XI (XI (XI (XI
                (XI (XI (XI (XI (XI (XI (XI (XI (XI (XI (XI (XI
                XH))))))))))))))))))))))))))
       else None

type elem =
| E of entry
| Scalers

(** val sCALERS_BODY : n **)

let sCALERS_BODY =
  N.add (N.mul nUM_INPUT_CHANNELS (Npos (XO (XO XH)))) (Npos (XO (XO XH)))

(** val next : n list -> (elem * n list) option **)

let next = function
| [] -> None
| b0 :: l0 ->
  (match l0 with
   | [] -> None
   | b1 :: l1 ->
     (match l1 with
      | [] -> None
      | b2 :: l2 ->
        (match l2 with
         | [] -> None
         | b3 :: r ->
           (match word b0 b1 b2 b3 with
            | Some e0 -> Some ((E e0), r)
            | None ->
              if (&&)
                   ((&&)
                     ((&&)
                       ((&&) (N.eqb b0 (Npos (XO (XO (XI (XI (XI XH)))))))
                         (N.eqb b1 N0)) (N.eqb b2 N0))
                     (N.eqb b3 (Npos (XO (XI (XI (XI (XI (XI (XI XH))))))))))
                   (N.leb sCALERS_BODY (lenN r))
              then Some (Scalers, (dropN sCALERS_BODY r))
              else None))))

(** val parse : nat -> n list -> entry list * n list **)

let rec parse fuel l =
  match fuel with
  | O -> ([], l)
  | S f ->
    (match next l with
     | Some p ->
       let (e0, r) = p in
       (match e0 with
        | E e1 -> let (es, r') = parse f r in ((e1 :: es), r')
        | Scalers -> parse f r)
     | None -> ([], l))

(** val cb_fifo : n list -> entry list * n list **)

let cb_fifo l =
  parse (length l) l

(** val cb_feed : n list -> n list list -> entry list * n list **)

let rec cb_feed rem0 = function
| [] -> ([], rem0)
| p :: ps ->
  let (es, r) = cb_fifo (app rem0 p) in
  let (es', r') = cb_feed r ps in ((app es es'), r')

(** val entry_obs : entry -> n list **)

let entry_obs = function
| TS (c, tr, t) -> N0 :: (c :: ((if tr then Npos XH else N0) :: (t :: [])))
| MK (top, c) -> (Npos XH) :: ((if top then Npos XH else N0) :: (c :: []))

type adc_long = { al_mac : n list; al_offset : z; al_build : n;
                  al_wave : z list }

type adc = { a_trig : n; a_module : n; a_chan : n; a_req : n; a_ts : 
             n; a_long : adc_long option; a_baseline : z; a_keep_last : 
             n; a_keep_bit : bool; a_supp : bool }

(** val bASELINE_SAMPLES : n **)

let bASELINE_SAMPLES =
  Npos (XO (XO (XO (XO (XO (XO XH))))))

(** val mIN_KEEP_LAST : n **)

let mIN_KEEP_LAST =
  N.add (N.div (N.add bASELINE_SAMPLES (Npos (XO XH))) (Npos (XO XH))) (Npos
    XH)

(** val list_eqb : n list -> n list -> bool **)

let rec list_eqb a b =
  match a with
  | [] -> (match b with
           | [] -> true
           | _ :: _ -> false)
  | x :: a' ->
    (match b with
     | [] -> false
     | y :: b' -> (&&) (N.eqb x y) (list_eqb a' b'))

(** val mac_known : n list list -> n list -> bool **)

let mac_known macs mac =
  existsb (list_eqb mac) macs

(** val chunks2_be : n list -> z list **)

let rec chunks2_be = function
| [] -> []
| h :: l ->
  (match l with
   | [] -> []
   | lo :: t ->
     (to_signed (Npos (XO (XO (XO (XO XH))))) (be_val (h :: (lo :: [])))) :: 
       (chunks2_be t))

(** val iadd32 : ovf -> z -> z -> z res **)

let iadd32 m a b =
  let s = Z.add a b in
  if (&&)
       (Z.leb (Zneg (XO (XO (XO (XO (XO (XO (XO (XO (XO (XO (XO (XO (XO (XO
         (XO (XO (XO (XO (XO (XO (XO (XO (XO (XO (XO (XO (XO (XO (XO (XO (XO
         XH)))))))))))))))))))))))))))))))) s)
       (Z.leb s (Zpos (XI (XI (XI (XI (XI (XI (XI (XI (XI (XI (XI (XI (XI (XI
         (XI (XI (XI (XI (XI (XI (XI (XI (XI (XI (XI (XI (XI (XI (XI (XI
         XH))))))))))))))))))))))))))))))))
  then Ok s
  else (match m with
        | Checked -> Panic
        | Wrapping ->
          Ok
            (to_signed (Npos (XO (XO (XO (XO (XO XH))))))
              (of_signed (Npos (XO (XO (XO (XO (XO XH)))))) s)))

(** val isum32 : ovf -> z -> z list -> z res **)

let rec isum32 m acc = function
| [] -> Ok acc
| x :: t -> bind (iadd32 m acc x) (fun a -> isum32 m a t)

(** val i16_unwrap : z -> z res **)

let i16_unwrap z0 =
  if (&&)
       (Z.leb (Zneg (XO (XO (XO (XO (XO (XO (XO (XO (XO (XO (XO (XO (XO (XO
         (XO XH)))))))))))))))) z0)
       (Z.leb z0 (Zpos (XI (XI (XI (XI (XI (XI (XI (XI (XI (XI (XI (XI (XI
         (XI XH))))))))))))))))
  then Ok z0
  else Panic

(** val e : n **)

let e =
  Npos XH

(** val adc_decode : n list list -> ovf -> n list -> adc res **)

let adc_decode macs m l =
  let len = lenN l in
  guard (N.ltb len (Npos (XO (XO (XO (XO XH)))))) e
    (bind (idx l N0) (fun b0 ->
      guard (negb (N.eqb b0 (Npos XH))) e
        (bind (idx l (Npos XH)) (fun b1 ->
          guard (negb (N.eqb b1 (Npos (XI XH)))) e
            (bind (rd_be l (Npos (XO XH)) (Npos (XO XH))) (fun trig ->
              bind (idx l (Npos (XO (XO XH)))) (fun modid ->
                guard (N.ltb (Npos (XI (XI XH))) modid) e
                  (bind (idx l (Npos (XI (XO XH)))) (fun chan ->
                    guard
                      (if N.ltb chan (Npos (XO (XO (XO (XO (XO (XO (XO
                            XH))))))))
                       then N.ltb (Npos (XI (XI (XI XH)))) chan
                       else N.ltb (Npos (XI (XI (XI (XI XH)))))
                              (N.sub chan (Npos (XO (XO (XO (XO (XO (XO (XO
                                XH)))))))))) e
                      (bind (rd_be l (Npos (XO (XI XH))) (Npos (XO XH)))
                        (fun req ->
                        bind
                          (bind
                            (slice l (Npos (XO (XO (XO XH)))) (Npos (XO (XO
                              (XI XH))))) (fun s ->
                            arr (Npos (XO (XO XH))) s)) (fun lsw ->
                          bind
                            (usub m (Npos (XO (XO (XO (XO (XO (XO XH)))))))
                              len (Npos (XO XH))) (fun len2 ->
                            bind
                              (bind (slice_from l len2) (fun s ->
                                bind (arr (Npos (XO XH)) s) (fun a -> Ok
                                  (to_signed (Npos (XO (XO (XO (XO XH)))))
                                    (be_val a))))) (fun sb ->
                              bind
                                (usub m (Npos (XO (XO (XO (XO (XO (XO
                                  XH))))))) len (Npos (XO (XO XH))))
                                (fun len4 ->
                                bind
                                  (bind (slice_from l len4) (fun s ->
                                    bind (slice_to s (Npos (XO XH)))
                                      (fun s2 ->
                                      bind (arr (Npos (XO XH)) s2) (fun a ->
                                        Ok (be_val a))))) (fun footer ->
                                  let keep_last =
                                    N.coq_land footer (Npos (XI (XI (XI (XI
                                      (XI (XI (XI (XI (XI (XI (XI
                                      XH))))))))))))
                                  in
                                  let keep_bit =
                                    N.eqb
                                      (N.coq_land
                                        (N.shiftr footer (Npos (XO (XO (XI
                                          XH))))) (Npos XH)) (Npos XH)
                                  in
                                  let supp =
                                    N.eqb
                                      (N.coq_land
                                        (N.shiftr footer (Npos (XI (XO (XI
                                          XH))))) (Npos XH)) (Npos XH)
                                  in
                                  if N.eqb len (Npos (XO (XO (XO (XO XH)))))
                                  then guard (negb supp) e
                                         (guard keep_bit e
                                           (guard (negb (N.eqb keep_last N0))
                                             e (Ok { a_trig = trig;
                                             a_module = modid; a_chan = chan;
                                             a_req = req; a_ts =
                                             (be_val lsw); a_long = None;
                                             a_baseline = sb; a_keep_last =
                                             keep_last; a_keep_bit =
                                             keep_bit; a_supp = supp })))
                                  else guard
                                         (N.ltb len (Npos (XO (XO (XI (XO (XO
                                           XH))))))) e
                                         (bind
                                           (slice l (Npos (XO (XO (XI XH))))
                                             (Npos (XO (XI (XI XH)))))
                                           (fun z0 ->
                                           guard
                                             (negb
                                               (list_eqb z0
                                                 (N0 :: (N0 :: [])))) e
                                             (bind
                                               (bind
                                                 (slice l (Npos (XO (XI (XI
                                                   XH)))) (Npos (XO (XO (XI
                                                   (XO XH)))))) (fun s ->
                                                 arr (Npos (XO (XI XH))) s))
                                               (fun mac ->
                                               guard
                                                 (negb (mac_known macs mac))
                                                 e
                                                 (bind
                                                   (bind
                                                     (slice l (Npos (XO (XO
                                                       (XI (XO XH))))) (Npos
                                                       (XO (XO (XO (XI
                                                       XH)))))) (fun s ->
                                                     arr (Npos (XO (XO XH))) s))
                                                   (fun msw ->
                                                   bind
                                                     (arr (Npos (XO (XO (XO
                                                       XH)))) (app msw lsw))
                                                     (fun ets ->
                                                     bind
                                                       (rd_be l (Npos (XO (XO
                                                         (XO (XI XH)))))
                                                         (Npos (XO (XO XH))))
                                                       (fun off ->
                                                       bind
                                                         (rd_be l (Npos (XO
                                                           (XO (XI (XI
                                                           XH))))) (Npos (XO
                                                           (XO XH))))
                                                         (fun build ->
                                                         bind
                                                           (usub m (Npos (XO
                                                             (XO (XO (XO (XO
                                                             (XO XH)))))))
                                                             len (Npos (XO
                                                             (XO (XI (XO (XO
                                                             XH)))))))
                                                           (fun wb ->
                                                           guard
                                                             (negb
                                                               (N.eqb
                                                                 (N.modulo wb
                                                                   (Npos (XO
                                                                   XH))) N0))
                                                             e
                                                             (bind
                                                               (bind
                                                                 (slice_from
                                                                   l (Npos
                                                                   (XO (XO
                                                                   (XO (XO
                                                                   (XO
                                                                   XH)))))))
                                                                 (fun s ->
                                                                 slice_to s wb))
                                                               (fun ws ->
                                                               let wave =
                                                                 chunks2_be ws
                                                               in
                                                               let n0 =
                                                                 lenN wave
                                                               in
                                                               let max_samples =
                                                                 if N.leb
                                                                    (Npos (XO
                                                                    XH)) req
                                                                 then 
                                                                   N.sub req
                                                                    (Npos (XO
                                                                    XH))
                                                                 else N0
                                                               in
                                                               guard
                                                                 (N.ltb n0
                                                                   bASELINE_SAMPLES)
                                                                 e
                                                                 (bind
                                                                   (slice_to
                                                                    wave
                                                                    bASELINE_SAMPLES)
                                                                   (fun first ->
                                                                   bind
                                                                    (isum32 m
                                                                    Z0 first)
                                                                    (fun num ->
                                                                    let d =
                                                                    Z.quot
                                                                    num (Zpos
                                                                    (XO (XO
                                                                    (XO (XO
                                                                    (XO (XO
                                                                    XH)))))))
                                                                    in
                                                                    let data_baseline =
                                                                    if 
                                                                    Z.ltb
                                                                    (Z.rem
                                                                    num (Zpos
                                                                    (XO (XO
                                                                    (XO (XO
                                                                    (XO (XO
                                                                    XH))))))))
                                                                    Z0
                                                                    then 
                                                                    Z.sub d
                                                                    (Zpos XH)
                                                                    else d
                                                                    in
                                                                    if 
                                                                    negb
                                                                    (Z.eqb
                                                                    data_baseline
                                                                    sb)
                                                                    then 
                                                                    bind
                                                                    (i16_unwrap
                                                                    data_baseline)
                                                                    (fun _ ->
                                                                    Err e)
                                                                    else 
                                                                    let ok =
                                                                    Ok
                                                                    { a_trig =
                                                                    trig;
                                                                    a_module =
                                                                    modid;
                                                                    a_chan =
                                                                    chan;
                                                                    a_req =
                                                                    req;
                                                                    a_ts =
                                                                    (be_val
                                                                    ets);
                                                                    a_long =
                                                                    (Some
                                                                    { al_mac =
                                                                    mac;
                                                                    al_offset =
                                                                    (to_signed
                                                                    (Npos (XO
                                                                    (XO (XO
                                                                    (XO (XO
                                                                    XH))))))
                                                                    off);
                                                                    al_build =
                                                                    build;
                                                                    al_wave =
                                                                    wave });
                                                                    a_baseline =
                                                                    sb;
                                                                    a_keep_last =
                                                                    keep_last;
                                                                    a_keep_bit =
                                                                    keep_bit;
                                                                    a_supp =
                                                                    supp }
                                                                    in
                                                                    if supp
                                                                    then 
                                                                    guard
                                                                    (negb
                                                                    keep_bit)
                                                                    e
                                                                    (guard
                                                                    (N.ltb
                                                                    keep_last
                                                                    mIN_KEEP_LAST)
                                                                    e
                                                                    (bind
                                                                    (usub m
                                                                    (Npos (XO
                                                                    (XO (XO
                                                                    (XO (XO
                                                                    (XO
                                                                    XH)))))))
                                                                    keep_last
                                                                    (Npos XH))
                                                                    (fun k1 ->
                                                                    bind
                                                                    (umul m
                                                                    (Npos (XO
                                                                    (XO (XO
                                                                    (XO (XO
                                                                    (XO
                                                                    XH)))))))
                                                                    k1 (Npos
                                                                    (XO XH)))
                                                                    (fun k2 ->
                                                                    bind
                                                                    (usub m
                                                                    (Npos (XO
                                                                    (XO (XO
                                                                    (XO (XO
                                                                    (XO
                                                                    XH)))))))
                                                                    k2 (Npos
                                                                    (XO XH)))
                                                                    (fun last_index ->
                                                                    guard
                                                                    (N.leb n0
                                                                    last_index)
                                                                    e
                                                                    (guard
                                                                    (N.ltb
                                                                    max_samples
                                                                    n0) e ok))))))
                                                                    else 
                                                                    bind
                                                                    (if keep_bit
                                                                    then 
                                                                    guard
                                                                    (N.ltb
                                                                    keep_last
                                                                    mIN_KEEP_LAST)
                                                                    e
                                                                    (bind
                                                                    (usub m
                                                                    (Npos (XO
                                                                    (XO (XO
                                                                    (XO (XO
                                                                    (XO
                                                                    XH)))))))
                                                                    keep_last
                                                                    (Npos XH))
                                                                    (fun k1 ->
                                                                    bind
                                                                    (umul m
                                                                    (Npos (XO
                                                                    (XO (XO
                                                                    (XO (XO
                                                                    (XO
                                                                    XH)))))))
                                                                    k1 (Npos
                                                                    (XO XH)))
                                                                    (fun k2 ->
                                                                    bind
                                                                    (usub m
                                                                    (Npos (XO
                                                                    (XO (XO
                                                                    (XO (XO
                                                                    (XO
                                                                    XH)))))))
                                                                    k2 (Npos
                                                                    (XO XH)))
                                                                    (fun last_index ->
                                                                    guard
                                                                    (N.leb n0
                                                                    last_index)
                                                                    e (Ok ())))))
                                                                    else 
                                                                    guard
                                                                    (negb
                                                                    (N.eqb
                                                                    keep_last
                                                                    N0)) e
                                                                    (Ok ()))
                                                                    (fun _ ->
                                                                    guard
                                                                    (negb
                                                                    (N.eqb n0
                                                                    max_samples))
                                                                    e ok))))))))))))))))))))))))))))))))

(** val alpha16_boards : (n list * n list) list **)

let alpha16_boards =
  (((Npos (XO (XO (XO (XO (XI XH)))))) :: ((Npos (XI (XO (XO (XI (XI
    XH)))))) :: [])), ((Npos (XO (XO (XO (XI (XI (XO (XI XH)))))))) :: ((Npos
    (XO (XO (XO (XO (XO (XO (XO XH)))))))) :: ((Npos (XI (XO (XO (XI (XI
    XH)))))) :: ((Npos (XO (XO (XO (XI (XO (XI XH))))))) :: ((Npos (XI (XI
    (XI (XO (XI XH)))))) :: ((Npos (XO (XO (XI (XI (XO (XO
    XH))))))) :: []))))))) :: ((((Npos (XI (XO (XO (XO (XI XH)))))) :: ((Npos
    (XO (XO (XO (XO (XI XH)))))) :: [])), ((Npos (XO (XO (XO (XI (XI (XO (XI
    XH)))))))) :: ((Npos (XO (XO (XO (XO (XO (XO (XO XH)))))))) :: ((Npos (XI
    (XO (XO (XI (XI XH)))))) :: ((Npos (XO (XO (XO (XI (XO (XI
    XH))))))) :: ((Npos (XO (XI (XO (XI (XO (XI (XO XH)))))))) :: ((Npos (XI
    (XO (XI (XO (XO XH)))))) :: []))))))) :: ((((Npos (XI (XO (XO (XO (XI
    XH)))))) :: ((Npos (XI (XO (XO (XO (XI XH)))))) :: [])), ((Npos (XO (XO
    (XO (XI (XI (XO (XI XH)))))))) :: ((Npos (XO (XO (XO (XO (XO (XO (XO
    XH)))))))) :: ((Npos (XI (XO (XO (XI (XI XH)))))) :: ((Npos (XO (XO (XO
    (XI (XO (XI XH))))))) :: ((Npos (XO (XO (XI (XI (XO (XI (XO
    XH)))))))) :: ((Npos (XI (XI (XI (XI (XI (XI
    XH))))))) :: []))))))) :: ((((Npos (XI (XO (XO (XO (XI XH)))))) :: ((Npos
    (XO (XI (XO (XO (XI XH)))))) :: [])), ((Npos (XO (XO (XO (XI (XI (XO (XI
    XH)))))))) :: ((Npos (XO (XO (XO (XO (XO (XO (XO XH)))))))) :: ((Npos (XI
    (XO (XO (XI (XI XH)))))) :: ((Npos (XO (XO (XO (XI (XO (XI
    XH))))))) :: ((Npos (XI (XI (XI (XI (XO (XO XH))))))) :: ((Npos (XI (XI
    (XI (XO (XO (XI (XO XH)))))))) :: []))))))) :: ((((Npos (XI (XO (XO (XO
    (XI XH)))))) :: ((Npos (XI (XI (XO (XO (XI XH)))))) :: [])), ((Npos (XO
    (XO (XO (XI (XI (XO (XI XH)))))))) :: ((Npos (XO (XO (XO (XO (XO (XO (XO
    XH)))))))) :: ((Npos (XI (XO (XO (XI (XI XH)))))) :: ((Npos (XO (XO (XO
    (XI (XO (XI XH))))))) :: ((Npos (XO (XI (XO (XI (XO (XO (XI
    XH)))))))) :: ((Npos (XO (XI (XI (XO (XO (XI (XO
    XH)))))))) :: []))))))) :: ((((Npos (XI (XO (XO (XO (XI
    XH)))))) :: ((Npos (XO (XO (XI (XO (XI XH)))))) :: [])), ((Npos (XO (XO
    (XO (XI (XI (XO (XI XH)))))))) :: ((Npos (XO (XO (XO (XO (XO (XO (XO
    XH)))))))) :: ((Npos (XI (XO (XO (XI (XI XH)))))) :: ((Npos (XO (XO (XO
    (XI (XO (XI XH))))))) :: ((Npos (XO (XI (XI (XI (XO (XO (XO
    XH)))))))) :: ((Npos (XO (XI (XO (XO (XO (XO (XO
    XH)))))))) :: []))))))) :: ((((Npos (XI (XO (XO (XO (XI
    XH)))))) :: ((Npos (XO (XI (XI (XO (XI XH)))))) :: [])), ((Npos (XO (XO
    (XO (XI (XI (XO (XI XH)))))))) :: ((Npos (XO (XO (XO (XO (XO (XO (XO
    XH)))))))) :: ((Npos (XI (XO (XO (XI (XI XH)))))) :: ((Npos (XO (XO (XO
    (XI (XO (XI XH))))))) :: ((Npos (XI (XI (XI (XI (XO (XI
    XH))))))) :: ((Npos (XO (XI (XO (XO (XO (XI (XO
    XH)))))))) :: []))))))) :: ((((Npos (XI (XO (XO (XO (XI
    XH)))))) :: ((Npos (XO (XO (XO (XI (XI XH)))))) :: [])), ((Npos (XO (XO
    (XO (XI (XI (XO (XI XH)))))))) :: ((Npos (XO (XO (XO (XO (XO (XO (XO
    XH)))))))) :: ((Npos (XI (XO (XO (XI (XI XH)))))) :: ((Npos (XO (XO (XO
    (XI (XO (XI XH))))))) :: ((Npos (XO (XI (XI (XI (XO (XO (XO
    XH)))))))) :: ((Npos (XO (XI (XO (XO (XI (XO
    XH))))))) :: []))))))) :: [])))))))

(** val padwing_boards : ((n list * n list) * n) list **)

let padwing_boards =
  ((((Npos (XO (XO (XO (XO (XI XH)))))) :: ((Npos (XO (XO (XO (XO (XI
    XH)))))) :: [])), ((Npos (XO (XO (XI (XI (XO (XI (XI XH)))))))) :: ((Npos
    (XO (XO (XO (XI (XO XH)))))) :: ((Npos (XI (XI (XI (XI (XI (XI (XI
    XH)))))))) :: ((Npos (XI (XI (XI (XO (XO (XO (XO XH)))))))) :: ((Npos (XO
    (XO (XI (XO (XI (XO XH))))))) :: ((Npos (XO XH)) :: []))))))), (Npos (XO
    (XO (XI (XI (XO (XI (XI (XI (XO (XO (XO (XI (XO (XI (XO (XO (XI (XI (XI
    (XI (XI (XI (XI (XI (XI (XI (XI (XO (XO (XO (XO
    XH))))))))))))))))))))))))))))))))) :: (((((Npos (XO (XO (XO (XO (XI
    XH)))))) :: ((Npos (XI (XO (XO (XO (XI XH)))))) :: [])), ((Npos (XO (XO
    (XI (XI (XO (XI (XI XH)))))))) :: ((Npos (XO (XO (XO (XI (XO
    XH)))))) :: ((Npos (XO (XI (XO (XI (XI (XI (XI XH)))))))) :: ((Npos (XO
    (XI (XO (XO (XO (XI (XO XH)))))))) :: ((Npos (XO (XO (XI (XO (XI (XO
    XH))))))) :: ((Npos (XO XH)) :: []))))))), (Npos (XO (XO (XI (XI (XO (XI
    (XI (XI (XO (XO (XO (XI (XO (XI (XO (XO (XO (XI (XO (XI (XI (XI (XI (XI
    (XO (XI (XO (XO (XO (XI (XO
    XH))))))))))))))))))))))))))))))))) :: (((((Npos (XO (XO (XO (XO (XI
    XH)))))) :: ((Npos (XO (XI (XO (XO (XI XH)))))) :: [])), ((Npos (XO (XO
    (XI (XI (XO (XI (XI XH)))))))) :: ((Npos (XO (XO (XO (XI (XO
    XH)))))) :: ((Npos (XO (XO (XO (XI (XO (XO (XO XH)))))))) :: ((Npos (XO
    (XO (XI (XI (XO (XI XH))))))) :: ((Npos (XO (XO (XI (XO (XI (XO
    XH))))))) :: ((Npos (XO XH)) :: []))))))), (Npos (XO (XO (XI (XI (XO (XI
    (XI (XI (XO (XO (XO (XI (XO (XI (XO (XO (XO (XO (XO (XI (XO (XO (XO (XI
    (XO (XO (XI (XI (XO (XI XH)))))))))))))))))))))))))))))))) :: (((((Npos
    (XO (XO (XO (XO (XI XH)))))) :: ((Npos (XI (XI (XO (XO (XI
    XH)))))) :: [])), ((Npos (XO (XO (XI (XI (XO (XI (XI XH)))))))) :: ((Npos
    (XO (XO (XO (XI (XO XH)))))) :: ((Npos (XO (XI (XO (XO (XO (XI (XI
    XH)))))))) :: ((Npos (XI (XO (XO (XO (XI XH)))))) :: ((Npos (XO (XO (XI
    (XO (XI (XO XH))))))) :: ((Npos (XO XH)) :: []))))))), (Npos (XO (XO (XI
    (XI (XO (XI (XI (XI (XO (XO (XO (XI (XO (XI (XO (XO (XO (XI (XO (XO (XO
    (XI (XI (XI (XI (XO (XO (XO (XI
    XH))))))))))))))))))))))))))))))) :: (((((Npos (XO (XO (XO (XO (XI
    XH)))))) :: ((Npos (XO (XO (XI (XO (XI XH)))))) :: [])), ((Npos (XO (XO
    (XI (XI (XO (XI (XI XH)))))))) :: ((Npos (XI (XO (XO (XI (XO
    XH)))))) :: ((Npos (XO (XO (XI XH)))) :: ((Npos (XI (XO (XO (XI (XI (XI
    XH))))))) :: ((Npos (XO (XO (XI (XO (XI (XO XH))))))) :: ((Npos (XO
    XH)) :: []))))))), (Npos (XO (XO (XI (XI (XO (XI (XI (XI (XI (XO (XO (XI
    (XO (XI (XO (XO (XO (XO (XI (XI (XO (XO (XO (XO (XI (XO (XO (XI (XI (XI
    XH)))))))))))))))))))))))))))))))) :: (((((Npos (XO (XO (XO (XO (XI
    XH)))))) :: ((Npos (XI (XO (XI (XO (XI XH)))))) :: [])), ((Npos (XO (XO
    (XI (XI (XO (XI (XI XH)))))))) :: ((Npos (XO (XO (XO (XI (XO
    XH)))))) :: ((Npos (XI (XI (XO (XO (XI (XO (XI XH)))))))) :: ((Npos (XI
    (XO (XI (XO (XO (XO XH))))))) :: ((Npos (XO (XO (XI (XO (XI (XO
    XH))))))) :: ((Npos (XO XH)) :: []))))))), (Npos (XO (XO (XI (XI (XO (XI
    (XI (XI (XO (XO (XO (XI (XO (XI (XO (XO (XI (XI (XO (XO (XI (XO (XI (XI
    (XI (XO (XI (XO (XO (XO XH)))))))))))))))))))))))))))))))) :: (((((Npos
    (XO (XO (XO (XO (XI XH)))))) :: ((Npos (XO (XI (XI (XO (XI
    XH)))))) :: [])), ((Npos (XO (XO (XI (XI (XO (XI (XI XH)))))))) :: ((Npos
    (XO (XO (XO (XI (XO XH)))))) :: ((Npos (XO (XI (XO (XI (XI (XO (XI
    XH)))))))) :: ((Npos (XO (XI XH))) :: ((Npos (XO (XO (XI (XO (XI (XO
    XH))))))) :: ((Npos (XO XH)) :: []))))))), (Npos (XO (XO (XI (XI (XO (XI
    (XI (XI (XO (XO (XO (XI (XO (XI (XO (XO (XO (XI (XO (XI (XI (XO (XI (XI
    (XO (XI XH)))))))))))))))))))))))))))) :: (((((Npos (XO (XO (XO (XO (XI
    XH)))))) :: ((Npos (XI (XI (XI (XO (XI XH)))))) :: [])), ((Npos (XO (XO
    (XI (XI (XO (XI (XI XH)))))))) :: ((Npos (XO (XO (XO (XI (XO
    XH)))))) :: ((Npos (XO (XO (XI (XO (XI (XI XH))))))) :: ((Npos (XO (XO
    (XI (XO (XO (XI (XO XH)))))))) :: ((Npos (XO (XO (XI (XO (XI (XO
    XH))))))) :: ((Npos (XO XH)) :: []))))))), (Npos (XO (XO (XI (XI (XO (XI
    (XI (XI (XO (XO (XO (XI (XO (XI (XO (XO (XO (XO (XI (XO (XI (XI (XI (XO
    (XO (XO (XI (XO (XO (XI (XO
    XH))))))))))))))))))))))))))))))))) :: (((((Npos (XO (XO (XO (XO (XI
    XH)))))) :: ((Npos (XO (XO (XO (XI (XI XH)))))) :: [])), ((Npos (XO (XO
    (XI (XI (XO (XI (XI XH)))))))) :: ((Npos (XO (XO (XO (XI (XO
    XH)))))) :: ((Npos (XI (XO (XI (XI (XI (XI (XI XH)))))))) :: ((Npos (XI
    (XI (XO (XI (XO (XO (XO XH)))))))) :: ((Npos (XO (XO (XI (XO (XI (XO
    XH))))))) :: ((Npos (XO XH)) :: []))))))), (Npos (XO (XO (XI (XI (XO (XI
    (XI (XI (XO (XO (XO (XI (XO (XI (XO (XO (XI (XO (XI (XI (XI (XI (XI (XI
    (XI (XI (XO (XI (XO (XO (XO
    XH))))))))))))))))))))))))))))))))) :: (((((Npos (XI (XO (XO (XO (XI
    XH)))))) :: ((Npos (XO (XO (XO (XO (XI XH)))))) :: [])), ((Npos (XO (XO
    (XI (XI (XO (XI (XI XH)))))))) :: ((Npos (XO (XO (XO (XI (XO
    XH)))))) :: ((Npos (XO (XO (XO (XI (XI (XI (XI XH)))))))) :: ((Npos (XI
    (XI (XO (XI (XO (XO XH))))))) :: ((Npos (XO (XO (XI (XO (XI (XO
    XH))))))) :: ((Npos (XO XH)) :: []))))))), (Npos (XO (XO (XI (XI (XO (XI
    (XI (XI (XO (XO (XO (XI (XO (XI (XO (XO (XO (XO (XO (XI (XI (XI (XI (XI
    (XI (XI (XO (XI (XO (XO XH)))))))))))))))))))))))))))))))) :: (((((Npos
    (XI (XO (XO (XO (XI XH)))))) :: ((Npos (XI (XO (XO (XO (XI
    XH)))))) :: [])), ((Npos (XO (XO (XI (XI (XO (XI (XI XH)))))))) :: ((Npos
    (XO (XO (XO (XI (XO XH)))))) :: ((Npos (XI (XO (XI (XO (XO (XO (XI
    XH)))))))) :: ((Npos (XI (XI (XO (XI (XI (XI (XO XH)))))))) :: ((Npos (XO
    (XO (XI (XO (XI (XO XH))))))) :: ((Npos (XO XH)) :: []))))))), (Npos (XO
    (XO (XI (XI (XO (XI (XI (XI (XO (XO (XO (XI (XO (XI (XO (XO (XI (XO (XI
    (XO (XO (XO (XI (XI (XI (XI (XO (XI (XI (XI (XO
    XH))))))))))))))))))))))))))))))))) :: (((((Npos (XI (XO (XO (XO (XI
    XH)))))) :: ((Npos (XO (XI (XO (XO (XI XH)))))) :: [])), ((Npos (XO (XO
    (XI (XI (XO (XI (XI XH)))))))) :: ((Npos (XI (XO (XO (XI (XO
    XH)))))) :: ((Npos (XO (XI (XO (XO (XO XH)))))) :: ((Npos (XO (XI (XI (XI
    (XO (XO (XI XH)))))))) :: ((Npos (XO (XO (XI (XO (XI (XO
    XH))))))) :: ((Npos (XO XH)) :: []))))))), (Npos (XO (XO (XI (XI (XO (XI
    (XI (XI (XI (XO (XO (XI (XO (XI (XO (XO (XO (XI (XO (XO (XO (XI (XO (XO
    (XO (XI (XI (XI (XO (XO (XI
    XH))))))))))))))))))))))))))))))))) :: (((((Npos (XI (XO (XO (XO (XI
    XH)))))) :: ((Npos (XI (XI (XO (XO (XI XH)))))) :: [])), ((Npos (XO (XO
    (XI (XI (XO (XI (XI XH)))))))) :: ((Npos (XO (XO (XO (XI (XO
    XH)))))) :: ((Npos (XI (XI (XI (XI (XI (XO (XO XH)))))))) :: ((Npos (XO
    (XO (XI (XI (XI (XI (XI XH)))))))) :: ((Npos (XO (XO (XI (XO (XI (XO
    XH))))))) :: ((Npos (XO XH)) :: []))))))), (Npos (XO (XO (XI (XI (XO (XI
    (XI (XI (XO (XO (XO (XI (XO (XI (XO (XO (XI (XI (XI (XI (XI (XO (XO (XI
    (XO (XO (XI (XI (XI (XI (XI
    XH))))))))))))))))))))))))))))))))) :: (((((Npos (XI (XO (XO (XO (XI
    XH)))))) :: ((Npos (XO (XO (XI (XO (XI XH)))))) :: [])), ((Npos (XO (XO
    (XI (XI (XO (XI (XI XH)))))))) :: ((Npos (XI (XO (XO (XI (XO
    XH)))))) :: ((Npos (XO (XO (XI (XI (XO XH)))))) :: ((Npos (XO (XO (XI (XO
    (XI XH)))))) :: ((Npos (XO (XO (XI (XO (XI (XO XH))))))) :: ((Npos (XO
    XH)) :: []))))))), (Npos (XO (XO (XI (XI (XO (XI (XI (XI (XI (XO (XO (XI
    (XO (XI (XO (XO (XO (XO (XI (XI (XO (XI (XO (XO (XO (XO (XI (XO (XI
    XH))))))))))))))))))))))))))))))) :: (((((Npos (XI (XO (XO (XO (XI
    XH)))))) :: ((Npos (XI (XO (XI (XO (XI XH)))))) :: [])), ((Npos (XO (XO
    (XI (XI (XO (XI (XI XH)))))))) :: ((Npos (XO (XO (XO (XI (XO
    XH)))))) :: ((Npos (XI (XI (XO (XI (XI (XO (XI XH)))))))) :: ((Npos (XO
    (XO (XI (XI (XI XH)))))) :: ((Npos (XO (XO (XI (XO (XI (XO
    XH))))))) :: ((Npos (XO XH)) :: []))))))), (Npos (XO (XO (XI (XI (XO (XI
    (XI (XI (XO (XO (XO (XI (XO (XI (XO (XO (XI (XI (XO (XI (XI (XO (XI (XI
    (XO (XO (XI (XI (XI XH))))))))))))))))))))))))))))))) :: (((((Npos (XI
    (XO (XO (XO (XI XH)))))) :: ((Npos (XI (XI (XI (XO (XI XH)))))) :: [])),
    ((Npos (XO (XO (XI (XI (XO (XI (XI XH)))))))) :: ((Npos (XO (XO (XO (XI
    (XO XH)))))) :: ((Npos (XI (XO (XO (XI (XI (XO (XO XH)))))))) :: ((Npos
    (XI (XI (XI (XO (XO XH)))))) :: ((Npos (XO (XO (XI (XO (XI (XO
    XH))))))) :: ((Npos (XO XH)) :: []))))))), (Npos (XO (XO (XI (XI (XO (XI
    (XI (XI (XO (XO (XO (XI (XO (XI (XO (XO (XI (XO (XO (XI (XI (XO (XO (XI
    (XI (XI (XI (XO (XO XH))))))))))))))))))))))))))))))) :: (((((Npos (XI
    (XO (XO (XO (XI XH)))))) :: ((Npos (XO (XO (XO (XI (XI XH)))))) :: [])),
    ((Npos (XO (XO (XI (XI (XO (XI (XI XH)))))))) :: ((Npos (XO (XO (XO (XI
    (XO XH)))))) :: ((Npos (XO (XO (XI (XO (XO (XI (XI XH)))))))) :: ((Npos
    (XI (XI (XI (XO (XI (XO XH))))))) :: ((Npos (XO (XO (XI (XO (XI (XO
    XH))))))) :: ((Npos (XO XH)) :: []))))))), (Npos (XO (XO (XI (XI (XO (XI
    (XI (XI (XO (XO (XO (XI (XO (XI (XO (XO (XO (XO (XI (XO (XO (XI (XI (XI
    (XI (XI (XI (XO (XI (XO XH)))))))))))))))))))))))))))))))) :: (((((Npos
    (XI (XO (XO (XO (XI XH)))))) :: ((Npos (XI (XO (XO (XI (XI
    XH)))))) :: [])), ((Npos (XO (XO (XI (XI (XO (XI (XI XH)))))))) :: ((Npos
    (XO (XO (XO (XI (XO XH)))))) :: ((Npos (XO (XO (XI (XO (XI (XI
    XH))))))) :: ((Npos (XI (XO (XI (XI (XO (XI (XO XH)))))))) :: ((Npos (XO
    (XO (XI (XO (XI (XO XH))))))) :: ((Npos (XO XH)) :: []))))))), (Npos (XO
    (XO (XI (XI (XO (XI (XI (XI (XO (XO (XO (XI (XO (XI (XO (XO (XO (XO (XI
    (XO (XI (XI (XI (XO (XI (XO (XI (XI (XO (XI (XO
    XH))))))))))))))))))))))))))))))))) :: (((((Npos (XO (XI (XO (XO (XI
    XH)))))) :: ((Npos (XO (XO (XO (XO (XI XH)))))) :: [])), ((Npos (XO (XO
    (XI (XI (XO (XI (XI XH)))))))) :: ((Npos (XO (XO (XO (XI (XO
    XH)))))) :: ((Npos (XI (XI (XO (XI (XI (XO (XI XH)))))))) :: ((Npos (XO
    (XO (XO (XO (XI (XO XH))))))) :: ((Npos (XO (XO (XI (XO (XI (XO
    XH))))))) :: ((Npos (XO XH)) :: []))))))), (Npos (XO (XO (XI (XI (XO (XI
    (XI (XI (XO (XO (XO (XI (XO (XI (XO (XO (XI (XI (XO (XI (XI (XO (XI (XI
    (XO (XO (XO (XO (XI (XO XH)))))))))))))))))))))))))))))))) :: (((((Npos
    (XO (XI (XO (XO (XI XH)))))) :: ((Npos (XI (XO (XO (XO (XI
    XH)))))) :: [])), ((Npos (XO (XO (XI (XI (XO (XI (XI XH)))))))) :: ((Npos
    (XO (XO (XO (XI (XO XH)))))) :: ((Npos (XI (XO (XI (XI (XI (XO (XI
    XH)))))))) :: ((Npos (XO (XI (XO (XI XH))))) :: ((Npos (XO (XO (XI (XO
    (XI (XO XH))))))) :: ((Npos (XO XH)) :: []))))))), (Npos (XO (XO (XI (XI
    (XO (XI (XI (XI (XO (XO (XO (XI (XO (XI (XO (XO (XI (XO (XI (XI (XI (XO
    (XI (XI (XO (XI (XO (XI XH)))))))))))))))))))))))))))))) :: (((((Npos (XO
    (XI (XO (XO (XI XH)))))) :: ((Npos (XO (XI (XO (XO (XI XH)))))) :: [])),
    ((Npos (XO (XO (XI (XI (XO (XI (XI XH)))))))) :: ((Npos (XO (XO (XO (XI
    (XO XH)))))) :: ((Npos (XI (XO (XO (XO (XI (XI XH))))))) :: ((Npos (XO
    (XI (XI (XO (XO (XO XH))))))) :: ((Npos (XO (XO (XI (XO (XI (XO
    XH))))))) :: ((Npos (XO XH)) :: []))))))), (Npos (XO (XO (XI (XI (XO (XI
    (XI (XI (XO (XO (XO (XI (XO (XI (XO (XO (XI (XO (XO (XO (XI (XI (XI (XO
    (XO (XI (XI (XO (XO (XO XH)))))))))))))))))))))))))))))))) :: (((((Npos
    (XO (XI (XO (XO (XI XH)))))) :: ((Npos (XI (XI (XO (XO (XI
    XH)))))) :: [])), ((Npos (XO (XO (XI (XI (XO (XI (XI XH)))))))) :: ((Npos
    (XI (XO (XO (XI (XO XH)))))) :: ((Npos (XI (XI (XI (XO (XO
    XH)))))) :: ((Npos (XI (XO (XI (XI (XI (XI (XI XH)))))))) :: ((Npos (XO
    (XO (XI (XO (XI (XO XH))))))) :: ((Npos (XO XH)) :: []))))))), (Npos (XO
    (XO (XI (XI (XO (XI (XI (XI (XI (XO (XO (XI (XO (XI (XO (XO (XI (XI (XI
    (XO (XO (XI (XO (XO (XI (XO (XI (XI (XI (XI (XI
    XH))))))))))))))))))))))))))))))))) :: (((((Npos (XO (XI (XO (XO (XI
    XH)))))) :: ((Npos (XO (XO (XI (XO (XI XH)))))) :: [])), ((Npos (XO (XO
    (XI (XI (XO (XI (XI XH)))))))) :: ((Npos (XO (XO (XO (XI (XO
    XH)))))) :: ((Npos (XO (XI (XO (XO (XO (XI (XI XH)))))))) :: ((Npos (XI
    (XI (XI (XI (XI (XI (XO XH)))))))) :: ((Npos (XO (XO (XI (XO (XI (XO
    XH))))))) :: ((Npos (XO XH)) :: []))))))), (Npos (XO (XO (XI (XI (XO (XI
    (XI (XI (XO (XO (XO (XI (XO (XI (XO (XO (XO (XI (XO (XO (XO (XI (XI (XI
    (XI (XI (XI (XI (XI (XI (XO
    XH))))))))))))))))))))))))))))))))) :: (((((Npos (XO (XI (XO (XO (XI
    XH)))))) :: ((Npos (XI (XO (XI (XO (XI XH)))))) :: [])), ((Npos (XO (XO
    (XI (XI (XO (XI (XI XH)))))))) :: ((Npos (XO (XO (XO (XI (XO
    XH)))))) :: ((Npos (XO (XO (XI (XO (XI (XO (XI XH)))))))) :: ((Npos (XO
    (XO (XO (XO (XI (XI (XO XH)))))))) :: ((Npos (XO (XO (XI (XO (XI (XO
    XH))))))) :: ((Npos (XO XH)) :: []))))))), (Npos (XO (XO (XI (XI (XO (XI
    (XI (XI (XO (XO (XO (XI (XO (XI (XO (XO (XO (XO (XI (XO (XI (XO (XI (XI
    (XO (XO (XO (XO (XI (XI (XO
    XH))))))))))))))))))))))))))))))))) :: (((((Npos (XO (XI (XO (XO (XI
    XH)))))) :: ((Npos (XO (XI (XI (XO (XI XH)))))) :: [])), ((Npos (XO (XO
    (XI (XI (XO (XI (XI XH)))))))) :: ((Npos (XO (XO (XO (XI (XO
    XH)))))) :: ((Npos (XO (XO (XI (XI (XI (XI (XO XH)))))))) :: ((Npos (XI
    (XI (XI (XI XH))))) :: ((Npos (XO (XO (XI (XO (XI (XO XH))))))) :: ((Npos
    (XO XH)) :: []))))))), (Npos (XO (XO (XI (XI (XO (XI (XI (XI (XO (XO (XO
    (XI (XO (XI (XO (XO (XO (XO (XI (XI (XI (XI (XO (XI (XI (XI (XI (XI
    XH)))))))))))))))))))))))))))))) :: (((((Npos (XO (XI (XO (XO (XI
    XH)))))) :: ((Npos (XI (XI (XI (XO (XI XH)))))) :: [])), ((Npos (XO (XO
    (XI (XI (XO (XI (XI XH)))))))) :: ((Npos (XO (XO (XO (XI (XO
    XH)))))) :: ((Npos (XO (XO (XI (XI (XI (XI (XI XH)))))))) :: ((Npos (XI
    (XI (XI (XI (XO (XI (XI XH)))))))) :: ((Npos (XO (XO (XI (XO (XI (XO
    XH))))))) :: ((Npos (XO XH)) :: []))))))), (Npos (XO (XO (XI (XI (XO (XI
    (XI (XI (XO (XO (XO (XI (XO (XI (XO (XO (XO (XO (XI (XI (XI (XI (XI (XI
    (XI (XI (XI (XI (XO (XI (XI
    XH))))))))))))))))))))))))))))))))) :: (((((Npos (XO (XI (XO (XO (XI
    XH)))))) :: ((Npos (XI (XO (XO (XI (XI XH)))))) :: [])), ((Npos (XO (XO
    (XI (XI (XO (XI (XI XH)))))))) :: ((Npos (XO (XO (XO (XI (XO
    XH)))))) :: ((Npos (XO (XO (XI (XI (XO (XI XH))))))) :: ((Npos (XI (XO
    (XI (XI (XI (XI (XO XH)))))))) :: ((Npos (XO (XO (XI (XO (XI (XO
    XH))))))) :: ((Npos (XO XH)) :: []))))))), (Npos (XO (XO (XI (XI (XO (XI
    (XI (XI (XO (XO (XO (XI (XO (XI (XO (XO (XO (XO (XI (XI (XO (XI (XI (XO
    (XI (XO (XI (XI (XI (XI (XO
    XH))))))))))))))))))))))))))))))))) :: (((((Npos (XI (XI (XO (XO (XI
    XH)))))) :: ((Npos (XI (XI (XO (XO (XI XH)))))) :: [])), ((Npos (XO (XO
    (XI (XI (XO (XI (XI XH)))))))) :: ((Npos (XO (XO (XO (XI (XO
    XH)))))) :: ((Npos (XI (XI (XI (XI (XI (XI (XI XH)))))))) :: ((Npos (XO
    (XI (XI (XO (XI (XO (XO XH)))))))) :: ((Npos (XO (XO (XI (XO (XI (XO
    XH))))))) :: ((Npos (XO XH)) :: []))))))), (Npos (XO (XO (XI (XI (XO (XI
    (XI (XI (XO (XO (XO (XI (XO (XI (XO (XO (XI (XI (XI (XI (XI (XI (XI (XI
    (XO (XI (XI (XO (XI (XO (XO
    XH))))))))))))))))))))))))))))))))) :: (((((Npos (XI (XI (XO (XO (XI
    XH)))))) :: ((Npos (XO (XO (XI (XO (XI XH)))))) :: [])), ((Npos (XO (XO
    (XI (XI (XO (XI (XI XH)))))))) :: ((Npos (XO (XO (XO (XI (XO
    XH)))))) :: ((Npos (XO (XI (XO (XO (XO (XI (XI XH)))))))) :: ((Npos (XO
    (XO (XI (XO (XI XH)))))) :: ((Npos (XO (XO (XI (XO (XI (XO
    XH))))))) :: ((Npos (XO XH)) :: []))))))), (Npos (XO (XO (XI (XI (XO (XI
    (XI (XI (XO (XO (XO (XI (XO (XI (XO (XO (XO (XI (XO (XO (XO (XI (XI (XI
    (XO (XO (XI (XO (XI XH))))))))))))))))))))))))))))))) :: (((((Npos (XI
    (XI (XO (XO (XI XH)))))) :: ((Npos (XI (XO (XI (XO (XI XH)))))) :: [])),
    ((Npos (XO (XO (XI (XI (XO (XI (XI XH)))))))) :: ((Npos (XO (XO (XO (XI
    (XO XH)))))) :: ((Npos (XI (XO (XO (XI (XO (XO (XO XH)))))))) :: ((Npos
    (XO (XI (XI (XI XH))))) :: ((Npos (XO (XO (XI (XO (XI (XO
    XH))))))) :: ((Npos (XO XH)) :: []))))))), (Npos (XO (XO (XI (XI (XO (XI
    (XI (XI (XO (XO (XO (XI (XO (XI (XO (XO (XI (XO (XO (XI (XO (XO (XO (XI
    (XO (XI (XI (XI XH)))))))))))))))))))))))))))))) :: (((((Npos (XI (XI (XO
    (XO (XI XH)))))) :: ((Npos (XO (XI (XI (XO (XI XH)))))) :: [])), ((Npos
    (XO (XO (XI (XI (XO (XI (XI XH)))))))) :: ((Npos (XO (XO (XO (XI (XO
    XH)))))) :: ((Npos (XI (XO (XI (XO (XO (XI (XO XH)))))))) :: ((Npos (XI
    (XO (XO (XI (XI (XO (XO XH)))))))) :: ((Npos (XO (XO (XI (XO (XI (XO
    XH))))))) :: ((Npos (XO XH)) :: []))))))), (Npos (XO (XO (XI (XI (XO (XI
    (XI (XI (XO (XO (XO (XI (XO (XI (XO (XO (XI (XO (XI (XO (XO (XI (XO (XI
    (XI (XO (XO (XI (XI (XO (XO
    XH))))))))))))))))))))))))))))))))) :: (((((Npos (XI (XI (XO (XO (XI
    XH)))))) :: ((Npos (XI (XI (XI (XO (XI XH)))))) :: [])), ((Npos (XO (XO
    (XI (XI (XO (XI (XI XH)))))))) :: ((Npos (XI (XO (XO (XI (XO
    XH)))))) :: ((Npos (XI (XI (XO (XI (XO XH)))))) :: ((Npos (XI (XO (XI (XI
    (XI XH)))))) :: ((Npos (XO (XO (XI (XO (XI (XO XH))))))) :: ((Npos (XO
    XH)) :: []))))))), (Npos (XO (XO (XI (XI (XO (XI (XI (XI (XI (XO (XO (XI
    (XO (XI (XO (XO (XI (XI (XO (XI (XO (XI (XO (XO (XI (XO (XI (XI (XI
    XH))))))))))))))))))))))))))))))) :: (((((Npos (XI (XI (XO (XO (XI
    XH)))))) :: ((Npos (XI (XO (XO (XI (XI XH)))))) :: [])), ((Npos (XO (XO
    (XI (XI (XO (XI (XI XH)))))))) :: ((Npos (XI (XO (XO (XI (XO
    XH)))))) :: ((Npos (XI (XI (XO (XI (XO XH)))))) :: ((Npos (XI (XO (XI (XI
    (XI (XI (XI XH)))))))) :: ((Npos (XO (XO (XI (XO (XI (XO
    XH))))))) :: ((Npos (XO XH)) :: []))))))), (Npos (XO (XO (XI (XI (XO (XI
    (XI (XI (XI (XO (XO (XI (XO (XI (XO (XO (XI (XI (XO (XI (XO (XI (XO (XO
    (XI (XO (XI (XI (XI (XI (XI
    XH))))))))))))))))))))))))))))))))) :: (((((Npos (XO (XO (XI (XO (XI
    XH)))))) :: ((Npos (XO (XO (XO (XO (XI XH)))))) :: [])), ((Npos (XO (XO
    (XI (XI (XO (XI (XI XH)))))))) :: ((Npos (XO (XO (XO (XI (XO
    XH)))))) :: ((Npos (XO (XI (XI (XO (XO (XO (XI XH)))))))) :: ((Npos (XI
    (XO (XO (XO (XI (XO XH))))))) :: ((Npos (XO (XO (XI (XO (XI (XO
    XH))))))) :: ((Npos (XO XH)) :: []))))))), (Npos (XO (XO (XI (XI (XO (XI
    (XI (XI (XO (XO (XO (XI (XO (XI (XO (XO (XO (XI (XI (XO (XO (XO (XI (XI
    (XI (XO (XO (XO (XI (XO XH)))))))))))))))))))))))))))))))) :: (((((Npos
    (XO (XO (XI (XO (XI XH)))))) :: ((Npos (XI (XO (XO (XO (XI
    XH)))))) :: [])), ((Npos (XO (XO (XI (XI (XO (XI (XI XH)))))))) :: ((Npos
    (XO (XO (XO (XI (XO XH)))))) :: ((Npos (XI (XI (XO (XI (XI (XI (XO
    XH)))))))) :: ((Npos (XO (XI (XI (XO (XO (XO (XI XH)))))))) :: ((Npos (XO
    (XO (XI (XO (XI (XO XH))))))) :: ((Npos (XO XH)) :: []))))))), (Npos (XO
    (XO (XI (XI (XO (XI (XI (XI (XO (XO (XO (XI (XO (XI (XO (XO (XI (XI (XO
    (XI (XI (XI (XO (XI (XO (XI (XI (XO (XO (XO (XI
    XH))))))))))))))))))))))))))))))))) :: (((((Npos (XO (XO (XI (XO (XI
    XH)))))) :: ((Npos (XO (XI (XO (XO (XI XH)))))) :: [])), ((Npos (XO (XO
    (XI (XI (XO (XI (XI XH)))))))) :: ((Npos (XI (XO (XO (XI (XO
    XH)))))) :: ((Npos (XI (XO (XO (XI (XO XH)))))) :: ((Npos (XO (XO (XI (XI
    (XI (XI (XO XH)))))))) :: ((Npos (XO (XO (XI (XO (XI (XO
    XH))))))) :: ((Npos (XO XH)) :: []))))))), (Npos (XO (XO (XI (XI (XO (XI
    (XI (XI (XI (XO (XO (XI (XO (XI (XO (XO (XI (XO (XO (XI (XO (XI (XO (XO
    (XO (XO (XI (XI (XI (XI (XO
    XH))))))))))))))))))))))))))))))))) :: (((((Npos (XO (XO (XI (XO (XI
    XH)))))) :: ((Npos (XO (XO (XI (XO (XI XH)))))) :: [])), ((Npos (XO (XO
    (XI (XI (XO (XI (XI XH)))))))) :: ((Npos (XO (XO (XO (XI (XO
    XH)))))) :: ((Npos (XO (XI (XO (XI (XI (XO (XI XH)))))))) :: ((Npos (XO
    (XI (XI (XO (XO (XO (XI XH)))))))) :: ((Npos (XO (XO (XI (XO (XI (XO
    XH))))))) :: ((Npos (XO XH)) :: []))))))), (Npos (XO (XO (XI (XI (XO (XI
    (XI (XI (XO (XO (XO (XI (XO (XI (XO (XO (XO (XI (XO (XI (XI (XO (XI (XI
    (XO (XI (XI (XO (XO (XO (XI
    XH))))))))))))))))))))))))))))))))) :: (((((Npos (XO (XO (XI (XO (XI
    XH)))))) :: ((Npos (XI (XO (XI (XO (XI XH)))))) :: [])), ((Npos (XO (XO
    (XI (XI (XO (XI (XI XH)))))))) :: ((Npos (XI (XO (XO (XI (XO
    XH)))))) :: ((Npos (XO (XO (XO (XI XH))))) :: ((Npos (XI (XI (XI (XI (XO
    (XO (XO XH)))))))) :: ((Npos (XO (XO (XI (XO (XI (XO XH))))))) :: ((Npos
    (XO XH)) :: []))))))), (Npos (XO (XO (XI (XI (XO (XI (XI (XI (XI (XO (XO
    (XI (XO (XI (XO (XO (XO (XO (XO (XI (XI (XO (XO (XO (XI (XI (XI (XI (XO
    (XO (XO XH))))))))))))))))))))))))))))))))) :: (((((Npos (XO (XO (XI (XO
    (XI XH)))))) :: ((Npos (XO (XI (XI (XO (XI XH)))))) :: [])), ((Npos (XO
    (XO (XI (XI (XO (XI (XI XH)))))))) :: ((Npos (XO (XO (XO (XI (XO
    XH)))))) :: ((Npos (XO (XO (XO (XO (XO (XI (XO XH)))))))) :: ((Npos (XO
    (XO (XO (XO (XO (XO XH))))))) :: ((Npos (XO (XO (XI (XO (XI (XO
    XH))))))) :: ((Npos (XO XH)) :: []))))))), (Npos (XO (XO (XI (XI (XO (XI
    (XI (XI (XO (XO (XO (XI (XO (XI (XO (XO (XO (XO (XO (XO (XO (XI (XO (XI
    (XO (XO (XO (XO (XO (XO XH)))))))))))))))))))))))))))))))) :: (((((Npos
    (XO (XO (XI (XO (XI XH)))))) :: ((Npos (XI (XO (XO (XI (XI
    XH)))))) :: [])), ((Npos (XO (XO (XI (XI (XO (XI (XI XH)))))))) :: ((Npos
    (XO (XO (XO (XI (XO XH)))))) :: ((Npos (XO (XO (XI (XI (XI (XO (XO
    XH)))))))) :: ((Npos (XI (XI (XI (XO (XI (XO XH))))))) :: ((Npos (XO (XO
    (XI (XO (XI (XO XH))))))) :: ((Npos (XO XH)) :: []))))))), (Npos (XO (XO
    (XI (XI (XO (XI (XI (XI (XO (XO (XO (XI (XO (XI (XO (XO (XO (XO (XI (XI
    (XI (XO (XO (XI (XI (XI (XI (XO (XI (XO
    XH)))))))))))))))))))))))))))))))) :: (((((Npos (XI (XO (XI (XO (XI
    XH)))))) :: ((Npos (XO (XI (XO (XO (XI XH)))))) :: [])), ((Npos (XO (XO
    (XI (XI (XO (XI (XI XH)))))))) :: ((Npos (XI (XO (XO (XI (XO
    XH)))))) :: ((Npos (XO (XO (XO (XI XH))))) :: ((Npos (XO (XO (XI (XI
    XH))))) :: ((Npos (XO (XO (XI (XO (XI (XO XH))))))) :: ((Npos (XO
    XH)) :: []))))))), (Npos (XO (XO (XI (XI (XO (XI (XI (XI (XI (XO (XO (XI
    (XO (XI (XO (XO (XO (XO (XO (XI (XI (XO (XO (XO (XO (XO (XI (XI
    XH)))))))))))))))))))))))))))))) :: (((((Npos (XI (XO (XI (XO (XI
    XH)))))) :: ((Npos (XI (XI (XO (XO (XI XH)))))) :: [])), ((Npos (XO (XO
    (XI (XI (XO (XI (XI XH)))))))) :: ((Npos (XO (XO (XO (XI (XO
    XH)))))) :: ((Npos (XI (XI (XI (XO (XI (XI (XO XH)))))))) :: ((Npos (XO
    (XO (XO (XO (XI (XO (XI XH)))))))) :: ((Npos (XO (XO (XI (XO (XI (XO
    XH))))))) :: ((Npos (XO XH)) :: []))))))), (Npos (XO (XO (XI (XI (XO (XI
    (XI (XI (XO (XO (XO (XI (XO (XI (XO (XO (XI (XI (XI (XO (XI (XI (XO (XI
    (XO (XO (XO (XO (XI (XO (XI
    XH))))))))))))))))))))))))))))))))) :: (((((Npos (XI (XO (XI (XO (XI
    XH)))))) :: ((Npos (XO (XO (XI (XO (XI XH)))))) :: [])), ((Npos (XO (XO
    (XI (XI (XO (XI (XI XH)))))))) :: ((Npos (XO (XO (XO (XI (XO
    XH)))))) :: ((Npos (XI (XO (XO (XO (XI (XI XH))))))) :: ((Npos (XO (XI
    (XI (XI (XI XH)))))) :: ((Npos (XO (XO (XI (XO (XI (XO
    XH))))))) :: ((Npos (XO XH)) :: []))))))), (Npos (XO (XO (XI (XI (XO (XI
    (XI (XI (XO (XO (XO (XI (XO (XI (XO (XO (XI (XO (XO (XO (XI (XI (XI (XO
    (XO (XI (XI (XI (XI XH))))))))))))))))))))))))))))))) :: (((((Npos (XI
    (XO (XI (XO (XI XH)))))) :: ((Npos (XI (XO (XI (XO (XI XH)))))) :: [])),
    ((Npos (XO (XO (XI (XI (XO (XI (XI XH)))))))) :: ((Npos (XO (XO (XO (XI
    (XO XH)))))) :: ((Npos (XI (XI (XI (XI (XI (XI (XI XH)))))))) :: ((Npos
    (XO (XO (XI (XI (XO (XI (XO XH)))))))) :: ((Npos (XO (XO (XI (XO (XI (XO
    XH))))))) :: ((Npos (XO XH)) :: []))))))), (Npos (XO (XO (XI (XI (XO (XI
    (XI (XI (XO (XO (XO (XI (XO (XI (XO (XO (XI (XI (XI (XI (XI (XI (XI (XI
    (XO (XO (XI (XI (XO (XI (XO
    XH))))))))))))))))))))))))))))))))) :: (((((Npos (XI (XO (XI (XO (XI
    XH)))))) :: ((Npos (XO (XI (XI (XO (XI XH)))))) :: [])), ((Npos (XO (XO
    (XI (XI (XO (XI (XI XH)))))))) :: ((Npos (XO (XO (XO (XI (XO
    XH)))))) :: ((Npos (XI (XI (XI (XO (XO (XO (XO XH)))))))) :: ((Npos (XO
    (XO (XO (XI (XI (XO (XO XH)))))))) :: ((Npos (XO (XO (XI (XO (XI (XO
    XH))))))) :: ((Npos (XO XH)) :: []))))))), (Npos (XO (XO (XI (XI (XO (XI
    (XI (XI (XO (XO (XO (XI (XO (XI (XO (XO (XI (XI (XI (XO (XO (XO (XO (XI
    (XO (XO (XO (XI (XI (XO (XO
    XH))))))))))))))))))))))))))))))))) :: (((((Npos (XI (XO (XI (XO (XI
    XH)))))) :: ((Npos (XI (XI (XI (XO (XI XH)))))) :: [])), ((Npos (XO (XO
    (XI (XI (XO (XI (XI XH)))))))) :: ((Npos (XO (XO (XO (XI (XO
    XH)))))) :: ((Npos (XO (XO (XO (XO (XO (XO (XO XH)))))))) :: ((Npos (XI
    (XO (XI (XI (XO XH)))))) :: ((Npos (XO (XO (XI (XO (XI (XO
    XH))))))) :: ((Npos (XO XH)) :: []))))))), (Npos (XO (XO (XI (XI (XO (XI
    (XI (XI (XO (XO (XO (XI (XO (XI (XO (XO (XO (XO (XO (XO (XO (XO (XO (XI
    (XI (XO (XI (XI (XO XH))))))))))))))))))))))))))))))) :: (((((Npos (XI
    (XO (XI (XO (XI XH)))))) :: ((Npos (XO (XO (XO (XI (XI XH)))))) :: [])),
    ((Npos (XO (XO (XI (XI (XO (XI (XI XH)))))))) :: ((Npos (XI (XO (XO (XI
    (XO XH)))))) :: ((Npos (XO (XI (XO (XI (XO XH)))))) :: ((Npos (XO (XI (XI
    (XO (XO (XO XH))))))) :: ((Npos (XO (XO (XI (XO (XI (XO
    XH))))))) :: ((Npos (XO XH)) :: []))))))), (Npos (XO (XO (XI (XI (XO (XI
    (XI (XI (XI (XO (XO (XI (XO (XI (XO (XO (XO (XI (XO (XI (XO (XI (XO (XO
    (XO (XI (XI (XO (XO (XO XH)))))))))))))))))))))))))))))))) :: (((((Npos
    (XO (XI (XI (XO (XI XH)))))) :: ((Npos (XO (XO (XO (XO (XI
    XH)))))) :: [])), ((Npos (XO (XO (XI (XI (XO (XI (XI XH)))))))) :: ((Npos
    (XO (XO (XO (XI (XO XH)))))) :: ((Npos (XI (XI (XO (XO (XI (XI (XI
    XH)))))))) :: ((Npos (XO (XO (XI (XO (XO XH)))))) :: ((Npos (XO (XO (XI
    (XO (XI (XO XH))))))) :: ((Npos (XO XH)) :: []))))))), (Npos (XO (XO (XI
    (XI (XO (XI (XI (XI (XO (XO (XO (XI (XO (XI (XO (XO (XI (XI (XO (XO (XI
    (XI (XI (XI (XO (XO (XI (XO (XO
    XH))))))))))))))))))))))))))))))) :: (((((Npos (XO (XI (XI (XO (XI
    XH)))))) :: ((Npos (XI (XI (XO (XO (XI XH)))))) :: [])), ((Npos (XO (XO
    (XI (XI (XO (XI (XI XH)))))))) :: ((Npos (XO (XO (XO (XI (XO
    XH)))))) :: ((Npos (XO (XO (XI (XI (XO (XI XH))))))) :: ((Npos (XO (XI
    (XO (XI (XO (XI (XI XH)))))))) :: ((Npos (XO (XO (XI (XO (XI (XO
    XH))))))) :: ((Npos (XO XH)) :: []))))))), (Npos (XO (XO (XI (XI (XO (XI
    (XI (XI (XO (XO (XO (XI (XO (XI (XO (XO (XO (XO (XI (XI (XO (XI (XI (XO
    (XO (XI (XO (XI (XO (XI (XI
    XH))))))))))))))))))))))))))))))))) :: (((((Npos (XO (XI (XI (XO (XI
    XH)))))) :: ((Npos (XO (XO (XI (XO (XI XH)))))) :: [])), ((Npos (XO (XO
    (XI (XI (XO (XI (XI XH)))))))) :: ((Npos (XO (XO (XO (XI (XO
    XH)))))) :: ((Npos (XO (XI (XI (XI (XO (XI XH))))))) :: ((Npos (XO (XO
    (XI (XO XH))))) :: ((Npos (XO (XO (XI (XO (XI (XO XH))))))) :: ((Npos (XO
    XH)) :: []))))))), (Npos (XO (XO (XI (XI (XO (XI (XI (XI (XO (XO (XO (XI
    (XO (XI (XO (XO (XO (XI (XI (XI (XO (XI (XI (XO (XO (XO (XI (XO
    XH)))))))))))))))))))))))))))))) :: (((((Npos (XO (XI (XI (XO (XI
    XH)))))) :: ((Npos (XI (XO (XI (XO (XI XH)))))) :: [])), ((Npos (XO (XO
    (XI (XI (XO (XI (XI XH)))))))) :: ((Npos (XO (XO (XO (XI (XO
    XH)))))) :: ((Npos (XI (XI (XI (XO (XI (XO (XI XH)))))))) :: ((Npos (XI
    (XI (XI XH)))) :: ((Npos (XO (XO (XI (XO (XI (XO XH))))))) :: ((Npos (XO
    XH)) :: []))))))), (Npos (XO (XO (XI (XI (XO (XI (XI (XI (XO (XO (XO (XI
    (XO (XI (XO (XO (XI (XI (XI (XO (XI (XO (XI (XI (XI (XI (XI
    XH))))))))))))))))))))))))))))) :: (((((Npos (XO (XI (XI (XO (XI
    XH)))))) :: ((Npos (XO (XI (XI (XO (XI XH)))))) :: [])), ((Npos (XO (XO
    (XI (XI (XO (XI (XI XH)))))))) :: ((Npos (XO (XO (XO (XI (XO
    XH)))))) :: ((Npos (XI (XO (XI (XO (XO (XO (XI XH)))))))) :: ((Npos (XI
    (XI (XI (XO (XO (XO (XI XH)))))))) :: ((Npos (XO (XO (XI (XO (XI (XO
    XH))))))) :: ((Npos (XO XH)) :: []))))))), (Npos (XO (XO (XI (XI (XO (XI
    (XI (XI (XO (XO (XO (XI (XO (XI (XO (XO (XI (XO (XI (XO (XO (XO (XI (XI
    (XI (XI (XI (XO (XO (XO (XI
    XH))))))))))))))))))))))))))))))))) :: (((((Npos (XO (XI (XI (XO (XI
    XH)))))) :: ((Npos (XI (XI (XI (XO (XI XH)))))) :: [])), ((Npos (XO (XO
    (XI (XI (XO (XI (XI XH)))))))) :: ((Npos (XO (XO (XO (XI (XO
    XH)))))) :: ((Npos (XI (XI (XI (XO (XI (XI (XO XH)))))))) :: ((Npos (XO
    (XI (XI (XO (XO XH)))))) :: ((Npos (XO (XO (XI (XO (XI (XO
    XH))))))) :: ((Npos (XO XH)) :: []))))))), (Npos (XO (XO (XI (XI (XO (XI
    (XI (XI (XO (XO (XO (XI (XO (XI (XO (XO (XI (XI (XI (XO (XI (XI (XO (XI
    (XO (XI (XI (XO (XO XH))))))))))))))))))))))))))))))) :: (((((Npos (XO
    (XI (XI (XO (XI XH)))))) :: ((Npos (XO (XO (XO (XI (XI XH)))))) :: [])),
    ((Npos (XO (XO (XI (XI (XO (XI (XI XH)))))))) :: ((Npos (XO (XO (XO (XI
    (XO XH)))))) :: ((Npos (XI (XI (XO (XO (XI (XO (XI XH)))))))) :: ((Npos
    (XI (XI (XO (XI (XI (XO XH))))))) :: ((Npos (XO (XO (XI (XO (XI (XO
    XH))))))) :: ((Npos (XO XH)) :: []))))))), (Npos (XO (XO (XI (XI (XO (XI
    (XI (XI (XO (XO (XO (XI (XO (XI (XO (XO (XI (XI (XO (XO (XI (XO (XI (XI
    (XI (XI (XO (XI (XI (XO XH)))))))))))))))))))))))))))))))) :: (((((Npos
    (XO (XI (XI (XO (XI XH)))))) :: ((Npos (XI (XO (XO (XI (XI
    XH)))))) :: [])), ((Npos (XO (XO (XI (XI (XO (XI (XI XH)))))))) :: ((Npos
    (XO (XO (XO (XI (XO XH)))))) :: ((Npos (XO (XO (XO (XO (XO (XI (XI
    XH)))))))) :: ((Npos (XI (XO (XO (XI (XI (XI (XI XH)))))))) :: ((Npos (XO
    (XO (XI (XO (XI (XO XH))))))) :: ((Npos (XO XH)) :: []))))))), (Npos (XO
    (XO (XI (XI (XO (XI (XI (XI (XO (XO (XO (XI (XO (XI (XO (XO (XO (XO (XO
    (XO (XO (XI (XI (XI (XI (XO (XO (XI (XI (XI (XI
    XH))))))))))))))))))))))))))))))))) :: (((((Npos (XI (XI (XI (XO (XI
    XH)))))) :: ((Npos (XO (XO (XO (XO (XI XH)))))) :: [])), ((Npos (XO (XO
    (XI (XI (XO (XI (XI XH)))))))) :: ((Npos (XO (XO (XO (XI (XO
    XH)))))) :: ((Npos (XO (XO (XO (XI (XI (XI (XI XH)))))))) :: ((Npos (XI
    (XI (XO (XO (XO (XI XH))))))) :: ((Npos (XO (XO (XI (XO (XI (XO
    XH))))))) :: ((Npos (XO XH)) :: []))))))), (Npos (XO (XO (XI (XI (XO (XI
    (XI (XI (XO (XO (XO (XI (XO (XI (XO (XO (XO (XO (XO (XI (XI (XI (XI (XI
    (XI (XI (XO (XO (XO (XI XH)))))))))))))))))))))))))))))))) :: (((((Npos
    (XI (XI (XI (XO (XI XH)))))) :: ((Npos (XI (XO (XO (XO (XI
    XH)))))) :: [])), ((Npos (XO (XO (XI (XI (XO (XI (XI XH)))))))) :: ((Npos
    (XO (XO (XO (XI (XO XH)))))) :: ((Npos (XI (XO (XO (XO (XO (XO (XO
    XH)))))))) :: ((Npos (XO (XO (XO (XO XH))))) :: ((Npos (XO (XO (XI (XO
    (XI (XO XH))))))) :: ((Npos (XO XH)) :: []))))))), (Npos (XO (XO (XI (XI
    (XO (XI (XI (XI (XO (XO (XO (XI (XO (XI (XO (XO (XI (XO (XO (XO (XO (XO
    (XO (XI (XO (XO (XO (XO XH)))))))))))))))))))))))))))))) :: (((((Npos (XI
    (XI (XI (XO (XI XH)))))) :: ((Npos (XO (XI (XO (XO (XI XH)))))) :: [])),
    ((Npos (XO (XO (XI (XI (XO (XI (XI XH)))))))) :: ((Npos (XO (XO (XO (XI
    (XO XH)))))) :: ((Npos (XI (XO (XO (XO (XI (XI (XI XH)))))))) :: ((Npos
    (XI (XO (XO (XI (XI (XI (XI XH)))))))) :: ((Npos (XO (XO (XI (XO (XI (XO
    XH))))))) :: ((Npos (XO XH)) :: []))))))), (Npos (XO (XO (XI (XI (XO (XI
    (XI (XI (XO (XO (XO (XI (XO (XI (XO (XO (XI (XO (XO (XO (XI (XI (XI (XI
    (XI (XO (XO (XI (XI (XI (XI
    XH))))))))))))))))))))))))))))))))) :: (((((Npos (XI (XI (XI (XO (XI
    XH)))))) :: ((Npos (XI (XI (XO (XO (XI XH)))))) :: [])), ((Npos (XO (XO
    (XI (XI (XO (XI (XI XH)))))))) :: ((Npos (XO (XO (XO (XI (XO
    XH)))))) :: ((Npos (XI (XO (XO (XO (XI (XI XH))))))) :: ((Npos (XO (XO
    (XO (XO (XO (XO XH))))))) :: ((Npos (XO (XO (XI (XO (XI (XO
    XH))))))) :: ((Npos (XO XH)) :: []))))))), (Npos (XO (XO (XI (XI (XO (XI
    (XI (XI (XO (XO (XO (XI (XO (XI (XO (XO (XI (XO (XO (XO (XI (XI (XI (XO
    (XO (XO (XO (XO (XO (XO XH)))))))))))))))))))))))))))))))) :: (((((Npos
    (XI (XI (XI (XO (XI XH)))))) :: ((Npos (XO (XO (XI (XO (XI
    XH)))))) :: [])), ((Npos (XO (XO (XI (XI (XO (XI (XI XH)))))))) :: ((Npos
    (XO (XO (XO (XI (XO XH)))))) :: ((Npos (XO (XO (XI (XI (XI (XI (XI
    XH)))))))) :: ((Npos (XO (XI (XI XH)))) :: ((Npos (XO (XO (XI (XO (XI (XO
    XH))))))) :: ((Npos (XO XH)) :: []))))))), (Npos (XO (XO (XI (XI (XO (XI
    (XI (XI (XO (XO (XO (XI (XO (XI (XO (XO (XO (XO (XI (XI (XI (XI (XI (XI
    (XO (XI (XI XH))))))))))))))))))))))))))))) :: (((((Npos (XI (XI (XI (XO
    (XI XH)))))) :: ((Npos (XI (XO (XI (XO (XI XH)))))) :: [])), ((Npos (XO
    (XO (XI (XI (XO (XI (XI XH)))))))) :: ((Npos (XI (XO (XO (XI (XO
    XH)))))) :: ((Npos (XI (XI (XI (XO (XO XH)))))) :: ((Npos (XO (XI (XO (XI
    XH))))) :: ((Npos (XO (XO (XI (XO (XI (XO XH))))))) :: ((Npos (XO
    XH)) :: []))))))), (Npos (XO (XO (XI (XI (XO (XI (XI (XI (XI (XO (XO (XI
    (XO (XI (XO (XO (XI (XI (XI (XO (XO (XI (XO (XO (XO (XI (XO (XI
    XH)))))))))))))))))))))))))))))) :: (((((Npos (XI (XI (XI (XO (XI
    XH)))))) :: ((Npos (XO (XI (XI (XO (XI XH)))))) :: [])), ((Npos (XO (XO
    (XI (XI (XO (XI (XI XH)))))))) :: ((Npos (XO (XO (XO (XI (XO
    XH)))))) :: ((Npos (XO (XO (XI (XO (XI (XI (XI XH)))))))) :: ((Npos (XO
    (XO (XO (XI (XO (XO (XO XH)))))))) :: ((Npos (XO (XO (XI (XO (XI (XO
    XH))))))) :: ((Npos (XO XH)) :: []))))))), (Npos (XO (XO (XI (XI (XO (XI
    (XI (XI (XO (XO (XO (XI (XO (XI (XO (XO (XO (XO (XI (XO (XI (XI (XI (XI
    (XO (XO (XO (XI (XO (XO (XO
    XH))))))))))))))))))))))))))))))))) :: (((((Npos (XI (XI (XI (XO (XI
    XH)))))) :: ((Npos (XI (XI (XI (XO (XI XH)))))) :: [])), ((Npos (XO (XO
    (XI (XI (XO (XI (XI XH)))))))) :: ((Npos (XI (XO (XO (XI (XO
    XH)))))) :: ((Npos (XI (XO (XO (XO XH))))) :: ((Npos (XI (XO (XI (XI
    XH))))) :: ((Npos (XO (XO (XI (XO (XI (XO XH))))))) :: ((Npos (XO
    XH)) :: []))))))), (Npos (XO (XO (XI (XI (XO (XI (XI (XI (XI (XO (XO (XI
    (XO (XI (XO (XO (XI (XO (XO (XO (XI (XO (XO (XO (XI (XO (XI (XI
    XH)))))))))))))))))))))))))))))) :: (((((Npos (XI (XI (XI (XO (XI
    XH)))))) :: ((Npos (XO (XO (XO (XI (XI XH)))))) :: [])), ((Npos (XO (XO
    (XI (XI (XO (XI (XI XH)))))))) :: ((Npos (XI (XO (XO (XI (XO
    XH)))))) :: ((Npos (XI (XO (XI (XO (XO XH)))))) :: ((Npos (XO (XI (XI
    XH)))) :: ((Npos (XO (XO (XI (XO (XI (XO XH))))))) :: ((Npos (XO
    XH)) :: []))))))), (Npos (XO (XO (XI (XI (XO (XI (XI (XI (XI (XO (XO (XI
    (XO (XI (XO (XO (XI (XO (XI (XO (XO (XI (XO (XO (XO (XI (XI
    XH))))))))))))))))))))))))))))) :: (((((Npos (XO (XO (XO (XI (XI
    XH)))))) :: ((Npos (XI (XO (XO (XO (XI XH)))))) :: [])), ((Npos (XO (XO
    (XI (XI (XO (XI (XI XH)))))))) :: ((Npos (XO (XO (XO (XI (XO
    XH)))))) :: ((Npos (XI (XO (XO (XI (XO (XO (XO XH)))))))) :: ((Npos (XO
    (XO (XO (XI (XI (XO (XO XH)))))))) :: ((Npos (XO (XO (XI (XO (XI (XO
    XH))))))) :: ((Npos (XO XH)) :: []))))))), (Npos (XO (XO (XI (XI (XO (XI
    (XI (XI (XO (XO (XO (XI (XO (XI (XO (XO (XI (XO (XO (XI (XO (XO (XO (XI
    (XO (XO (XO (XI (XI (XO (XO
    XH))))))))))))))))))))))))))))))))) :: (((((Npos (XO (XO (XO (XI (XI
    XH)))))) :: ((Npos (XO (XO (XI (XO (XI XH)))))) :: [])), ((Npos (XO (XO
    (XI (XI (XO (XI (XI XH)))))))) :: ((Npos (XO (XO (XO (XI (XO
    XH)))))) :: ((Npos (XI (XI (XI (XO (XO (XO (XO XH)))))))) :: ((Npos (XO
    (XO (XO (XI (XO (XI XH))))))) :: ((Npos (XO (XO (XI (XO (XI (XO
    XH))))))) :: ((Npos (XO XH)) :: []))))))), (Npos (XO (XO (XI (XI (XO (XI
    (XI (XI (XO (XO (XO (XI (XO (XI (XO (XO (XI (XI (XI (XO (XO (XO (XO (XI
    (XO (XO (XO (XI (XO (XI XH)))))))))))))))))))))))))))))))) :: (((((Npos
    (XO (XO (XO (XI (XI XH)))))) :: ((Npos (XI (XO (XI (XO (XI
    XH)))))) :: [])), ((Npos (XO (XO (XI (XI (XO (XI (XI XH)))))))) :: ((Npos
    (XO (XO (XO (XI (XO XH)))))) :: ((Npos (XO (XO (XO (XI (XI (XO (XI
    XH)))))))) :: ((Npos (XI (XI (XI (XO (XI (XI (XO XH)))))))) :: ((Npos (XO
    (XO (XI (XO (XI (XO XH))))))) :: ((Npos (XO XH)) :: []))))))), (Npos (XO
    (XO (XI (XI (XO (XI (XI (XI (XO (XO (XO (XI (XO (XI (XO (XO (XO (XO (XO
    (XI (XI (XO (XI (XI (XI (XI (XI (XO (XI (XI (XO
    XH))))))))))))))))))))))))))))))))) :: (((((Npos (XO (XO (XO (XI (XI
    XH)))))) :: ((Npos (XI (XI (XI (XO (XI XH)))))) :: [])), ((Npos (XO (XO
    (XI (XI (XO (XI (XI XH)))))))) :: ((Npos (XO (XO (XO (XI (XO
    XH)))))) :: ((Npos (XO (XO (XI (XO (XI (XI (XI XH)))))))) :: ((Npos (XO
    (XI (XO (XI (XO (XO (XO XH)))))))) :: ((Npos (XO (XO (XI (XO (XI (XO
    XH))))))) :: ((Npos (XO XH)) :: []))))))), (Npos (XO (XO (XI (XI (XO (XI
    (XI (XI (XO (XO (XO (XI (XO (XI (XO (XO (XO (XO (XI (XO (XI (XI (XI (XI
    (XO (XI (XO (XI (XO (XO (XO
    XH))))))))))))))))))))))))))))))))) :: (((((Npos (XO (XO (XO (XI (XI
    XH)))))) :: ((Npos (XI (XO (XO (XI (XI XH)))))) :: [])), ((Npos (XI (XO
    (XO (XI (XI XH)))))) :: ((Npos (XO (XO (XO (XI (XO (XI (XI
    XH)))))))) :: ((Npos (XO (XI (XI (XO (XI (XI (XI XH)))))))) :: ((Npos (XI
    (XO (XO (XI (XO XH)))))) :: ((Npos (XO (XO (XO (XI (XI (XO (XI
    XH)))))))) :: ((Npos (XO XH)) :: []))))))), (Npos (XI (XO (XO (XI (XI (XI
    (XO (XO (XO (XO (XO (XI (XO (XI (XI (XI (XO (XI (XI (XO (XI (XI (XI (XI
    (XI (XO (XO (XI (XO XH))))))))))))))))))))))))))))))) :: (((((Npos (XI
    (XO (XO (XI (XI XH)))))) :: ((Npos (XO (XO (XO (XO (XI XH)))))) :: [])),
    ((Npos (XI (XO (XO (XI (XI XH)))))) :: ((Npos (XO (XO (XO (XI (XO (XI (XI
    XH)))))))) :: ((Npos (XI (XO (XO (XO (XI (XO (XI XH)))))))) :: ((Npos (XO
    (XO (XI (XI (XO (XO (XI XH)))))))) :: ((Npos (XO (XO (XO (XI (XI (XO (XI
    XH)))))))) :: ((Npos (XO XH)) :: []))))))), (Npos (XI (XO (XO (XI (XI (XI
    (XO (XO (XO (XO (XO (XI (XO (XI (XI (XI (XI (XO (XO (XO (XI (XO (XI (XI
    (XO (XO (XI (XI (XO (XO (XI
    XH))))))))))))))))))))))))))))))))) :: (((((Npos (XI (XO (XO (XI (XI
    XH)))))) :: ((Npos (XI (XO (XO (XO (XI XH)))))) :: [])), ((Npos (XO (XO
    (XI (XI (XO (XI (XI XH)))))))) :: ((Npos (XO (XO (XO (XI (XO
    XH)))))) :: ((Npos (XO (XI (XI (XI (XI (XI (XO XH)))))))) :: ((Npos (XO
    (XI (XO (XO (XI (XI XH))))))) :: ((Npos (XO (XO (XI (XO (XI (XO
    XH))))))) :: ((Npos (XO XH)) :: []))))))), (Npos (XO (XO (XI (XI (XO (XI
    (XI (XI (XO (XO (XO (XI (XO (XI (XO (XO (XO (XI (XI (XI (XI (XI (XO (XI
    (XO (XI (XO (XO (XI (XI
    XH)))))))))))))))))))))))))))))))) :: []))))))))))))))))))))))))))))))))))))))))))))))))))))))))))))))))))))))

(** val adc_macs : n list list **)

let adc_macs =
  map snd alpha16_boards

(** val pwb_macs : n list list **)

let pwb_macs =
  map (fun t -> snd (fst t)) padwing_boards

(** val pwb_devices : n list **)

let pwb_devices =
  map snd padwing_boards
