
val negb : bool -> bool

type nat =
| O
| S of nat

val fst : ('a1 * 'a2) -> 'a1

val snd : ('a1 * 'a2) -> 'a2

val length : 'a1 list -> nat

val app : 'a1 list -> 'a1 list -> 'a1 list

type comparison =
| Eq
| Lt
| Gt

val add : nat -> nat -> nat

type positive =
| XI of positive
| XO of positive
| XH

type n =
| N0
| Npos of positive

module Pos :
 sig
  type mask =
  | IsNul
  | IsPos of positive
  | IsNeg
 end

module Coq_Pos :
 sig
  val succ : positive -> positive

  val add : positive -> positive -> positive

  val add_carry : positive -> positive -> positive

  val pred_double : positive -> positive

  type mask = Pos.mask =
  | IsNul
  | IsPos of positive
  | IsNeg

  val succ_double_mask : mask -> mask

  val double_mask : mask -> mask

  val double_pred_mask : positive -> mask

  val sub_mask : positive -> positive -> mask

  val sub_mask_carry : positive -> positive -> mask

  val mul : positive -> positive -> positive

  val iter : ('a1 -> 'a1) -> 'a1 -> positive -> 'a1

  val compare_cont : comparison -> positive -> positive -> comparison

  val compare : positive -> positive -> comparison

  val eqb : positive -> positive -> bool

  val coq_Nsucc_double : n -> n

  val coq_Ndouble : n -> n

  val coq_land : positive -> positive -> n

  val iter_op : ('a1 -> 'a1 -> 'a1) -> positive -> 'a1 -> 'a1

  val to_nat : positive -> nat

  val of_succ_nat : nat -> positive
 end

module N :
 sig
  val succ_double : n -> n

  val double : n -> n

  val add : n -> n -> n

  val sub : n -> n -> n

  val mul : n -> n -> n

  val compare : n -> n -> comparison

  val eqb : n -> n -> bool

  val leb : n -> n -> bool

  val ltb : n -> n -> bool

  val div2 : n -> n

  val pos_div_eucl : positive -> n -> n * n

  val div_eucl : n -> n -> n * n

  val div : n -> n -> n

  val modulo : n -> n -> n

  val coq_land : n -> n -> n

  val shiftr : n -> n -> n

  val to_nat : n -> nat

  val of_nat : nat -> n
 end

val firstn : nat -> 'a1 list -> 'a1 list

val skipn : nat -> 'a1 list -> 'a1 list

type 'a res =
| Ok of 'a
| Err of n
| Panic

val bind : 'a1 res -> ('a1 -> 'a2 res) -> 'a2 res

val guard : bool -> n -> 'a1 res -> 'a1 res

val lenN : 'a1 list -> n

val dropN : n -> 'a1 list -> 'a1 list

val takeN : n -> 'a1 list -> 'a1 list

val subN : 'a1 list -> n -> n -> 'a1 list

val le_val : n list -> n

val le_enc : nat -> n -> n list

val slice : 'a1 list -> n -> n -> 'a1 list res

val arr : n -> 'a1 list -> 'a1 list res

type trg = { t_udp : n; t_ts : n; t_out : n; t_in : n; t_pulser : n;
             t_trigbm : n; t_nim : n; t_esata : n; t_mlu : bool; t_aw16p : 
             n; t_drift : n; t_scaled : n; t_aw16m : n; t_aw16b : n;
             t_bsc : n; t_bscm : n; t_coin : n; t_fw : n }

val rd_le : n list -> n -> n -> n res

val e_len : n

val e_zero : n

val e_hdr : n

val e_in : n

val e_drift : n

val e_scaled : n

val e_ftr : n

val e_out : n

val trg_decode : n list -> trg res

val e32 : n -> n list

val trg_encode : trg -> n list

val trg_obs : trg -> n list
