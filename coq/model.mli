
val negb : bool -> bool

type nat =
| O
| S of nat

val fst : ('a1 * 'a2) -> 'a1

val snd : ('a1 * 'a2) -> 'a2

val length : 'a1 list -> nat

val app : 'a1 list -> 'a1 list -> 'a1 list

type comparison =
| Eq
| Lt
| Gt

val compOpp : comparison -> comparison

val add : nat -> nat -> nat

type positive =
| XI of positive
| XO of positive
| XH

type n =
| N0
| Npos of positive

type z =
| Z0
| Zpos of positive
| Zneg of positive

module Pos :
 sig
  type mask =
  | IsNul
  | IsPos of positive
  | IsNeg
 end

module Coq_Pos :
 sig
  val succ : positive -> positive

  val add : positive -> positive -> positive

  val add_carry : positive -> positive -> positive

  val pred_double : positive -> positive

  type mask = Pos.mask =
  | IsNul
  | IsPos of positive
  | IsNeg

  val succ_double_mask : mask -> mask

  val double_mask : mask -> mask

  val double_pred_mask : positive -> mask

  val sub_mask : positive -> positive -> mask

  val sub_mask_carry : positive -> positive -> mask

  val mul : positive -> positive -> positive

  val iter : ('a1 -> 'a1) -> 'a1 -> positive -> 'a1

  val pow : positive -> positive -> positive

  val compare_cont : comparison -> positive -> positive -> comparison

  val compare : positive -> positive -> comparison

  val eqb : positive -> positive -> bool

  val coq_Nsucc_double : n -> n

  val coq_Ndouble : n -> n

  val coq_land : positive -> positive -> n

  val iter_op : ('a1 -> 'a1 -> 'a1) -> positive -> 'a1 -> 'a1

  val to_nat : positive -> nat

  val of_succ_nat : nat -> positive
 end

module N :
 sig
  val succ_double : n -> n

  val double : n -> n

  val add : n -> n -> n

  val sub : n -> n -> n

  val mul : n -> n -> n

  val compare : n -> n -> comparison

  val eqb : n -> n -> bool

  val leb : n -> n -> bool

  val ltb : n -> n -> bool

  val div2 : n -> n

  val pow : n -> n -> n

  val pos_div_eucl : positive -> n -> n * n

  val div_eucl : n -> n -> n * n

  val div : n -> n -> n

  val modulo : n -> n -> n

  val coq_land : n -> n -> n

  val shiftr : n -> n -> n

  val to_nat : n -> nat

  val of_nat : nat -> n
 end

val nth_error : 'a1 list -> nat -> 'a1 option

val rev : 'a1 list -> 'a1 list

val map : ('a1 -> 'a2) -> 'a1 list -> 'a2 list

val existsb : ('a1 -> bool) -> 'a1 list -> bool

val firstn : nat -> 'a1 list -> 'a1 list

val skipn : nat -> 'a1 list -> 'a1 list

module Z :
 sig
  val double : z -> z

  val succ_double : z -> z

  val pred_double : z -> z

  val pos_sub : positive -> positive -> z

  val add : z -> z -> z

  val opp : z -> z

  val sub : z -> z -> z

  val mul : z -> z -> z

  val compare : z -> z -> comparison

  val leb : z -> z -> bool

  val ltb : z -> z -> bool

  val eqb : z -> z -> bool

  val to_N : z -> n

  val of_N : n -> z

  val pos_div_eucl : positive -> z -> z * z

  val div_eucl : z -> z -> z * z

  val modulo : z -> z -> z

  val quotrem : z -> z -> z * z

  val quot : z -> z -> z

  val rem : z -> z -> z
 end

type 'a res =
| Ok of 'a
| Err of n
| Panic

val bind : 'a1 res -> ('a1 -> 'a2 res) -> 'a2 res

val guard : bool -> n -> 'a1 res -> 'a1 res

type ovf =
| Checked
| Wrapping

val usub : ovf -> n -> n -> n -> n res

val umul : ovf -> n -> n -> n -> n res

val lenN : 'a1 list -> n

val dropN : n -> 'a1 list -> 'a1 list

val takeN : n -> 'a1 list -> 'a1 list

val subN : 'a1 list -> n -> n -> 'a1 list

val le_val : n list -> n

val be_val : n list -> n

val le_enc : nat -> n -> n list

val slice : 'a1 list -> n -> n -> 'a1 list res

val slice_from : 'a1 list -> n -> 'a1 list res

val slice_to : 'a1 list -> n -> 'a1 list res

val idx : 'a1 list -> n -> 'a1 res

val arr : n -> 'a1 list -> 'a1 list res

val to_signed : n -> n -> z

val of_signed : n -> z -> n

val rd_le : n list -> n -> n -> n res

val rd_be : n list -> n -> n -> n res

type trg = { t_udp : n; t_ts : n; t_out : n; t_in : n; t_pulser : n;
             t_trigbm : n; t_nim : n; t_esata : n; t_mlu : bool; t_aw16p : 
             n; t_drift : n; t_scaled : n; t_aw16m : n; t_aw16b : n;
             t_bsc : n; t_bscm : n; t_coin : n; t_fw : n }

val e_len : n

val e_zero : n

val e_hdr : n

val e_in : n

val e_drift : n

val e_scaled : n

val e_ftr : n

val e_out : n

val trg_decode : n list -> trg res

val e32 : n -> n list

val trg_encode : trg -> n list

val trg_obs : trg -> n list

type entry =
| TS of n * bool * n
| MK of bool * n

val nUM_INPUT_CHANNELS : n

val word : n -> n -> n -> n -> entry option

type elem =
| E of entry
| Scalers

val sCALERS_BODY : n

val next : n list -> (elem * n list) option

val parse : nat -> n list -> entry list * n list

val cb_fifo : n list -> entry list * n list

val cb_feed : n list -> n list list -> entry list * n list

val entry_obs : entry -> n list

type adc_long = { al_mac : n list; al_offset : z; al_build : n;
                  al_wave : z list }

type adc = { a_trig : n; a_module : n; a_chan : n; a_req : n; a_ts : 
             n; a_long : adc_long option; a_baseline : z; a_keep_last : 
             n; a_keep_bit : bool; a_supp : bool }

val bASELINE_SAMPLES : n

val mIN_KEEP_LAST : n

val list_eqb : n list -> n list -> bool

val mac_known : n list list -> n list -> bool

val chunks2_be : n list -> z list

val iadd32 : ovf -> z -> z -> z res

val isum32 : ovf -> z -> z list -> z res

val i16_unwrap : z -> z res

val e : n

val adc_decode : n list list -> ovf -> n list -> adc res

val alpha16_boards : (n list * n list) list

val padwing_boards : ((n list * n list) * n) list

val adc_macs : n list list

val pwb_macs : n list list

val pwb_devices : n list
