(* End-to-end statements of C09 / C10 / C11 for the COMPOSED model (Event/E2E.v): try_from_banks_model takes exactly
   the arguments of MainEvent::try_from_banks - the run number and the raw (bank name bytes, data bytes) list - and
   runs the proved models of the bank-name parser (C08), the ADC / chunk / PWB / TRG decoders (C02, C03, C05, C06),
   the reassembly (C04), the channel maps (C08) and the calibration tables regenerated from /repo (Gen/Calib.v)
   under the proved assembly (Event/Event.v).  This file only pins statements, in the style of coq/Props; proofs
   are in Event/E2E_proofs.v.  To be imported into Props/C09.v, Props/C10.v, Props/C11.v (prefix = property).

   The only hypothesis left is `Forall bytes (map snd banks)`: every data element is a byte (< 256), which is what
   &[u8] means.  The typing hypotheses of the Event theorems (env_typed, banks_typed), the one-to-one wire map
   (wire_pos_injective) and the order independence of the reassembly (reasm_perm) are theorems here.
   F is the sample type (f64 in the code), fcal d g = f64::from(d) * g, gain_of reads a tabulated gain (mantissa,
   exponent): every theorem holds for every F, fcal, gain_of; Event/E2E64.v is the binary64 instance (extraction). *)
From Coq Require Import Permutation.
From AG Require Import Base.Prelude Base.Res Base.Bytes Ident.Tables.
From AG Require Codec.Adc Codec.Chunk Codec.Reasm Codec.Pwb Codec.Trg Ident.Names Ident.Maps.
From AG Require Import Event.Event Event.EventSpec Event.E2E Event.E2E_proofs.

(* =============================================================================================== C09 *)
(* (a) the typing hypotheses of every Event theorem hold of the real decoders, maps and calibration tables:
   wire index < 256 and pad < (32, 576) from the map theorems, i16 baselines by computation over Gen/Calib.v,
   i16 samples from ADC / PWB exactness, no repeated channel in channels_sent from the ascending mask bits *)
Theorem C09_e2e_env_typed : forall (F : Type) (gain_of : Z * Z -> F) (m : ovf) (run : N), env_typed (env_e2e_m gain_of m run).
Proof. intros F gain_of. exact (e2e_env_typed_m F (fun _ g => g) gain_of). Qed.
Print Assumptions C09_e2e_env_typed.

Theorem C09_e2e_banks_typed : forall (m : ovf) (banks : list (list N * list N)),
  Forall bytes (map snd banks) -> banks_typed (decode_banks_m m banks).
Proof. exact e2e_banks_typed_m. Qed.
Print Assumptions C09_e2e_banks_typed.

(* (b) every main event yields a result: for ALL run numbers, ALL raw bank lists (any names, any bytes), both
   overflow modes and every HashMap iteration order the composed model returns Ok or Err, never a panic *)
Theorem C09_e2e_build_total : forall (F : Type) (fcal : Z -> F -> F) (gain_of : Z * Z -> F) (m : ovf) (run : N) (banks : list (list N * list N))
    (order : list (list chunkv) -> list (list chunkv)),
  Forall bytes (map snd banks) -> try_from_banks_model fcal gain_of m run banks order <> Panic.
Proof. exact e2e_build_total. Qed.
Print Assumptions C09_e2e_build_total.

(* a build with overflow checks and one without give the same result, decoders and reassembly included *)
Theorem C09_e2e_build_no_wrap : forall (F : Type) (fcal : Z -> F -> F) (gain_of : Z * Z -> F) (run : N) (banks : list (list N * list N))
    (order : list (list chunkv) -> list (list chunkv)),
  Forall bytes (map snd banks) ->
  try_from_banks_model fcal gain_of Checked run banks order = try_from_banks_model fcal gain_of Wrapping run banks order.
Proof. exact e2e_build_no_wrap. Qed.
Print Assumptions C09_e2e_build_no_wrap.

Theorem C09_e2e_mode_irrelevant : forall (F : Type) (fcal : Z -> F -> F) (gain_of : Z * Z -> F) (m : ovf) (run : N) (banks : list (list N * list N))
    (order : list (list chunkv) -> list (list chunkv)),
  Forall bytes (map snd banks) ->
  try_from_banks_model fcal gain_of m run banks order =
  build fcal (env_e2e gain_of run) m order (map (fun nd => decode_bank (fst nd) (snd nd)) banks).
Proof. exact e2e_mode_irrelevant. Qed.
Print Assumptions C09_e2e_mode_irrelevant.

(* the environment record has no room for a panic of a component (Panic is mapped to DErr in Event/E2E.v);
   nothing is hidden by that: no component panics - the name parser on any &str, the decoders on any bytes, the
   reassembly on any chunks that decoded, waveform_at on every sent channel, the maps on every channel id *)
Theorem C09_e2e_components_never_panic : forall m : ovf,
  (forall name, Names.utf8b name = true -> Names.parse_main name <> Panic) /\
  (forall data, bytes data -> Adc.adc_decode adc_macs m data <> Panic /\
                              Chunk.chunk_decode pwb_devices m data <> Panic /\ Trg.trg_decode data <> Panic) /\
  (forall cs ks, chunks_of_views m cs = Some ks ->
     Reasm.reasm pwb_devices m Reasm.isort_by_id Pwb.pwb (Pwb.pwb_decode pwb_macs m) ks <> Panic) /\
  (forall f c, Pwb.pwb_fields_ok pwb_macs f -> In c (Pwb.p_sent f) -> exists w, Pwb.waveform_at m f c = Ok (Some w)) /\
  (forall run b ch, ch < 32 -> Maps.wire_position run b ch <> Panic) /\
  (forall run b a ch, a <= 3 -> 1 <= ch <= 72 -> Maps.pad_position run b a ch <> Panic).
Proof. exact e2e_components_never_panic. Qed.
Print Assumptions C09_e2e_components_never_panic.

(* ... and the maps are only ever asked about channel ids in those ranges *)
Theorem C09_e2e_map_arguments_in_range : forall m : ovf,
  (forall d p c, bytes d -> adc_view m d = DOk p -> a_chan p = A32 c -> c < 32) /\
  (forall cs p, reasm_e2e m cs = DOk p ->
     p_chip p <= 3 /\ forall pc wf, In (Pad pc, wf) (p_sent p) -> 1 <= pc <= 72).
Proof. intros m. split; [exact (adc_view_chan unit (fun _ g => g) m)|exact (reasm_e2e_args m)]. Qed.
Print Assumptions C09_e2e_map_arguments_in_range.

(* =============================================================================================== C10 *)
(* an accepted build meets the declarative specification (Event/EventSpec.v) over the banks AS DECODED BY THE
   MODELS from the raw bytes: every name parses; every wire / pad waveform is on the element its (board, channel) /
   (board, chip, channel) maps to, as (raw - baseline) x gain after the delay, with map and calibration of the run;
   all other slots empty; the timestamp is the TRG bank's *)
Theorem C10_e2e_build_sound : forall (F : Type) (fcal : Z -> F -> F) (gain_of : Z * Z -> F) (m : ovf) (run : N) (banks : list (list N * list N))
    (order : list (list chunkv) -> list (list chunkv)) (ev : event F),
  Forall bytes (map snd banks) -> is_order order ->
  try_from_banks_model fcal gain_of m run banks order = Ok ev ->
  event_spec fcal (env_e2e_m gain_of m run) (decode_banks_m m banks) ev.
Proof. exact e2e_build_sound. Qed.
Print Assumptions C10_e2e_build_sound.

(* the build succeeds exactly on the raw bank lists the specification admits - no extra hypothesis: the run's wire
   map is one-to-one by C08 *)
Theorem C10_e2e_build_spec_iff : forall (F : Type) (fcal : Z -> F -> F) (gain_of : Z * Z -> F) (m : ovf) (run : N) (banks : list (list N * list N)) (ev : event F),
  Forall bytes (map snd banks) ->
  ((exists order ev', is_order order /\ try_from_banks_model fcal gain_of m run banks order = Ok ev' /\ ev_eq ev' ev) <->
   event_spec fcal (env_e2e_m gain_of m run) (decode_banks_m m banks) ev).
Proof. exact e2e_build_spec_iff. Qed.
Print Assumptions C10_e2e_build_spec_iff.

(* boards are compared by their row in ALPHA16BOARDS / PADWING_BOARDS; the row lookups of the decoded views always
   succeed: a long ADC packet always shows its board (`unwrap_or(bank name's board)` only applies to the 16-byte
   suppressed form), a chunk and a reassembled packet always have a board row *)
Theorem C10_e2e_board_rows_found : forall m : ovf,
  (forall d f lg, bytes d -> Adc.adc_decode adc_macs m d = Ok f -> Adc.a_long f = Some lg ->
     exists r, a_board (adcv_of f) = Some r) /\
  (forall d c, bytes d -> Chunk.chunk_decode pwb_devices m d = Ok c -> exists r, pwb_row_of_dev (Chunk.c_dev c) = Some r) /\
  (forall cs p, reasm_e2e m cs = DOk p -> p_board p <> no_row).
Proof. exact e2e_board_rows_found. Qed.
Print Assumptions C10_e2e_board_rows_found.

(* one rejection statement per cause named in the property text, on the RAW banks (name bytes, data bytes); bundled
   in one theorem (each `Print Assumptions` walks the whole development); the single lemmas are
   e2e_reject_* in Event/E2E_proofs.v *)
Theorem C10_e2e_rejections : forall (F : Type) (fcal : Z -> F -> F) (gain_of : Z * Z -> F) (m : ovf) (run : N)
    (banks : list (list N * list N)) (order : list (list chunkv) -> list (list chunkv)),
  Forall bytes (map snd banks) -> is_order order ->
  let rejected := exists k, try_from_banks_model fcal gain_of m run banks order = Err k in
  let D := decode_banks_m m banks in
  (* unknown bank name *)
  (forall n d, In (n, d) banks -> (forall k, Names.parse_main n <> Ok k) -> rejected) /\
  (* malformed wire payload *)
  (forall n d b c, In (n, d) banks -> Names.parse_main n = Ok (Names.KAdc32 b c) ->
     (forall f, Adc.adc_decode adc_macs m d <> Ok f) -> rejected) /\
  (* barrel-veto channel in a wire bank *)
  (forall n d b c f, In (n, d) banks -> Names.parse_main n = Ok (Names.KAdc32 b c) ->
     Adc.adc_decode adc_macs m d = Ok f -> Adc.a_chan f < 128 -> rejected) /\
  (* payload channel differs from the name *)
  (forall n d b c f, In (n, d) banks -> Names.parse_main n = Ok (Names.KAdc32 b c) ->
     Adc.adc_decode adc_macs m d = Ok f -> 128 <= Adc.a_chan f -> Adc.a_chan f - 128 <> c -> rejected) /\
  (* payload board (MAC address) differs from the name *)
  (forall n d b c f lg b', In (n, d) banks -> Names.parse_main n = Ok (Names.KAdc32 b c) ->
     Adc.adc_decode adc_macs m d = Ok f -> Adc.a_long f = Some lg -> a16_row_of_mac (Adc.al_mac lg) = Some b' ->
     b' <> b -> rejected) /\
  (* the same wire bank name twice *)
  (forall l1 l2 l3 n d1 d2 b c, banks = l1 ++ (n, d1) :: l2 ++ (n, d2) :: l3 ->
     Names.parse_main n = Ok (Names.KAdc32 b c) -> rejected) /\
  (* no wire map for the run / board *)
  (forall n d b c f lg, In (n, d) banks -> Names.parse_main n = Ok (Names.KAdc32 b c) ->
     Adc.adc_decode adc_macs m d = Ok f -> Adc.a_long f = Some lg -> Adc.al_wave lg <> [] ->
     (forall w, Maps.wire_position run b c <> Ok w) -> rejected) /\
  (* no wire calibration for the run / wire *)
  (forall n d b c f lg w, In (n, d) banks -> Names.parse_main n = Ok (Names.KAdc32 b c) ->
     Adc.adc_decode adc_macs m d = Ok f -> Adc.a_long f = Some lg -> Adc.al_wave lg <> [] ->
     Maps.wire_position run b c = Ok w -> wire_cal_e2e gain_of run w = DErr -> rejected) /\
  (* malformed chunk *)
  (forall n d b, In (n, d) banks -> Names.parse_main n = Ok (Names.KPwb b) ->
     (forall c, Chunk.chunk_decode pwb_devices m d <> Ok c) -> rejected) /\
  (* chunk of another board than the bank name says *)
  (forall n d b c, In (n, d) banks -> Names.parse_main n = Ok (Names.KPwb b) ->
     Chunk.chunk_decode pwb_devices m d = Ok c -> row_or_none (pwb_row_of_dev (Chunk.c_dev c)) <> b -> rejected) /\
  (* the chunks of a (board, chip) do not reassemble into a valid packet *)
  (forall k0, In k0 (gkeys D) -> reasm_e2e m (group k0 D) = DErr -> rejected) /\
  (* no pad map for the run / board *)
  (forall k0 p pc wf, In k0 (gkeys D) -> reasm_e2e m (group k0 D) = DOk p -> In (Pad pc, wf) (p_sent p) ->
     (forall pos, Maps.pad_position run (p_board p) (p_chip p) pc <> Ok pos) -> rejected) /\
  (* no pad calibration for the run / pad *)
  (forall k0 p pc wf c r, In k0 (gkeys D) -> reasm_e2e m (group k0 D) = DOk p -> In (Pad pc, wf) (p_sent p) ->
     Maps.pad_position run (p_board p) (p_chip p) pc = Ok (c, r) -> pad_cal_e2e gain_of run c r = DErr -> rejected) /\
  (* a pad claimed twice *)
  (~ NoDup (pad_claims (env_e2e_m gain_of m run) D) -> rejected) /\
  (* malformed TRG payload *)
  (forall n d, In (n, d) banks -> Names.parse_main n = Ok Names.KTrg -> (forall t, Trg.trg_decode d <> Ok t) ->
     rejected) /\
  (* two TRG banks *)
  (forall l1 l2 l3 n d1 d2, banks = l1 ++ (n, d1) :: l2 ++ (n, d2) :: l3 -> Names.parse_main n = Ok Names.KTrg ->
     rejected) /\
  (* no TRG bank *)
  ((forall n d, In (n, d) banks -> Names.parse_main n <> Ok Names.KTrg) -> rejected).
Proof.
  intros F fcal gain_of m run banks order Hb O. cbv zeta.
  split; [exact (e2e_reject_unknown_name F fcal gain_of m run banks order Hb O)|].
  split; [exact (e2e_reject_malformed_wire_payload F fcal gain_of m run banks order Hb O)|].
  split; [exact (e2e_reject_bv_channel_in_wire_bank F fcal gain_of m run banks order Hb O)|].
  split; [exact (e2e_reject_wire_channel_mismatch F fcal gain_of m run banks order Hb O)|].
  split; [exact (e2e_reject_wire_board_mismatch F fcal gain_of m run banks order Hb O)|].
  split; [exact (e2e_reject_duplicate_wire_bank F fcal gain_of m run banks order Hb O)|].
  split; [exact (e2e_reject_missing_wire_map F fcal gain_of m run banks order Hb O)|].
  split; [exact (e2e_reject_missing_wire_calibration F fcal gain_of m run banks order Hb O)|].
  split; [exact (e2e_reject_malformed_chunk F fcal gain_of m run banks order Hb O)|].
  split; [exact (e2e_reject_pad_board_mismatch F fcal gain_of m run banks order Hb O)|].
  split; [exact (e2e_reject_malformed_pwb_packet F fcal gain_of m run banks order Hb O)|].
  split; [exact (e2e_reject_missing_pad_map F fcal gain_of m run banks order Hb O)|].
  split; [exact (e2e_reject_missing_pad_calibration F fcal gain_of m run banks order Hb O)|].
  split; [exact (e2e_reject_duplicate_pad_signal F fcal gain_of m run banks order Hb O)|].
  split; [exact (e2e_reject_malformed_trg F fcal gain_of m run banks order Hb O)|].
  split; [exact (e2e_reject_duplicate_trg F fcal gain_of m run banks order Hb O)|].
  exact (e2e_reject_missing_trg F fcal gain_of m run banks order Hb O).
Qed.
Print Assumptions C10_e2e_rejections.

(* =============================================================================================== C11 *)
(* for every run the wire map of the composed environment is one-to-one (C08) ... *)
Theorem C11_e2e_wire_pos_injective : forall (F : Type) (gain_of : Z * Z -> F) (m : ovf) (run : N), wire_pos_injective (env_e2e_m gain_of m run).
Proof. exact e2e_wire_pos_injective. Qed.
Print Assumptions C11_e2e_wire_pos_injective.
(* ... and its reassembly does not depend on the arrival order of the chunks (C04) *)
Theorem C11_e2e_reasm_perm : forall (F : Type) (gain_of : Z * Z -> F) (m : ovf) (run : N), reasm_perm (env_e2e_m gain_of m run).
Proof. exact e2e_reasm_perm. Qed.
Print Assumptions C11_e2e_reasm_perm.

(* hence: any permutation of the RAW bank list and any two HashMap iteration orders succeed or fail alike and on
   success give the same event (timestamp, every wire slot, every pad slot) *)
Theorem C11_e2e_build_perm_invariant : forall (F : Type) (fcal : Z -> F -> F) (gain_of : Z * Z -> F) (m : ovf) (run : N) (banks banks' : list (list N * list N))
    (order order' : list (list chunkv) -> list (list chunkv)),
  Forall bytes (map snd banks) -> Permutation banks banks' -> is_order order -> is_order order' ->
  is_ok (try_from_banks_model fcal gain_of m run banks order) = is_ok (try_from_banks_model fcal gain_of m run banks' order') /\
  (forall ev ev', try_from_banks_model fcal gain_of m run banks order = Ok ev ->
                  try_from_banks_model fcal gain_of m run banks' order' = Ok ev' -> ev_eq ev ev').
Proof. exact e2e_build_perm_invariant. Qed.
Print Assumptions C11_e2e_build_perm_invariant.

Theorem C11_e2e_group_order_irrelevant : forall (F : Type) (fcal : Z -> F -> F) (gain_of : Z * Z -> F) (m : ovf) (run : N) (banks : list (list N * list N))
    (order order' : list (list chunkv) -> list (list chunkv)),
  Forall bytes (map snd banks) -> is_order order -> is_order order' ->
  is_ok (try_from_banks_model fcal gain_of m run banks order) = is_ok (try_from_banks_model fcal gain_of m run banks order') /\
  (forall ev ev', try_from_banks_model fcal gain_of m run banks order = Ok ev ->
                  try_from_banks_model fcal gain_of m run banks order' = Ok ev' -> ev_eq ev ev').
Proof. exact e2e_group_order_irrelevant. Qed.
Print Assumptions C11_e2e_group_order_irrelevant.

(* =============================================================================================== non-vacuity *)
(* a TRG v3 packet with timestamp 1234 *)
Definition e2e_ex_trg : list N :=
  [255; 0; 0; 0; 7; 0; 0; 128; 210; 4; 0; 0; 7; 0; 0; 0; 12; 0; 0; 0; 0; 0; 0; 0; 5; 0; 0; 0; 6; 0; 0; 0; 7; 0; 0; 0;
   8; 0; 0; 128; 10; 0; 0; 0; 8; 0; 0; 0; 0; 0; 0; 0; 9; 0; 10; 0; 11; 0; 0; 0; 0; 0; 0; 0; 12; 0; 0; 0; 13; 0; 0; 0;
   14; 0; 0; 0; 7; 0; 0; 224].
(* an ADC v3 long packet of board "09" (MAC d8:80:39:68:37:4c), channel byte 128 + 2, 132 requested = 130 samples:
   100 samples of 3005, then 30 of 3007 (big-endian), no suppression, baseline word 3005 *)
Definition e2e_ex_adc : list N :=
  [1; 3; 0; 4; 5; 130; 0; 132; 0; 0; 0; 7; 0; 0; 216; 128; 57; 104; 55; 76] ++ repeat 0 12 ++
  flat_map (fun _ => [11; 189]) (seq 0 100) ++ flat_map (fun _ => [11; 191]) (seq 0 30) ++ [0; 0; 11; 189].
(* banks "C092", "ATAT", "MCVX" *)
Definition e2e_ex_banks : list (list N * list N) :=
  [([67; 48; 57; 50], e2e_ex_adc); ([65; 84; 65; 84], e2e_ex_trg); ([77; 67; 86; 88], [1; 2; 3])].
(* the examples use an exact, symbolic sample type: a calibrated sample is the pair (raw - baseline, gain) *)
Definition ex_F : Type := Z * (Z * Z).
Definition ex_fcal' (d : Z) (g : ex_F) : ex_F := (d * fst g, snd g)%Z.
Definition ex_gain (g : Z * Z) : ex_F := (1%Z, g).
Definition e2e_ex_event : event ex_F :=
  {| ev_wires := [(0, repeat (7, (1, 0))%Z 30)]; ev_pads := []; ev_ts := 1234 |}.

Example E2E_hypothesis_satisfiable : Forall bytes (map snd e2e_ex_banks).
Proof. apply Forall_forall. intros l H. apply bytesb_spec. revert l H. apply Forall_forall.
  repeat constructor. Qed.
(* simulation run: wire 0 gets (3007 - 3000) x gain (gain = 1 x 2^0) for the 30 samples after the delay of 100;
   the reversed bank list under the reversed group order and without overflow checks gives the same event;
   an unknown bank name, a run without maps, a second TRG bank are rejected *)
Example E2E_nonvacuous_build :
  let model := try_from_banks_model ex_fcal' ex_gain in
  model Checked 4294967295 e2e_ex_banks (fun l => l) = Ok e2e_ex_event /\
  model Wrapping 4294967295 (rev e2e_ex_banks) (@rev _) = Ok e2e_ex_event /\
  is_err (model Checked 4294967295 (e2e_ex_banks ++ [([88; 88; 88; 88], [])]) (fun l => l)) = true /\
  is_err (model Checked 100 e2e_ex_banks (fun l => l)) = true /\
  is_err (model Checked 4294967295 (([65; 84; 65; 84], e2e_ex_trg) :: e2e_ex_banks) (fun l => l)) = true.
Proof. vm_compute. repeat split; reflexivity. Qed.
