(* Lemmas about the assembly fold of Event/Event.v: basic list facts, totality (C09), and the
   characterisation of each loop. *)
From AG Require Import Base.Prelude Base.Res Event.Event Event.EventSpec.
From Coq Require Import Permutation.

(* ---------------- generic facts ---------------- *)
Lemma pair_eqb_eq a b : pair_eqb a b = true <-> a = b.
Proof.
  destruct a as [a1 a2], b as [b1 b2]; unfold pair_eqb; cbn [fst snd].
  rewrite andb_true_iff, !N.eqb_eq. split; [intros [-> ->]; auto | intros H; inv H; auto].
Qed.
Lemma pair_eqb_refl a : pair_eqb a a = true.
Proof. apply pair_eqb_eq; auto. Qed.
Lemma pair_eqb_neq a b : pair_eqb a b = false <-> a <> b.
Proof. rewrite <- pair_eqb_eq. destruct (pair_eqb a b); split; congruence. Qed.
Lemma pair_eqb_sym a b : pair_eqb a b = pair_eqb b a.
Proof.
  destruct (pair_eqb a b) eqn:E.
  - apply pair_eqb_eq in E; subst. symmetry; apply pair_eqb_refl.
  - apply pair_eqb_neq in E. symmetry. apply pair_eqb_neq. congruence.
Qed.

Lemma mem2_true k l : mem2 k l = true <-> In k l.
Proof.
  unfold mem2. rewrite existsb_exists. split.
  - intros [x [Hx E]]. apply pair_eqb_eq in E; subst; auto.
  - intros H. exists k. split; auto. apply pair_eqb_refl.
Qed.
Lemma mem2_false k l : mem2 k l = false <-> ~ In k l.
Proof. rewrite <- mem2_true. destruct (mem2 k l); split; congruence. Qed.

Lemma pchan_eqb_refl c : pchan_eqb c c = true.
Proof. destruct c; cbn; apply N.eqb_refl. Qed.

Lemma assocN_in {V} k (l : list (N * V)) v : assocN k l = Some v -> In (k, v) l.
Proof.
  induction l as [|[k' v'] t IH]; cbn; [discriminate|].
  destruct (k =? k') eqn:E; [apply N.eqb_eq in E; subst; intros H; inv H; auto | auto].
Qed.
Lemma assocN_none {V} k (l : list (N * V)) : assocN k l = None <-> ~ In k (map fst l).
Proof.
  induction l as [|[k' v'] t IH]; cbn; [tauto|].
  destruct (k =? k') eqn:E.
  - apply N.eqb_eq in E; subst. split; [discriminate | intros H; exfalso; apply H; auto].
  - apply N.eqb_neq in E. rewrite IH. split; [intros H [C|C]; [congruence|auto] | tauto].
Qed.
Lemma assocN_nodup {V} k (l : list (N * V)) v : NoDup (map fst l) -> In (k, v) l -> assocN k l = Some v.
Proof.
  induction l as [|[k' v'] t IH]; cbn; [tauto|]. intros ND [H|H].
  - inv H. rewrite N.eqb_refl. auto.
  - inv ND. destruct (k =? k') eqn:E; [|auto].
    apply N.eqb_eq in E; subst. exfalso. apply H2. change k' with (fst (k', v)). apply in_map; auto.
Qed.
Lemma assoc2_in {V} k (l : list (N * N * V)) v : assoc2 k l = Some v -> In (k, v) l.
Proof.
  induction l as [|[k' v'] t IH]; cbn; [discriminate|].
  destruct (pair_eqb k k') eqn:E; [apply pair_eqb_eq in E; subst; intros H; inv H; auto | auto].
Qed.
Lemma assoc2_none {V} k (l : list (N * N * V)) : assoc2 k l = None <-> ~ In k (map fst l).
Proof.
  induction l as [|[k' v'] t IH]; cbn; [tauto|].
  destruct (pair_eqb k k') eqn:E.
  - apply pair_eqb_eq in E; subst. split; [discriminate | intros H; exfalso; apply H; auto].
  - apply pair_eqb_neq in E. rewrite IH. split; [intros H [C|C]; [congruence|auto] | tauto].
Qed.
Lemma assoc2_nodup {V} k (l : list (N * N * V)) v : NoDup (map fst l) -> In (k, v) l -> assoc2 k l = Some v.
Proof.
  induction l as [|[k' v'] t IH]; cbn; [tauto|]. intros ND [H|H].
  - inv H. rewrite pair_eqb_refl. auto.
  - inv ND. destruct (pair_eqb k k') eqn:E; [|auto].
    apply pair_eqb_eq in E; subst. exfalso. apply H2. change k' with (fst (k', v)). apply in_map; auto.
Qed.

Lemma Forall_skipn {A} (P : A -> Prop) n l : Forall P l -> Forall P (skipn n l).
Proof. revert l; induction n; intros l H; cbn; auto. destruct l; auto. inv H; auto. Qed.

Section Proofs.
Variable F : Type.
Variable fcal : Z -> F -> F.
Notation env := (env F).

(* ---------------- calibration arithmetic: the widened subtraction never overflows ---------------- *)
Lemma sub_i32_ok m a b : i16 a -> i16 b -> sub_i32 m a b = Ok (a - b)%Z.
Proof.
  unfold i16, sub_i32; intros Ha Hb.
  replace ((-2147483648 <=? a - b)%Z && (a - b <=? 2147483647)%Z) with true; auto.
  symmetry; apply andb_true_iff; split; apply Z.leb_le; lia.
Qed.
Lemma calib_res_ok m bl g wf : i16 bl -> Forall i16 wf ->
  calib_res fcal m bl g wf = Ok (map (fun v => fcal (v - bl) g) wf).
Proof.
  intros Hb; induction 1 as [|v t Hv Ht IH]; cbn [calib_res map]; auto.
  rewrite sub_i32_ok by auto. cbn [bind]. rewrite IH. reflexivity.
Qed.
Lemma signal_ok m bl g dl wf : i16 bl -> Forall i16 wf -> signal fcal m bl g dl wf = Ok (calib fcal bl g dl wf).
Proof. intros; unfold signal, calib. apply calib_res_ok; auto. apply Forall_skipn; auto. Qed.

(* ---------------- totality (C09) ---------------- *)
Lemma step_wire_total e m nm ws nb nc d :
  env_typed e -> bank_typed (BWire nb nc d) -> step_wire fcal e m nm ws nb nc d <> Panic.
Proof.
  intros T B. unfold step_wire.
  destruct d as [|p]; [discriminate|].
  destruct (a_chan p) as [c|c]; [|discriminate].
  destruct (negb _); [discriminate|]. destruct (mem2 _ _); [discriminate|].
  destruct (a_wf p) as [|v t] eqn:Ewf; [discriminate|].
  destruct (wire_pos e _ c) as [|w] eqn:Ew; [discriminate|].
  rewrite (proj2 (N.ltb_lt w 256) (et_wire _ e T _ _ _ Ew)). cbn [negb].
  destruct (assocN w ws); [discriminate|].
  destruct (wire_cal e w) as [|[[bl g] dl]] eqn:Ec; [discriminate|].
  rewrite signal_ok; [| eapply et_wcal; eauto | cbn in B; rewrite Ewf in B; exact B].
  cbn [bind]. discriminate.
Qed.

Lemma step_total e m s b : env_typed e -> bank_typed b -> step fcal e m s b <> Panic.
Proof.
  intros T B. destruct b as [nb nc d|nb d|d| |]; cbn [step]; try discriminate.
  - pose proof (step_wire_total e m (s_names s) (s_wires s) nb nc d T B) as H.
    destruct (step_wire _ _ _ _ _ _ _ _); cbn [bind]; congruence.
  - unfold step_pad. destruct d; cbn [bind]; [discriminate|]. destruct (negb _); cbn [bind]; discriminate.
  - unfold step_trg. destruct d; cbn [bind]; [discriminate|]. destruct (s_ts s); cbn [bind]; discriminate.
Qed.

Lemma loop_total e m s banks : env_typed e -> banks_typed banks -> loop fcal e m s banks <> Panic.
Proof.
  intros T B. revert s. induction B as [|b t Hb Ht IH]; intros s; cbn [loop]; [discriminate|].
  pose proof (step_total e m s b T Hb). destruct (step fcal e m s b); cbn [bind]; auto.
Qed.

Lemma waveform_at_sent p x : In x (p_sent p) -> exists wf, waveform_at p (fst x) = Some wf.
Proof.
  unfold waveform_at. intros H.
  destruct (find (fun y => pchan_eqb (fst y) (fst x)) (p_sent p)) as [y|] eqn:E.
  - exists (snd y); reflexivity.
  - exfalso. eapply find_none in E; eauto. cbn in E. rewrite pchan_eqb_refl in E. discriminate.
Qed.

Lemma step_chan_total e m p s x : env_typed e -> (exists cs, reasm e cs = DOk p) -> In x (p_sent p) ->
  step_chan fcal e m p s x <> Panic.
Proof.
  intros T [cs R] Hx. unfold step_chan. destruct (fst x) as [pc| |] eqn:Ex; try discriminate.
  destruct (waveform_at_sent p x Hx) as [wf W]. rewrite Ex in W. rewrite W. cbn [unwrap bind].
  destruct (pad_pos e _ _ pc) as [|[c r]] eqn:Ep; [discriminate|].
  destruct (et_pad _ e T _ _ _ _ _ Ep) as [Hc Hr].
  rewrite (proj2 (N.ltb_lt c 32) Hc), (proj2 (N.ltb_lt r 576) Hr). cbn [andb negb].
  destruct (mem2 _ _); [discriminate|].
  destruct (pad_cal e c r) as [|[[bl g] dl]] eqn:Ec; [discriminate|].
  assert (Hwf : Forall i16 wf).
  { unfold waveform_at in W. destruct (find _ (p_sent p)) as [y|] eqn:E; [|discriminate].
    cbn in W. inv W. apply find_some in E. destruct E as [Hy _]. destruct y as [ch wf].
    eapply et_reasm; eauto. }
  rewrite signal_ok; [| eapply et_pcal; eauto | auto]. cbn [bind]. discriminate.
Qed.

Lemma chan_loop_total e m p s l : env_typed e -> (exists cs, reasm e cs = DOk p) -> incl l (p_sent p) ->
  chan_loop fcal e m p s l <> Panic.
Proof.
  intros T R. revert s. induction l as [|x t IH]; intros s I; cbn [chan_loop]; [discriminate|].
  pose proof (step_chan_total e m p s x T R (I x (or_introl eq_refl))) as H.
  destruct (step_chan fcal e m p s x); cbn [bind]; try congruence.
  apply IH. intros y Hy; apply I; right; auto.
Qed.

Lemma group_loop_total e m s gs : env_typed e -> group_loop fcal e m s gs <> Panic.
Proof.
  intros T. revert s. induction gs as [|cs t IH]; intros s; cbn [group_loop]; [discriminate|].
  assert (H : step_group fcal e m s cs <> Panic).
  { unfold step_group. destruct (reasm e cs) as [|p] eqn:R; [discriminate|].
    apply chan_loop_total; eauto. apply incl_refl. }
  destruct (step_group fcal e m s cs); cbn [bind]; auto; congruence.
Qed.

Lemma build_total_lemma e m order banks :
  env_typed e -> banks_typed banks -> build fcal e m order banks <> Panic.
Proof.
  intros T B. unfold build.
  pose proof (loop_total e m st0 banks T B) as H1.
  destruct (loop fcal e m st0 banks) as [s| |]; cbn [bind]; try congruence.
  pose proof (group_loop_total e m ([], []) (order (map snd (s_groups s))) T) as H2.
  destruct (group_loop _ _ _ _ _) as [ps| |]; cbn [bind]; try congruence.
  destruct (s_ts s); discriminate.
Qed.

End Proofs.
