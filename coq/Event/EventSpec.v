(* Specification of event assembly (property C10), written independently of the fold in
   Event/Event.v: a declarative predicate `event_spec e banks ev` over the decoded banks.
   Definitions only. *)
From AG Require Import Base.Prelude Base.Res Event.Event.
From Coq Require Import Permutation.

(* ---- what the Rust types guarantee about the decoded values (i16 samples and baselines,
        TpcWirePosition < 256, TpcPadPosition < (32, 576)) ---- *)
Definition i16 (z : Z) : Prop := (-32768 <= z <= 32767)%Z.
Definition bank_typed (b : bank) : Prop :=
  match b with BWire _ _ (DOk p) => Forall i16 (a_wf p) | _ => True end.
Definition banks_typed (banks : list bank) : Prop := Forall bank_typed banks.

(* ---- projections of a bank list ---- *)
Definition wire_names (banks : list bank) : list (N * N) :=
  flat_map (fun b => match b with BWire nb nc _ => [(nb, nc)] | _ => [] end) banks.
Definition trgs (banks : list bank) : list (dec N) :=
  flat_map (fun b => match b with BTrg d => [d] | _ => [] end) banks.
(* the chunks of the PWB banks that decode, in bank order *)
Definition chunks (banks : list bank) : list chunkv :=
  flat_map (fun b => match b with BPad _ (DOk c) => [c] | _ => [] end) banks.
Definition ckey (c : chunkv) : N * N := (c_board c, c_chip c).
(* the chunks whose header names (board, chip) = k, in bank order *)
Definition group (k : N * N) (banks : list bank) : list chunkv :=
  filter (fun c => pair_eqb (ckey c) k) (chunks banks).
Definition pair_dec (a b : N * N) : {a = b} + {a <> b}.
Proof. decide equality; apply N.eq_dec. Defined.
(* the distinct (board, chip) keys present *)
Definition gkeys (banks : list bank) : list (N * N) := nodup pair_dec (map ckey (chunks banks)).

Section Spec.
Variable F : Type.
Variable fcal : Z -> F -> F.

Record env_typed (e : env F) : Prop := {
  et_wire : forall b c w, wire_pos e b c = DOk w -> w < 256;
  et_pad : forall b ch c col row, pad_pos e b ch c = DOk (col, row) -> col < 32 /\ row < 576;
  et_wcal : forall w bl g dl, wire_cal e w = DOk (bl, g, dl) -> i16 bl;
  et_pcal : forall c r bl g dl, pad_cal e c r = DOk (bl, g, dl) -> i16 bl;
  et_reasm : forall cs p, reasm e cs = DOk p -> forall ch wf, In (ch, wf) (p_sent p) -> Forall i16 wf;
  (* channels_sent comes from a bit mask: no channel is listed twice (C05) *)
  et_sent : forall cs p, reasm e cs = DOk p -> NoDup (map fst (p_sent p))
}.

(* the run's wire map sends different (board, channel) pairs to different wires (C08) *)
Definition wire_pos_injective (e : env F) : Prop :=
  forall b c b' c' w, wire_pos e b c = DOk w -> wire_pos e b' c' = DOk w -> (b, c) = (b', c').
(* reassembly does not depend on the order in which the chunks of a group arrive (C04) *)
Definition reasm_perm (e : env F) : Prop :=
  forall cs cs', Permutation cs cs' -> reasm e cs = reasm e cs'.

(* (raw sample - baseline) x gain with the leading `dl` samples removed *)
Definition calib (bl : Z) (g : F) (dl : N) (wf : list Z) : list F :=
  map (fun v => fcal (v - bl) g) (skipn (N.to_nat dl) wf).

(* positions claimed by the sent pad channels of a reassembled group *)
Definition claims_of (e : env F) (cs : list chunkv) : list (N * N) :=
  match reasm e cs with
  | DErr => []
  | DOk p =>
    flat_map (fun x => match fst x with
                       | Pad pc => match pad_pos e (p_board p) (p_chip p) pc with DOk pos => [pos] | DErr => [] end
                       | _ => []
                       end) (p_sent p)
  end.
Definition pad_claims (e : env F) (banks : list bank) : list (N * N) :=
  flat_map (fun k => claims_of e (group k banks)) (gkeys banks).

Record event_spec (e : env F) (banks : list bank) (ev : event F) : Prop := {
  (* every bank name is known *)
  sp_names : ~ In BUnknown banks;
  (* each wire bank decodes, holds an A32 channel, agrees with its name on the channel and - when
     the packet carries a board - on the board; a non-empty waveform has a wire, a calibration,
     and its calibrated post-delay samples (if any) are in that wire's slot *)
  sp_wire : forall nb nc d, In (BWire nb nc d) banks ->
    exists p, d = DOk p /\ a_chan p = A32 nc /\ (forall b, a_board p = Some b -> b = nb) /\
      (a_wf p <> [] -> exists w bl g dl,
         wire_pos e nb nc = DOk w /\ wire_cal e w = DOk (bl, g, dl) /\
         (calib bl g dl (a_wf p) <> [] -> wire_at ev w = Some (calib bl g dl (a_wf p))));
  (* no two wire banks with the same name *)
  sp_wire_nodup : NoDup (wire_names banks);
  (* all other wire slots are empty *)
  sp_wire_only : forall w s, wire_at ev w = Some s ->
    exists nb nc p bl g dl, In (BWire nb nc (DOk p)) banks /\ wire_pos e nb nc = DOk w /\
      wire_cal e w = DOk (bl, g, dl) /\ s = calib bl g dl (a_wf p) /\ s <> [];
  (* each PWB bank holds a chunk of the board it is named after *)
  sp_pad_bank : forall nb d, In (BPad nb d) banks -> exists c, d = DOk c /\ c_board c = nb;
  (* the chunks of each (board, chip) reassemble; every sent pad channel has a pad, a calibration,
     and its calibrated post-delay samples (if any) are in that pad's slot, placed by the
     packet's board and chip *)
  sp_group : forall k, In k (gkeys banks) ->
    exists p, reasm e (group k banks) = DOk p /\
      forall pc wf, In (Pad pc, wf) (p_sent p) -> exists c r bl g dl,
        pad_pos e (p_board p) (p_chip p) pc = DOk (c, r) /\ pad_cal e c r = DOk (bl, g, dl) /\
        (calib bl g dl wf <> [] -> pad_at ev c r = Some (calib bl g dl wf));
  (* no pad is claimed twice *)
  sp_pad_nodup : NoDup (pad_claims e banks);
  (* all other pad slots are empty *)
  sp_pad_only : forall c r s, pad_at ev c r = Some s ->
    exists k p pc wf bl g dl, In k (gkeys banks) /\ reasm e (group k banks) = DOk p /\
      In (Pad pc, wf) (p_sent p) /\ pad_pos e (p_board p) (p_chip p) pc = DOk (c, r) /\
      pad_cal e c r = DOk (bl, g, dl) /\ s = calib bl g dl wf /\ s <> [];
  (* exactly one TRG bank; it decodes and gives the timestamp *)
  sp_trg : exists t, trgs banks = [DOk t] /\ ev_ts ev = t
}.

(* the part of the specification that does not mention the event: when a build is accepted *)
Record accept (e : env F) (banks : list bank) : Prop := {
  ac_names : ~ In BUnknown banks;
  ac_wire : forall nb nc d, In (BWire nb nc d) banks ->
    exists p, d = DOk p /\ a_chan p = A32 nc /\ (forall b, a_board p = Some b -> b = nb) /\
      (a_wf p <> [] -> exists w bl g dl, wire_pos e nb nc = DOk w /\ wire_cal e w = DOk (bl, g, dl));
  ac_wire_nodup : NoDup (wire_names banks);
  ac_pad_bank : forall nb d, In (BPad nb d) banks -> exists c, d = DOk c /\ c_board c = nb;
  ac_group : forall k, In k (gkeys banks) ->
    exists p, reasm e (group k banks) = DOk p /\
      forall pc wf, In (Pad pc, wf) (p_sent p) -> exists c r bl g dl,
        pad_pos e (p_board p) (p_chip p) pc = DOk (c, r) /\ pad_cal e c r = DOk (bl, g, dl);
  ac_pad_nodup : NoDup (pad_claims e banks);
  ac_trg : exists t, trgs banks = [DOk t]
}.

(* two events are the same: same timestamp, same content of every wire and pad slot *)
Definition ev_eq (a b : event F) : Prop :=
  ev_ts a = ev_ts b /\ (forall w, wire_at a w = wire_at b w) /\ (forall c r, pad_at a c r = pad_at b c r).

End Spec.

Arguments env_typed {F} e.
Arguments wire_pos_injective {F} e.
Arguments reasm_perm {F} e.
Arguments calib {F} fcal bl g dl wf.
Arguments claims_of {F} e cs.
Arguments pad_claims {F} e banks.
Arguments event_spec {F} fcal e banks ev.
Arguments accept {F} e banks.
Arguments ev_eq {F} a b.
