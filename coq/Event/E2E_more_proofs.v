(* Further statements about the end-to-end model Event/E2E.v, composed from Event/E2E_proofs.v and the codec theorems:
   the rejection of a duplicated PWB bank on the RAW bank list (C10). *)
From Coq Require Import Permutation Sorted.
From AG Require Import Base.Prelude Base.Res Base.Bytes Ident.Dispatch Gen.Boards Ident.Tables Gen.Calib.
From AG Require Codec.Adc Codec.Chunk Codec.Chunk_proofs Codec.Reasm Codec.Reasm_proofs Codec.Pwb Codec.Pwb_proofs
  Codec.Trg Ident.Names Ident.Maps.
From AG Require Import Event.Event Event.EventSpec Event.Event_proofs Event.EventSpec_proofs Event.EventThm_proofs
  Event.E2E Event.E2E_proofs.

Lemma chunks_of_views_app m : forall a b,
  chunks_of_views m (a ++ b) =
  match chunks_of_views m a, chunks_of_views m b with Some x, Some y => Some (x ++ y) | _, _ => None end.
Proof.
  induction a as [|c t IH]; intros b; cbn [app chunks_of_views].
  - destruct (chunks_of_views m b); reflexivity.
  - rewrite IH. destruct (Chunk.chunk_decode pwb_devices m (bytes_of_uid (c_uid c))) as [k| |];
      destruct (chunks_of_views m t); destruct (chunks_of_views m b); reflexivity.
Qed.

Lemma chunks_app a b : chunks (a ++ b) = chunks a ++ chunks b.
Proof. unfold chunks. apply flat_map_app. Qed.

(* the same chunk twice among the chunks handed to PwbPacket::try_from: two equal chunk ids, the reassembly refuses *)
Lemma reasm_e2e_dup_chunk m g1 g2 g3 cv c :
  Chunk.chunk_decode pwb_devices m (bytes_of_uid (c_uid cv)) = Ok c ->
  reasm_e2e m (g1 ++ cv :: g2 ++ cv :: g3) = DErr.
Proof.
  intros Hc. unfold reasm_e2e.
  destruct (chunks_of_views m (g1 ++ cv :: g2 ++ cv :: g3)) as [ks|] eqn:E; [|reflexivity].
  pose proof (chunks_of_views_ok m _ ks E) as Ho.
  assert (Hn : ~ NoDup (map Chunk.c_id ks)).
  { rewrite chunks_of_views_app in E. cbn [chunks_of_views] in E. rewrite Hc in E.
    rewrite chunks_of_views_app in E. cbn [chunks_of_views] in E. rewrite Hc in E.
    destruct (chunks_of_views m g1) as [k1|]; [|discriminate].
    destruct (chunks_of_views m g2) as [k2|]; [|discriminate].
    destruct (chunks_of_views m g3) as [k3|]; [|discriminate]. injection E as <-.
    rewrite map_app. cbn [map]. rewrite map_app. cbn [map]. intros N.
    apply NoDup_remove_2 in N. apply N. apply in_or_app. right. apply in_or_app. right. left. reflexivity. }
  destruct (Reasm_proofs.dup_id_err pwb_devices m Pwb.pwb (Pwb.pwb_decode pwb_macs m) Reasm.isort_by_id
              Reasm_proofs.isort_admissible ks Ho Hn) as (k & ->).
  reflexivity.
Qed.

Section More.
Variable FT : Type.
Variable fcal : Z -> FT -> FT.
Variable gain_of : Z * Z -> FT.

(* C10, rejection cause "a pad bank is duplicated", on the RAW banks: the same PWB bank - same name bytes, same data
   bytes, the name parsing to a Padwing name and the data decoding to a chunk - twice in the bank list.  Whatever the
   other banks are, the build fails, under every iteration order of the chunk-group map: the bank's board disagrees
   with its name (already an error), or both copies land in the group of their (board, chip) with the same chunk id
   and PwbPacket::try_from refuses the group (C04 dup_id_err) - unless an earlier step has already failed. *)
Theorem e2e_reject_duplicate_pad_bank m run banks order l1 l2 l3 n d b c :
  Forall bytes (map snd banks) -> is_order order ->
  banks = l1 ++ (n, d) :: l2 ++ (n, d) :: l3 ->
  Names.parse_main n = Ok (Names.KPwb b) -> Chunk.chunk_decode pwb_devices m d = Ok c ->
  exists k, try_from_banks_model fcal gain_of m run banks order = Err k.
Proof.
  intros Hb O Eb P A.
  assert (I : In (n, d) banks) by (rewrite Eb; apply in_or_app; right; left; reflexivity).
  assert (Hd : bytes d).
  { rewrite Forall_forall in Hb. apply Hb. apply (in_map snd) in I. exact I. }
  set (cv := chunkv_of d c).
  assert (Dec : decode_bank_m m n d = BPad b (DOk cv)).
  { unfold decode_bank_m, chunk_view. rewrite P, A. reflexivity. }
  destruct (N.eq_dec (row_or_none (pwb_row_of_dev (Chunk.c_dev c))) b) as [Er|Ne].
  2:{ exact (e2e_reject_pad_board_mismatch FT fcal gain_of m run banks order Hb O n d b c I P A Ne). }
  pose (k0 := ckey cv).
  assert (Hcv : Chunk.chunk_decode pwb_devices m (bytes_of_uid (c_uid cv)) = Ok c).
  { unfold cv. cbn [chunkv_of c_uid]. rewrite (bytes_of_uid_of_bytes d Hd). exact A. }
  assert (S : exists g1 g2 g3, group k0 (decode_banks_m m banks) = g1 ++ cv :: g2 ++ cv :: g3).
  { rewrite Eb, decoded_split. cbn [fst snd]. rewrite Dec. unfold group.
    rewrite chunks_app. cbn [chunks flat_map]. rewrite chunks_app. cbn [chunks flat_map app].
    fold (chunks (decode_banks_m m l2)). fold (chunks (decode_banks_m m l3)).
    rewrite filter_app. cbn [filter]. unfold k0 at 2. rewrite pair_eqb_refl.
    rewrite filter_app. cbn [filter]. unfold k0 at 3. rewrite pair_eqb_refl.
    do 3 eexists. reflexivity. }
  destruct S as (g1 & g2 & g3 & S).
  apply (e2e_reject_malformed_pwb_packet FT fcal gain_of m run banks order Hb O k0).
  - unfold gkeys. apply nodup_In. unfold k0. apply in_map.
    assert (Ig : In cv (group k0 (decode_banks_m m banks))) by (rewrite S; apply in_or_app; right; left; reflexivity).
    unfold group in Ig. apply filter_In in Ig. apply Ig.
  - rewrite S. apply reasm_e2e_dup_chunk with (c := c). exact Hcv.
Qed.
End More.

(* ================================================================================================
   C11: the avalanche stage is a function of the slot contents of the event
   ================================================================================================ *)
From AG Require Import Signal.Ring Signal.Avalanches Signal.AvalTotal Event.EventSlots.

Lemma Nseq_length a n : length (Nseq a n) = N.to_nat n.
Proof. unfold Nseq. rewrite map_length, seq_length. reflexivity. Qed.
Lemma Nseq_nth n w : w < n -> nth_error (Nseq 0 n) (N.to_nat w) = Some w.
Proof.
  intros H. unfold Nseq. replace (Some w) with (Some (0 + N.of_nat (N.to_nat w))) by (f_equal; lia).
  apply map_nth_error. rewrite (nth_error_nth' _ O) by (rewrite seq_length; lia).
  rewrite seq_nth by lia. reflexivity.
Qed.

Section SlotsProofs.
Context {F : Type}.
Implicit Types ev a b : event F.

(* the slot arrays hold exactly the slot contents, at the index of the slot; they have the shape of the Rust arrays *)
Lemma wire_slots_nth ev w : w < NW -> nth_error (wire_slots ev) (N.to_nat w) = Some (wire_at ev w).
Proof. intros H. unfold wire_slots. apply map_nth_error. apply Nseq_nth. assumption. Qed.
Lemma pad_slots_nth ev c r : c < NCOLS -> r < NROWS ->
  exists col, nth_error (pad_slots ev) (N.to_nat c) = Some col /\ nth_error col (N.to_nat r) = Some (pad_at ev c r).
Proof.
  intros Hc Hr. exists (map (pad_at ev c) (Nseq 0 NROWS)). split.
  - unfold pad_slots. apply (map_nth_error (fun c => map (pad_at ev c) (Nseq 0 NROWS))). apply Nseq_nth. assumption.
  - apply map_nth_error. apply Nseq_nth. assumption.
Qed.
Lemma main_event_of_shape ev : event_shape (main_event_of ev).
Proof.
  unfold event_shape, main_event_of, wire_slots, pad_slots. cbn [wire_signals pad_signals].
  rewrite !map_length, !Nseq_length, !N2Nat.id. split; [reflexivity|]. split; [reflexivity|].
  apply Forall_forall. intros col Hc. apply in_map_iff in Hc as (c & <- & _).
  rewrite map_length, Nseq_length, N2Nat.id. reflexivity.
Qed.

(* events with the same timestamp and the same content of every slot give the same MainEvent value *)
Lemma main_event_of_ev_eq a b : ev_eq a b -> main_event_of a = main_event_of b.
Proof.
  intros (Ht & Hw & Hp). unfold main_event_of, wire_slots, pad_slots. rewrite Ht. f_equal.
  - apply map_ext. exact Hw.
  - apply map_ext. intros c. apply map_ext. intros r. apply Hp.
Qed.
End SlotsProofs.

Section AvalPerm.
Variable FT : Type.
Variable fcal : Z -> FT -> FT.
Variable gain_of : Z * Z -> FT.

(* for every permutation of the RAW bank list and any two HashMap iteration orders: success is alike, and on success
   the two events are the same MainEvent value (same 256 / 32 x 576 slot arrays, same timestamp) *)
Theorem e2e_main_event_perm_invariant m run banks banks' order order' :
  Forall bytes (map snd banks) -> Permutation banks banks' -> is_order order -> is_order order' ->
  is_ok (try_from_banks_model fcal gain_of m run banks order) =
  is_ok (try_from_banks_model fcal gain_of m run banks' order') /\
  (forall ev ev', try_from_banks_model fcal gain_of m run banks order = Ok ev ->
                  try_from_banks_model fcal gain_of m run banks' order' = Ok ev' ->
                  main_event_of ev = main_event_of ev').
Proof.
  intros Hb P O O'. destruct (e2e_build_perm_invariant FT fcal gain_of m run banks banks' order order' Hb P O O') as [H1 H2].
  split; [exact H1|]. intros ev ev' E E'. apply main_event_of_ev_eq. eapply H2; eassumption.
Qed.
End AvalPerm.

(* the avalanche stage (panic-aware model avalanches_res of Signal/AvalTotal.v and the pure C13 skeleton `avalanches`
   of Signal/Avalanches.v) reads the event only through the two slot arrays: equal slot contents, equal results,
   for every choice of the kernels *)
Theorem avalanches_respect_ev_eq (F amp zt : Type) (azero : amp) (apos : amp -> bool) (agt : amp -> amp -> bool)
    (pcmp : amp -> amp -> option comparison) (zf : N -> amp -> amp -> amp -> zt) (slen : list F -> nat)
    (solve : nat -> list (list F) -> list (list amp)) (wdec : list amp -> res (list amp))
    (pdec : list F -> res (list amp)) (D : list (list F) -> list (list amp)) (P : list F -> list amp)
    (sortW : list (N * amp) -> list (N * amp)) (sortP : list (zt * amp) -> list (zt * amp)) (a b : event F) :
  ev_eq a b ->
  avalanches_res azero apos agt pcmp zf slen solve wdec pdec sortW sortP (wire_slots a) (pad_slots a) =
  avalanches_res azero apos agt pcmp zf slen solve wdec pdec sortW sortP (wire_slots b) (pad_slots b) /\
  avalanches azero apos agt zf D P sortW sortP (wire_slots a) (pad_slots a) =
  avalanches azero apos agt zf D P sortW sortP (wire_slots b) (pad_slots b) /\
  timestamp_res (main_event_of a) = timestamp_res (main_event_of b).
Proof.
  intros H. pose proof (main_event_of_ev_eq a b H) as Hm.
  pose proof (f_equal wire_signals Hm) as Hw. pose proof (f_equal pad_signals Hm) as Hp.
  cbn [main_event_of wire_signals pad_signals] in Hw, Hp. rewrite Hw, Hp, Hm. repeat split; reflexivity.
Qed.

Theorem e2e_avalanches_perm_invariant (F : Type) (fcal : Z -> F -> F) (gain_of : Z * Z -> F) (m : ovf) (run : N)
    (banks banks' : list (list N * list N)) (order order' : list (list chunkv) -> list (list chunkv)) :
  Forall bytes (map snd banks) -> Permutation banks banks' -> is_order order -> is_order order' ->
  is_ok (try_from_banks_model fcal gain_of m run banks order) =
  is_ok (try_from_banks_model fcal gain_of m run banks' order') /\
  (forall ev ev', try_from_banks_model fcal gain_of m run banks order = Ok ev ->
                  try_from_banks_model fcal gain_of m run banks' order' = Ok ev' ->
     main_event_of ev = main_event_of ev' /\
     forall (amp zt : Type) (azero : amp) (apos : amp -> bool) (agt : amp -> amp -> bool)
       (pcmp : amp -> amp -> option comparison) (zf : N -> amp -> amp -> amp -> zt) (slen : list F -> nat)
       (solve : nat -> list (list F) -> list (list amp)) (wdec : list amp -> res (list amp))
       (pdec : list F -> res (list amp)) (D : list (list F) -> list (list amp)) (P : list F -> list amp)
       (sortW : list (N * amp) -> list (N * amp)) (sortP : list (zt * amp) -> list (zt * amp)),
     avalanches_res azero apos agt pcmp zf slen solve wdec pdec sortW sortP (wire_slots ev) (pad_slots ev) =
     avalanches_res azero apos agt pcmp zf slen solve wdec pdec sortW sortP (wire_slots ev') (pad_slots ev') /\
     avalanches azero apos agt zf D P sortW sortP (wire_slots ev) (pad_slots ev) =
     avalanches azero apos agt zf D P sortW sortP (wire_slots ev') (pad_slots ev') /\
     timestamp_res (main_event_of ev) = timestamp_res (main_event_of ev')).
Proof.
  intros Hb P O O'. destruct (e2e_build_perm_invariant F fcal gain_of m run banks banks' order order' Hb P O O') as [H1 H2].
  split; [exact H1|]. intros ev ev' E E'. pose proof (H2 ev ev' E E') as He.
  split; [apply main_event_of_ev_eq; exact He|]. intros. apply avalanches_respect_ev_eq. exact He.
Qed.
