(* End-to-end model of alpha_g_physics::MainEvent::try_from_banks(run_number, banks) over the RAW arguments:
   the run number and the list of (bank name bytes, data bytes).  Definitions only.

   Composition of the separately proved pieces:
     bank names      Ident/Names.v   parse_main                         (C08)
     ADC packets     Codec/Adc.v     adc_decode                         (C02)
     PWB chunks      Codec/Chunk.v   chunk_decode                       (C03)
     reassembly      Codec/Reasm.v   reasm with the insertion sort      (C04)
     PWB payload     Codec/Pwb.v     pwb_decode, waveform_at            (C05)
     TRG packets     Codec/Trg.v     trg_decode                         (C06)
     maps            Ident/Maps.v    wire_position, pad_position        (C08)
     calibration     Gen/Calib.v     tables and `match run_number` arms regenerated from /repo (tools/genx_calib.py)
     assembly        Event/Event.v   build                              (C09, C10, C11)

   Boards are identified by their row in ALPHA16BOARDS / PADWING_BOARDS (Gen/Boards.v): the Rust BoardId values
   are found by a first-match search of those tables by name, MAC address or device id, and compared with
   #[derive(PartialEq)]; rows have distinct names, MACs and device ids (C08_board_rows_distinct), so two BoardIds
   are equal exactly when their rows are.

   The environment record of Event.v has no room for a panic of a decoder or a map (its results are `dec`):
   a Panic of a component is mapped to DErr here.  Event/E2E_proofs.v proves that no component panics on byte
   input in either overflow mode and that the two modes agree (e2e_components_never_panic, e2e_mode_irrelevant),
   so nothing is hidden by that mapping. *)
From AG Require Import Base.Prelude Base.Res Base.Bytes Ident.Dispatch Gen.Boards Ident.Tables Gen.Calib.
From AG Require Codec.Adc Codec.Chunk Codec.Reasm Codec.Pwb Codec.Trg Ident.Names Ident.Maps.
From AG Require Import Event.Event.

Definition to_dec {A} (r : res A) : dec A := match r with Ok a => DOk a | _ => DErr end.
Definition nth_opt {A} (l : list A) (i : N) : option A := nth_error l (N.to_nat i).

(* ---------------------------------------------------------------------------------- board identities *)
(* alpha16.rs:167 BoardId::try_from([u8; 6]): first row whose MAC equals the input *)
Definition a16_row_of_mac (mac : list N) : option N :=
  Names.find_idx (fun p => Names.list_eqb mac (snd p)) alpha16_boards 0.
(* padwing.rs:158 BoardId::try_from([u8; 6]) *)
Definition pwb_row_of_mac (mac : list N) : option N :=
  Names.find_idx (fun p => Names.list_eqb mac (snd (fst p))) padwing_boards 0.
(* padwing.rs:174 BoardId::try_from(u32) *)
Definition pwb_row_of_dev (dev : N) : option N :=
  Names.find_idx (fun p => dev =? snd p) padwing_boards 0.
(* a value that is no row: only reached if a decoder accepted a board that is not in its own table *)
Definition no_row : N := lenN padwing_boards + lenN alpha16_boards.
Definition row_or_none (o : option N) : N := match o with Some r => r | None => no_row end.

(* ---------------------------------------------------------------------------------- the identity of a chunk *)
(* chunkv.c_uid "stands for everything else" of a chunk: here it is the chunk's raw bytes themselves, packed
   injectively into one number (bit string of the bytes, least significant bit first, below a leading 1). *)
Fixpoint push_bits (k : nat) (p : option positive) (acc : positive) : positive :=
  match k with
  | O => acc
  | S k' =>
      match p with
      | None => xO (push_bits k' None acc)
      | Some xH => xI (push_bits k' None acc)
      | Some (xO q) => xO (push_bits k' (Some q) acc)
      | Some (xI q) => xI (push_bits k' (Some q) acc)
      end
  end.
(* the 8 low bits of b, least significant first, in front of acc *)
Definition push_byte (b : N) (acc : positive) : positive :=
  push_bits 8 (match b with N0 => None | Npos p => Some p end) acc.
Definition uid_of_bytes (l : list N) : N := Npos (fold_right push_byte xH l).

Fixpoint pbits (p : positive) : list bool :=
  match p with xH => [] | xO q => false :: pbits q | xI q => true :: pbits q end.
Definition b2 (b : bool) (k : N) : N := if b then k else 0.
Fixpoint group8 (l : list bool) : list N :=
  match l with
  | b0 :: b1 :: b2_ :: b3 :: b4 :: b5 :: b6 :: b7 :: t =>
      (b2 b0 1 + b2 b1 2 + b2 b2_ 4 + b2 b3 8 + b2 b4 16 + b2 b5 32 + b2 b6 64 + b2 b7 128) :: group8 t
  | _ => []
  end.
Definition bytes_of_uid (u : N) : list N := match u with N0 => [] | Npos p => group8 (pbits p) end.

(* ---------------------------------------------------------------------------------- decoded views *)
(* AdcPacket through board_id(), channel_id(), waveform()  (alpha16.rs:713-715: channel byte < 128 is an
   Adc16ChannelId, otherwise byte - 128 is an Adc32ChannelId) *)
Definition adcv_of (f : Adc.adc) : adcv :=
  {| a_board := match Adc.a_long f with Some lg => a16_row_of_mac (Adc.al_mac lg) | None => None end;
     a_chan := if Adc.a_chan f <? 128 then BV16 (Adc.a_chan f) else A32 (Adc.a_chan f - 128);
     a_wf := match Adc.a_long f with Some lg => Adc.al_wave lg | None => [] end |}.

(* Chunk through board_id() (device id), after_id() *)
Definition chunkv_of (raw : list N) (c : Chunk.chunk) : chunkv :=
  {| c_board := row_or_none (pwb_row_of_dev (Chunk.c_dev c)); c_chip := Chunk.c_chan c; c_uid := uid_of_bytes raw |}.

Definition pchan_of (c : Pwb.chan) : pchan :=
  match c with Pwb.Pad n => Pad n | Pwb.Fpn n => Fpn n | Pwb.Reset n => Reset n end.
(* PwbPacket through board_id() (MAC address), after_id(), channels_sent() and waveform_at(channel) *)
Definition sent_wf (m : ovf) (f : Pwb.pwb) (c : Pwb.chan) : list Z :=
  match Pwb.waveform_at m f c with Ok (Some w) => w | _ => [] end.
Definition pwbv_of (m : ovf) (f : Pwb.pwb) : pwbv :=
  {| p_board := row_or_none (pwb_row_of_mac (Pwb.p_mac f)); p_chip := Pwb.p_chip f;
     p_sent := map (fun c => (pchan_of c, sent_wf m f c)) (Pwb.p_sent f) |}.

(* ---------------------------------------------------------------------------------- decoders *)
Definition adc_view (m : ovf) (data : list N) : dec adcv :=
  match Adc.adc_decode adc_macs m data with Ok f => DOk (adcv_of f) | _ => DErr end.
Definition chunk_view (m : ovf) (data : list N) : dec chunkv :=
  match Chunk.chunk_decode pwb_devices m data with Ok c => DOk (chunkv_of data c) | _ => DErr end.
Definition trg_view (data : list N) : dec N :=
  match Trg.trg_decode data with Ok t => DOk (Trg.t_ts t) | _ => DErr end.

(* one (bank name, data) pair as the bank loop of try_from_banks sees it (lib.rs:261-341) *)
Definition decode_bank_m (m : ovf) (name data : list N) : bank :=
  match Names.parse_main name with                                       (* MainEventBankName::try_from *)
  | Ok (Names.KAdc32 b c) => BWire b c (adc_view m data)                 (* AdcPacket::try_from *)
  | Ok (Names.KPwb b) => BPad b (chunk_view m data)                      (* Chunk::try_from *)
  | Ok Names.KTrg => BTrg (trg_view data)                                (* TrgPacket::try_from *)
  | Ok _ => BOther                                                       (* Alpha16(A16), Trb3, Mcvx: `_ => {}` *)
  | _ => BUnknown
  end.

(* PwbPacket::try_from(Vec<Chunk>) on chunks given by their raw bytes *)
Fixpoint chunks_of_views (m : ovf) (cs : list chunkv) : option (list Chunk.chunk) :=
  match cs with
  | [] => Some []
  | c :: t =>
      match Chunk.chunk_decode pwb_devices m (bytes_of_uid (c_uid c)), chunks_of_views m t with
      | Ok k, Some ks => Some (k :: ks)
      | _, _ => None
      end
  end.
Definition reasm_e2e (m : ovf) (cs : list chunkv) : dec pwbv :=
  match chunks_of_views m cs with
  | None => DErr
  | Some ks =>
      match Reasm.reasm pwb_devices m Reasm.isort_by_id Pwb.pwb (Pwb.pwb_decode pwb_macs m) ks with
      | Ok f => DOk (pwbv_of m f)
      | _ => DErr
      end
  end.

Definition decode_banks_m (m : ovf) (banks : list (list N * list N)) : list bank :=
  map (fun nd => decode_bank_m m (fst nd) (snd nd)) banks.

(* ---------------------------------------------------------------------------------- calibration *)
Definition lookup1 {V} (tables : list (list (option V))) (t i : N) : option V :=
  match nth_opt tables t with
  | Some tbl => match nth_opt tbl i with Some (Some v) => Some v | _ => None end
  | None => None
  end.
Definition lookup2 {V} (tables : list (list (list (option V)))) (t c r : N) : option V :=
  match nth_opt tables t with
  | Some tbl => match nth_opt tbl c with
                | Some col => match nth_opt col r with Some (Some v) => Some v | _ => None end
                | None => None
                end
  | None => None
  end.
(* The sample type F (f64 in the code), the calibration arithmetic fcal d g = f64::from(d) * g and the reading
   gain_of of a tabulated gain (mantissa, exponent) are parameters, as in Event.v: the theorems hold for every F;
   Event/E2E64.v instantiates them at IEEE binary64 for the extraction. *)
Section Generic.
Variable F : Type.
Variable fcal : Z -> F -> F.
Variable gain_of : Z * Z -> F.

(* try_wire_baseline / try_wire_gain / try_wire_delay, lib.rs:304-306: any failure is an error *)
Definition wire_cal_e2e (run w : N) : dec (Z * F * N) :=
  match dispatch wire_baseline_arms run, dispatch wire_gain_arms run, dispatch wire_delay_arms run with
  | Some bi, Some gi, Some dl =>
      match lookup1 wire_baseline_tables bi w, lookup1 wire_gain_tables gi w with
      | Some bl, Some g => DOk (bl, gain_of g, dl)
      | _, _ => DErr
      end
  | _, _, _ => DErr
  end.
(* try_pad_baseline / try_pad_gain / try_pad_delay, lib.rs:364-366 *)
Definition pad_cal_e2e (run c r : N) : dec (Z * F * N) :=
  match dispatch pad_baseline_arms run, dispatch pad_gain_arms run, dispatch pad_delay_arms run with
  | Some bi, Some gi, Some dl =>
      match lookup2 pad_baseline_tables bi c r, lookup2 pad_gain_tables gi c r with
      | Some bl, Some g => DOk (bl, gain_of g, dl)
      | _, _ => DErr
      end
  | _, _, _ => DErr
  end.

(* ---------------------------------------------------------------------------------- the environment *)
Definition env_e2e_m (m : ovf) (run : N) : env F :=
  {| wire_pos := fun b c => to_dec (Maps.wire_position run b c);
     pad_pos := fun b chip c => to_dec (Maps.pad_position run b chip c);
     wire_cal := wire_cal_e2e run;
     pad_cal := pad_cal_e2e run;
     reasm := reasm_e2e m |}.

(* MainEvent::try_from_banks(run, banks); `order` = iteration order of the chunk-group HashMap *)
Definition try_from_banks_model (m : ovf) (run : N) (banks : list (list N * list N))
           (order : list (list chunkv) -> list (list chunkv)) : res (event F) :=
  build fcal (env_e2e_m m run) m order (decode_banks_m m banks).

(* the instance at the overflow mode of a checked build (the two modes agree: e2e_mode_irrelevant) *)
Definition env_e2e (run : N) : env F := env_e2e_m Checked run.
Definition decode_bank (name data : list N) : bank := decode_bank_m Checked name data.

(* ---------------------------------------------------------------------------------- observations *)
(* one calibration triple as the differential prints it *)
Definition wire_cal_row (run : N) : list (dec (Z * F * N)) :=
  map (wire_cal_e2e run) (Names.rangeN gen_CAL_WIRES).
Definition pad_cal_col (run c : N) : list (dec (Z * F * N)) :=
  map (pad_cal_e2e run c) (Names.rangeN gen_CAL_PAD_ROWS).
End Generic.

Arguments wire_cal_e2e {F} gain_of run w.
Arguments pad_cal_e2e {F} gain_of run c r.
Arguments env_e2e_m {F} gain_of m run.
Arguments env_e2e {F} gain_of run.
Arguments try_from_banks_model {F} fcal gain_of m run banks order.
Arguments wire_cal_row {F} gain_of run.
Arguments pad_cal_col {F} gain_of run c.
