(* Instance of the end-to-end model Event/E2E.v at IEEE binary64 (Coq primitive floats), used by the extraction
   unit e2e only.  Definitions only; no theorem depends on this file. *)
From Coq Require Import Floats Uint63.
From AG Require Import Base.Prelude Base.Res Event.Event Event.EventF64 Event.E2E.

(* a gain of Gen/Calib.v: the f64 mantissa * 2^exponent (|mantissa| < 2^53, the product is representable, so both
   the conversion of the mantissa and the scaling are exact); every entry is compared bit for bit with the
   implementation in the differential run (calw / calp lines) *)
Definition f64_of_parts (p : Z * Z) : float :=
  let a := PrimFloat.ldshiftexp (PrimFloat.of_uint63 (Uint63.of_Z (Z.abs (fst p))))
                                (Uint63.of_Z (snd p + FloatOps.shift)) in
  if (fst p <? 0)%Z then PrimFloat.opp a else a.


Definition try_from_banks_model64 := @try_from_banks_model float fcal64 f64_of_parts.
Definition wire_cal_row64 := @wire_cal_row float f64_of_parts.
Definition pad_cal_col64 := @pad_cal_col float f64_of_parts.
