(* Non-vacuity of the end-to-end theorems of C10 (Props/C10.v: C10_e2e_build_sound, C10_e2e_build_spec_iff,
   C10_e2e_rejections, C10_e2e_reject_duplicate_pad_bank) on the pad (PWB) path: concrete RAW banks on which the
   end-to-end model ACCEPTS a Padwing bank and fills a pad slot, and on which the same bank given twice is rejected.

   Every example is about the SAME definitions the C10_e2e_* theorems quantify over: Event.E2E.try_from_banks_model
   (with env_e2e_m / decode_banks_m inside), Names.parse_main, Chunk.chunk_decode pwb_devices, reasm_e2e, and the
   regenerated tables of Gen/ (boards, pad map, calibration).  The theorems hold for every sample type F, every fcal
   and every gain_of; the examples instantiate them at the exact symbolic sample type of the other C10 examples
   (a calibrated sample is the pair (raw - baseline, gain as (mantissa, exponent))), and - unpinned, at the end -
   at IEEE binary64 (Event/E2E64.v, the instance the differential run executes).

   The bank bytes are not typed in by hand: they are produced by the SPECIFICATION encoders of C03 / C05
   (Chunk.chunk_encode, Pwb.pwb_encode, Pwb.pwb_words) and the sender-side helpers of C04 (Reasm.mk_chunk,
   Reasm.chunks_of), so both CRC-32C words of every chunk are computed by Codec/Crc32c.v.  All proofs are
   computations (vm_compute on closed terms; each takes well under a second). *)
From AG Require Import Base.Prelude Base.Res Base.Bytes Ident.Tables.
From AG Require Codec.Adc Codec.Chunk Codec.Reasm Codec.Pwb Codec.Trg Ident.Names Ident.Maps.
From AG Require Import Event.Event Event.EventSpec Event.E2E.

(* ------------------------------------------------------------------------------------------ sample type *)
(* (raw - baseline) * mantissa-factor, gain (mantissa, exponent): exact and symbolic, as ex_F of Props/C10.v *)
Definition e2x_F : Type := Z * (Z * Z).
Definition e2x_fcal (d : Z) (g : e2x_F) : e2x_F := (d * fst g, snd g)%Z.
Definition e2x_gain (g : Z * Z) : e2x_F := (1%Z, g).
(* abbreviations of this file only (notations: the statements are literally about try_from_banks_model) *)
Local Notation model := (try_from_banks_model e2x_fcal e2x_gain).
Local Notation id_order := (fun l : list (list chunkv) => l).

(* ------------------------------------------------------------------------------------------ the banks *)
(* the simulation run number u32::MAX: pad map of run 5000, calibration tables MAP_SIMULATION, pad delay 100 *)
Definition e2x_run : N := 4294967295.
(* a data run: pad calibration tables of run 11084, pad delay 115 *)
Definition e2x_run_data : N := 11084.

(* a PWB v2 packet of board "00" (MAC ec:28:ff:87:54:02), AFTER chip B, one channel sent: pad channel 5, `req` samples *)
Definition e2x_pwb (req : N) (wave : list Z) : Pwb.pwb :=
  {| Pwb.p_chip := 1; Pwb.p_trig := 0; Pwb.p_mac := [236; 40; 255; 135; 84; 2]; Pwb.p_delay := 0; Pwb.p_ts := 77;
     Pwb.p_last := 5; Pwb.p_req := req; Pwb.p_sent := [Pwb.Pad 5]; Pwb.p_over := [Pwb.Pad 5]; Pwb.p_counter := 1;
     Pwb.p_fifo := 0; Pwb.p_wdepth := 0; Pwb.p_rdepth := 0; Pwb.p_data := Pwb.pwb_words req [Pwb.Pad 5] [wave] |}.
(* the packet as ONE chunk (id 0, end of message) of device 0x87ff28ec = board "00", chip 1, in bank "PCbb" *)
Definition e2x_chunk_of (dev : N) (payload : list N) : Chunk.chunk :=
  Reasm.mk_chunk dev 1 (fun _ => 0) (fun _ => 0) 0 1 payload.
Definition e2x_name_pc00 : list N := [80; 67; 48; 48].
Definition e2x_name_pc01 : list N := [80; 67; 48; 49].

(* simulation run: 102 samples (even, no padding word) = the delay of 100 + 2; pad (column 25, row 112) has
   baseline 1725 and gain 1 there: 100 samples at the baseline, then baseline + 10, baseline + 25 *)
Definition e2x_wave : list Z := (repeat 1725 100 ++ [1735; 1750])%Z.
Definition e2x_payload : list N := Pwb.pwb_encode (e2x_pwb 102 e2x_wave).
Definition e2x_chunk : Chunk.chunk := e2x_chunk_of 2281646316 e2x_payload.
Definition e2x_pad_bank : list N * list N := (e2x_name_pc00, Chunk.chunk_encode e2x_chunk).

(* data run 11084: 117 samples (odd, so the block ends with a zero padding word) = the delay of 115 + 2; the pad
   has baseline 1738 and gain 5084909536333083 * 2^-52 there *)
Definition e2x_wave_data : list Z := (repeat 1738 115 ++ [1748; 1763])%Z.
Definition e2x_chunk_data : Chunk.chunk := e2x_chunk_of 2281646316 (Pwb.pwb_encode (e2x_pwb 117 e2x_wave_data)).
Definition e2x_pad_bank_data : list N * list N := (e2x_name_pc00, Chunk.chunk_encode e2x_chunk_data).

(* the same packet of the simulation run cut into TWO chunks (132 + 132 payload bytes, ids 0 and 1, end of message on
   the second), one bank "PC00" each: two DIFFERENT banks of the same name are the normal case *)
Definition e2x_two_chunks : list Chunk.chunk :=
  Reasm.chunks_of 2281646316 1 (fun _ => 7) (fun i => i) [firstn 132 e2x_payload] (skipn 132 e2x_payload).
Definition e2x_two_banks : list (list N * list N) :=
  map (fun c => (e2x_name_pc00, Chunk.chunk_encode c)) e2x_two_chunks.

(* the same payload (MAC of board "00", chip B) inside a chunk of ANOTHER device (board "01", 0xa2fa28ec) in bank
   "PC01": a second chunk group whose packet claims the same pad *)
Definition e2x_pad_bank_other_dev : list N * list N :=
  (e2x_name_pc01, Chunk.chunk_encode (e2x_chunk_of 2734303468 e2x_payload)).

(* bank "ATAT": a TRG v3 packet with timestamp 1234 (the bytes of e2e_ex_trg, Props/C10.v) *)
Definition e2x_trg_bank : list N * list N :=
  ([65; 84; 65; 84],
   [255; 0; 0; 0; 7; 0; 0; 128; 210; 4; 0; 0; 7; 0; 0; 0; 12; 0; 0; 0; 0; 0; 0; 0; 5; 0; 0; 0; 6; 0; 0; 0; 7; 0; 0; 0;
    8; 0; 0; 128; 10; 0; 0; 0; 8; 0; 0; 0; 0; 0; 0; 0; 9; 0; 10; 0; 11; 0; 0; 0; 0; 0; 0; 0; 12; 0; 0; 0; 13; 0; 0; 0;
    14; 0; 0; 0; 7; 0; 0; 224]).
(* bank "C092": an ADC v3 long packet of Alpha16 board "09", anode-wire channel 2 (the bytes of e2e_ex_adc,
   Props/C10.v): 100 samples of 3005 then 30 of 3007; wire 0, baseline 3000, gain 1, delay 100 in the simulation run *)
Definition e2x_wire_bank : list N * list N :=
  ([67; 48; 57; 50],
   [1; 3; 0; 4; 5; 130; 0; 132; 0; 0; 0; 7; 0; 0; 216; 128; 57; 104; 55; 76] ++ repeat 0 12 ++
   flat_map (fun _ => [11; 189]) (seq 0 100) ++ flat_map (fun _ => [11; 191]) (seq 0 30) ++ [0; 0; 11; 189]).
(* bank "MCVX": recognised and ignored *)
Definition e2x_other_bank : list N * list N := ([77; 67; 86; 88], [1; 2; 3]).

(* ------------------------------------------------------------------------------------------ the events *)
Definition e2x_pad_event : event e2x_F :=
  {| ev_wires := []; ev_pads := [((25, 112), [(10, (1, 0)); (25, (1, 0))]%Z)]; ev_ts := 1234 |}.
Definition e2x_pad_event_data : event e2x_F :=
  {| ev_wires := [];
     ev_pads := [((25, 112), [(10, (5084909536333083, -52)); (25, (5084909536333083, -52))]%Z)];
     ev_ts := 1234 |}.
Definition e2x_wire_pad_event : event e2x_F :=
  {| ev_wires := [(0, repeat (7, (1, 0))%Z 30)];
     ev_pads := [((25, 112), [(10, (1, 0)); (25, (1, 0))]%Z)]; ev_ts := 1234 |}.

Definition e2x_single : list (list N * list N) := [e2x_pad_bank; e2x_trg_bank].
Definition e2x_twice : list (list N * list N) := [e2x_pad_bank; e2x_trg_bank; e2x_pad_bank].
Definition e2x_wire_pad : list (list N * list N) := [e2x_wire_bank; e2x_pad_bank; e2x_trg_bank; e2x_other_bank].

(* ------------------------------------------------------------------------------------------ hypotheses *)
Lemma bytes_all (ls : list (list N)) : forallb bytesb ls = true -> Forall bytes ls.
Proof.
  intros H. apply Forall_forall. intros l Hl. apply bytesb_spec. revert l Hl. apply forallb_forall. exact H.
Qed.
(* the only hypothesis on the data of the C10_e2e_* theorems: they are bytes (for every bank list used below) *)
Lemma e2x_single_bytes : Forall bytes (map snd e2x_single).
Proof. apply bytes_all. vm_compute. reflexivity. Qed.
Lemma e2x_twice_bytes : Forall bytes (map snd e2x_twice).
Proof. apply bytes_all. vm_compute. reflexivity. Qed.
Lemma e2x_wire_pad_bytes : Forall bytes (map snd e2x_wire_pad).
Proof. apply bytes_all. vm_compute. reflexivity. Qed.
Lemma e2x_other_banks_bytes :
  Forall bytes (map snd (e2x_two_banks ++ [e2x_pad_bank_data; e2x_pad_bank_other_dev])).
Proof. apply bytes_all. vm_compute. reflexivity. Qed.
Lemma id_order_is_order : is_order (fun l => l).
Proof. intros l. apply Permutation.Permutation_refl. Qed.
Lemma rev_is_order : is_order (@rev _).
Proof. intros l. apply Permutation.Permutation_sym, Permutation.Permutation_rev. Qed.

(* ------------------------------------------------------------------------------------------ (a) accepted *)
(* the bank is well formed for the very functions the theorems name: its name parses to the Padwing name of board
   row 0, its 288 data bytes decode (both CRC-32C, padding, length window) to exactly the chunk they were encoded
   from, the chunk's device is board row 0, and the chunk alone reassembles (reasm_e2e, i.e. C04 + C05 on the bytes
   kept in c_uid) into the packet of board row 0, chip 1 with the one pad channel and its 102 raw samples *)
Lemma e2x_pad_bank_well_formed :
  Names.parse_main (fst e2x_pad_bank) = Ok (Names.KPwb 0) /\
  lenN (snd e2x_pad_bank) = 288 /\
  Chunk.chunk_decode pwb_devices Checked (snd e2x_pad_bank) = Ok e2x_chunk /\
  Chunk.chunk_decode pwb_devices Wrapping (snd e2x_pad_bank) = Ok e2x_chunk /\
  decode_banks_m Checked [e2x_pad_bank] =
    [BPad 0 (DOk {| c_board := 0; c_chip := 1; c_uid := uid_of_bytes (snd e2x_pad_bank) |})] /\
  reasm_e2e Checked [{| c_board := 0; c_chip := 1; c_uid := uid_of_bytes (snd e2x_pad_bank) |}] =
    DOk {| p_board := 0; p_chip := 1; p_sent := [(Pad 5, e2x_wave)] |} /\
  Maps.pad_position e2x_run 0 1 5 = Ok (25, 112) /\
  pad_cal_e2e e2x_gain e2x_run 25 112 = DOk (1725%Z, (1, (1, 0))%Z, 100).
Proof. vm_compute. repeat split; reflexivity. Qed.

(* ONE copy of the bank (plus the TRG bank every event needs) is ACCEPTED, in both overflow modes and under both
   orders; the event has exactly one occupied slot: pad (25, 112) with the two samples after the delay of 100,
   (1735 - 1725) x 1 and (1750 - 1725) x 1 *)
Lemma e2x_pad_bank_accepted :
  model Checked e2x_run e2x_single id_order = Ok e2x_pad_event /\
  model Wrapping e2x_run (rev e2x_single) (@rev _) = Ok e2x_pad_event /\
  pad_at e2x_pad_event 25 112 = Some [(10, (1, 0)); (25, (1, 0))]%Z.
Proof. vm_compute. repeat split; reflexivity. Qed.

(* a data run: tables of run 11084, odd sample count, delay 115, a gain that is not 1 *)
Lemma e2x_pad_bank_accepted_data_run :
  Chunk.chunk_decode pwb_devices Checked (snd e2x_pad_bank_data) = Ok e2x_chunk_data /\
  pad_cal_e2e e2x_gain e2x_run_data 25 112 = DOk (1738%Z, (1, (5084909536333083, -52))%Z, 115) /\
  model Checked e2x_run_data [e2x_pad_bank_data; e2x_trg_bank] id_order = Ok e2x_pad_event_data.
Proof. vm_compute. repeat split; reflexivity. Qed.

(* the packet in two chunks = two different banks "PC00" (either bank order): accepted, same event *)
Lemma e2x_two_chunk_banks_accepted :
  map fst e2x_two_banks = [e2x_name_pc00; e2x_name_pc00] /\
  model Checked e2x_run (e2x_two_banks ++ [e2x_trg_bank]) id_order = Ok e2x_pad_event /\
  model Checked e2x_run (e2x_trg_bank :: rev e2x_two_banks) id_order = Ok e2x_pad_event.
Proof. vm_compute. repeat split; reflexivity. Qed.

(* ------------------------------------------------------------------------------------------ (b) twice: rejected *)
(* the SAME event with the SAME bank a second time is rejected, with the error of PwbPacket::try_from (the group of
   board 0, chip 1 holds chunk id 0 twice and does not reassemble), wherever the second copy stands, in both modes and
   under both orders.  With e2x_pad_bank_accepted this is "one copy accepted, two copies rejected"; the bank list is
   literally of the shape l1 ++ (n, d) :: l2 ++ (n, d) :: l3 of C10_e2e_reject_duplicate_pad_bank *)
Lemma e2x_pad_bank_twice_rejected :
  e2x_twice = [] ++ e2x_pad_bank :: [e2x_trg_bank] ++ e2x_pad_bank :: [] /\
  model Checked e2x_run e2x_twice id_order = Err E_pwb /\
  model Wrapping e2x_run e2x_twice (@rev _) = Err E_pwb /\
  model Checked e2x_run (e2x_pad_bank :: e2x_single) id_order = Err E_pwb /\
  model Checked e2x_run (e2x_single ++ [e2x_pad_bank]) id_order = Err E_pwb /\
  gkeys (decode_banks_m Checked e2x_twice) = [(0, 1)] /\
  reasm_e2e Checked (group (0, 1) (decode_banks_m Checked e2x_twice)) = DErr /\
  model Checked e2x_run_data [e2x_pad_bank_data; e2x_trg_bank; e2x_pad_bank_data] id_order = Err E_pwb.
Proof. vm_compute. repeat split; reflexivity. Qed.

(* ------------------------------------------------------------------------------------------ (c) wire + pad *)
(* an anode-wire bank, the pad bank, the TRG bank and an ignored bank together: accepted; wire slot 0 and pad slot
   (25, 112) are the occupied slots.  With the pad bank twice the same event is rejected *)
Lemma e2x_wire_and_pad_accepted :
  model Checked e2x_run e2x_wire_pad id_order = Ok e2x_wire_pad_event /\
  model Wrapping e2x_run (rev e2x_wire_pad) (@rev _) = Ok e2x_wire_pad_event /\
  model Checked e2x_run (e2x_wire_pad ++ [e2x_pad_bank]) id_order = Err E_pwb.
Proof. vm_compute. repeat split; reflexivity. Qed.

(* ------------------------------------------------------------------------------------------ a pad claimed twice *)
(* clause "a pad claimed twice" of C10_e2e_rejections: the packet travels a second time inside a chunk of another
   device (bank "PC01", group (1, 1)); each bank alone is accepted, together the two groups claim pad (25, 112) twice:
   pad_claims has a repetition and the build fails with the duplicate-pad error under both group orders *)
Lemma e2x_pad_claimed_twice_rejected :
  model Checked e2x_run [e2x_pad_bank_other_dev; e2x_trg_bank] id_order = Ok e2x_pad_event /\
  pad_claims (env_e2e_m e2x_gain Checked e2x_run)
             (decode_banks_m Checked [e2x_pad_bank; e2x_pad_bank_other_dev; e2x_trg_bank]) = [(25, 112); (25, 112)] /\
  model Checked e2x_run [e2x_pad_bank; e2x_pad_bank_other_dev; e2x_trg_bank] id_order = Err E_duppad /\
  model Checked e2x_run [e2x_pad_bank; e2x_pad_bank_other_dev; e2x_trg_bank] (@rev _) = Err E_duppad.
Proof. vm_compute. repeat split; reflexivity. Qed.

(* ------------------------------------------------------------------------------------------ binary64 instance *)
(* the instance of the model the differential run executes (Event/E2E64.v: F = IEEE binary64, fcal d g = f64(d) * g):
   the same banks are accepted with pad (25, 112) = [10.0; 25.0], and rejected when the pad bank is given twice.
   NOT pinned in Props/C10.v: `Print Assumptions` lists Coq's primitive float / int63 operations, which the
   assumption allowlist of C10 (empty) does not contain; the pinned statements above are the exact symbolic ones *)
From Coq Require Import Floats.
From AG Require Import Event.E2E64.
Example e2x_pad_bank_accepted_once_rejected_twice_binary64 :
  try_from_banks_model64 Checked e2x_run e2x_single id_order =
    Ok {| ev_wires := []; ev_pads := [((25, 112), [10%float; 25%float])]; ev_ts := 1234 |} /\
  try_from_banks_model64 Checked e2x_run e2x_twice id_order = Err E_pwb /\
  try_from_banks_model64 Checked e2x_run e2x_wire_pad id_order =
    Ok {| ev_wires := [(0, repeat 7%float 30)]; ev_pads := [((25, 112), [10%float; 25%float])]; ev_ts := 1234 |}.
Proof. vm_compute. repeat split; reflexivity. Qed.
