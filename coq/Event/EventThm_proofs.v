(* Theorems of C09, C10, C11 derived from Event/EventSpec_proofs.v. *)
From AG Require Import Base.Prelude Base.Res Event.Event Event.EventSpec Event.Event_proofs Event.EventSpec_proofs.
From Coq Require Import Permutation Setoid Morphisms.

Section Thm.
Variable F : Type.
Variable fcal : Z -> F -> F.
Notation env := (env F).

(* ---------------- C10 ---------------- *)
Theorem build_spec_iff_lemma (e : env) m banks ev :
  env_typed e -> banks_typed banks -> wire_pos_injective e ->
  ((exists order ev', is_order order /\ build fcal e m order banks = Ok ev' /\ ev_eq ev' ev) <->
   event_spec fcal e banks ev).
Proof.
  intros T B INJ. split.
  - intros (order & ev' & O & H & E). eapply spec_ev_eq; eauto. eapply build_sound; eauto.
  - intros S. exists (fun l => l). assert (O : is_order (fun l => l)) by (intros l; apply Permutation_refl).
    destruct (build_complete F fcal e m _ banks ev T B INJ O S) as (ev' & H & E). eauto.
Qed.

Lemma build_err_of_no_spec (e : env) m order banks :
  env_typed e -> banks_typed banks -> is_order order ->
  (forall ev, ~ event_spec fcal e banks ev) -> exists k, build fcal e m order banks = Err k.
Proof.
  intros T B O NS. destruct (build fcal e m order banks) as [ev|k|] eqn:H.
  - exfalso. eapply NS. eapply build_sound; eauto.
  - eauto.
  - exfalso. eapply build_total_lemma; eauto.
Qed.

Section Reject.
Variables (e : env) (m : ovf) (order : list (list chunkv) -> list (list chunkv)) (banks : list bank).
Hypothesis T : env_typed e.
Hypothesis B : banks_typed banks.
Hypothesis O : is_order order.
Notation rejected := (exists k, build fcal e m order banks = Err k).

Lemma reject_unknown_name : In BUnknown banks -> rejected.
Proof. intros H. apply build_err_of_no_spec; auto. intros ev S. apply (sp_names _ _ _ _ _ S); auto. Qed.

Lemma reject_malformed_wire nb nc : In (BWire nb nc DErr) banks -> rejected.
Proof.
  intros H. apply build_err_of_no_spec; auto. intros ev S.
  destruct (sp_wire _ _ _ _ _ S _ _ _ H) as (p & C & _). discriminate.
Qed.
Lemma reject_bv_channel nb nc p c : In (BWire nb nc (DOk p)) banks -> a_chan p = BV16 c -> rejected.
Proof.
  intros H Hc. apply build_err_of_no_spec; auto. intros ev S.
  destruct (sp_wire _ _ _ _ _ S _ _ _ H) as (p' & C & C2 & _). inv C. congruence.
Qed.
Lemma reject_channel_mismatch nb nc p c : In (BWire nb nc (DOk p)) banks -> a_chan p = A32 c -> c <> nc -> rejected.
Proof.
  intros H Hc Hn. apply build_err_of_no_spec; auto. intros ev S.
  destruct (sp_wire _ _ _ _ _ S _ _ _ H) as (p' & C & C2 & _). inv C. congruence.
Qed.
Lemma reject_board_mismatch nb nc p b : In (BWire nb nc (DOk p)) banks -> a_board p = Some b -> b <> nb -> rejected.
Proof.
  intros H Hb Hn. apply build_err_of_no_spec; auto. intros ev S.
  destruct (sp_wire _ _ _ _ _ S _ _ _ H) as (p' & C & _ & C3 & _). inv C. apply Hn. apply C3; auto.
Qed.
Lemma reject_duplicate_wire l1 l2 l3 nb nc d1 d2 :
  banks = l1 ++ BWire nb nc d1 :: l2 ++ BWire nb nc d2 :: l3 -> rejected.
Proof.
  intros E. apply build_err_of_no_spec; auto. intros ev S.
  pose proof (sp_wire_nodup _ _ _ _ _ S) as ND. rewrite E in ND. unfold wire_names in ND.
  rewrite flat_map_app in ND. cbn [flat_map] in ND. rewrite flat_map_app in ND. cbn [flat_map app] in ND.
  apply NoDup_remove_2 in ND. apply ND. apply in_or_app. right. apply in_or_app. right. left; auto.
Qed.
Lemma reject_missing_wire_map nb nc p : In (BWire nb nc (DOk p)) banks -> a_wf p <> [] -> wire_pos e nb nc = DErr -> rejected.
Proof.
  intros H Hw Hp. apply build_err_of_no_spec; auto. intros ev S.
  destruct (sp_wire _ _ _ _ _ S _ _ _ H) as (p' & C & _ & _ & C4). inv C.
  destruct (C4 Hw) as (w & bl & g & dl & C5 & _). congruence.
Qed.
Lemma reject_missing_wire_calibration nb nc p w :
  In (BWire nb nc (DOk p)) banks -> a_wf p <> [] -> wire_pos e nb nc = DOk w -> wire_cal e w = DErr -> rejected.
Proof.
  intros H Hw Hp Hc. apply build_err_of_no_spec; auto. intros ev S.
  destruct (sp_wire _ _ _ _ _ S _ _ _ H) as (p' & C & _ & _ & C4). inv C.
  destruct (C4 Hw) as (w' & bl & g & dl & C5 & C6 & _). rewrite Hp in C5; inv C5. congruence.
Qed.
Lemma reject_malformed_chunk nb : In (BPad nb DErr) banks -> rejected.
Proof.
  intros H. apply build_err_of_no_spec; auto. intros ev S.
  destruct (sp_pad_bank _ _ _ _ _ S _ _ H) as (c & C & _). discriminate.
Qed.
Lemma reject_pad_board_mismatch nb c : In (BPad nb (DOk c)) banks -> c_board c <> nb -> rejected.
Proof.
  intros H Hn. apply build_err_of_no_spec; auto. intros ev S.
  destruct (sp_pad_bank _ _ _ _ _ S _ _ H) as (c' & C & C2). inv C. auto.
Qed.
Lemma reject_malformed_pwb_packet k : In k (gkeys banks) -> reasm e (group k banks) = DErr -> rejected.
Proof.
  intros H R. apply build_err_of_no_spec; auto. intros ev S.
  destruct (sp_group _ _ _ _ _ S _ H) as (p & C & _). congruence.
Qed.
Lemma reject_missing_pad_map k p pc wf : In k (gkeys banks) -> reasm e (group k banks) = DOk p ->
  In (Pad pc, wf) (p_sent p) -> pad_pos e (p_board p) (p_chip p) pc = DErr -> rejected.
Proof.
  intros H R Hx Hp. apply build_err_of_no_spec; auto. intros ev S.
  destruct (sp_group _ _ _ _ _ S _ H) as (p' & C & A). rewrite R in C; inv C.
  destruct (A _ _ Hx) as (c & r & bl & g & dl & C1 & _). congruence.
Qed.
Lemma reject_missing_pad_calibration k p pc wf c r : In k (gkeys banks) -> reasm e (group k banks) = DOk p ->
  In (Pad pc, wf) (p_sent p) -> pad_pos e (p_board p) (p_chip p) pc = DOk (c, r) -> pad_cal e c r = DErr -> rejected.
Proof.
  intros H R Hx Hp Hc. apply build_err_of_no_spec; auto. intros ev S.
  destruct (sp_group _ _ _ _ _ S _ H) as (p' & C & A). rewrite R in C; inv C.
  destruct (A _ _ Hx) as (c' & r' & bl & g & dl & C1 & C2 & _). rewrite Hp in C1; inv C1. congruence.
Qed.
Lemma reject_duplicate_pad : ~ NoDup (pad_claims e banks) -> rejected.
Proof. intros H. apply build_err_of_no_spec; auto. intros ev S. apply H. apply (sp_pad_nodup _ _ _ _ _ S). Qed.
Lemma reject_malformed_trg : In (BTrg DErr) banks -> rejected.
Proof.
  intros H. apply build_err_of_no_spec; auto. intros ev S.
  destruct (sp_trg _ _ _ _ _ S) as (t & C & _).
  assert (Hin : In DErr (trgs banks)) by (apply in_flat_map; exists (BTrg DErr); split; auto; left; auto).
  rewrite C in Hin. destruct Hin as [Hin|[]]. discriminate.
Qed.
Lemma reject_duplicate_trg l1 l2 l3 d1 d2 : banks = l1 ++ BTrg d1 :: l2 ++ BTrg d2 :: l3 -> rejected.
Proof.
  intros E. apply build_err_of_no_spec; auto. intros ev S.
  destruct (sp_trg _ _ _ _ _ S) as (t & C & _). rewrite E in C. unfold trgs in C.
  rewrite flat_map_app in C. cbn [flat_map] in C. rewrite flat_map_app in C. cbn [flat_map app] in C.
  apply (f_equal (@length _)) in C. rewrite !app_length in C. cbn [length] in C. rewrite !app_length in C.
  cbn [length] in C. lia.
Qed.
Lemma reject_missing_trg : (forall d, ~ In (BTrg d) banks) -> rejected.
Proof.
  intros H. apply build_err_of_no_spec; auto. intros ev S.
  destruct (sp_trg _ _ _ _ _ S) as (t & C & _).
  assert (Hin : In (DOk t) (trgs banks)) by (rewrite C; left; auto).
  apply in_flat_map in Hin. destruct Hin as (b & Hb & Hin). destruct b; try destruct Hin.
  - subst. eapply H; eauto.
  - destruct H0.
Qed.
End Reject.

(* ---------------- C11 ---------------- *)
Lemma banks_typed_perm banks banks' : Permutation banks banks' -> banks_typed banks -> banks_typed banks'.
Proof. intros P H. unfold banks_typed in *. rewrite Forall_forall in *. intros b Hb. apply H. eapply Permutation_in; [apply Permutation_sym|]; eauto. Qed.

Lemma ok_transfer (e : env) m banks banks' order order' ev :
  env_typed e -> banks_typed banks -> wire_pos_injective e -> reasm_perm e ->
  Permutation banks banks' -> is_order order -> is_order order' ->
  build fcal e m order banks = Ok ev ->
  exists ev', build fcal e m order' banks' = Ok ev' /\ ev_eq ev' ev.
Proof.
  intros T B INJ RP P O O' H.
  apply (build_complete F fcal e m order' banks' ev T (banks_typed_perm _ _ P B) INJ O').
  apply (spec_perm F fcal e banks banks' ev RP P). apply (build_sound F fcal e m order banks ev T B O H).
Qed.

Lemma ev_eq_sym (a b : event F) : ev_eq a b -> ev_eq b a.
Proof. intros (A1 & A2 & A3). split; [|split]; intros; symmetry; auto. Qed.

Theorem build_perm_invariant_lemma (e : env) m banks banks' order order' :
  env_typed e -> banks_typed banks -> wire_pos_injective e -> reasm_perm e ->
  Permutation banks banks' -> is_order order -> is_order order' ->
  is_ok (build fcal e m order banks) = is_ok (build fcal e m order' banks') /\
  (forall ev ev', build fcal e m order banks = Ok ev -> build fcal e m order' banks' = Ok ev' -> ev_eq ev ev').
Proof.
  intros T B INJ RP P O O'. split.
  - destruct (build fcal e m order banks) as [ev|k|] eqn:H1.
    + destruct (ok_transfer e m banks banks' order order' ev T B INJ RP P O O' H1) as (ev' & H2 & _).
      rewrite H2. reflexivity.
    + destruct (build fcal e m order' banks') as [ev'|k'|] eqn:H2; auto.
      destruct (ok_transfer e m banks' banks order' order ev' T (banks_typed_perm _ _ P B) INJ RP
                  (Permutation_sym P) O' O H2) as (ev & H3 & _). congruence.
    + exfalso. eapply build_total_lemma; eauto.
  - intros ev ev' H1 H2.
    destruct (ok_transfer e m banks banks' order order' ev T B INJ RP P O O' H1) as (ev'' & H3 & E).
    rewrite H2 in H3. inv H3. apply ev_eq_sym; auto.
Qed.

(* the HashMap iteration order alone: no hypothesis on the reassembly *)
Theorem group_order_irrelevant_lemma (e : env) m banks order order' :
  env_typed e -> banks_typed banks -> wire_pos_injective e -> is_order order -> is_order order' ->
  is_ok (build fcal e m order banks) = is_ok (build fcal e m order' banks) /\
  (forall ev ev', build fcal e m order banks = Ok ev -> build fcal e m order' banks = Ok ev' -> ev_eq ev ev').
Proof.
  intros T B INJ O O'.
  assert (TR : forall o o' ev, is_order o -> is_order o' -> build fcal e m o banks = Ok ev ->
                 exists ev', build fcal e m o' banks = Ok ev' /\ ev_eq ev' ev).
  { intros o o' ev Ho Ho' H. apply (build_complete F fcal e m o' banks ev T B INJ Ho'). apply (build_sound F fcal e m o banks ev T B Ho H). }
  split.
  - destruct (build fcal e m order banks) as [ev|k|] eqn:H1.
    + destruct (TR order order' ev O O' H1) as (ev' & H2 & _). rewrite H2. reflexivity.
    + destruct (build fcal e m order' banks) as [ev'|k'|] eqn:H2; auto.
      destruct (TR order' order ev' O' O H2) as (ev & H3 & _). congruence.
    + exfalso. eapply build_total_lemma; eauto.
  - intros ev ev' H1 H2. destruct (TR order order' ev O O' H1) as (ev'' & H3 & E).
    rewrite H2 in H3. inv H3. apply ev_eq_sym; auto.
Qed.

(* ---------------- C09: the overflow mode of the build does not matter ---------------- *)
Lemma step_wire_mode (e : env) m m' nm ws nb nc d : env_typed e -> bank_typed (BWire nb nc d) ->
  step_wire fcal e m nm ws nb nc d = step_wire fcal e m' nm ws nb nc d.
Proof.
  intros T B. unfold step_wire. destruct d as [|p]; auto. destruct (a_chan p); auto.
  destruct (negb _); auto. destruct (mem2 _ _); auto. destruct (a_wf p) eqn:Ewf; auto.
  destruct (wire_pos e _ c); auto. destruct (negb _); auto. destruct (assocN a ws); auto.
  destruct (wire_cal e a) as [|[[bl g] dl]] eqn:Ec; auto.
  cbn in B. rewrite Ewf in B. rewrite !signal_ok; auto; eapply et_wcal; eauto.
Qed.
Lemma loop_mode (e : env) m m' banks : env_typed e -> banks_typed banks -> forall s,
  loop fcal e m s banks = loop fcal e m' s banks.
Proof.
  intros T B. induction B as [|b t Hb Ht IH]; intros s; cbn [loop]; auto.
  assert (E : step fcal e m s b = step fcal e m' s b).
  { destruct b; cbn [step]; auto. rewrite (step_wire_mode e m m'); auto. }
  rewrite E. destruct (step fcal e m' s b); cbn [bind]; auto.
Qed.
Lemma chan_loop_mode (e : env) m m' p cs : env_typed e -> reasm e cs = DOk p ->
  forall l, incl l (p_sent p) -> forall s, chan_loop fcal e m p s l = chan_loop fcal e m' p s l.
Proof.
  intros T R. induction l as [|x t IH]; intros I s; cbn [chan_loop]; auto.
  assert (E : step_chan fcal e m p s x = step_chan fcal e m' p s x).
  { unfold step_chan. destruct (fst x) eqn:Ex; auto.
    destruct (waveform_at p (Pad c)) as [wf|] eqn:W; cbn [unwrap bind]; auto.
    destruct (pad_pos e _ _ c) as [|[col r]]; auto. destruct (negb _); auto. destruct (mem2 _ _); auto.
    destruct (pad_cal e col r) as [|[[bl g] dl]] eqn:Ec; auto.
    assert (Hwf : Forall i16 wf).
    { unfold waveform_at in W. destruct (find _ (p_sent p)) as [y|] eqn:Ef; [|discriminate].
      cbn in W. inv W. apply find_some in Ef. destruct Ef as [Hy _]. destruct y as [ch wf].
      eapply et_reasm; eauto. }
    rewrite !signal_ok; auto; eapply et_pcal; eauto. }
  rewrite E. destruct (step_chan fcal e m' p s x); cbn [bind]; auto.
  apply IH. intros y Hy; apply I; right; auto.
Qed.
Lemma group_loop_mode (e : env) m m' : env_typed e -> forall gs s,
  group_loop fcal e m s gs = group_loop fcal e m' s gs.
Proof.
  intros T. induction gs as [|cs t IH]; intros s; cbn [group_loop]; auto.
  assert (E : step_group fcal e m s cs = step_group fcal e m' s cs).
  { unfold step_group. destruct (reasm e cs) as [|p] eqn:R; auto.
    eapply chan_loop_mode; eauto. apply incl_refl. }
  rewrite E. destruct (step_group fcal e m' s cs); cbn [bind]; auto.
Qed.
Theorem build_no_wrap_lemma (e : env) order banks : env_typed e -> banks_typed banks ->
  build fcal e Checked order banks = build fcal e Wrapping order banks.
Proof.
  intros T B. unfold build. rewrite (loop_mode e Checked Wrapping banks T B).
  destruct (loop fcal e Wrapping st0 banks); cbn [bind]; auto.
  rewrite (group_loop_mode e Checked Wrapping T). reflexivity.
Qed.

End Thm.
