(* Proofs that the assembly fold meets the declarative specification (C10), does not depend on
   bank order or HashMap iteration order (C11). *)
From AG Require Import Base.Prelude Base.Res Event.Event Event.EventSpec Event.Event_proofs.
From Coq Require Import Permutation Setoid Morphisms.

Section Proofs.
Variable F : Type.
Variable fcal : Z -> F -> F.
Notation env := (env F).

(* ---------------- the bank loop splits into three independent loops ---------------- *)
Fixpoint wloop (e : env) (m : ovf) (r : list (N * N) * list (N * list F)) (banks : list bank)
  : res (list (N * N) * list (N * list F)) :=
  match banks with
  | [] => Ok r
  | BWire nb nc d :: t => do r' <- step_wire fcal e m (fst r) (snd r) nb nc d; wloop e m r' t
  | _ :: t => wloop e m r t
  end.
Fixpoint ploop (g : list (N * N * list chunkv)) (banks : list bank) : res (list (N * N * list chunkv)) :=
  match banks with
  | [] => Ok g
  | BPad nb d :: t => do g' <- step_pad g nb d; ploop g' t
  | _ :: t => ploop g t
  end.
Fixpoint tloop (ts : option N) (banks : list bank) : res (option N) :=
  match banks with
  | [] => Ok ts
  | BTrg d :: t => do ts' <- step_trg ts d; tloop ts' t
  | _ :: t => tloop ts t
  end.

Lemma loop_factor e m banks : forall s s',
  loop fcal e m s banks = Ok s' <->
  ~ In BUnknown banks /\
  wloop e m (s_names s, s_wires s) banks = Ok (s_names s', s_wires s') /\
  ploop (s_groups s) banks = Ok (s_groups s') /\
  tloop (s_ts s) banks = Ok (s_ts s').
Proof.
  induction banks as [|b t IH]; intros s s'.
  - cbn. destruct s, s'; cbn. split.
    + intros H; inv H; auto.
    + intros (_ & H1 & H2 & H3); inv H1; inv H2; inv H3; auto.
  - assert (NI : forall b0, b0 <> BUnknown -> (~ In BUnknown (b0 :: t) <-> ~ In BUnknown t)).
    { intros b0 Hb; cbn; split; [tauto | intros H [C|C]; [congruence | auto]]. }
    destruct b as [nb nc d|nb d|d| |]; cbn [loop step wloop ploop tloop fst snd].
    + destruct (step_wire fcal e m (s_names s) (s_wires s) nb nc d) as [[a b]| |] eqn:E; cbn [bind].
      * etransitivity; [apply IH|]. cbn [s_names s_wires s_groups s_ts fst snd]. rewrite NI by discriminate. tauto.
      * split; [discriminate | intros (_ & H & _); discriminate].
      * split; [discriminate | intros (_ & H & _); discriminate].
    + destruct (step_pad (s_groups s) nb d) as [g| |] eqn:E; cbn [bind].
      * etransitivity; [apply IH|]. cbn [s_names s_wires s_groups s_ts]. rewrite NI by discriminate. tauto.
      * split; [discriminate | intros (_ & _ & H & _); discriminate].
      * split; [discriminate | intros (_ & _ & H & _); discriminate].
    + destruct (step_trg (s_ts s) d) as [g| |] eqn:E; cbn [bind].
      * etransitivity; [apply IH|]. cbn [s_names s_wires s_groups s_ts]. rewrite NI by discriminate. tauto.
      * split; [discriminate | intros (_ & _ & _ & H); discriminate].
      * split; [discriminate | intros (_ & _ & _ & H); discriminate].
    + etransitivity; [apply IH|]. rewrite NI by discriminate. tauto.
    + split; [discriminate | intros (H & _); exfalso; apply H; left; auto].
Qed.

(* ---------------- TRG ---------------- *)
Lemma tloop_spec banks : forall ts ts',
  tloop ts banks = Ok ts' <->
  match ts with
  | Some t0 => trgs banks = [] /\ ts' = Some t0
  | None => (trgs banks = [] /\ ts' = None) \/ (exists t, trgs banks = [DOk t] /\ ts' = Some t)
  end.
Proof.
  induction banks as [|b t IH]; intros ts ts'.
  - cbn. destruct ts; split.
    + intros H; inv H; auto.
    + intros [_ ->]; auto.
    + intros H; inv H; auto.
    + intros [[_ ->]|[x [C _]]]; [auto | discriminate].
  - destruct b as [nb nc d|nb d|d| |]; cbn [tloop]; try (rewrite IH; reflexivity).
    unfold trgs; cbn [flat_map app]; fold (trgs t).
    destruct d as [|t1]; cbn [step_trg bind].
    + split; [discriminate|]. destruct ts.
      * intros [C _]; discriminate.
      * intros [[C _]|[x [C _]]]; discriminate.
    + destruct ts as [t0|]; cbn [bind].
      * split; [discriminate | intros [C _]; discriminate].
      * rewrite IH. split.
        -- intros [E ->]. right. exists t1. rewrite E. auto.
        -- intros [[C _]|[x [C ->]]]; [discriminate|]. inv C. auto.
Qed.

(* ---------------- PWB banks: grouping ---------------- *)
Definition addc (g : list (N * N * list chunkv)) (c : chunkv) := add_chunk (ckey c) c g.

Lemma ploop_spec banks : forall g g',
  ploop g banks = Ok g' <->
  (forall nb d, In (BPad nb d) banks -> exists c, d = DOk c /\ c_board c = nb) /\
  g' = fold_left addc (chunks banks) g.
Proof.
  induction banks as [|b t IH]; intros g g'.
  - cbn. split; [intros H; inv H; split; [intros ? ? []|auto] | intros [_ ->]; auto].
  - assert (NP : forall b0, (forall nb d, b0 <> BPad nb d) ->
       ((forall nb d, In (BPad nb d) (b0 :: t) -> exists c, d = DOk c /\ c_board c = nb) <->
        (forall nb d, In (BPad nb d) t -> exists c, d = DOk c /\ c_board c = nb))).
    { intros b0 Hb; split; intros H nb d Hi; [apply H; right; auto | destruct Hi as [C|C]; [exfalso; eapply Hb; eauto | auto]]. }
    destruct b as [nb nc d|nb d|d| |]; cbn [ploop];
      try (rewrite IH; unfold chunks; cbn [flat_map app]; rewrite NP by (intros; discriminate); reflexivity).
    unfold chunks; cbn [flat_map]; fold (chunks t).
    destruct d as [|c]; cbn [step_pad bind].
    + split; [discriminate|]. intros [H _]. destruct (H nb DErr) as [c [C _]]; [left; auto | discriminate].
    + destruct (c_board c =? nb) eqn:E; cbn [negb bind].
      * apply N.eqb_eq in E. rewrite IH. cbn [app fold_left]. unfold addc at 2. split.
        -- intros [H ->]. split; auto. intros nb0 d0 [C|C]; [inv C; eauto | auto].
        -- intros [H ->]. split; auto. intros nb0 d0 C. apply H. right; auto.
      * apply N.eqb_neq in E. split; [discriminate|]. intros [H _].
        destruct (H nb (DOk c)) as [c0 [C1 C2]]; [left; auto|]. inv C1. congruence.
Qed.

Definition grp (k : N * N) (g : list (N * N * list chunkv)) : list chunkv :=
  match assoc2 k g with Some cs => cs | None => [] end.

Lemma add_chunk_assoc k k0 c g :
  assoc2 k (add_chunk k0 c g) = if pair_eqb k k0 then Some (grp k0 g ++ [c]) else assoc2 k g.
Proof.
  induction g as [|[k' cs] t IH]; cbn [add_chunk assoc2].
  - unfold grp; cbn. destruct (pair_eqb k k0); auto.
  - destruct (pair_eqb k0 k') eqn:E0; cbn [assoc2].
    + apply pair_eqb_eq in E0; subst k'. unfold grp; cbn [assoc2]. rewrite pair_eqb_refl.
      destruct (pair_eqb k k0); auto.
    + rewrite IH. unfold grp; cbn [assoc2]. rewrite E0.
      destruct (pair_eqb k k') eqn:E1; auto.
      destruct (pair_eqb k k0) eqn:E2; auto.
      apply pair_eqb_eq in E1, E2; subst. rewrite pair_eqb_refl in E0; discriminate.
Qed.
Lemma add_chunk_keys k k0 c g : In k (map fst (add_chunk k0 c g)) <-> k = k0 \/ In k (map fst g).
Proof.
  induction g as [|[k' cs] t IH]; cbn [add_chunk map fst In].
  - split; [intros [H|[]]; auto | intros [H|[]]; auto].
  - destruct (pair_eqb k0 k') eqn:E0; cbn [map fst In].
    + apply pair_eqb_eq in E0; subst. intuition auto.
    + rewrite IH. intuition auto.
Qed.
Lemma add_chunk_nodup k0 c g : NoDup (map fst g) -> NoDup (map fst (add_chunk k0 c g)).
Proof.
  induction g as [|[k' cs] t IH]; cbn [add_chunk map fst]; intros ND.
  - constructor; auto; constructor.
  - inv ND. destruct (pair_eqb k0 k') eqn:E0; cbn [map fst].
    + constructor; auto.
    + constructor; auto. rewrite add_chunk_keys. intros [C|C]; auto. subst. rewrite pair_eqb_refl in E0; discriminate.
Qed.

Lemma fold_addc cs : forall g, NoDup (map fst g) ->
  let g' := fold_left addc cs g in
  NoDup (map fst g') /\
  (forall k, In k (map fst g') <-> In k (map fst g) \/ In k (map ckey cs)) /\
  (forall k, grp k g' = grp k g ++ filter (fun c => pair_eqb (ckey c) k) cs).
Proof.
  induction cs as [|c t IH]; intros g ND; cbn [fold_left].
  - cbn. split; auto. split; [tauto|]. intros; rewrite app_nil_r; auto.
  - destruct (IH (addc g c) (add_chunk_nodup _ _ _ ND)) as (H1 & H2 & H3). cbv zeta.
    split; auto. split.
    + intros k. rewrite H2. unfold addc. rewrite add_chunk_keys. cbn [map In]. split; intros; intuition auto.
    + intros k. rewrite H3. unfold addc, grp at 1. rewrite add_chunk_assoc. cbn [filter].
      rewrite (pair_eqb_sym (ckey c) k).
      destruct (pair_eqb k (ckey c)) eqn:E.
      * apply pair_eqb_eq in E; subst. rewrite <- app_assoc. reflexivity.
      * reflexivity.
Qed.

Lemma NoDup_fst {A B} (l : list (A * B)) : NoDup (map fst l) -> NoDup l.
Proof.
  induction l as [|[a b] t IH]; cbn; intros H; [constructor|]. inv H. constructor; auto.
  intros C. apply H2. change a with (fst (a, b)). apply in_map; auto.
Qed.

(* the groups the loop leaves in the map are exactly the chunks of each key present *)
Lemma groups_perm banks :
  Permutation (fold_left addc (chunks banks) [])
              (map (fun k => (k, group k banks)) (gkeys banks)).
Proof.
  destruct (fold_addc (chunks banks) [] (NoDup_nil _)) as (H1 & H2 & H3). cbv zeta in *.
  set (g' := fold_left addc (chunks banks) []) in *.
  apply NoDup_Permutation.
  - apply NoDup_fst; auto.
  - apply NoDup_fst. rewrite map_map. cbn [fst]. rewrite map_id. apply NoDup_nodup.
  - intros [k cs]. rewrite in_map_iff. split.
    + intros Hin. exists k. split.
      * f_equal. pose proof (H3 k) as G. unfold grp at 1 in G.
        rewrite (assoc2_nodup k g' cs H1 Hin) in G. rewrite G. unfold grp; cbn. reflexivity.
      * unfold gkeys. apply nodup_In.
        assert (Hk : In k (map fst g')) by (change k with (fst (k, cs)); apply in_map; auto).
        apply H2 in Hk. destruct Hk as [[]|Hk]; auto.
    + intros [k0 [E Hk]]. inv E. unfold gkeys in Hk. apply nodup_In in Hk.
      assert (Hin : In k (map fst g')) by (apply H2; auto).
      destruct (assoc2 k g') as [cs|] eqn:A.
      * pose proof (H3 k) as G. unfold grp at 1 in G. rewrite A in G. unfold grp in G; cbn in G.
        unfold group. rewrite <- G. apply assoc2_in; auto.
      * apply assoc2_none in A. contradiction.
Qed.


(* ---------------- the pad loop ---------------- *)
Definition chan_claim (e : env) (p : pwbv) (x : pchan * list Z) : list (N * N) :=
  match fst x with
  | Pad pc => match pad_pos e (p_board p) (p_chip p) pc with DOk pos => [pos] | DErr => [] end
  | _ => []
  end.
Definition chan_entry (e : env) (p : pwbv) (x : pchan * list Z) : list (N * N * list F) :=
  match fst x with
  | Pad pc =>
    match pad_pos e (p_board p) (p_chip p) pc with
    | DOk (c, r) =>
      match pad_cal e c r with
      | DOk (bl, g, dl) => match calib fcal bl g dl (snd x) with [] => [] | s => [((c, r), s)] end
      | DErr => []
      end
    | DErr => []
    end
  | _ => []
  end.
Definition chan_good (e : env) (p : pwbv) (x : pchan * list Z) : Prop :=
  match fst x with
  | Pad pc => exists c r bl g dl, pad_pos e (p_board p) (p_chip p) pc = DOk (c, r) /\ pad_cal e c r = DOk (bl, g, dl)
  | _ => True
  end.

Lemma claims_of_eq e cs :
  claims_of e cs = match reasm e cs with DErr => [] | DOk p => flat_map (chan_claim e p) (p_sent p) end.
Proof. reflexivity. Qed.

Lemma NoDup_app_r {A} (l1 l2 : list A) : NoDup (l1 ++ l2) -> NoDup l2.
Proof. induction l1; cbn; auto. intros H; inv H; auto. Qed.
Lemma NoDup_mid_in {A} (l1 l2 : list A) a : In a l2 -> ~ NoDup (l1 ++ a :: l2).
Proof. intros Hi ND. apply NoDup_remove_2 in ND. apply ND. apply in_or_app; auto. Qed.

Lemma waveform_at_own p ch wf : NoDup (map fst (p_sent p)) -> In (ch, wf) (p_sent p) -> waveform_at p ch = Some wf.
Proof.
  unfold waveform_at. induction (p_sent p) as [|[ch' wf'] t IH]; cbn [In map fst find]; [tauto|].
  intros ND [H|H].
  - inv H. rewrite pchan_eqb_refl. reflexivity.
  - inv ND. destruct (pchan_eqb ch' ch) eqn:E.
    + exfalso. apply H2. assert (ch' = ch).
      { destruct ch', ch; cbn in E; try discriminate; apply N.eqb_eq in E; subst; auto. }
      subst. change ch with (fst (ch, wf)). apply in_map; auto.
    + apply IH; auto.
Qed.

Lemma chan_loop_spec e m p cs0 : env_typed e -> reasm e cs0 = DOk p ->
  forall l, incl l (p_sent p) -> forall pads seen pads' seen', NoDup seen ->
  (chan_loop fcal e m p (pads, seen) l = Ok (pads', seen') <->
   Forall (chan_good e p) l /\
   seen' = rev (flat_map (chan_claim e p) l) ++ seen /\ NoDup seen' /\
   pads' = rev (flat_map (chan_entry e p) l) ++ pads).
Proof.
  intros T R. induction l as [|[ch wf] t IH]; intros I pads seen pads' seen' ND.
  - cbn. split.
    + intros H; inv H. auto.
    + intros (_ & -> & _ & ->). reflexivity.
  - assert (It : incl t (p_sent p)) by (intros y Hy; apply I; right; auto).
    assert (Hx : In (ch, wf) (p_sent p)) by (apply I; left; auto).
    cbn [chan_loop flat_map]. unfold step_chan, chan_claim at 1 2, chan_entry at 1. cbn [fst snd].
    destruct ch as [pc|fc|rc].
    2,3: cbn [bind app]; rewrite (IH It pads seen pads' seen' ND);
         split; [intros (A & B & C & D); split; [constructor; [exact Logic.I|auto] | auto]
                | intros (A & B & C & D); inv A; auto].
    rewrite (waveform_at_own p (Pad pc) wf (et_sent _ e T _ _ R) Hx). cbn [unwrap bind].
    destruct (pad_pos e (p_board p) (p_chip p) pc) as [|[c r]] eqn:Ep.
    { split; [discriminate|]. intros (A & _). inv A. unfold chan_good in H1; cbn [fst] in H1.
      destruct H1 as (c & r & bl & g & dl & C & _). congruence. }
    destruct (et_pad _ e T _ _ _ _ _ Ep) as [Hc Hr].
    rewrite (proj2 (N.ltb_lt c 32) Hc), (proj2 (N.ltb_lt r 576) Hr). cbn [andb negb].
    destruct (mem2 (c, r) seen) eqn:Em.
    { split; [discriminate|]. intros (_ & B & C & _). exfalso. subst seen'.
      cbn [app rev] in C. rewrite <- app_assoc in C. cbn [app] in C.
      apply mem2_true in Em. eapply NoDup_mid_in; eauto. }
    apply mem2_false in Em.
    destruct (pad_cal e c r) as [|[[bl g] dl]] eqn:Ec.
    { split; [discriminate|]. intros (A & _). inv A. unfold chan_good in H1; cbn [fst] in H1.
      destruct H1 as (c' & r' & bl & g & dl & C1 & C2). rewrite Ep in C1; inv C1. congruence. }
    rewrite signal_ok; [| eapply et_pcal; eauto | eapply et_reasm; eauto]. cbn [bind fst snd].
    assert (ND1 : NoDup ((c, r) :: seen)) by (constructor; auto).
    set (en := match calib fcal bl g dl wf with [] => [] | f :: l => [(c, r, f :: l)] end).
    assert (Een : match calib fcal bl g dl wf with [] => pads | _ :: _ => (c, r, calib fcal bl g dl wf) :: pads end = en ++ pads).
    { unfold en. destruct (calib fcal bl g dl wf); reflexivity. }
    rewrite Een. rewrite (IH It (en ++ pads) ((c, r) :: seen) pads' seen' ND1).
    assert (G : chan_good e p (Pad pc, wf)).
    { unfold chan_good; cbn [fst]. exists c, r, bl, g, dl; auto. }
    cbn [app rev]. rewrite <- !app_assoc. cbn [app].
    assert (Er : rev (en ++ flat_map (chan_entry e p) t) ++ pads = rev (flat_map (chan_entry e p) t) ++ en ++ pads).
    { rewrite rev_app_distr, <- app_assoc. f_equal. f_equal. unfold en. destruct (calib fcal bl g dl wf); reflexivity. }
    rewrite Er.
    split.
    + intros (A & B & C & D). split; [constructor; auto|]. auto.
    + intros (A & B & C & D). inv A. auto.
Qed.

Definition group_good (e : env) (cs : list chunkv) : Prop :=
  exists p, reasm e cs = DOk p /\ Forall (chan_good e p) (p_sent p).
Definition entries_of (e : env) (cs : list chunkv) : list (N * N * list F) :=
  match reasm e cs with DErr => [] | DOk p => flat_map (chan_entry e p) (p_sent p) end.

Lemma group_loop_spec e m : env_typed e ->
  forall gl pads seen pads' seen', NoDup seen ->
  (group_loop fcal e m (pads, seen) gl = Ok (pads', seen') <->
   Forall (group_good e) gl /\
   seen' = rev (flat_map (claims_of e) gl) ++ seen /\ NoDup seen' /\
   pads' = rev (flat_map (entries_of e) gl) ++ pads).
Proof.
  intros T. induction gl as [|cs t IH]; intros pads seen pads' seen' ND.
  - cbn. split.
    + intros H; inv H. auto.
    + intros (_ & -> & _ & ->). reflexivity.
  - cbn [group_loop flat_map]. unfold step_group, entries_of at 1. rewrite claims_of_eq.
    destruct (reasm e cs) as [|p] eqn:R.
    { cbn [bind]. split; [discriminate|]. intros (A & _). inv A. destruct H1 as (p & C & _). congruence. }
    pose proof (chan_loop_spec e m p cs T R (p_sent p) (incl_refl _)) as CS.
    rewrite !rev_app_distr, <- !app_assoc.
    split.
    + destruct (chan_loop fcal e m p (pads, seen) (p_sent p)) as [[pads1 seen1]| |] eqn:E; cbn [bind]; try discriminate.
      apply (CS pads seen pads1 seen1 ND) in E. destruct E as (A1 & B1 & C1 & D1).
      intros H. apply (IH pads1 seen1 pads' seen' C1) in H. destruct H as (A2 & B2 & C2 & D2).
      subst. split; [constructor; auto; exists p; auto|]. auto.
    + intros (A & B & C & D). inv A. destruct H1 as (p' & R' & G). rewrite R in R'; inv R'.
      assert (C1 : NoDup (rev (flat_map (chan_claim e p') (p_sent p')) ++ seen)).
      { eapply NoDup_app_r; eauto. }
      assert (E : chan_loop fcal e m p' (pads, seen) (p_sent p') =
                  Ok (rev (flat_map (chan_entry e p') (p_sent p')) ++ pads, rev (flat_map (chan_claim e p') (p_sent p')) ++ seen)).
      { apply (CS pads seen _ _ ND). auto. }
      rewrite E. cbn [bind]. apply IH; auto.
Qed.


(* ---------------- the wire banks ---------------- *)
Definition wire_good (e : env) (b : bank) : Prop :=
  match b with
  | BWire nb nc d =>
    exists p, d = DOk p /\ a_chan p = A32 nc /\ (forall b0, a_board p = Some b0 -> b0 = nb) /\
      (a_wf p <> [] -> exists w bl g dl, wire_pos e nb nc = DOk w /\ wire_cal e w = DOk (bl, g, dl))
  | _ => True
  end.
Definition wpos (e : env) (b : bank) : list N :=
  match b with
  | BWire nb nc (DOk p) =>
    match a_wf p with [] => [] | _ :: _ => match wire_pos e nb nc with DOk w => [w] | DErr => [] end end
  | _ => []
  end.
Definition went (e : env) (b : bank) : list (N * list F) :=
  match b with
  | BWire nb nc (DOk p) =>
    match a_wf p with
    | [] => []
    | _ :: _ =>
      match wire_pos e nb nc with
      | DOk w =>
        match wire_cal e w with
        | DOk (bl, g, dl) => match calib fcal bl g dl (a_wf p) with [] => [] | s => [(w, s)] end
        | DErr => []
        end
      | DErr => []
      end
    end
  | _ => []
  end.

Lemma went_cases e b : went e b = [] \/ exists w s, went e b = [(w, s)] /\ wpos e b = [w] /\ s <> [].
Proof.
  destruct b as [nb nc [|p]|nb d|d| |]; cbn [went wpos]; auto.
  destruct (a_wf p) as [|v t] eqn:Ewf; auto.
  destruct (wire_pos e nb nc) as [|w]; auto.
  destruct (wire_cal e w) as [|[[bl g] dl]]; auto.
  destruct (calib fcal bl g dl (v :: t)) as [|f l] eqn:Ec; auto.
  right. exists w, (f :: l). repeat split; auto. discriminate.
Qed.

Lemma step_wire_spec e m nm ws nb nc d nm' ws' : env_typed e -> bank_typed (BWire nb nc d) ->
  (step_wire fcal e m nm ws nb nc d = Ok (nm', ws') <->
   wire_good e (BWire nb nc d) /\ ~ In (nb, nc) nm /\ nm' = (nb, nc) :: nm /\
   (forall w, In w (wpos e (BWire nb nc d)) -> assocN w ws = None) /\
   ws' = went e (BWire nb nc d) ++ ws).
Proof.
  intros T B. unfold step_wire, wire_good, wpos, went. destruct d as [|p].
  { split; [cbv beta iota; try discriminate|]. intros ((p & C & _) & _); discriminate. }
  cbn in B.
  destruct (a_chan p) as [c|c] eqn:Ech.
  2: { split; [cbv beta iota; try discriminate|]. intros ((p0 & C & C2 & _) & _). inv C. congruence. }
  destruct (pair_eqb (nb, nc) (match a_board p with Some b => b | None => nb end, c)) eqn:Eq; cbn [negb].
  2: { split; [cbv beta iota; try discriminate|]. intros ((p0 & C & C2 & C3 & _) & _). inv C. rewrite Ech in C2; inv C2.
       exfalso. apply pair_eqb_neq in Eq. apply Eq. f_equal.
       destruct (a_board p0) eqn:Eb; auto. symmetry. apply C3; auto. }
  apply pair_eqb_eq in Eq.
  assert (Efb : match a_board p with Some b => b | None => nb end = nb) by congruence.
  assert (Ec : c = nc) by congruence. subst c. clear Eq. rewrite Efb.
  assert (Hb : forall b0, a_board p = Some b0 -> b0 = nb).
  { intros b0 Hb0. rewrite Hb0 in Efb. auto. }
  destruct (mem2 (nb, nc) nm) eqn:Em.
  { split; [cbv beta iota; try discriminate|]. intros (_ & C & _). apply mem2_true in Em. contradiction. }
  apply mem2_false in Em.
  destruct (a_wf p) as [|v t] eqn:Ewf.
  { split.
    - intros H; inv H. split; [exists p; repeat split; auto; intros C; congruence|].
      repeat split; auto. intros w [].
    - intros (_ & _ & -> & _ & ->). reflexivity. }
  destruct (wire_pos e nb nc) as [|w] eqn:Ew.
  { split; [cbv beta iota; try discriminate|]. intros ((p0 & C & _ & _ & C4) & _). inv C.
    destruct C4 as (w & bl & g & dl & C5 & _); [rewrite Ewf; discriminate | congruence]. }
  rewrite (proj2 (N.ltb_lt w 256) (et_wire _ e T _ _ _ Ew)). cbn [negb].
  destruct (assocN w ws) eqn:Ea.
  { split; [cbv beta iota; try discriminate|]. intros (_ & _ & _ & C & _). rewrite (C w) in Ea; [discriminate | left; auto]. }
  destruct (wire_cal e w) as [|[[bl g] dl]] eqn:Ec.
  { split; [cbv beta iota; try discriminate|]. intros ((p0 & C & _ & _ & C4) & _). inv C.
    destruct C4 as (w' & bl & g & dl & C5 & C6); [rewrite Ewf; discriminate|].
    inv C5. congruence. }
  rewrite signal_ok; [| eapply et_wcal; eauto | auto]. cbn [bind].
  split.
  - intros H; inv H. split; [exists p; repeat split; auto; intros _; exists w, bl, g, dl; auto|].
    split; auto. split; auto. split; [intros w' [<-|[]]; auto|].
    destruct (calib fcal bl g dl (v :: t)); reflexivity.
  - intros (_ & _ & -> & _ & ->). f_equal. f_equal. destruct (calib fcal bl g dl (v :: t)); reflexivity.
Qed.

Lemma wpos_in e nb nc d w : In w (wpos e (BWire nb nc d)) -> wire_pos e nb nc = DOk w.
Proof.
  cbn [wpos]. destruct d as [|p]; [intros []|]. destruct (a_wf p); [intros []|].
  destruct (wire_pos e nb nc); [intros []|]. intros [<-|[]]; auto.
Qed.

Lemma wloop_sound e m : env_typed e -> forall banks nm ws nm' ws',
  banks_typed banks -> NoDup nm -> NoDup (map fst ws) ->
  wloop e m (nm, ws) banks = Ok (nm', ws') ->
  Forall (wire_good e) banks /\ nm' = rev (wire_names banks) ++ nm /\ NoDup nm' /\
  ws' = rev (flat_map (went e) banks) ++ ws /\ NoDup (map fst ws').
Proof.
  intros T. induction banks as [|b t IH]; intros nm ws nm' ws' B ND1 ND2 H.
  - cbn in H. inv H. cbn. auto.
  - inv B. rename H2 into Bb, H3 into Bt.
    assert (OTHER : (forall nb nc d, b <> BWire nb nc d) -> wloop e m (nm, ws) t = Ok (nm', ws') ->
              wire_names (b :: t) = wire_names t -> went e b = [] -> wire_good e b ->
              Forall (wire_good e) (b :: t) /\ nm' = rev (wire_names (b :: t)) ++ nm /\ NoDup nm' /\
              ws' = rev (flat_map (went e) (b :: t)) ++ ws /\ NoDup (map fst ws')).
    { intros _ H0 E1 E2 G. destruct (IH nm ws nm' ws' Bt ND1 ND2 H0) as (A1 & A2 & A3 & A4 & A5).
      rewrite E1. cbn [flat_map]. rewrite E2. cbn [app]. split; [constructor; auto|]. auto. }
    destruct b as [nb nc d|nb d|d| |];
      try (apply OTHER; [intros; discriminate | exact H | reflexivity | reflexivity | exact Logic.I]).
    clear OTHER. cbn [wloop fst snd] in H.
    destruct (step_wire fcal e m nm ws nb nc d) as [[nm1 ws1]| |] eqn:E; cbn [bind] in H; try discriminate.
    apply (step_wire_spec e m nm ws nb nc d nm1 ws1 T Bb) in E. destruct E as (G & NI & -> & SL & ->).
    assert (NDw : NoDup (map fst (went e (BWire nb nc d) ++ ws))).
    { destruct (went_cases e (BWire nb nc d)) as [E0|(w & s & E0 & E1 & _)]; rewrite E0; cbn [app map fst]; auto.
      constructor; auto. apply assocN_none. apply SL. rewrite E1. left; auto. }
    destruct (IH _ _ nm' ws' Bt (NoDup_cons _ NI ND1) NDw H) as (A1 & A2 & A3 & A4 & A5).
    split; [constructor; auto|].
    unfold wire_names; cbn [flat_map app]; fold (wire_names t). cbn [rev]. rewrite <- !app_assoc. cbn [app].
    split; auto. split; auto. split; auto.
    rewrite A4. rewrite rev_app_distr, <- app_assoc. f_equal. f_equal.
    destruct (went_cases e (BWire nb nc d)) as [E0|(w & s & E0 & _)]; rewrite E0; reflexivity.
Qed.

Lemma wloop_complete e m : env_typed e -> wire_pos_injective e -> forall banks nm ws,
  banks_typed banks -> Forall (wire_good e) banks -> NoDup (rev (wire_names banks) ++ nm) ->
  (forall nb nc w, In (nb, nc) (wire_names banks) -> wire_pos e nb nc = DOk w -> assocN w ws = None) ->
  exists r, wloop e m (nm, ws) banks = Ok r.
Proof.
  intros T INJ. induction banks as [|b t IH]; intros nm ws B G ND SL.
  - cbn. eauto.
  - inv B. inv G. rename H1 into Bb, H2 into Bt, H3 into Gb, H4 into Gt.
    destruct b as [nb nc d|nb d|d| |]; cbn [wloop]; try (apply IH; auto; fail).
    unfold wire_names in ND, SL; cbn [flat_map app] in ND, SL; fold (wire_names t) in ND, SL.
    cbn [rev] in ND. rewrite <- app_assoc in ND. cbn [app] in ND.
    assert (NI : ~ In (nb, nc) nm).
    { apply NoDup_app_r in ND. inv ND. auto. }
    assert (NT : ~ In (nb, nc) (wire_names t)).
    { apply NoDup_remove_2 in ND. intros C. apply ND. apply in_or_app. left. apply in_rev in C. auto. }
    assert (E : step_wire fcal e m nm ws nb nc d = Ok ((nb, nc) :: nm, went e (BWire nb nc d) ++ ws)).
    { apply step_wire_spec; auto. split; auto. split; auto. split; auto. split; auto.
      intros w Hw. apply wpos_in in Hw. eapply SL; eauto. left; auto. }
    cbn [fst snd]. rewrite E. cbn [bind]. apply IH; auto.
    intros nb' nc' w' Hin Hp.
    assert (A0 : assocN w' ws = None) by (eapply SL; eauto; right; auto).
    destruct (went_cases e (BWire nb nc d)) as [E0|(w & s & E0 & E1 & _)]; rewrite E0; cbn [app]; auto.
    cbn [assocN]. destruct (w' =? w) eqn:Ew; auto. apply N.eqb_eq in Ew; subst w'.
    exfalso. assert (Hw : wire_pos e nb nc = DOk w) by (apply (wpos_in e nb nc d); rewrite E1; left; auto).
    pose proof (INJ _ _ _ _ _ Hp Hw) as C. inv C. contradiction.
Qed.

End Proofs.
