(* Proofs that the assembly fold meets the declarative specification (C10), does not depend on
   bank order or HashMap iteration order (C11). *)
From AG Require Import Base.Prelude Base.Res Event.Event Event.EventSpec Event.Event_proofs.
From Coq Require Import Permutation Setoid Morphisms.

Section Proofs.
Variable F : Type.
Variable fcal : Z -> F -> F.
Notation env := (env F).

(* ---------------- the bank loop splits into three independent loops ---------------- *)
Fixpoint wloop (e : env) (m : ovf) (r : list (N * N) * list (N * list F)) (banks : list bank)
  : res (list (N * N) * list (N * list F)) :=
  match banks with
  | [] => Ok r
  | BWire nb nc d :: t => do r' <- step_wire fcal e m (fst r) (snd r) nb nc d; wloop e m r' t
  | _ :: t => wloop e m r t
  end.
Fixpoint ploop (g : list (N * N * list chunkv)) (banks : list bank) : res (list (N * N * list chunkv)) :=
  match banks with
  | [] => Ok g
  | BPad nb d :: t => do g' <- step_pad g nb d; ploop g' t
  | _ :: t => ploop g t
  end.
Fixpoint tloop (ts : option N) (banks : list bank) : res (option N) :=
  match banks with
  | [] => Ok ts
  | BTrg d :: t => do ts' <- step_trg ts d; tloop ts' t
  | _ :: t => tloop ts t
  end.

Lemma loop_factor e m banks : forall s s',
  loop fcal e m s banks = Ok s' <->
  ~ In BUnknown banks /\
  wloop e m (s_names s, s_wires s) banks = Ok (s_names s', s_wires s') /\
  ploop (s_groups s) banks = Ok (s_groups s') /\
  tloop (s_ts s) banks = Ok (s_ts s').
Proof.
  induction banks as [|b t IH]; intros s s'.
  - cbn. destruct s, s'; cbn. split.
    + intros H; inv H; auto.
    + intros (_ & H1 & H2 & H3); inv H1; inv H2; inv H3; auto.
  - assert (NI : forall b0, b0 <> BUnknown -> (~ In BUnknown (b0 :: t) <-> ~ In BUnknown t)).
    { intros b0 Hb; cbn; split; [tauto | intros H [C|C]; [congruence | auto]]. }
    destruct b as [nb nc d|nb d|d| |]; cbn [loop step wloop ploop tloop fst snd].
    + destruct (step_wire fcal e m (s_names s) (s_wires s) nb nc d) as [[a b]| |] eqn:E; cbn [bind].
      * etransitivity; [apply IH|]. cbn [s_names s_wires s_groups s_ts fst snd]. rewrite NI by discriminate. tauto.
      * split; [discriminate | intros (_ & H & _); discriminate].
      * split; [discriminate | intros (_ & H & _); discriminate].
    + destruct (step_pad (s_groups s) nb d) as [g| |] eqn:E; cbn [bind].
      * etransitivity; [apply IH|]. cbn [s_names s_wires s_groups s_ts]. rewrite NI by discriminate. tauto.
      * split; [discriminate | intros (_ & _ & H & _); discriminate].
      * split; [discriminate | intros (_ & _ & H & _); discriminate].
    + destruct (step_trg (s_ts s) d) as [g| |] eqn:E; cbn [bind].
      * etransitivity; [apply IH|]. cbn [s_names s_wires s_groups s_ts]. rewrite NI by discriminate. tauto.
      * split; [discriminate | intros (_ & _ & _ & H); discriminate].
      * split; [discriminate | intros (_ & _ & _ & H); discriminate].
    + etransitivity; [apply IH|]. rewrite NI by discriminate. tauto.
    + split; [discriminate | intros (H & _); exfalso; apply H; left; auto].
Qed.

(* ---------------- TRG ---------------- *)
Lemma tloop_spec banks : forall ts ts',
  tloop ts banks = Ok ts' <->
  match ts with
  | Some t0 => trgs banks = [] /\ ts' = Some t0
  | None => (trgs banks = [] /\ ts' = None) \/ (exists t, trgs banks = [DOk t] /\ ts' = Some t)
  end.
Proof.
  induction banks as [|b t IH]; intros ts ts'.
  - cbn. destruct ts; split.
    + intros H; inv H; auto.
    + intros [_ ->]; auto.
    + intros H; inv H; auto.
    + intros [[_ ->]|[x [C _]]]; [auto | discriminate].
  - destruct b as [nb nc d|nb d|d| |]; cbn [tloop]; try (rewrite IH; reflexivity).
    unfold trgs; cbn [flat_map app]; fold (trgs t).
    destruct d as [|t1]; cbn [step_trg bind].
    + split; [discriminate|]. destruct ts.
      * intros [C _]; discriminate.
      * intros [[C _]|[x [C _]]]; discriminate.
    + destruct ts as [t0|]; cbn [bind].
      * split; [discriminate | intros [C _]; discriminate].
      * rewrite IH. split.
        -- intros [E ->]. right. exists t1. rewrite E. auto.
        -- intros [[C _]|[x [C ->]]]; [discriminate|]. inv C. auto.
Qed.

(* ---------------- PWB banks: grouping ---------------- *)
Definition addc (g : list (N * N * list chunkv)) (c : chunkv) := add_chunk (ckey c) c g.

Lemma ploop_spec banks : forall g g',
  ploop g banks = Ok g' <->
  (forall nb d, In (BPad nb d) banks -> exists c, d = DOk c /\ c_board c = nb) /\
  g' = fold_left addc (chunks banks) g.
Proof.
  induction banks as [|b t IH]; intros g g'.
  - cbn. split; [intros H; inv H; split; [intros ? ? []|auto] | intros [_ ->]; auto].
  - assert (NP : forall b0, (forall nb d, b0 <> BPad nb d) ->
       ((forall nb d, In (BPad nb d) (b0 :: t) -> exists c, d = DOk c /\ c_board c = nb) <->
        (forall nb d, In (BPad nb d) t -> exists c, d = DOk c /\ c_board c = nb))).
    { intros b0 Hb; split; intros H nb d Hi; [apply H; right; auto | destruct Hi as [C|C]; [exfalso; eapply Hb; eauto | auto]]. }
    destruct b as [nb nc d|nb d|d| |]; cbn [ploop];
      try (rewrite IH; unfold chunks; cbn [flat_map app]; rewrite NP by (intros; discriminate); reflexivity).
    unfold chunks; cbn [flat_map]; fold (chunks t).
    destruct d as [|c]; cbn [step_pad bind].
    + split; [discriminate|]. intros [H _]. destruct (H nb DErr) as [c [C _]]; [left; auto | discriminate].
    + destruct (c_board c =? nb) eqn:E; cbn [negb bind].
      * apply N.eqb_eq in E. rewrite IH. cbn [app fold_left]. unfold addc at 2. split.
        -- intros [H ->]. split; auto. intros nb0 d0 [C|C]; [inv C; eauto | auto].
        -- intros [H ->]. split; auto. intros nb0 d0 C. apply H. right; auto.
      * apply N.eqb_neq in E. split; [discriminate|]. intros [H _].
        destruct (H nb (DOk c)) as [c0 [C1 C2]]; [left; auto|]. inv C1. congruence.
Qed.

Definition grp (k : N * N) (g : list (N * N * list chunkv)) : list chunkv :=
  match assoc2 k g with Some cs => cs | None => [] end.

Lemma add_chunk_assoc k k0 c g :
  assoc2 k (add_chunk k0 c g) = if pair_eqb k k0 then Some (grp k0 g ++ [c]) else assoc2 k g.
Proof.
  induction g as [|[k' cs] t IH]; cbn [add_chunk assoc2].
  - unfold grp; cbn. destruct (pair_eqb k k0); auto.
  - destruct (pair_eqb k0 k') eqn:E0; cbn [assoc2].
    + apply pair_eqb_eq in E0; subst k'. unfold grp; cbn [assoc2]. rewrite pair_eqb_refl.
      destruct (pair_eqb k k0); auto.
    + rewrite IH. unfold grp; cbn [assoc2]. rewrite E0.
      destruct (pair_eqb k k') eqn:E1; auto.
      destruct (pair_eqb k k0) eqn:E2; auto.
      apply pair_eqb_eq in E1, E2; subst. rewrite pair_eqb_refl in E0; discriminate.
Qed.
Lemma add_chunk_keys k k0 c g : In k (map fst (add_chunk k0 c g)) <-> k = k0 \/ In k (map fst g).
Proof.
  induction g as [|[k' cs] t IH]; cbn [add_chunk map fst In].
  - split; [intros [H|[]]; auto | intros [H|[]]; auto].
  - destruct (pair_eqb k0 k') eqn:E0; cbn [map fst In].
    + apply pair_eqb_eq in E0; subst. intuition auto.
    + rewrite IH. intuition auto.
Qed.
Lemma add_chunk_nodup k0 c g : NoDup (map fst g) -> NoDup (map fst (add_chunk k0 c g)).
Proof.
  induction g as [|[k' cs] t IH]; cbn [add_chunk map fst]; intros ND.
  - constructor; auto; constructor.
  - inv ND. destruct (pair_eqb k0 k') eqn:E0; cbn [map fst].
    + constructor; auto.
    + constructor; auto. rewrite add_chunk_keys. intros [C|C]; auto. subst. rewrite pair_eqb_refl in E0; discriminate.
Qed.

Lemma fold_addc cs : forall g, NoDup (map fst g) ->
  let g' := fold_left addc cs g in
  NoDup (map fst g') /\
  (forall k, In k (map fst g') <-> In k (map fst g) \/ In k (map ckey cs)) /\
  (forall k, grp k g' = grp k g ++ filter (fun c => pair_eqb (ckey c) k) cs).
Proof.
  induction cs as [|c t IH]; intros g ND; cbn [fold_left].
  - cbn. split; auto. split; [tauto|]. intros; rewrite app_nil_r; auto.
  - destruct (IH (addc g c) (add_chunk_nodup _ _ _ ND)) as (H1 & H2 & H3). cbv zeta.
    split; auto. split.
    + intros k. rewrite H2. unfold addc. rewrite add_chunk_keys. cbn [map In]. split; intros; intuition auto.
    + intros k. rewrite H3. unfold addc, grp at 1. rewrite add_chunk_assoc. cbn [filter].
      rewrite (pair_eqb_sym (ckey c) k).
      destruct (pair_eqb k (ckey c)) eqn:E.
      * apply pair_eqb_eq in E; subst. rewrite <- app_assoc. reflexivity.
      * reflexivity.
Qed.

Lemma NoDup_fst {A B} (l : list (A * B)) : NoDup (map fst l) -> NoDup l.
Proof.
  induction l as [|[a b] t IH]; cbn; intros H; [constructor|]. inv H. constructor; auto.
  intros C. apply H2. change a with (fst (a, b)). apply in_map; auto.
Qed.

(* the groups the loop leaves in the map are exactly the chunks of each key present *)
Lemma groups_perm banks :
  Permutation (fold_left addc (chunks banks) [])
              (map (fun k => (k, group k banks)) (gkeys banks)).
Proof.
  destruct (fold_addc (chunks banks) [] (NoDup_nil _)) as (H1 & H2 & H3). cbv zeta in *.
  set (g' := fold_left addc (chunks banks) []) in *.
  apply NoDup_Permutation.
  - apply NoDup_fst; auto.
  - apply NoDup_fst. rewrite map_map. cbn [fst]. rewrite map_id. apply NoDup_nodup.
  - intros [k cs]. rewrite in_map_iff. split.
    + intros Hin. exists k. split.
      * f_equal. pose proof (H3 k) as G. unfold grp at 1 in G.
        rewrite (assoc2_nodup k g' cs H1 Hin) in G. rewrite G. unfold grp; cbn. reflexivity.
      * unfold gkeys. apply nodup_In.
        assert (Hk : In k (map fst g')) by (change k with (fst (k, cs)); apply in_map; auto).
        apply H2 in Hk. destruct Hk as [[]|Hk]; auto.
    + intros [k0 [E Hk]]. inv E. unfold gkeys in Hk. apply nodup_In in Hk.
      assert (Hin : In k (map fst g')) by (apply H2; auto).
      destruct (assoc2 k g') as [cs|] eqn:A.
      * pose proof (H3 k) as G. unfold grp at 1 in G. rewrite A in G. unfold grp in G; cbn in G.
        unfold group. rewrite <- G. apply assoc2_in; auto.
      * apply assoc2_none in A. contradiction.
Qed.

End Proofs.
