(* Proofs that the assembly fold meets the declarative specification (C10), does not depend on
   bank order or HashMap iteration order (C11). *)
From AG Require Import Base.Prelude Base.Res Event.Event Event.EventSpec Event.Event_proofs.
From Coq Require Import Permutation Setoid Morphisms.

Section Proofs.
Variable F : Type.
Variable fcal : Z -> F -> F.
Notation env := (env F).

(* ---------------- the bank loop splits into three independent loops ---------------- *)
Fixpoint wloop (e : env) (m : ovf) (r : list (N * N) * list (N * list F)) (banks : list bank)
  : res (list (N * N) * list (N * list F)) :=
  match banks with
  | [] => Ok r
  | BWire nb nc d :: t => do r' <- step_wire fcal e m (fst r) (snd r) nb nc d; wloop e m r' t
  | _ :: t => wloop e m r t
  end.
Fixpoint ploop (g : list (N * N * list chunkv)) (banks : list bank) : res (list (N * N * list chunkv)) :=
  match banks with
  | [] => Ok g
  | BPad nb d :: t => do g' <- step_pad g nb d; ploop g' t
  | _ :: t => ploop g t
  end.
Fixpoint tloop (ts : option N) (banks : list bank) : res (option N) :=
  match banks with
  | [] => Ok ts
  | BTrg d :: t => do ts' <- step_trg ts d; tloop ts' t
  | _ :: t => tloop ts t
  end.

Lemma loop_factor e m banks : forall s s',
  loop fcal e m s banks = Ok s' <->
  ~ In BUnknown banks /\
  wloop e m (s_names s, s_wires s) banks = Ok (s_names s', s_wires s') /\
  ploop (s_groups s) banks = Ok (s_groups s') /\
  tloop (s_ts s) banks = Ok (s_ts s').
Proof.
  induction banks as [|b t IH]; intros s s'.
  - cbn. destruct s, s'; cbn. split.
    + intros H; inv H; auto.
    + intros (_ & H1 & H2 & H3); inv H1; inv H2; inv H3; auto.
  - assert (NI : forall b0, b0 <> BUnknown -> (~ In BUnknown (b0 :: t) <-> ~ In BUnknown t)).
    { intros b0 Hb; cbn; split; [tauto | intros H [C|C]; [congruence | auto]]. }
    destruct b as [nb nc d|nb d|d| |]; cbn [loop step wloop ploop tloop fst snd].
    + destruct (step_wire fcal e m (s_names s) (s_wires s) nb nc d) as [[a b]| |] eqn:E; cbn [bind].
      * etransitivity; [apply IH|]. cbn [s_names s_wires s_groups s_ts fst snd]. rewrite NI by discriminate. tauto.
      * split; [discriminate | intros (_ & H & _); discriminate].
      * split; [discriminate | intros (_ & H & _); discriminate].
    + destruct (step_pad (s_groups s) nb d) as [g| |] eqn:E; cbn [bind].
      * etransitivity; [apply IH|]. cbn [s_names s_wires s_groups s_ts]. rewrite NI by discriminate. tauto.
      * split; [discriminate | intros (_ & _ & H & _); discriminate].
      * split; [discriminate | intros (_ & _ & H & _); discriminate].
    + destruct (step_trg (s_ts s) d) as [g| |] eqn:E; cbn [bind].
      * etransitivity; [apply IH|]. cbn [s_names s_wires s_groups s_ts]. rewrite NI by discriminate. tauto.
      * split; [discriminate | intros (_ & _ & _ & H); discriminate].
      * split; [discriminate | intros (_ & _ & _ & H); discriminate].
    + etransitivity; [apply IH|]. rewrite NI by discriminate. tauto.
    + split; [discriminate | intros (H & _); exfalso; apply H; left; auto].
Qed.

(* ---------------- TRG ---------------- *)
Lemma tloop_spec banks : forall ts ts',
  tloop ts banks = Ok ts' <->
  match ts with
  | Some t0 => trgs banks = [] /\ ts' = Some t0
  | None => (trgs banks = [] /\ ts' = None) \/ (exists t, trgs banks = [DOk t] /\ ts' = Some t)
  end.
Proof.
  induction banks as [|b t IH]; intros ts ts'.
  - cbn. destruct ts; split.
    + intros H; inv H; auto.
    + intros [_ ->]; auto.
    + intros H; inv H; auto.
    + intros [[_ ->]|[x [C _]]]; [auto | discriminate].
  - destruct b as [nb nc d|nb d|d| |]; cbn [tloop]; try (rewrite IH; reflexivity).
    unfold trgs; cbn [flat_map app]; fold (trgs t).
    destruct d as [|t1]; cbn [step_trg bind].
    + split; [discriminate|]. destruct ts.
      * intros [C _]; discriminate.
      * intros [[C _]|[x [C _]]]; discriminate.
    + destruct ts as [t0|]; cbn [bind].
      * split; [discriminate | intros [C _]; discriminate].
      * rewrite IH. split.
        -- intros [E ->]. right. exists t1. rewrite E. auto.
        -- intros [[C _]|[x [C ->]]]; [discriminate|]. inv C. auto.
Qed.

(* ---------------- PWB banks: grouping ---------------- *)
Definition addc (g : list (N * N * list chunkv)) (c : chunkv) := add_chunk (ckey c) c g.

Lemma ploop_spec banks : forall g g',
  ploop g banks = Ok g' <->
  (forall nb d, In (BPad nb d) banks -> exists c, d = DOk c /\ c_board c = nb) /\
  g' = fold_left addc (chunks banks) g.
Proof.
  induction banks as [|b t IH]; intros g g'.
  - cbn. split; [intros H; inv H; split; [intros ? ? []|auto] | intros [_ ->]; auto].
  - assert (NP : forall b0, (forall nb d, b0 <> BPad nb d) ->
       ((forall nb d, In (BPad nb d) (b0 :: t) -> exists c, d = DOk c /\ c_board c = nb) <->
        (forall nb d, In (BPad nb d) t -> exists c, d = DOk c /\ c_board c = nb))).
    { intros b0 Hb; split; intros H nb d Hi; [apply H; right; auto | destruct Hi as [C|C]; [exfalso; eapply Hb; eauto | auto]]. }
    destruct b as [nb nc d|nb d|d| |]; cbn [ploop];
      try (rewrite IH; unfold chunks; cbn [flat_map app]; rewrite NP by (intros; discriminate); reflexivity).
    unfold chunks; cbn [flat_map]; fold (chunks t).
    destruct d as [|c]; cbn [step_pad bind].
    + split; [discriminate|]. intros [H _]. destruct (H nb DErr) as [c [C _]]; [left; auto | discriminate].
    + destruct (c_board c =? nb) eqn:E; cbn [negb bind].
      * apply N.eqb_eq in E. rewrite IH. cbn [app fold_left]. unfold addc at 2. split.
        -- intros [H ->]. split; auto. intros nb0 d0 [C|C]; [inv C; eauto | auto].
        -- intros [H ->]. split; auto. intros nb0 d0 C. apply H. right; auto.
      * apply N.eqb_neq in E. split; [discriminate|]. intros [H _].
        destruct (H nb (DOk c)) as [c0 [C1 C2]]; [left; auto|]. inv C1. congruence.
Qed.

Definition grp (k : N * N) (g : list (N * N * list chunkv)) : list chunkv :=
  match assoc2 k g with Some cs => cs | None => [] end.

Lemma add_chunk_assoc k k0 c g :
  assoc2 k (add_chunk k0 c g) = if pair_eqb k k0 then Some (grp k0 g ++ [c]) else assoc2 k g.
Proof.
  induction g as [|[k' cs] t IH]; cbn [add_chunk assoc2].
  - unfold grp; cbn. destruct (pair_eqb k k0); auto.
  - destruct (pair_eqb k0 k') eqn:E0; cbn [assoc2].
    + apply pair_eqb_eq in E0; subst k'. unfold grp; cbn [assoc2]. rewrite pair_eqb_refl.
      destruct (pair_eqb k k0); auto.
    + rewrite IH. unfold grp; cbn [assoc2]. rewrite E0.
      destruct (pair_eqb k k') eqn:E1; auto.
      destruct (pair_eqb k k0) eqn:E2; auto.
      apply pair_eqb_eq in E1, E2; subst. rewrite pair_eqb_refl in E0; discriminate.
Qed.
Lemma add_chunk_keys k k0 c g : In k (map fst (add_chunk k0 c g)) <-> k = k0 \/ In k (map fst g).
Proof.
  induction g as [|[k' cs] t IH]; cbn [add_chunk map fst In].
  - split; [intros [H|[]]; auto | intros [H|[]]; auto].
  - destruct (pair_eqb k0 k') eqn:E0; cbn [map fst In].
    + apply pair_eqb_eq in E0; subst. intuition auto.
    + rewrite IH. intuition auto.
Qed.
Lemma add_chunk_nodup k0 c g : NoDup (map fst g) -> NoDup (map fst (add_chunk k0 c g)).
Proof.
  induction g as [|[k' cs] t IH]; cbn [add_chunk map fst]; intros ND.
  - constructor; auto; constructor.
  - inv ND. destruct (pair_eqb k0 k') eqn:E0; cbn [map fst].
    + constructor; auto.
    + constructor; auto. rewrite add_chunk_keys. intros [C|C]; auto. subst. rewrite pair_eqb_refl in E0; discriminate.
Qed.

Lemma fold_addc cs : forall g, NoDup (map fst g) ->
  let g' := fold_left addc cs g in
  NoDup (map fst g') /\
  (forall k, In k (map fst g') <-> In k (map fst g) \/ In k (map ckey cs)) /\
  (forall k, grp k g' = grp k g ++ filter (fun c => pair_eqb (ckey c) k) cs).
Proof.
  induction cs as [|c t IH]; intros g ND; cbn [fold_left].
  - cbn. split; auto. split; [tauto|]. intros; rewrite app_nil_r; auto.
  - destruct (IH (addc g c) (add_chunk_nodup _ _ _ ND)) as (H1 & H2 & H3). cbv zeta.
    split; auto. split.
    + intros k. rewrite H2. unfold addc. rewrite add_chunk_keys. cbn [map In]. split; intros; intuition auto.
    + intros k. rewrite H3. unfold addc, grp at 1. rewrite add_chunk_assoc. cbn [filter].
      rewrite (pair_eqb_sym (ckey c) k).
      destruct (pair_eqb k (ckey c)) eqn:E.
      * apply pair_eqb_eq in E; subst. rewrite <- app_assoc. reflexivity.
      * reflexivity.
Qed.

Lemma NoDup_fst {A B} (l : list (A * B)) : NoDup (map fst l) -> NoDup l.
Proof.
  induction l as [|[a b] t IH]; cbn; intros H; [constructor|]. inv H. constructor; auto.
  intros C. apply H2. change a with (fst (a, b)). apply in_map; auto.
Qed.

(* the groups the loop leaves in the map are exactly the chunks of each key present *)
Lemma groups_perm banks :
  Permutation (fold_left addc (chunks banks) [])
              (map (fun k => (k, group k banks)) (gkeys banks)).
Proof.
  destruct (fold_addc (chunks banks) [] (NoDup_nil _)) as (H1 & H2 & H3). cbv zeta in *.
  set (g' := fold_left addc (chunks banks) []) in *.
  apply NoDup_Permutation.
  - apply NoDup_fst; auto.
  - apply NoDup_fst. rewrite map_map. cbn [fst]. rewrite map_id. apply NoDup_nodup.
  - intros [k cs]. rewrite in_map_iff. split.
    + intros Hin. exists k. split.
      * f_equal. pose proof (H3 k) as G. unfold grp at 1 in G.
        rewrite (assoc2_nodup k g' cs H1 Hin) in G. rewrite G. unfold grp; cbn. reflexivity.
      * unfold gkeys. apply nodup_In.
        assert (Hk : In k (map fst g')) by (change k with (fst (k, cs)); apply in_map; auto).
        apply H2 in Hk. destruct Hk as [[]|Hk]; auto.
    + intros [k0 [E Hk]]. inv E. unfold gkeys in Hk. apply nodup_In in Hk.
      assert (Hin : In k (map fst g')) by (apply H2; auto).
      destruct (assoc2 k g') as [cs|] eqn:A.
      * pose proof (H3 k) as G. unfold grp at 1 in G. rewrite A in G. unfold grp in G; cbn in G.
        unfold group. rewrite <- G. apply assoc2_in; auto.
      * apply assoc2_none in A. contradiction.
Qed.


(* ---------------- the pad loop ---------------- *)
Definition chan_claim (e : env) (p : pwbv) (x : pchan * list Z) : list (N * N) :=
  match fst x with
  | Pad pc => match pad_pos e (p_board p) (p_chip p) pc with DOk pos => [pos] | DErr => [] end
  | _ => []
  end.
Definition chan_entry (e : env) (p : pwbv) (x : pchan * list Z) : list (N * N * list F) :=
  match fst x with
  | Pad pc =>
    match pad_pos e (p_board p) (p_chip p) pc with
    | DOk (c, r) =>
      match pad_cal e c r with
      | DOk (bl, g, dl) => match calib fcal bl g dl (snd x) with [] => [] | s => [((c, r), s)] end
      | DErr => []
      end
    | DErr => []
    end
  | _ => []
  end.
Definition chan_good (e : env) (p : pwbv) (x : pchan * list Z) : Prop :=
  match fst x with
  | Pad pc => exists c r bl g dl, pad_pos e (p_board p) (p_chip p) pc = DOk (c, r) /\ pad_cal e c r = DOk (bl, g, dl)
  | _ => True
  end.

Lemma claims_of_eq e cs :
  claims_of e cs = match reasm e cs with DErr => [] | DOk p => flat_map (chan_claim e p) (p_sent p) end.
Proof. reflexivity. Qed.

Lemma NoDup_app_r {A} (l1 l2 : list A) : NoDup (l1 ++ l2) -> NoDup l2.
Proof. induction l1; cbn; auto. intros H; inv H; auto. Qed.
Lemma NoDup_mid_in {A} (l1 l2 : list A) a : In a l2 -> ~ NoDup (l1 ++ a :: l2).
Proof. intros Hi ND. apply NoDup_remove_2 in ND. apply ND. apply in_or_app; auto. Qed.

Lemma waveform_at_own p ch wf : NoDup (map fst (p_sent p)) -> In (ch, wf) (p_sent p) -> waveform_at p ch = Some wf.
Proof.
  unfold waveform_at. induction (p_sent p) as [|[ch' wf'] t IH]; cbn [In map fst find]; [tauto|].
  intros ND [H|H].
  - inv H. rewrite pchan_eqb_refl. reflexivity.
  - inv ND. destruct (pchan_eqb ch' ch) eqn:E.
    + exfalso. apply H2. assert (ch' = ch).
      { destruct ch', ch; cbn in E; try discriminate; apply N.eqb_eq in E; subst; auto. }
      subst. change ch with (fst (ch, wf)). apply in_map; auto.
    + apply IH; auto.
Qed.

Lemma chan_loop_spec e m p cs0 : env_typed e -> reasm e cs0 = DOk p ->
  forall l, incl l (p_sent p) -> forall pads seen pads' seen', NoDup seen ->
  (chan_loop fcal e m p (pads, seen) l = Ok (pads', seen') <->
   Forall (chan_good e p) l /\
   seen' = rev (flat_map (chan_claim e p) l) ++ seen /\ NoDup seen' /\
   pads' = rev (flat_map (chan_entry e p) l) ++ pads).
Proof.
  intros T R. induction l as [|[ch wf] t IH]; intros I pads seen pads' seen' ND.
  - cbn. split.
    + intros H; inv H. auto.
    + intros (_ & -> & _ & ->). reflexivity.
  - assert (It : incl t (p_sent p)) by (intros y Hy; apply I; right; auto).
    assert (Hx : In (ch, wf) (p_sent p)) by (apply I; left; auto).
    cbn [chan_loop flat_map]. unfold step_chan, chan_claim at 1 2, chan_entry at 1. cbn [fst snd].
    destruct ch as [pc|fc|rc].
    2,3: cbn [bind app]; rewrite (IH It pads seen pads' seen' ND);
         split; [intros (A & B & C & D); split; [constructor; [exact Logic.I|auto] | auto]
                | intros (A & B & C & D); inv A; auto].
    rewrite (waveform_at_own p (Pad pc) wf (et_sent _ e T _ _ R) Hx). cbn [unwrap bind].
    destruct (pad_pos e (p_board p) (p_chip p) pc) as [|[c r]] eqn:Ep.
    { split; [discriminate|]. intros (A & _). inv A. unfold chan_good in H1; cbn [fst] in H1.
      destruct H1 as (c & r & bl & g & dl & C & _). congruence. }
    destruct (et_pad _ e T _ _ _ _ _ Ep) as [Hc Hr].
    rewrite (proj2 (N.ltb_lt c 32) Hc), (proj2 (N.ltb_lt r 576) Hr). cbn [andb negb].
    destruct (mem2 (c, r) seen) eqn:Em.
    { split; [discriminate|]. intros (_ & B & C & _). exfalso. subst seen'.
      cbn [app rev] in C. rewrite <- app_assoc in C. cbn [app] in C.
      apply mem2_true in Em. eapply NoDup_mid_in; eauto. }
    apply mem2_false in Em.
    destruct (pad_cal e c r) as [|[[bl g] dl]] eqn:Ec.
    { split; [discriminate|]. intros (A & _). inv A. unfold chan_good in H1; cbn [fst] in H1.
      destruct H1 as (c' & r' & bl & g & dl & C1 & C2). rewrite Ep in C1; inv C1. congruence. }
    rewrite signal_ok; [| eapply et_pcal; eauto | eapply et_reasm; eauto]. cbn [bind fst snd].
    assert (ND1 : NoDup ((c, r) :: seen)) by (constructor; auto).
    set (en := match calib fcal bl g dl wf with [] => [] | f :: l => [(c, r, f :: l)] end).
    assert (Een : match calib fcal bl g dl wf with [] => pads | _ :: _ => (c, r, calib fcal bl g dl wf) :: pads end = en ++ pads).
    { unfold en. destruct (calib fcal bl g dl wf); reflexivity. }
    rewrite Een. rewrite (IH It (en ++ pads) ((c, r) :: seen) pads' seen' ND1).
    assert (G : chan_good e p (Pad pc, wf)).
    { unfold chan_good; cbn [fst]. exists c, r, bl, g, dl; auto. }
    cbn [app rev]. rewrite <- !app_assoc. cbn [app].
    assert (Er : rev (en ++ flat_map (chan_entry e p) t) ++ pads = rev (flat_map (chan_entry e p) t) ++ en ++ pads).
    { rewrite rev_app_distr, <- app_assoc. f_equal. f_equal. unfold en. destruct (calib fcal bl g dl wf); reflexivity. }
    rewrite Er.
    split.
    + intros (A & B & C & D). split; [constructor; auto|]. auto.
    + intros (A & B & C & D). inv A. auto.
Qed.

Definition group_good (e : env) (cs : list chunkv) : Prop :=
  exists p, reasm e cs = DOk p /\ Forall (chan_good e p) (p_sent p).
Definition entries_of (e : env) (cs : list chunkv) : list (N * N * list F) :=
  match reasm e cs with DErr => [] | DOk p => flat_map (chan_entry e p) (p_sent p) end.

Lemma group_loop_spec e m : env_typed e ->
  forall gl pads seen pads' seen', NoDup seen ->
  (group_loop fcal e m (pads, seen) gl = Ok (pads', seen') <->
   Forall (group_good e) gl /\
   seen' = rev (flat_map (claims_of e) gl) ++ seen /\ NoDup seen' /\
   pads' = rev (flat_map (entries_of e) gl) ++ pads).
Proof.
  intros T. induction gl as [|cs t IH]; intros pads seen pads' seen' ND.
  - cbn. split.
    + intros H; inv H. auto.
    + intros (_ & -> & _ & ->). reflexivity.
  - cbn [group_loop flat_map]. unfold step_group, entries_of at 1. rewrite claims_of_eq.
    destruct (reasm e cs) as [|p] eqn:R.
    { cbn [bind]. split; [discriminate|]. intros (A & _). inv A. destruct H1 as (p & C & _). congruence. }
    pose proof (chan_loop_spec e m p cs T R (p_sent p) (incl_refl _)) as CS.
    rewrite !rev_app_distr, <- !app_assoc.
    split.
    + destruct (chan_loop fcal e m p (pads, seen) (p_sent p)) as [[pads1 seen1]| |] eqn:E; cbn [bind]; try discriminate.
      apply (CS pads seen pads1 seen1 ND) in E. destruct E as (A1 & B1 & C1 & D1).
      intros H. apply (IH pads1 seen1 pads' seen' C1) in H. destruct H as (A2 & B2 & C2 & D2).
      subst. split; [constructor; auto; exists p; auto|]. auto.
    + intros (A & B & C & D). inv A. destruct H1 as (p' & R' & G). rewrite R in R'; inv R'.
      assert (C1 : NoDup (rev (flat_map (chan_claim e p') (p_sent p')) ++ seen)).
      { eapply NoDup_app_r; eauto. }
      assert (E : chan_loop fcal e m p' (pads, seen) (p_sent p') =
                  Ok (rev (flat_map (chan_entry e p') (p_sent p')) ++ pads, rev (flat_map (chan_claim e p') (p_sent p')) ++ seen)).
      { apply (CS pads seen _ _ ND). auto. }
      rewrite E. cbn [bind]. apply IH; auto.
Qed.


(* ---------------- the wire banks ---------------- *)
Definition wire_good (e : env) (b : bank) : Prop :=
  match b with
  | BWire nb nc d =>
    exists p, d = DOk p /\ a_chan p = A32 nc /\ (forall b0, a_board p = Some b0 -> b0 = nb) /\
      (a_wf p <> [] -> exists w bl g dl, wire_pos e nb nc = DOk w /\ wire_cal e w = DOk (bl, g, dl))
  | _ => True
  end.
Definition wpos (e : env) (b : bank) : list N :=
  match b with
  | BWire nb nc (DOk p) =>
    match a_wf p with [] => [] | _ :: _ => match wire_pos e nb nc with DOk w => [w] | DErr => [] end end
  | _ => []
  end.
Definition went (e : env) (b : bank) : list (N * list F) :=
  match b with
  | BWire nb nc (DOk p) =>
    match a_wf p with
    | [] => []
    | _ :: _ =>
      match wire_pos e nb nc with
      | DOk w =>
        match wire_cal e w with
        | DOk (bl, g, dl) => match calib fcal bl g dl (a_wf p) with [] => [] | s => [(w, s)] end
        | DErr => []
        end
      | DErr => []
      end
    end
  | _ => []
  end.

Lemma went_cases e b : went e b = [] \/ exists w s, went e b = [(w, s)] /\ wpos e b = [w] /\ s <> [].
Proof.
  destruct b as [nb nc [|p]|nb d|d| |]; cbn [went wpos]; auto.
  destruct (a_wf p) as [|v t] eqn:Ewf; auto.
  destruct (wire_pos e nb nc) as [|w]; auto.
  destruct (wire_cal e w) as [|[[bl g] dl]]; auto.
  destruct (calib fcal bl g dl (v :: t)) as [|f l] eqn:Ec; auto.
  right. exists w, (f :: l). repeat split; auto. discriminate.
Qed.

Lemma step_wire_spec e m nm ws nb nc d nm' ws' : env_typed e -> bank_typed (BWire nb nc d) ->
  (step_wire fcal e m nm ws nb nc d = Ok (nm', ws') <->
   wire_good e (BWire nb nc d) /\ ~ In (nb, nc) nm /\ nm' = (nb, nc) :: nm /\
   (forall w, In w (wpos e (BWire nb nc d)) -> assocN w ws = None) /\
   ws' = went e (BWire nb nc d) ++ ws).
Proof.
  intros T B. unfold step_wire, wire_good, wpos, went. destruct d as [|p].
  { split; [cbv beta iota; try discriminate|]. intros ((p & C & _) & _); discriminate. }
  cbn in B.
  destruct (a_chan p) as [c|c] eqn:Ech.
  2: { split; [cbv beta iota; try discriminate|]. intros ((p0 & C & C2 & _) & _). inv C. congruence. }
  destruct (pair_eqb (nb, nc) (match a_board p with Some b => b | None => nb end, c)) eqn:Eq; cbn [negb].
  2: { split; [cbv beta iota; try discriminate|]. intros ((p0 & C & C2 & C3 & _) & _). inv C. rewrite Ech in C2; inv C2.
       exfalso. apply pair_eqb_neq in Eq. apply Eq. f_equal.
       destruct (a_board p0) eqn:Eb; auto. symmetry. apply C3; auto. }
  apply pair_eqb_eq in Eq.
  assert (Efb : match a_board p with Some b => b | None => nb end = nb) by congruence.
  assert (Ec : c = nc) by congruence. subst c. clear Eq. rewrite Efb.
  assert (Hb : forall b0, a_board p = Some b0 -> b0 = nb).
  { intros b0 Hb0. rewrite Hb0 in Efb. auto. }
  destruct (mem2 (nb, nc) nm) eqn:Em.
  { split; [cbv beta iota; try discriminate|]. intros (_ & C & _). apply mem2_true in Em. contradiction. }
  apply mem2_false in Em.
  destruct (a_wf p) as [|v t] eqn:Ewf.
  { split.
    - intros H; inv H. split; [exists p; repeat split; auto; intros C; congruence|].
      repeat split; auto. intros w [].
    - intros (_ & _ & -> & _ & ->). reflexivity. }
  destruct (wire_pos e nb nc) as [|w] eqn:Ew.
  { split; [cbv beta iota; try discriminate|]. intros ((p0 & C & _ & _ & C4) & _). inv C.
    destruct C4 as (w & bl & g & dl & C5 & _); [rewrite Ewf; discriminate | congruence]. }
  rewrite (proj2 (N.ltb_lt w 256) (et_wire _ e T _ _ _ Ew)). cbn [negb].
  destruct (assocN w ws) eqn:Ea.
  { split; [cbv beta iota; try discriminate|]. intros (_ & _ & _ & C & _). rewrite (C w) in Ea; [discriminate | left; auto]. }
  destruct (wire_cal e w) as [|[[bl g] dl]] eqn:Ec.
  { split; [cbv beta iota; try discriminate|]. intros ((p0 & C & _ & _ & C4) & _). inv C.
    destruct C4 as (w' & bl & g & dl & C5 & C6); [rewrite Ewf; discriminate|].
    inv C5. congruence. }
  rewrite signal_ok; [| eapply et_wcal; eauto | auto]. cbn [bind].
  split.
  - intros H; inv H. split; [exists p; repeat split; auto; intros _; exists w, bl, g, dl; auto|].
    split; auto. split; auto. split; [intros w' [<-|[]]; auto|].
    destruct (calib fcal bl g dl (v :: t)); reflexivity.
  - intros (_ & _ & -> & _ & ->). f_equal. f_equal. destruct (calib fcal bl g dl (v :: t)); reflexivity.
Qed.

Lemma wpos_in e nb nc d w : In w (wpos e (BWire nb nc d)) -> wire_pos e nb nc = DOk w.
Proof.
  cbn [wpos]. destruct d as [|p]; [intros []|]. destruct (a_wf p); [intros []|].
  destruct (wire_pos e nb nc); [intros []|]. intros [<-|[]]; auto.
Qed.

Lemma wloop_sound e m : env_typed e -> forall banks nm ws nm' ws',
  banks_typed banks -> NoDup nm -> NoDup (map fst ws) ->
  wloop e m (nm, ws) banks = Ok (nm', ws') ->
  Forall (wire_good e) banks /\ nm' = rev (wire_names banks) ++ nm /\ NoDup nm' /\
  ws' = rev (flat_map (went e) banks) ++ ws /\ NoDup (map fst ws').
Proof.
  intros T. induction banks as [|b t IH]; intros nm ws nm' ws' B ND1 ND2 H.
  - cbn in H. inv H. cbn. auto.
  - inv B. rename H2 into Bb, H3 into Bt.
    assert (OTHER : (forall nb nc d, b <> BWire nb nc d) -> wloop e m (nm, ws) t = Ok (nm', ws') ->
              wire_names (b :: t) = wire_names t -> went e b = [] -> wire_good e b ->
              Forall (wire_good e) (b :: t) /\ nm' = rev (wire_names (b :: t)) ++ nm /\ NoDup nm' /\
              ws' = rev (flat_map (went e) (b :: t)) ++ ws /\ NoDup (map fst ws')).
    { intros _ H0 E1 E2 G. destruct (IH nm ws nm' ws' Bt ND1 ND2 H0) as (A1 & A2 & A3 & A4 & A5).
      rewrite E1. cbn [flat_map]. rewrite E2. cbn [app]. split; [constructor; auto|]. auto. }
    destruct b as [nb nc d|nb d|d| |];
      try (apply OTHER; [intros; discriminate | exact H | reflexivity | reflexivity | exact Logic.I]).
    clear OTHER. cbn [wloop fst snd] in H.
    destruct (step_wire fcal e m nm ws nb nc d) as [[nm1 ws1]| |] eqn:E; cbn [bind] in H; try discriminate.
    apply (step_wire_spec e m nm ws nb nc d nm1 ws1 T Bb) in E. destruct E as (G & NI & -> & SL & ->).
    assert (NDw : NoDup (map fst (went e (BWire nb nc d) ++ ws))).
    { destruct (went_cases e (BWire nb nc d)) as [E0|(w & s & E0 & E1 & _)]; rewrite E0; cbn [app map fst]; auto.
      constructor; auto. apply assocN_none. apply SL. rewrite E1. left; auto. }
    destruct (IH _ _ nm' ws' Bt (NoDup_cons _ NI ND1) NDw H) as (A1 & A2 & A3 & A4 & A5).
    split; [constructor; auto|].
    unfold wire_names; cbn [flat_map app]; fold (wire_names t). cbn [rev]. rewrite <- !app_assoc. cbn [app].
    split; auto. split; auto. split; auto.
    rewrite A4. rewrite rev_app_distr, <- app_assoc. f_equal. f_equal.
    destruct (went_cases e (BWire nb nc d)) as [E0|(w & s & E0 & _)]; rewrite E0; reflexivity.
Qed.

Lemma wloop_complete e m : env_typed e -> wire_pos_injective e -> forall banks nm ws,
  banks_typed banks -> Forall (wire_good e) banks -> NoDup (rev (wire_names banks) ++ nm) ->
  (forall nb nc w, In (nb, nc) (wire_names banks) -> wire_pos e nb nc = DOk w -> assocN w ws = None) ->
  exists r, wloop e m (nm, ws) banks = Ok r.
Proof.
  intros T INJ. induction banks as [|b t IH]; intros nm ws B G ND SL.
  - cbn. eauto.
  - inv B. inv G. rename H1 into Bb, H2 into Bt, H3 into Gb, H4 into Gt.
    destruct b as [nb nc d|nb d|d| |]; cbn [wloop]; try (apply IH; auto; fail).
    unfold wire_names in ND, SL; cbn [flat_map app] in ND, SL; fold (wire_names t) in ND, SL.
    cbn [rev] in ND. rewrite <- app_assoc in ND. cbn [app] in ND.
    assert (NI : ~ In (nb, nc) nm).
    { apply NoDup_app_r in ND. inv ND. auto. }
    assert (NT : ~ In (nb, nc) (wire_names t)).
    { apply NoDup_remove_2 in ND. intros C. apply ND. apply in_or_app. left. apply in_rev in C. auto. }
    assert (E : step_wire fcal e m nm ws nb nc d = Ok ((nb, nc) :: nm, went e (BWire nb nc d) ++ ws)).
    { apply step_wire_spec; auto. split; auto. split; auto. split; auto. split; auto.
      intros w Hw. apply wpos_in in Hw. eapply SL; eauto. left; auto. }
    cbn [fst snd]. rewrite E. cbn [bind]. apply IH; auto.
    intros nb' nc' w' Hin Hp.
    assert (A0 : assocN w' ws = None) by (eapply SL; eauto; right; auto).
    destruct (went_cases e (BWire nb nc d)) as [E0|(w & s & E0 & E1 & _)]; rewrite E0; cbn [app]; auto.
    cbn [assocN]. destruct (w' =? w) eqn:Ew; auto. apply N.eqb_eq in Ew; subst w'.
    exfalso. assert (Hw : wire_pos e nb nc = DOk w) by (apply (wpos_in e nb nc d); rewrite E1; left; auto).
    pose proof (INJ _ _ _ _ _ Hp Hw) as C. inv C. contradiction.
Qed.


(* ---------------- small list facts ---------------- *)
Lemma NoDup_app_iff {A} (a b : list A) :
  NoDup (a ++ b) <-> NoDup a /\ NoDup b /\ (forall x, In x a -> ~ In x b).
Proof.
  induction a as [|x t IH]; cbn [app].
  - split; [intros H; split; [constructor | split; [auto | intros x []]] | tauto].
  - split.
    + intros H. inv H. apply IH in H3. destruct H3 as (A1 & A2 & A3).
      split; [constructor; auto; intros C; apply H2; apply in_or_app; auto|].
      split; auto. intros y [<-|Hy]; [intros C; apply H2; apply in_or_app; auto | auto].
    + intros (A1 & A2 & A3). inv A1. constructor.
      * intros C. apply in_app_or in C. destruct C as [C|C]; [auto | eapply A3; eauto; left; auto].
      * apply IH. repeat split; auto. intros y Hy. apply A3. right; auto.
Qed.
Lemma NoDup_unrev {A} (l : list A) : NoDup (rev l) -> NoDup l.
Proof. intros H. apply NoDup_rev in H. rewrite rev_involutive in H. auto. Qed.
Lemma flat_map_map_comp {A B C} (f : B -> list C) (g : A -> B) l :
  flat_map f (map g l) = flat_map (fun x => f (g x)) l.
Proof. induction l; cbn; auto. rewrite IHl; auto. Qed.
Lemma Permutation_filter {A} (f : A -> bool) l l' : Permutation l l' -> Permutation (filter f l) (filter f l').
Proof.
  induction 1; cbn; auto.
  - destruct (f x); auto.
  - destruct (f x), (f y); auto. constructor.
  - eapply Permutation_trans; eauto.
Qed.

(* keys of the entries are among the claims, each at most once *)
Lemma entries_nodup {X K V} (f : X -> list K) (g : X -> list (K * V)) :
  (forall x, NoDup (f x) -> NoDup (map fst (g x)) /\ incl (map fst (g x)) (f x)) ->
  forall l, NoDup (flat_map f l) ->
  NoDup (map fst (flat_map g l)) /\ incl (map fst (flat_map g l)) (flat_map f l).
Proof.
  intros L. induction l as [|x t IH]; cbn [flat_map map]; intros ND.
  - split; [constructor | intros y []].
  - apply NoDup_app_iff in ND. destruct ND as (A1 & A2 & A3).
    destruct (L x A1) as [B1 B2]. destruct (IH A2) as [C1 C2].
    rewrite map_app. split.
    + apply NoDup_app_iff. repeat split; auto. intros y Hy C. eapply A3; eauto.
    + intros y Hy. apply in_app_or in Hy. apply in_or_app. destruct Hy; [left; auto | right; auto].
Qed.

Lemma chan_entry_local e p x :
  NoDup (chan_claim e p x) -> NoDup (map fst (chan_entry e p x)) /\ incl (map fst (chan_entry e p x)) (chan_claim e p x).
Proof.
  intros _. assert (Z : forall l : list (N * N), NoDup (@map (N * N * list F) _ fst []) /\ incl (@map (N * N * list F) _ fst []) l).
  { intros l. split; [constructor | intros y []]. }
  unfold chan_entry, chan_claim. destruct (fst x) as [pc| |]; try apply Z.
  destruct (pad_pos e (p_board p) (p_chip p) pc) as [|[c r]]; try apply Z.
  destruct (pad_cal e c r) as [|[[bl g] dl]]; try apply Z.
  destruct (calib fcal bl g dl (snd x)); try apply Z.
  cbn [map fst]. split; [constructor; [intros [] | constructor] | apply incl_refl].
Qed.
Lemma entries_of_local e cs :
  NoDup (claims_of e cs) -> NoDup (map fst (entries_of e cs)) /\ incl (map fst (entries_of e cs)) (claims_of e cs).
Proof.
  rewrite claims_of_eq. unfold entries_of. destruct (reasm e cs) as [|p].
  - intros _. split; [constructor | intros y []].
  - apply entries_nodup. apply chan_entry_local.
Qed.

Lemma chan_entry_in e p x c r s : In ((c, r), s) (chan_entry e p x) ->
  exists pc bl g dl, fst x = Pad pc /\ pad_pos e (p_board p) (p_chip p) pc = DOk (c, r) /\
    pad_cal e c r = DOk (bl, g, dl) /\ s = calib fcal bl g dl (snd x) /\ s <> [].
Proof.
  unfold chan_entry. destruct (fst x) as [pc| |]; try (intros []).
  destruct (pad_pos e (p_board p) (p_chip p) pc) as [|[c0 r0]] eqn:Ep; try (intros []).
  destruct (pad_cal e c0 r0) as [|[[bl g] dl]] eqn:Ec; try (intros []).
  destruct (calib fcal bl g dl (snd x)) as [|f l] eqn:Es; [intros []|].
  intros [H|[]]. inv H. exists pc, bl, g, dl. repeat split; auto. discriminate.
Qed.
Lemma chan_entry_some e p pc wf c r bl g dl :
  pad_pos e (p_board p) (p_chip p) pc = DOk (c, r) -> pad_cal e c r = DOk (bl, g, dl) ->
  calib fcal bl g dl wf <> [] -> In ((c, r), calib fcal bl g dl wf) (chan_entry e p (Pad pc, wf)).
Proof.
  intros Ep Ec Hs. unfold chan_entry; cbn [fst snd]. rewrite Ep, Ec.
  destruct (calib fcal bl g dl wf); [congruence | left; auto].
Qed.
Lemma went_in e b w s : In (w, s) (went e b) ->
  exists nb nc p bl g dl, b = BWire nb nc (DOk p) /\ wire_pos e nb nc = DOk w /\
    wire_cal e w = DOk (bl, g, dl) /\ s = calib fcal bl g dl (a_wf p) /\ s <> [].
Proof.
  destruct b as [nb nc [|p]|nb d|d| |]; cbn [went]; try (intros []).
  destruct (a_wf p) as [|v t] eqn:Ewf; [intros []|].
  destruct (wire_pos e nb nc) as [|w0] eqn:Ew; [intros []|].
  destruct (wire_cal e w0) as [|[[bl g] dl]] eqn:Ec; [intros []|].
  destruct (calib fcal bl g dl (v :: t)) as [|f l] eqn:Es; [intros []|].
  intros [H|[]]. inv H. exists nb, nc, p, bl, g, dl. rewrite Ewf. repeat split; auto. discriminate.
Qed.
Lemma went_some e nb nc p w bl g dl :
  a_wf p <> [] -> wire_pos e nb nc = DOk w -> wire_cal e w = DOk (bl, g, dl) ->
  calib fcal bl g dl (a_wf p) <> [] -> In (w, calib fcal bl g dl (a_wf p)) (went e (BWire nb nc (DOk p))).
Proof.
  intros Hwf Ew Ec Hs. cbn [went]. destruct (a_wf p) as [|v t] eqn:Ewf; [congruence|].
  rewrite Ew, Ec. destruct (calib fcal bl g dl (v :: t)); [congruence | left; auto].
Qed.
Lemma calib_nil bl g dl : calib fcal bl g dl [] = [].
Proof. unfold calib. destruct (N.to_nat dl); reflexivity. Qed.

(* ---------------- the groups visited by the pad loop ---------------- *)
Definition GL (banks : list bank) : list (list chunkv) := map (fun k => group k banks) (gkeys banks).

Lemma gl_perm order banks : is_order order ->
  Permutation (order (map snd (fold_left addc (chunks banks) []))) (GL banks).
Proof.
  intros O. eapply Permutation_trans; [apply O|].
  pose proof (Permutation_map snd (groups_perm banks)) as P. rewrite map_map in P. cbn [snd] in P. exact P.
Qed.
Lemma pad_claims_GL (e : env) banks : pad_claims e banks = flat_map (claims_of e) (GL banks).
Proof. unfold pad_claims, GL. rewrite flat_map_map_comp. reflexivity. Qed.

(* ---------------- soundness: an accepted build meets the specification ---------------- *)
Theorem build_sound e m order banks ev :
  env_typed e -> banks_typed banks -> is_order order ->
  build fcal e m order banks = Ok ev -> event_spec fcal e banks ev.
Proof.
  intros T B O H. unfold build in H.
  destruct (loop fcal e m st0 banks) as [s| |] eqn:EL; cbn [bind] in H; try discriminate.
  destruct (group_loop fcal e m ([], []) (order (map snd (s_groups s)))) as [[pads seen]| |] eqn:EG;
    cbn [bind] in H; try discriminate.
  destruct (s_ts s) as [t|] eqn:ET; [|discriminate]. inv H.
  apply loop_factor in EL. cbn [st0 s_names s_wires s_groups s_ts] in EL. destruct EL as (NU & EW & EP & ETl).
  apply (wloop_sound e m T banks [] [] _ _ B (NoDup_nil _) (NoDup_nil _)) in EW.
  destruct EW as (WG & WN & WND & WS & WSD). rewrite app_nil_r in WN, WS.
  apply ploop_spec in EP. destruct EP as (PB & PG).
  apply tloop_spec in ETl. rewrite ET in ETl.
  destruct ETl as [[_ C]|(t' & TT & C)]; [discriminate|]. inv C.
  rewrite PG in EG.
  apply (group_loop_spec e m T _ [] [] pads seen (NoDup_nil _)) in EG.
  destruct EG as (GG & GS & GND & GP). rewrite app_nil_r in GS, GP.
  pose proof (gl_perm order banks O) as PERM.
  set (gl := order (map snd (fold_left addc (chunks banks) []))) in *.
  assert (CND : NoDup (flat_map (claims_of e) gl)) by (subst seen; apply NoDup_unrev; auto).
  assert (PKD : NoDup (map fst pads)).
  { subst pads. rewrite map_rev. apply NoDup_rev.
    apply (entries_nodup (claims_of e) (entries_of e) (entries_of_local e) gl CND). }
  assert (WKD : NoDup (map fst (s_wires s))) by auto.
  constructor.
  - exact NU.
  - intros nb nc d Hin. pose proof (proj1 (Forall_forall _ _) WG _ Hin) as G. cbn in G.
    destruct G as (p & -> & Hc & Hb & Hw). exists p. repeat split; auto.
    intros Hne. destruct (Hw Hne) as (w & bl & g & dl & Ew & Ec). exists w, bl, g, dl. repeat split; auto.
    intros Hs. unfold wire_at; cbn [ev_wires]. apply assocN_nodup; auto. rewrite WS. apply -> in_rev.
    apply in_flat_map. exists (BWire nb nc (DOk p)). split; auto. apply went_some; auto.
  - apply NoDup_unrev. rewrite <- WN. auto.
  - intros w sg Hat. unfold wire_at in Hat; cbn [ev_wires] in Hat. apply assocN_in in Hat.
    rewrite WS in Hat. apply in_rev in Hat. apply in_flat_map in Hat. destruct Hat as (b & Hb & Hin).
    apply went_in in Hin. destruct Hin as (nb & nc & p & bl & g & dl & -> & A1 & A2 & A3 & A4).
    exists nb, nc, p, bl, g, dl. auto.
  - exact PB.
  - intros k Hk.
    assert (Hin : In (group k banks) gl).
    { eapply Permutation_in; [apply Permutation_sym; exact PERM|]. unfold GL. apply in_map_iff. eauto. }
    pose proof (proj1 (Forall_forall _ _) GG _ Hin) as (p & R & CG). exists p. split; auto.
    intros pc wf Hx. pose proof (proj1 (Forall_forall _ _) CG _ Hx) as G. unfold chan_good in G; cbn [fst] in G.
    destruct G as (c & r & bl & g & dl & Ep & Ec). exists c, r, bl, g, dl. repeat split; auto.
    intros Hs. unfold pad_at; cbn [ev_pads]. apply assoc2_nodup; auto. rewrite GP. apply -> in_rev.
    apply in_flat_map. exists (group k banks). split; auto. unfold entries_of. rewrite R.
    apply in_flat_map. exists (Pad pc, wf). split; auto. apply chan_entry_some; auto.
  - rewrite pad_claims_GL. eapply Permutation_NoDup; [|exact CND]. apply Permutation_flat_map. exact PERM.
  - intros c r sg Hat. unfold pad_at in Hat; cbn [ev_pads] in Hat. apply assoc2_in in Hat.
    rewrite GP in Hat. apply in_rev in Hat. apply in_flat_map in Hat. destruct Hat as (cs & Hcs & Hin).
    assert (HG : In cs (GL banks)) by (eapply Permutation_in; eauto).
    unfold GL in HG. apply in_map_iff in HG. destruct HG as (k & <- & Hk).
    unfold entries_of in Hin. destruct (reasm e (group k banks)) as [|p] eqn:R; [destruct Hin|].
    apply in_flat_map in Hin. destruct Hin as ([ch wf] & Hx & Hin).
    apply chan_entry_in in Hin. cbn [fst snd] in Hin. destruct Hin as (pc & bl & g & dl & -> & A1 & A2 & A3 & A4).
    exists k, p, pc, wf, bl, g, dl. repeat split; auto.
  - exists t'. auto.
Qed.

(* ---------------- acceptance: when the conditions hold the build succeeds ---------------- *)
Lemma spec_accept e banks ev : event_spec fcal e banks ev -> accept e banks.
Proof.
  intros S. destruct S as [sp_names0 sp_wire0 sp_wire_nodup0 sp_wire_only0 sp_pad_bank0 sp_group0 sp_pad_nodup0 sp_pad_only0 sp_trg0]. constructor; auto.
  - intros nb nc d Hin. destruct (sp_wire0 nb nc d Hin) as (p & A1 & A2 & A3 & A4).
    exists p. repeat split; auto. intros Hne. destruct (A4 Hne) as (w & bl & g & dl & B1 & B2 & _). eauto 8.
  - intros k Hk. destruct (sp_group0 k Hk) as (p & R & A). exists p. split; auto.
    intros pc wf Hx. destruct (A pc wf Hx) as (c & r & bl & g & dl & B1 & B2 & _). eauto 8.
  - destruct sp_trg0 as (t & A & _). eauto.
Qed.

Theorem build_accept e m order banks :
  env_typed e -> banks_typed banks -> wire_pos_injective e -> is_order order ->
  accept e banks -> exists ev, build fcal e m order banks = Ok ev.
Proof.
  intros T B INJ O A. destruct A as [ac_names0 ac_wire0 ac_wire_nodup0 ac_pad_bank0 ac_group0 ac_pad_nodup0 ac_trg0].
  assert (WG : Forall (wire_good e) banks).
  { apply Forall_forall. intros b Hb. destruct b; cbn; auto. }
  destruct (wloop_complete e m T INJ banks [] [] B WG) as [[nm ws] EW].
  { rewrite app_nil_r. apply NoDup_rev; auto. }
  { intros; reflexivity. }
  destruct ac_trg0 as (t & TT).
  set (s := {| s_names := nm; s_wires := ws; s_groups := fold_left addc (chunks banks) []; s_ts := Some t |}).
  assert (EL : loop fcal e m st0 banks = Ok s).
  { apply loop_factor. cbn [st0 s s_names s_wires s_groups s_ts]. repeat split; auto.
    - apply ploop_spec. split; auto.
    - apply tloop_spec. right. eauto. }
  pose proof (gl_perm order banks O) as PERM.
  set (gl := order (map snd (fold_left addc (chunks banks) []))) in *.
  assert (EG : group_loop fcal e m ([], []) gl =
               Ok (rev (flat_map (entries_of e) gl) ++ [], rev (flat_map (claims_of e) gl) ++ [])).
  { apply (group_loop_spec e m T gl [] [] _ _ (NoDup_nil _)). split; [|split; [reflexivity|split; [|reflexivity]]].
    - apply Forall_forall. intros cs Hcs.
      assert (HG : In cs (GL banks)) by (eapply Permutation_in; eauto).
      unfold GL in HG. apply in_map_iff in HG. destruct HG as (k & <- & Hk).
      destruct (ac_group0 k Hk) as (p & R & C). exists p. split; auto.
      apply Forall_forall. intros [ch wf] Hx. unfold chan_good; cbn [fst]. destruct ch; auto. eapply C; eauto.
    - rewrite app_nil_r. apply NoDup_rev. rewrite pad_claims_GL in ac_pad_nodup0.
      eapply Permutation_NoDup; [|exact ac_pad_nodup0]. apply Permutation_flat_map. apply Permutation_sym. exact PERM. }
  unfold build. rewrite EL. cbn [bind s s_groups s_ts]. fold gl. rewrite EG. cbn [bind]. eauto.
Qed.

(* ---------------- the specification determines the event ---------------- *)
Lemma spec_wire_le e banks ev ev' : event_spec fcal e banks ev -> event_spec fcal e banks ev' ->
  forall w s, wire_at ev w = Some s -> wire_at ev' w = Some s.
Proof.
  intros S S' w s Hat.
  destruct (sp_wire_only _ _ _ _ _ S w s Hat) as (nb & nc & p & bl & g & dl & Hin & Ew & Ec & -> & Hne).
  destruct (sp_wire _ _ _ _ _ S' nb nc _ Hin) as (p' & Ep & _ & _ & A). inv Ep.
  assert (Hwf : a_wf p' <> []) by (intros C; rewrite C, calib_nil in Hne; congruence).
  destruct (A Hwf) as (w' & bl' & g' & dl' & Ew' & Ec' & A'). rewrite Ew in Ew'; inv Ew'.
  rewrite Ec in Ec'; inv Ec'. auto.
Qed.
Lemma spec_pad_le e banks ev ev' : event_spec fcal e banks ev -> event_spec fcal e banks ev' ->
  forall c r s, pad_at ev c r = Some s -> pad_at ev' c r = Some s.
Proof.
  intros S S' c r s Hat.
  destruct (sp_pad_only _ _ _ _ _ S c r s Hat) as (k & p & pc & wf & bl & g & dl & Hk & R & Hx & Ep & Ec & -> & Hne).
  destruct (sp_group _ _ _ _ _ S' k Hk) as (p' & R' & A). rewrite R in R'; inv R'.
  destruct (A pc wf Hx) as (c' & r' & bl' & g' & dl' & Ep' & Ec' & A'). rewrite Ep in Ep'; inv Ep'.
  rewrite Ec in Ec'; inv Ec'. auto.
Qed.
Lemma opt_le_eq {A} (x y : option A) : (forall s, x = Some s -> y = Some s) -> (forall s, y = Some s -> x = Some s) -> x = y.
Proof.
  destruct x as [a|], y as [b|]; intros H1 H2; auto; try (symmetry; apply H1; auto; fail); apply H2; auto.
Qed.

Theorem spec_deterministic e banks ev ev' :
  event_spec fcal e banks ev -> event_spec fcal e banks ev' -> ev_eq ev ev'.
Proof.
  intros S S'. split; [|split].
  - destruct (sp_trg _ _ _ _ _ S) as (t & A & <-). destruct (sp_trg _ _ _ _ _ S') as (t' & A' & <-).
    rewrite A in A'. inv A'. auto.
  - intros w. apply opt_le_eq; intros s; eapply spec_wire_le; eauto.
  - intros c r. apply opt_le_eq; intros s; eapply spec_pad_le; eauto.
Qed.

Lemma spec_ev_eq e banks ev ev' : ev_eq ev ev' -> event_spec fcal e banks ev -> event_spec fcal e banks ev'.
Proof.
  intros (E1 & E2 & E3) S. destruct S as [sp_names0 sp_wire0 sp_wire_nodup0 sp_wire_only0 sp_pad_bank0 sp_group0 sp_pad_nodup0 sp_pad_only0 sp_trg0]. constructor; auto.
  - intros nb nc d Hin. destruct (sp_wire0 nb nc d Hin) as (p & A1 & A2 & A3 & A4).
    exists p. repeat split; auto. intros Hne. destruct (A4 Hne) as (w & bl & g & dl & B1 & B2 & B3).
    exists w, bl, g, dl. repeat split; auto. rewrite <- E2. auto.
  - intros w s. rewrite <- E2. auto.
  - intros k Hk. destruct (sp_group0 k Hk) as (p & R & A). exists p. split; auto.
    intros pc wf Hx. destruct (A pc wf Hx) as (c & r & bl & g & dl & B1 & B2 & B3).
    exists c, r, bl, g, dl. repeat split; auto. rewrite <- E3. auto.
  - intros c r s. rewrite <- E3. auto.
  - destruct sp_trg0 as (t & A & B). exists t. split; auto. congruence.
Qed.

Theorem build_complete e m order banks ev :
  env_typed e -> banks_typed banks -> wire_pos_injective e -> is_order order ->
  event_spec fcal e banks ev -> exists ev', build fcal e m order banks = Ok ev' /\ ev_eq ev' ev.
Proof.
  intros T B INJ O S.
  destruct (build_accept e m order banks T B INJ O (spec_accept _ _ _ S)) as (ev' & H).
  exists ev'. split; auto. eapply spec_deterministic; eauto. eapply build_sound; eauto.
Qed.

(* ---------------- permutation of the banks ---------------- *)
Lemma chunks_perm banks banks' : Permutation banks banks' -> Permutation (chunks banks) (chunks banks').
Proof. apply Permutation_flat_map. Qed.
Lemma group_perm k banks banks' : Permutation banks banks' -> Permutation (group k banks) (group k banks').
Proof. intros P. unfold group. apply Permutation_filter. apply chunks_perm; auto. Qed.
Lemma gkeys_in_perm k banks banks' : Permutation banks banks' -> In k (gkeys banks) -> In k (gkeys banks').
Proof.
  intros P. unfold gkeys. rewrite !nodup_In. apply Permutation_in. apply Permutation_map. apply chunks_perm; auto.
Qed.
Lemma gkeys_perm banks banks' : Permutation banks banks' -> Permutation (gkeys banks) (gkeys banks').
Proof.
  intros P. apply NoDup_Permutation; try apply NoDup_nodup.
  intros k; split; apply gkeys_in_perm; auto. apply Permutation_sym; auto.
Qed.

Theorem spec_perm e banks banks' ev : reasm_perm e -> Permutation banks banks' ->
  event_spec fcal e banks ev -> event_spec fcal e banks' ev.
Proof.
  intros RP P S. pose proof (Permutation_sym P) as P'. destruct S as [sp_names0 sp_wire0 sp_wire_nodup0 sp_wire_only0 sp_pad_bank0 sp_group0 sp_pad_nodup0 sp_pad_only0 sp_trg0].
  assert (RG : forall k, reasm e (group k banks') = reasm e (group k banks)).
  { intros k. apply RP. apply group_perm; auto. }
  constructor.
  - intros C. apply sp_names0. eapply Permutation_in; eauto.
  - intros nb nc d Hin. apply sp_wire0. eapply Permutation_in; eauto.
  - eapply Permutation_NoDup; [|exact sp_wire_nodup0]. apply Permutation_flat_map; auto.
  - intros w s Hat. destruct (sp_wire_only0 w s Hat) as (nb & nc & p & bl & g & dl & Hin & A).
    exists nb, nc, p, bl, g, dl. split; auto. eapply Permutation_in; eauto.
  - intros nb d Hin. apply sp_pad_bank0. eapply Permutation_in; eauto.
  - intros k Hk. rewrite RG. apply sp_group0. eapply gkeys_in_perm; eauto.
  - unfold pad_claims in *. eapply Permutation_NoDup; [|exact sp_pad_nodup0].
    rewrite (flat_map_ext (fun k => claims_of e (group k banks')) (fun k => claims_of e (group k banks))).
    + apply Permutation_flat_map. apply gkeys_perm; auto.
    + intros k. unfold claims_of. rewrite RG. reflexivity.
  - intros c r s Hat. destruct (sp_pad_only0 c r s Hat) as (k & p & pc & wf & bl & g & dl & Hk & R & A).
    exists k, p, pc, wf, bl, g, dl. split; [eapply gkeys_in_perm; eauto|]. rewrite RG. auto.
  - destruct sp_trg0 as (t & A & B). exists t. split; auto.
    apply Permutation_length_1_inv. rewrite <- A. apply Permutation_flat_map; auto.
Qed.

End Proofs.
