(* Instance of the assembly model at IEEE binary64 (Coq primitive floats), used by the extraction
   unit c10 only.  Definitions only; no theorem depends on this file. *)
From AG Require Import Base.Prelude Base.Res Event.Event.
From Coq Require Import Floats Uint63.

(* f64::from(d : i32): |d| < 2^31 is converted exactly *)
Definition f64_of_Z (z : Z) : float :=
  match z with
  | Z0 => PrimFloat.of_uint63 0%uint63
  | Zpos _ => PrimFloat.of_uint63 (Uint63.of_Z z)
  | Zneg p => PrimFloat.opp (PrimFloat.of_uint63 (Uint63.of_Z (Zpos p)))
  end.
(* f64::from(i32::from(v) - i32::from(baseline)) * gain *)
Definition fcal64 (d : Z) (g : float) : float := PrimFloat.mul (f64_of_Z d) g.

Definition build64 := @build float fcal64.
Definition mk_env64 := @Build_env float.
