(* Model of alpha_g_physics::MainEvent::try_from_banks (physics/src/lib.rs:243-388): the assembly
   logic over decoded banks.  Definitions only.

   A bank is presented as the information the Rust code extracts from it through the detector
   crate's public API (MainEventBankName::try_from, AdcPacket::try_from, Chunk::try_from,
   TrgPacket::try_from); the decoders themselves are the subject of C02-C06, C08.  The
   run-dependent maps, the calibration and the chunk reassembly are oracles collected in `env`
   (TpcWirePosition::try_new, TpcPadPosition::try_new, try_{wire,pad}_{baseline,gain,delay},
   PwbPacket::try_from(Vec<Chunk>)) - for a fixed run number they are functions.

   The sample type F and the calibration arithmetic fcal d g = f64::from(d) * g are parameters:
   the theorems hold for every F; the extraction instantiates F := PrimFloat (Event/EventF64.v). *)
From AG Require Import Base.Prelude Base.Res.
From Coq Require Import Permutation.

(* result of a decoder / map lookup as seen by the assembly: it failed or it gave a value *)
Inductive dec (A : Type) : Type := DErr | DOk (a : A).
Arguments DErr {A}.
Arguments DOk {A} a.

(* alpha16::ChannelId *)
Inductive achan := A32 (c : N) | BV16 (c : N).
(* AdcPacket through board_id() (None for the 16-byte suppressed form), channel_id(), waveform() *)
Record adcv := { a_board : option N; a_chan : achan; a_wf : list Z }.
(* padwing::Chunk through board_id(), after_id(); c_uid stands for everything else (chunk id,
   end-of-message flag, payload): it identifies the chunk for the reassembly oracle *)
Record chunkv := { c_board : N; c_chip : N; c_uid : N }.
(* padwing::ChannelId *)
Inductive pchan := Pad (c : N) | Fpn (c : N) | Reset (c : N).
(* PwbPacket through board_id(), after_id(), channels_sent() zipped with the waveform blocks *)
Record pwbv := { p_board : N; p_chip : N; p_sent : list (pchan * list Z) }.

(* a (bank name, data) pair, classified by MainEventBankName::try_from *)
Inductive bank :=
| BWire (nb nc : N) (d : dec adcv)   (* "Cbbc": Alpha16 A32 name (board nb, channel nc) + AdcPacket::try_from *)
| BPad (nb : N) (d : dec chunkv)     (* "PCbb": Padwing name (board nb) + Chunk::try_from *)
| BTrg (d : dec N)                   (* "ATAT" + TrgPacket::try_from -> timestamp() *)
| BOther                             (* "Bbbc" (barrel veto), "TRBA", "MCVX": recognised, ignored *)
| BUnknown.                          (* MainEventBankName::try_from fails *)

(* error kinds (readability only; observations compare Ok / Err / Panic) *)
Definition E_unknown := 1.   Definition E_adc := 2.      Definition E_bv := 3.
Definition E_mismatch := 4.  Definition E_dupwire := 5.  Definition E_chunk := 6.
Definition E_pwbboard := 7.  Definition E_pwb := 8.      Definition E_duppad := 9.
Definition E_trg := 10.      Definition E_duptrg := 11.  Definition E_missingtrg := 12.
Definition E_wirepos := 13.  Definition E_padpos := 14.  Definition E_wirecal := 15.
Definition E_padcal := 16.

Definition pair_eqb (a b : N * N) : bool := (fst a =? fst b) && (snd a =? snd b).
Definition mem2 (k : N * N) (l : list (N * N)) : bool := existsb (pair_eqb k) l.
Fixpoint assocN {V} (k : N) (l : list (N * V)) : option V :=
  match l with [] => None | (k', v) :: t => if k =? k' then Some v else assocN k t end.
Fixpoint assoc2 {V} (k : N * N) (l : list (N * N * V)) : option V :=
  match l with [] => None | (k', v) :: t => if pair_eqb k k' then Some v else assoc2 k t end.
Definition pchan_eqb (a b : pchan) : bool :=
  match a, b with
  | Pad x, Pad y => x =? y | Fpn x, Fpn y => x =? y | Reset x, Reset y => x =? y
  | _, _ => false
  end.

(* i32::from(v) - i32::from(baseline): the operands are widened first; the subtraction is the
   site that replaced the i16 checked_sub().unwrap() (finding F2).  Checked = overflow-checks on. *)
Definition sub_i32 (m : ovf) (a b : Z) : res Z :=
  let d := (a - b)%Z in
  if ((-2147483648 <=? d) && (d <=? 2147483647))%Z then Ok d
  else match m with
       | Checked => Panic
       | Wrapping => Ok (((d + 2147483648) mod 4294967296) - 2147483648)%Z
       end.

Section Model.
Variable F : Type.               (* f64 *)
Variable fcal : Z -> F -> F.     (* fcal d g = f64::from(d as i32) * g *)

Record env := {
  wire_pos : N -> N -> dec N;              (* TpcWirePosition::try_new(run, board, channel) -> usize::from *)
  pad_pos : N -> N -> N -> dec (N * N);    (* TpcPadPosition::try_new(run, board, chip, pad channel) -> (column, row) *)
  wire_cal : N -> dec (Z * F * N);         (* try_wire_baseline / gain / delay by wire index: (baseline, gain, delay) *)
  pad_cal : N -> N -> dec (Z * F * N);     (* try_pad_baseline / gain / delay by (column, row) *)
  reasm : list chunkv -> dec pwbv          (* PwbPacket::try_from(Vec<Chunk>) *)
}.

Record event := {
  ev_wires : list (N * list F);            (* occupied slots of wire_signals: (wire index, signal) *)
  ev_pads : list (N * N * list F);         (* occupied slots of pad_signals: ((column, row), signal) *)
  ev_ts : N                                (* trigger_timestamp *)
}.
Definition wire_at (ev : event) (w : N) : option (list F) := assocN w (ev_wires ev).
Definition pad_at (ev : event) (c r : N) : option (list F) := assoc2 (c, r) (ev_pads ev).

(* waveform.iter().skip(delay).map(|&v| f64::from(i32::from(v) - i32::from(baseline)) * gain).collect()
   lib.rs:308-313 and 368-373 *)
Fixpoint calib_res (m : ovf) (bl : Z) (g : F) (wf : list Z) : res (list F) :=
  match wf with
  | [] => Ok []
  | v :: t => do d <- sub_i32 m v bl; do r <- calib_res m bl g t; Ok (fcal d g :: r)
  end.
Definition signal (m : ovf) (bl : Z) (g : F) (dl : N) (wf : list Z) : res (list F) :=
  calib_res m bl g (skipn (N.to_nat dl) wf).

(* ---- the bank loop, lib.rs:261-341 ---- *)
Record st := {
  s_names : list (N * N);                        (* wire_banks, lib.rs:258 *)
  s_wires : list (N * list F);                   (* wire_signals (occupied slots), lib.rs:251 *)
  s_groups : list (N * N * list chunkv);         (* pwb_chunks_map in insertion order, lib.rs:255 *)
  s_ts : option N                                (* trigger_timestamp, lib.rs:253 *)
}.
Definition st0 : st := {| s_names := []; s_wires := []; s_groups := []; s_ts := None |}.

(* MainEventBankName::Alpha16(Alpha16BankName::A32(bank_name)) arm, lib.rs:263-318 *)
Definition step_wire (e : env) (m : ovf) (nm : list (N * N)) (ws : list (N * list F))
           (nb nc : N) (d : dec adcv) : res (list (N * N) * list (N * list F)) :=
  match d with
  | DErr => Err E_adc                                                   (* 264 AdcPacket::try_from(..)? *)
  | DOk p =>
    match a_chan p with
    | BV16 _ => Err E_bv                                                (* 265-269 let .. else *)
    | A32 c =>
      let fb := match a_board p with Some b => b | None => nb end in    (* 273 unwrap_or: cannot panic *)
      if negb (pair_eqb (nb, nc) (fb, c)) then Err E_mismatch           (* 276-281 *)
      else if mem2 (nb, nc) nm then Err E_dupwire                       (* 284-288 *)
      else
        let nm' := (nb, nc) :: nm in                                    (* 289 push *)
        match a_wf p with
        | [] => Ok (nm', ws)                                            (* 292-294 continue *)
        | _ :: _ =>
          match wire_pos e fb c with                                    (* 297 try_new(..)? *)
          | DErr => Err E_wirepos
          | DOk w =>
            if negb (w <? 256) then Panic                               (* 299 wire_signals[wire_index] *)
            else
              match assocN w ws with
              | Some _ => Err E_dupwire                                 (* 299-302 is_some() *)
              | None =>
                match wire_cal e w with                                 (* 304-306 three `?` *)
                | DErr => Err E_wirecal
                | DOk (bl, g, dl) =>
                  do s <- signal m bl g dl (a_wf p);                    (* 308-313 *)
                  Ok (nm', match s with [] => ws | _ :: _ => (w, s) :: ws end)   (* 314-316 *)
                end
              end
          end
        end
    end
  end.

(* pwb_chunks_map.entry(key).or_default().push(chunk), lib.rs:329 *)
Fixpoint add_chunk (k : N * N) (c : chunkv) (g : list (N * N * list chunkv)) : list (N * N * list chunkv) :=
  match g with
  | [] => [(k, [c])]
  | (k', cs) :: t => if pair_eqb k k' then (k', cs ++ [c]) :: t else (k', cs) :: add_chunk k c t
  end.

(* MainEventBankName::Padwing(bank_name) arm, lib.rs:319-330 *)
Definition step_pad (g : list (N * N * list chunkv)) (nb : N) (d : dec chunkv) : res (list (N * N * list chunkv)) :=
  match d with
  | DErr => Err E_chunk                                                 (* 320 Chunk::try_from(..)? *)
  | DOk c =>
    if negb (c_board c =? nb) then Err E_pwbboard                       (* 322-327 *)
    else Ok (add_chunk (c_board c, c_chip c) c g)                       (* 321, 329 *)
  end.

(* MainEventBankName::Trg(_) arm, lib.rs:331-338 *)
Definition step_trg (ts : option N) (d : dec N) : res (option N) :=
  match d with
  | DErr => Err E_trg                                                   (* 332 *)
  | DOk t => match ts with Some _ => Err E_duptrg | None => Ok (Some t) end   (* 333-337 *)
  end.

Definition step (e : env) (m : ovf) (s : st) (b : bank) : res st :=
  match b with
  | BUnknown => Err E_unknown                                           (* 262 try_from(bank_name)? *)
  | BWire nb nc d =>
    do r <- step_wire e m (s_names s) (s_wires s) nb nc d;
    Ok {| s_names := fst r; s_wires := snd r; s_groups := s_groups s; s_ts := s_ts s |}
  | BPad nb d =>
    do g <- step_pad (s_groups s) nb d;
    Ok {| s_names := s_names s; s_wires := s_wires s; s_groups := g; s_ts := s_ts s |}
  | BTrg d =>
    do t <- step_trg (s_ts s) d;
    Ok {| s_names := s_names s; s_wires := s_wires s; s_groups := s_groups s; s_ts := t |}
  | BOther => Ok s                                                      (* 339 _ => {} *)
  end.

Fixpoint loop (e : env) (m : ovf) (s : st) (banks : list bank) : res st :=
  match banks with
  | [] => Ok s
  | b :: t => do s' <- step e m s b; loop e m s' t
  end.

(* ---- the pad loop, lib.rs:343-380 ---- *)
(* PwbV2Packet::waveform_at: position of the channel in channels_sent, then its block (padwing.rs:1322) *)
Definition waveform_at (p : pwbv) (ch : pchan) : option (list Z) :=
  option_map snd (find (fun x => pchan_eqb (fst x) ch) (p_sent p)).

Definition pst : Type := list (N * N * list F) * list (N * N).   (* pad_signals (occupied), pad_seen (set flags) *)

(* body of `for &channel_id in packet.channels_sent()`, lib.rs:347-379 *)
Definition step_chan (e : env) (m : ovf) (p : pwbv) (s : pst) (x : pchan * list Z) : res pst :=
  match fst x with
  | Pad pc =>                                                           (* 348 if let Pad(..) *)
    do wf <- unwrap (waveform_at p (fst x));                            (* 351 .unwrap() *)
    match pad_pos e (p_board p) (p_chip p) pc with                      (* 353-354 try_new(..)? *)
    | DErr => Err E_padpos
    | DOk (c, r) =>
      if negb ((c <? 32) && (r <? 576)) then Panic                      (* 359 pad_seen[c][r] *)
      else if mem2 (c, r) (snd s) then Err E_duppad                     (* 359-362 mem::replace(.., true) *)
      else
        match pad_cal e c r with                                        (* 364-366 *)
        | DErr => Err E_padcal
        | DOk (bl, g, dl) =>
          do sg <- signal m bl g dl wf;                                 (* 368-373 *)
          Ok (match sg with [] => fst s | _ :: _ => ((c, r), sg) :: fst s end, (c, r) :: snd s)   (* 374-376 *)
        end
    end
  | _ => Ok s
  end.

Fixpoint chan_loop (e : env) (m : ovf) (p : pwbv) (s : pst) (l : list (pchan * list Z)) : res pst :=
  match l with
  | [] => Ok s
  | x :: t => do s' <- step_chan e m p s x; chan_loop e m p s' t
  end.

(* body of `for chunks in pwb_chunks_map.into_values()`, lib.rs:343-380 *)
Definition step_group (e : env) (m : ovf) (s : pst) (cs : list chunkv) : res pst :=
  match reasm e cs with
  | DErr => Err E_pwb                                                   (* 344 PwbPacket::try_from(chunks)? *)
  | DOk p => chan_loop e m p s (p_sent p)
  end.

Fixpoint group_loop (e : env) (m : ovf) (s : pst) (gs : list (list chunkv)) : res pst :=
  match gs with
  | [] => Ok s
  | cs :: t => do s' <- step_group e m s cs; group_loop e m s' t
  end.

(* `order` is the iteration order of HashMap::into_values(): any rearrangement of the values *)
Definition build (e : env) (m : ovf) (order : list (list chunkv) -> list (list chunkv))
           (banks : list bank) : res event :=
  do s <- loop e m st0 banks;                                           (* 261-341 *)
  do ps <- group_loop e m ([], []) (order (map snd (s_groups s)));      (* 343-380 *)
  match s_ts s with
  | None => Err E_missingtrg                                            (* 385-386 ok_or(MissingTrgBank)? *)
  | Some t => Ok {| ev_wires := s_wires s; ev_pads := fst ps; ev_ts := t |}   (* 382-387 *)
  end.

End Model.

Arguments wire_pos {F} e.
Arguments pad_pos {F} e.
Arguments wire_cal {F} e.
Arguments pad_cal {F} e.
Arguments reasm {F} e.
Arguments ev_wires {F} e.
Arguments ev_pads {F} e.
Arguments ev_ts {F} e.
Arguments wire_at {F} ev w.
Arguments pad_at {F} ev c r.
Arguments s_names {F} s.
Arguments s_wires {F} s.
Arguments s_groups {F} s.
Arguments s_ts {F} s.
Arguments st0 {F}.
Arguments build {F} fcal e m order banks.
Arguments loop {F} fcal e m s banks.
Arguments step {F} fcal e m s b.
Arguments step_wire {F} fcal e m nm ws nb nc d.
Arguments group_loop {F} fcal e m s gs.
Arguments step_group {F} fcal e m s cs.
Arguments chan_loop {F} fcal e m p s l.
Arguments step_chan {F} fcal e m p s x.
Arguments signal {F} fcal m bl g dl wf.
Arguments calib_res {F} fcal m bl g wf.

(* the iteration orders a HashMap may produce: every rearrangement of the values *)
Definition is_order (order : list (list chunkv) -> list (list chunkv)) : Prop :=
  forall l, Permutation (order l) l.
