(* From the assembled event of Event/Event.v (association lists of the OCCUPIED wire / pad slots) to the value the
   avalanche stage consumes: MainEvent { wire_signals: [Option<Vec<f64>>; 256], pad_signals: [[Option<Vec<f64>>; 576]; 32],
   trigger_timestamp } (physics/src/lib.rs:233-241), the `main_event` record of Signal/AvalTotal.v.
   Slot w of wire_signals is what try_from_banks filed under wire index w (lib.rs:314-316: Some(signal) only when the
   post-delay signal is not empty), i.e. wire_at ev w; slot (c, r) of pad_signals is pad_at ev c r (lib.rs:374-376).
   Definitions only. *)
From AG Require Import Base.Prelude Base.Res Event.Event Signal.Ring Signal.Avalanches Signal.AvalTotal.

Section Slots.
Context {F : Type}.
Definition wire_slots (ev : event F) : list (option (list F)) := map (wire_at ev) (Nseq 0 NW).
Definition pad_slots (ev : event F) : list (list (option (list F))) :=
  map (fun c => map (pad_at ev c) (Nseq 0 NROWS)) (Nseq 0 NCOLS).
Definition main_event_of (ev : event F) : main_event (list F) :=
  MainEvent (list F) (wire_slots ev) (pad_slots ev) (ev_ts ev).
End Slots.
