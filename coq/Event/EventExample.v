(* A concrete environment and bank list on which every hypothesis of the C09/C10/C11 theorems holds
   (non-vacuity), with exact integer arithmetic standing for the sample type. *)
From AG Require Import Base.Prelude Base.Res Event.Event Event.EventSpec.
From Coq Require Import Permutation.

Definition ex_fcal (d g : Z) : Z := (d * g)%Z.
Definition ex_env : env Z := {|
  wire_pos := fun b c => if (b <? 8) && (c <? 32) then DOk (b * 32 + c) else DErr;
  pad_pos := fun b ch c => if (b <? 8) && (ch <? 4) && (c <? 72) then DOk (b * 4 + ch, c) else DErr;
  wire_cal := fun _ => DOk (10%Z, 2%Z, 2);
  pad_cal := fun _ _ => DOk (5%Z, 3%Z, 1);
  reasm := fun cs => match cs with
                     | [c] => DOk {| p_board := c_board c; p_chip := c_chip c;
                                     p_sent := [(Pad 7, [1; 2; 3]%Z); (Fpn 1, [0]%Z)] |}
                     | _ => DErr
                     end
|}.
Definition ex_banks : list bank :=
  [ BWire 1 2 (DOk {| a_board := Some 1; a_chan := A32 2; a_wf := [11; 12; 13; 14]%Z |});
    BWire 1 3 (DOk {| a_board := None; a_chan := A32 3; a_wf := [] |});
    BPad 3 (DOk {| c_board := 3; c_chip := 1; c_uid := 0 |});
    BTrg (DOk 99);
    BOther ].
Definition ex_event : event Z :=
  {| ev_wires := [(34, [6; 8]%Z)]; ev_pads := [((13, 7), [-9; -6]%Z)]; ev_ts := 99 |}.

Lemma ex_env_typed : env_typed ex_env.
Proof.
  constructor; cbn.
  - intros b c w. destruct ((b <? 8) && (c <? 32)) eqn:E; [|discriminate]. intros H; inv H. lia.
  - intros b ch c col row. destruct ((b <? 8) && (ch <? 4) && (c <? 72)) eqn:E; [|discriminate]. intros H; inv H. lia.
  - intros w bl g dl H; inv H. unfold i16; lia.
  - intros c r bl g dl H; inv H. unfold i16; lia.
  - intros cs p. destruct cs as [|c [|c2 t]]; try discriminate. intros H; inv H. cbn.
    intros ch wf [H|[H|[]]]; inv H; repeat constructor; unfold i16; lia.
  - intros cs p. destruct cs as [|c [|c2 t]]; try discriminate. intros H; inv H. cbn.
    constructor; [intros [H|[]]; discriminate | constructor; [intros [] | constructor]].
Qed.
Lemma ex_env_injective : wire_pos_injective ex_env.
Proof.
  intros b c b' c' w. cbn.
  destruct ((b <? 8) && (c <? 32)) eqn:E; [|discriminate].
  destruct ((b' <? 8) && (c' <? 32)) eqn:E'; [|discriminate].
  intros H H'; inv H; inv H'. f_equal; lia.
Qed.
Lemma ex_env_reasm_perm : reasm_perm ex_env.
Proof.
  intros cs cs' P. cbn. destruct cs as [|c [|c2 t]].
  - apply Permutation_nil in P. subst. reflexivity.
  - apply Permutation_length_1_inv in P. subst. reflexivity.
  - pose proof (Permutation_length P) as L. destruct cs' as [|a [|b u]]; cbn in L; try discriminate. reflexivity.
Qed.
Lemma ex_banks_typed : banks_typed ex_banks.
Proof. repeat constructor; unfold i16; lia. Qed.
