(* Proofs about the end-to-end model Event/E2E.v: the typing hypotheses of the Event theorems are discharged from
   the decoder / map / calibration theorems, and the event theorems are restated for the composed model. *)
From Coq Require Import Permutation Sorted.
From AG Require Import Base.Prelude Base.Res Base.Bytes Ident.Dispatch Gen.Boards Ident.Tables Gen.Calib.
From AG Require Gen.WireMaps Gen.PadMaps.
From AG Require Codec.Adc Codec.Adc_proofs Codec.Chunk Codec.Chunk_proofs Codec.Reasm Codec.Reasm_proofs
  Codec.Pwb Codec.Pwb_proofs Codec.Trg Codec.Trg_proofs Ident.Names Ident.Names_proofs Ident.Maps Ident.Maps_proofs.
From AG Require Import Event.Event Event.EventSpec Event.Event_proofs Event.EventSpec_proofs Event.EventThm_proofs
  Event.E2E.


(* everything below holds for every sample type FT, calibration arithmetic fcal and reading gain_of of the tabulated
   gains; Event/E2E64.v is the binary64 instance *)
Section Generic.
Variable FT : Type.
Variable fcal : Z -> FT -> FT.
Variable gain_of : Z * Z -> FT.
Notation wire_cal_e2e := (E2E.wire_cal_e2e gain_of).
Notation pad_cal_e2e := (E2E.pad_cal_e2e gain_of).
Notation env_e2e_m := (E2E.env_e2e_m gain_of).
Notation env_e2e := (E2E.env_e2e gain_of).
Notation try_from_banks_model := (E2E.try_from_banks_model fcal gain_of).

(* ------------------------------------------------------------------ the chunk identity is injective on bytes *)
Ltac split_pos p n :=
  match n with
  | O => idtac
  | S ?k => destruct p as [p|p|]; [split_pos p k | split_pos p k | ]
  end.

Lemma push_byte_spec b acc : b < 256 -> group8 (pbits (push_byte b acc)) = b :: group8 (pbits acc).
Proof.
  intros H. destruct b as [|p]; [reflexivity|].
  split_pos p 8%nat; try reflexivity; exfalso; lia.
Qed.

Lemma bytes_of_uid_of_bytes l : bytes l -> bytes_of_uid (uid_of_bytes l) = l.
Proof.
  unfold bytes_of_uid, uid_of_bytes. induction 1 as [|b t Hb Ht IH]; [reflexivity|].
  cbn [fold_right]. rewrite push_byte_spec by exact Hb. rewrite IH. reflexivity.
Qed.

Lemma group8_bytes_n n : forall l, (length l <= n)%nat -> bytes (group8 l).
Proof.
  induction n as [|n IH]; intros l H.
  - destruct l; [constructor | cbn in H; lia].
  - destruct l as [|b0 [|b1 [|b2_ [|b3 [|b4 [|b5 [|b6 [|b7 t]]]]]]]]; try (cbn; constructor).
    + unfold byte, b2. destruct b0, b1, b2_, b3, b4, b5, b6, b7; cbn; lia.
    + apply IH. cbn in H. lia.
Qed.
Lemma bytes_of_uid_bytes u : bytes (bytes_of_uid u).
Proof. destruct u as [|p]; [constructor|]. cbn. eapply group8_bytes_n. apply Nat.le_refl. Qed.

(* ------------------------------------------------------------------ decoded banks are typed (C02) *)
Lemma adc_view_typed m data p : bytes data -> adc_view m data = DOk p -> Forall i16 (a_wf p).
Proof.
  unfold adc_view. intros Hb H.
  destruct (Adc.adc_decode adc_macs m data) as [f| |] eqn:E; try discriminate.
  inv H. apply (Adc_proofs.adc_exact_lemma adc_macs m data f Hb) in E.
  destruct E as [(_ & _ & _ & _ & _ & _ & HL) _].
  unfold adcv_of; cbn [a_wf]. destruct (Adc.a_long f) as [lg|]; [|constructor].
  destruct HL as (_ & _ & _ & _ & _ & _ & W & _). exact W.
Qed.

Theorem e2e_banks_typed_m m banks : Forall bytes (map snd banks) -> banks_typed (decode_banks_m m banks).
Proof.
  unfold banks_typed, decode_banks_m. intros H. apply Forall_forall. intros b Hb.
  apply in_map_iff in Hb as ([n d] & E & I). subst b. rewrite Forall_forall in H.
  specialize (H d (in_map snd _ _ I)). cbn [fst snd]. unfold decode_bank_m.
  destruct (Names.parse_main n) as [k| |]; cbn; auto. destruct k; cbn; auto.
  destruct (adc_view m d) eqn:E; auto. eapply adc_view_typed; eauto.
Qed.

(* ------------------------------------------------------------------ maps (C08) *)
Lemma hm_get_some {K V} (eqb : K -> K -> bool) k (rows : list (K * V)) : forall acc v,
  Maps.hm_get eqb k rows acc = Some v -> acc = Some v \/ exists k', In (k', v) rows /\ eqb k k' = true.
Proof.
  induction rows as [|[k' v'] r IH]; cbn; intros acc v H; [auto|].
  apply IH in H. destruct H as [H|(k'' & I & E)].
  - destruct (eqb k k') eqn:Q; [inv H; right; exists k'; auto | auto].
  - right; exists k''; auto.
Qed.

Lemma channel_tables_len c cm : Names.nthN Gen.WireMaps.channel_tables c = Some cm -> lenN cm = 32.
Proof.
  assert (F : forallb (fun cm => lenN cm =? 32) Gen.WireMaps.channel_tables = true) by (vm_compute; reflexivity).
  intros H. apply nth_error_In in H. rewrite forallb_forall in F. apply N.eqb_eq. apply F. exact H.
Qed.

Lemma wire_position_domain run b ch w : Maps.wire_position run b ch = Ok w ->
  exists id, Maps.wire_dispatch run = Some id /\ In b (Maps.wire_boards (fst id)) /\ ch < 32.
Proof.
  unfold Maps.wire_position, Maps.wire_position_d.
  destruct (Maps.wire_dispatch run) as [[p c]|] eqn:D; [|discriminate].
  intros H. exists (p, c). split; [reflexivity|]. cbn [fst]. unfold Maps.wire_boards.
  destruct (Names.nthN Gen.WireMaps.preamp_tables p) as [pm|] eqn:Ep; [|discriminate]. cbn [unwrap bind] in H.
  destruct (Names.nthN Gen.WireMaps.channel_tables c) as [cm|] eqn:Ec; [|discriminate]. cbn [unwrap bind] in H.
  unfold Maps.wire_position_in in H. destruct (negb (Maps.preamp_keys_ok pm)); [discriminate|].
  destruct (Maps.hm_get Maps.opt_eqb (Some b) (Maps.preamp_rows pm) None) as [pp|] eqn:G; [|discriminate].
  cbn [or_err bind] in H.
  destruct (idx cm ch) as [mc| |] eqn:I; try discriminate. split.
  - apply hm_get_some in G as [G|(k' & I' & Q)]; [discriminate|].
    unfold Maps.preamp_rows in I'. apply in_map_iff in I' as (r & E & Hr). inv E.
    unfold Maps.opt_eqb in Q. destruct (Names.find_a16 (fst r)) as [b'|] eqn:F; [|discriminate].
    apply N.eqb_eq in Q. subst b'. apply in_flat_map. exists r. split; [exact Hr|]. rewrite F. left; reflexivity.
  - pose proof (channel_tables_len c cm Ec) as L. unfold idx in I.
    destruct (nth_error cm (N.to_nat ch)) eqn:Nn; [|discriminate].
    assert (N.to_nat ch < length cm)%nat by (apply nth_error_Some; congruence).
    unfold lenN in L. lia.
Qed.

Lemma wire_position_lt run b ch w : Maps.wire_position run b ch = Ok w -> w < 256.
Proof.
  intros H. destruct (wire_position_domain run b ch w H) as (id & D & Hb & Hc).
  destruct (Maps_proofs.wire_map_bijective_lemma run id D) as (T & _ & _).
  destruct (T b ch Hb Hc) as (w' & E & L). rewrite H in E. inv E. exact L.
Qed.

Lemma wire_position_inj run b ch b' ch' w :
  Maps.wire_position run b ch = Ok w -> Maps.wire_position run b' ch' = Ok w -> (b, ch) = (b', ch').
Proof.
  intros H H'. destruct (wire_position_domain run b ch w H) as (id & D & Hb & Hc).
  destruct (wire_position_domain run b' ch' w H') as (id' & D' & Hb' & Hc').
  rewrite D in D'. inv D'.
  destruct (Maps_proofs.wire_map_bijective_lemma run id' D) as (_ & J & _).
  destruct (J b ch b' ch' Hb Hb' Hc Hc') as [-> ->]; [congruence | reflexivity].
Qed.

Lemma pad_position_range run b a ch col row : Maps.pad_position run b a ch = Ok (col, row) -> col < 32 /\ row < 576.
Proof.
  unfold Maps.pad_position, Maps.pad_position_d, Maps.pad_position_c. intros H.
  apply bind_ok in H as (mp & _ & H). apply bind_ok in H as (bp & _ & H). apply bind_ok in H as (pp & _ & H).
  unfold Maps.pad_combine in H.
  destruct (fst bp * Gen.PadMaps.gen_PWB_PAD_COLUMNS + fst pp <? Gen.PadMaps.gen_TPC_PAD_COLUMNS) eqn:A;
    cbn [negb] in H; [|discriminate].
  destruct (snd bp * Gen.PadMaps.gen_PWB_PAD_ROWS + snd pp <? Gen.PadMaps.gen_TPC_PAD_ROWS) eqn:B;
    cbn [negb] in H; [|discriminate].
  inv H. apply N.ltb_lt in A, B.
  assert (Gen.PadMaps.gen_TPC_PAD_COLUMNS = 32) as E1 by reflexivity.
  assert (Gen.PadMaps.gen_TPC_PAD_ROWS = 576) as E2 by reflexivity.
  rewrite E1 in A. rewrite E2 in B. auto.
Qed.

(* ------------------------------------------------------------------ calibration: every tabulated baseline is an i16 *)
Definition zopt_i16 (o : option Z) : bool :=
  match o with Some z => ((-32768 <=? z) && (z <=? 32767))%Z | None => true end.
Lemma wire_baselines_i16 : forallb (forallb zopt_i16) wire_baseline_tables = true.
Proof. vm_compute. reflexivity. Qed.
Lemma pad_baselines_i16 : forallb (forallb (forallb zopt_i16)) pad_baseline_tables = true.
Proof. vm_compute. reflexivity. Qed.

Lemma zopt_i16_spec z : zopt_i16 (Some z) = true -> i16 z.
Proof. unfold zopt_i16, i16. intros H. apply andb_true_iff in H as [A B]. apply Z.leb_le in A, B. lia. Qed.

Lemma lookup1_in {V} (tables : list (list (option V))) t i v :
  lookup1 tables t i = Some v -> exists tbl, In tbl tables /\ In (Some v) tbl.
Proof.
  unfold lookup1, nth_opt. destruct (nth_error tables (N.to_nat t)) as [tbl|] eqn:A; [|discriminate].
  destruct (nth_error tbl (N.to_nat i)) as [[x|]|] eqn:B; try discriminate. intros H; inv H.
  exists tbl. split; eapply nth_error_In; eauto.
Qed.
Lemma lookup2_in {V} (tables : list (list (list (option V)))) t c r v :
  lookup2 tables t c r = Some v -> exists tbl col, In tbl tables /\ In col tbl /\ In (Some v) col.
Proof.
  unfold lookup2, nth_opt. destruct (nth_error tables (N.to_nat t)) as [tbl|] eqn:A; [|discriminate].
  destruct (nth_error tbl (N.to_nat c)) as [col|] eqn:B; [|discriminate].
  destruct (nth_error col (N.to_nat r)) as [[x|]|] eqn:C; try discriminate. intros H; inv H.
  exists tbl, col. repeat split; eapply nth_error_In; eauto.
Qed.

Lemma wire_cal_i16 run w bl g dl : wire_cal_e2e run w = DOk (bl, g, dl) -> i16 bl.
Proof.
  unfold E2E.wire_cal_e2e. destruct (dispatch wire_baseline_arms run) as [bi|]; [|discriminate].
  destruct (dispatch wire_gain_arms run) as [gi|]; [|discriminate].
  destruct (dispatch wire_delay_arms run) as [d|]; [|discriminate].
  destruct (lookup1 wire_baseline_tables bi w) as [b|] eqn:L; [|discriminate].
  destruct (lookup1 wire_gain_tables gi w) as [g'|]; [|discriminate]. intros H; inv H.
  apply lookup1_in in L as (tbl & I1 & I2). pose proof wire_baselines_i16 as F.
  rewrite forallb_forall in F. specialize (F tbl I1). rewrite forallb_forall in F.
  apply zopt_i16_spec. apply F. exact I2.
Qed.
Lemma pad_cal_i16 run c r bl g dl : pad_cal_e2e run c r = DOk (bl, g, dl) -> i16 bl.
Proof.
  unfold E2E.pad_cal_e2e. destruct (dispatch pad_baseline_arms run) as [bi|]; [|discriminate].
  destruct (dispatch pad_gain_arms run) as [gi|]; [|discriminate].
  destruct (dispatch pad_delay_arms run) as [d|]; [|discriminate].
  destruct (lookup2 pad_baseline_tables bi c r) as [b|] eqn:L; [|discriminate].
  destruct (lookup2 pad_gain_tables gi c r) as [g'|]; [|discriminate]. intros H; inv H.
  apply lookup2_in in L as (tbl & col & I1 & I2 & I3). pose proof pad_baselines_i16 as F.
  rewrite forallb_forall in F. specialize (F tbl I1). rewrite forallb_forall in F.
  specialize (F col I2). rewrite forallb_forall in F.
  apply zopt_i16_spec. apply F. exact I3.
Qed.

(* ------------------------------------------------------------------ reassembly (C03, C04, C05) *)
Lemma chunks_of_views_ok m cs ks : chunks_of_views m cs = Some ks -> Forall (Chunk.chunk_ok pwb_devices) ks.
Proof.
  revert ks; induction cs as [|c t IH]; cbn [chunks_of_views]; intros ks H.
  - inv H. constructor.
  - destruct (Chunk.chunk_decode pwb_devices m (bytes_of_uid (c_uid c))) as [k| |] eqn:E; try discriminate.
    destruct (chunks_of_views m t) as [ks'|]; [|discriminate]. inv H. constructor; [|auto].
    eapply Reasm_proofs.decoded_chunk_ok; [apply bytes_of_uid_bytes | exact E].
Qed.

(* an accepted group: the chunks decode, reassemble, and the packet meets the field rules of C05 *)
Lemma reasm_e2e_ok m cs p : reasm_e2e m cs = DOk p ->
  exists ks f, chunks_of_views m cs = Some ks /\
    Reasm.reasm pwb_devices m Reasm.isort_by_id Pwb.pwb (Pwb.pwb_decode pwb_macs m) ks = Ok f /\
    p = pwbv_of m f /\ Pwb.pwb_fields_ok pwb_macs f.
Proof.
  unfold reasm_e2e. destruct (chunks_of_views m cs) as [ks|] eqn:E; [|discriminate].
  destruct (Reasm.reasm _ _ _ _ _ ks) as [f| |] eqn:R; try discriminate. intros H; inv H.
  exists ks, f. split; [reflexivity|]. split; [exact R|]. split; [reflexivity|].
  pose proof (chunks_of_views_ok m cs ks E) as Ho.
  apply (Reasm_proofs.reasm_ok_iff pwb_devices m Pwb.pwb (Pwb.pwb_decode pwb_macs m) Reasm.isort_by_id ks f
           Reasm_proofs.isort_admissible Ho) in R.
  destruct R as [_ D]. apply Pwb_proofs.pwb_exact_lemma in D; [apply D|].
  eapply Reasm_proofs.bytes_concat_by_id; eauto.
Qed.

Lemma ssorted_map_nodup {A} (f : A -> N) l : StronglySorted N.lt (map f l) -> NoDup l.
Proof.
  induction l as [|a t IH]; cbn; intros H; [constructor|]. inv H. constructor; [|auto].
  intros I. rewrite Forall_forall in H3. specialize (H3 (f a) (in_map f _ _ I)). lia.
Qed.
Lemma pchan_of_inj a b : pchan_of a = pchan_of b -> a = b.
Proof. destruct a, b; cbn; intros H; inv H; reflexivity. Qed.
Lemma nodup_map_inj {A B} (f : A -> B) l : (forall a b, f a = f b -> a = b) -> NoDup l -> NoDup (map f l).
Proof.
  intros Hf. induction 1 as [|a t Hn Hd IH]; cbn; constructor; auto.
  intros I. apply in_map_iff in I as (b & E & Hb). apply Hf in E. subst. auto.
Qed.

Lemma pwbv_sent_i16 m f ch wf : Pwb.pwb_fields_ok pwb_macs f -> In (ch, wf) (p_sent (pwbv_of m f)) -> Forall i16 wf.
Proof.
  intros Hok I. unfold pwbv_of in I; cbn [p_sent] in I. apply in_map_iff in I as (c & E & Hc). inv E.
  destruct (Pwb_proofs.waveform_at_block_lemma pwb_macs m f c Hok Hc) as (k & w & _ & Hw & Hat & _).
  unfold sent_wf. rewrite Hat.
  destruct Hok as (_ & _ & _ & _ & _ & _ & _ & _ & _ & _ & _ & _ & _ & _ & _ & W & _).
  rewrite Forall_forall in W. apply nth_error_In in Hw. apply W in Hw. apply Hw.
Qed.
Lemma pwbv_sent_nodup m f : Pwb.pwb_fields_ok pwb_macs f -> NoDup (map fst (p_sent (pwbv_of m f))).
Proof.
  intros Hok. unfold pwbv_of; cbn [p_sent]. rewrite map_map. cbn [fst].
  apply nodup_map_inj; [apply pchan_of_inj|].
  destruct Hok as (_ & _ & _ & _ & _ & _ & _ & _ & _ & [_ S] & _).
  eapply ssorted_map_nodup; eauto.
Qed.


(* ------------------------------------------------------------------ board rows: the lookups of the decoded views succeed *)
Lemma find_idx_none {A} (f : A -> bool) l : forall i, Names.find_idx f l i = None -> forall x, In x l -> f x = false.
Proof.
  induction l as [|a t IH]; cbn [Names.find_idx]; intros i H x I; [destruct I|].
  destruct (f a) eqn:Fa; [discriminate|]. destruct I as [<-|I]; [exact Fa|eapply IH; eauto].
Qed.
Lemma a16_row_found mac : Adc.mac_known adc_macs mac = true -> exists r, a16_row_of_mac mac = Some r.
Proof.
  unfold Adc.mac_known, adc_macs. intros H. apply existsb_exists in H as (x & I & E).
  apply Adc_proofs.list_eqb_eq in E. subst x. apply in_map_iff in I as (p & E & I).
  unfold a16_row_of_mac. destruct (Names.find_idx _ alpha16_boards 0) as [r|] eqn:Q; [eauto|].
  pose proof (find_idx_none _ _ _ Q p I) as C. cbn in C. rewrite E in C.
  rewrite (proj2 (Maps_proofs.list_eqb_eq mac mac) eq_refl) in C. discriminate.
Qed.
Lemma pwb_row_of_mac_found mac : Adc.mac_known pwb_macs mac = true -> exists r, pwb_row_of_mac mac = Some r.
Proof.
  unfold Adc.mac_known, pwb_macs. intros H. apply existsb_exists in H as (x & I & E).
  apply Adc_proofs.list_eqb_eq in E. subst x. apply in_map_iff in I as (p & E & I).
  unfold pwb_row_of_mac. destruct (Names.find_idx _ padwing_boards 0) as [r|] eqn:Q; [eauto|].
  pose proof (find_idx_none _ _ _ Q p I) as C. cbn in C. rewrite E in C.
  rewrite (proj2 (Maps_proofs.list_eqb_eq mac mac) eq_refl) in C. discriminate.
Qed.
Lemma pwb_row_of_dev_found dev : Chunk.dev_known pwb_devices dev = true -> exists r, pwb_row_of_dev dev = Some r.
Proof.
  unfold Chunk.dev_known, pwb_devices. intros H. apply existsb_exists in H as (x & I & E).
  apply N.eqb_eq in E. subst x. apply in_map_iff in I as (p & E & I).
  unfold pwb_row_of_dev. destruct (Names.find_idx _ padwing_boards 0) as [r|] eqn:Q; [eauto|].
  pose proof (find_idx_none _ _ _ Q p I) as C. cbn in C. rewrite E, N.eqb_refl in C. discriminate.
Qed.
(* a long ADC packet always shows its board (so `unwrap_or(bank name's board)` only applies to the 16-byte form),
   a chunk and a reassembled packet always have a board row *)
Theorem e2e_board_rows_found m :
  (forall d f lg, bytes d -> Adc.adc_decode adc_macs m d = Ok f -> Adc.a_long f = Some lg ->
     exists r, a_board (adcv_of f) = Some r) /\
  (forall d c, bytes d -> Chunk.chunk_decode pwb_devices m d = Ok c -> exists r, pwb_row_of_dev (Chunk.c_dev c) = Some r) /\
  (forall cs p, reasm_e2e m cs = DOk p -> p_board p <> no_row).
Proof.
  split; [|split].
  - intros d f lg Hb E L. apply (Adc_proofs.adc_exact_lemma adc_macs m d f Hb) in E.
    destruct E as [(_ & _ & _ & _ & _ & _ & HL) _]. rewrite L in HL. destruct HL as (_ & K & _).
    unfold adcv_of; cbn [a_board]. rewrite L. apply a16_row_found. exact K.
  - intros d c Hb E. apply (Reasm_proofs.decoded_chunk_ok pwb_devices m d c Hb) in E. destruct E as (K & _).
    apply pwb_row_of_dev_found. exact K.
  - intros cs p H. apply reasm_e2e_ok in H as (ks & f & _ & _ & -> & Hok).
    destruct Hok as (_ & _ & K & _). destruct (pwb_row_of_mac_found _ K) as (r & E).
    unfold pwbv_of; cbn [p_board]. rewrite E. cbn [row_or_none].
    unfold pwb_row_of_mac in E. intros C. subst r.
    assert (B : forall {A} (f : A -> bool) l i r, Names.find_idx f l i = Some r -> r < i + lenN l).
    { intros A g l. induction l as [|a t IH]; cbn [Names.find_idx]; intros i r Q; [discriminate|].
      destruct (g a); [inv Q; rewrite lenN_cons; lia|]. apply IH in Q. rewrite lenN_cons. lia. }
    apply B in E. unfold no_row in E. lia.
Qed.

(* ------------------------------------------------------------------ (a) the typing hypotheses are discharged *)
Theorem e2e_env_typed_m m run : env_typed (env_e2e_m m run).
Proof.
  constructor; cbn [E2E.env_e2e_m wire_pos pad_pos wire_cal pad_cal reasm].
  - intros b c w H. destruct (Maps.wire_position run b c) eqn:E; cbn in H; try discriminate. inv H.
    eapply wire_position_lt; eauto.
  - intros b ch c col row H. destruct (Maps.pad_position run b ch c) eqn:E; cbn in H; try discriminate. inv H.
    eapply pad_position_range; eauto.
  - intros w bl g dl H. eapply wire_cal_i16; eauto.
  - intros c r bl g dl H. eapply pad_cal_i16; eauto.
  - intros cs p H ch wf I. apply reasm_e2e_ok in H as (ks & f & _ & _ & -> & Hok). eapply pwbv_sent_i16; eauto.
  - intros cs p H. apply reasm_e2e_ok in H as (ks & f & _ & _ & -> & Hok). apply pwbv_sent_nodup; auto.
Qed.

Theorem e2e_env_typed run : env_typed (env_e2e run).
Proof. apply e2e_env_typed_m. Qed.
Theorem e2e_banks_typed banks : Forall bytes (map snd banks) ->
  banks_typed (map (fun nd => decode_bank (fst nd) (snd nd)) banks).
Proof. apply (e2e_banks_typed_m Checked). Qed.

(* ------------------------------------------------------------------ (b) totality of the composed model (C09) *)
Theorem e2e_build_total m run banks order : Forall bytes (map snd banks) ->
  try_from_banks_model m run banks order <> Panic.
Proof.
  intros H. unfold E2E.try_from_banks_model. apply build_total_lemma; [apply e2e_env_typed_m | apply e2e_banks_typed_m; auto].
Qed.

(* ------------------------------------------------------------------ the overflow mode does not matter anywhere *)
Lemma decode_bank_mode name data : bytes data -> decode_bank_m Checked name data = decode_bank_m Wrapping name data.
Proof.
  intros Hb. unfold decode_bank_m, adc_view, chunk_view.
  rewrite (Adc_proofs.adc_no_wrap_lemma adc_macs data Hb), (Chunk_proofs.chunk_no_wrap_lemma pwb_devices data Hb).
  reflexivity.
Qed.
Lemma decode_banks_mode banks : Forall bytes (map snd banks) -> decode_banks_m Checked banks = decode_banks_m Wrapping banks.
Proof.
  unfold decode_banks_m. intros H. apply map_ext_in. intros [n d] I. cbn [fst snd].
  apply decode_bank_mode. rewrite Forall_forall in H. apply H. apply (in_map snd _ _ I).
Qed.
Lemma chunks_of_views_mode cs : chunks_of_views Checked cs = chunks_of_views Wrapping cs.
Proof.
  induction cs as [|c t IH]; cbn [chunks_of_views]; [reflexivity|].
  rewrite (Chunk_proofs.chunk_no_wrap_lemma pwb_devices _ (bytes_of_uid_bytes (c_uid c))), IH. reflexivity.
Qed.

Lemma nodup_nth_eq {A} (l : list A) i j a : NoDup l -> nth_error l i = Some a -> nth_error l j = Some a -> i = j.
Proof.
  intros ND Hi Hj. assert (Li : (i < length l)%nat) by (apply nth_error_Some; congruence).
  apply (proj1 (NoDup_nth_error l) ND i j Li). congruence.
Qed.
Lemma pwbv_of_mode f : Pwb.pwb_fields_ok pwb_macs f -> pwbv_of Checked f = pwbv_of Wrapping f.
Proof.
  intros Hok. unfold pwbv_of. f_equal. apply map_ext_in. intros c Hc. f_equal. unfold sent_wf.
  destruct (Pwb_proofs.waveform_at_block_lemma pwb_macs Checked f c Hok Hc) as (k & w & Hk & Hw & Hat & _).
  destruct (Pwb_proofs.waveform_at_block_lemma pwb_macs Wrapping f c Hok Hc) as (k' & w' & Hk' & Hw' & Hat' & _).
  rewrite Hat, Hat'.
  assert (ND : NoDup (Pwb.p_sent f)).
  { destruct Hok as (_ & _ & _ & _ & _ & _ & _ & _ & _ & [_ S] & _). eapply ssorted_map_nodup; eauto. }
  rewrite (nodup_nth_eq _ k k' c ND Hk Hk') in Hw. congruence.
Qed.

Lemma reasm_e2e_mode cs : reasm_e2e Checked cs = reasm_e2e Wrapping cs.
Proof.
  unfold reasm_e2e. rewrite chunks_of_views_mode.
  destruct (chunks_of_views Wrapping cs) as [ks|] eqn:E; [|reflexivity].
  pose proof (chunks_of_views_ok Wrapping cs ks E) as Ho.
  pose proof (fun m f => Reasm_proofs.reasm_ok_iff pwb_devices m Pwb.pwb (Pwb.pwb_decode pwb_macs m)
                Reasm.isort_by_id ks f Reasm_proofs.isort_admissible Ho) as IFF.
  assert (Hb : bytes (Reasm.concat_by_id ks)) by (eapply Reasm_proofs.bytes_concat_by_id; eauto).
  assert (X : forall f, Reasm.reasm pwb_devices Checked Reasm.isort_by_id Pwb.pwb (Pwb.pwb_decode pwb_macs Checked) ks = Ok f <->
                        Reasm.reasm pwb_devices Wrapping Reasm.isort_by_id Pwb.pwb (Pwb.pwb_decode pwb_macs Wrapping) ks = Ok f).
  { intros f. rewrite (IFF Checked f), (IFF Wrapping f), (Pwb_proofs.pwb_no_wrap_lemma pwb_macs _ Hb). tauto. }
  destruct (Reasm.reasm pwb_devices Checked _ _ _ ks) as [f| |] eqn:RC.
  - rewrite (proj1 (X f) eq_refl). f_equal. apply pwbv_of_mode.
    apply (IFF Checked f) in RC. destruct RC as [_ D]. apply Pwb_proofs.pwb_exact_lemma in D; [apply D|exact Hb].
  - destruct (Reasm.reasm pwb_devices Wrapping _ _ _ ks) as [f| |] eqn:RW; auto.
    pose proof (proj2 (X f) eq_refl) as Q. discriminate.
  - destruct (Reasm.reasm pwb_devices Wrapping _ _ _ ks) as [f| |] eqn:RW; auto.
    pose proof (proj2 (X f) eq_refl) as Q. discriminate.
Qed.

(* build depends on the environment only through the values of its five functions *)
Section Ext.
Variables (e e' : env FT).
Hypothesis Hwp : forall b c, wire_pos e b c = wire_pos e' b c.
Hypothesis Hpp : forall b a c, pad_pos e b a c = pad_pos e' b a c.
Hypothesis Hwc : forall w, wire_cal e w = wire_cal e' w.
Hypothesis Hpc : forall c r, pad_cal e c r = pad_cal e' c r.
Hypothesis Hre : forall cs, reasm e cs = reasm e' cs.

Lemma step_wire_ext m nm ws nb nc d : step_wire fcal e m nm ws nb nc d = step_wire fcal e' m nm ws nb nc d.
Proof.
  unfold step_wire. destruct d as [|p]; auto. destruct (a_chan p); auto. destruct (negb _); auto.
  destruct (mem2 _ _); auto. destruct (a_wf p); auto. rewrite Hwp.
  destruct (wire_pos e' _ c); auto. destruct (negb _); auto. destruct (assocN a ws); auto. rewrite Hwc. reflexivity.
Qed.
Lemma loop_ext m banks : forall s, loop fcal e m s banks = loop fcal e' m s banks.
Proof.
  induction banks as [|b t IH]; intros s; cbn [loop]; auto.
  assert (E : step fcal e m s b = step fcal e' m s b).
  { destruct b; cbn [step]; auto. rewrite step_wire_ext. reflexivity. }
  rewrite E. destruct (step fcal e' m s b); cbn [bind]; auto.
Qed.
Lemma chan_loop_ext m p l : forall s, chan_loop fcal e m p s l = chan_loop fcal e' m p s l.
Proof.
  induction l as [|x t IH]; intros s; cbn [chan_loop]; auto.
  assert (E : step_chan fcal e m p s x = step_chan fcal e' m p s x).
  { unfold step_chan. destruct (fst x); auto. destruct (unwrap _); cbn [bind]; auto. rewrite Hpp.
    destruct (pad_pos e' _ _ c) as [|[col r]]; auto. destruct (negb _); auto. destruct (mem2 _ _); auto.
    rewrite Hpc. reflexivity. }
  rewrite E. destruct (step_chan fcal e' m p s x); cbn [bind]; auto.
Qed.
Lemma group_loop_ext m gs : forall s, group_loop fcal e m s gs = group_loop fcal e' m s gs.
Proof.
  induction gs as [|cs t IH]; intros s; cbn [group_loop]; auto.
  assert (E : step_group fcal e m s cs = step_group fcal e' m s cs).
  { unfold step_group. rewrite Hre. destruct (reasm e' cs); auto. apply chan_loop_ext. }
  rewrite E. destruct (step_group fcal e' m s cs); cbn [bind]; auto.
Qed.
Lemma build_ext m order banks : build fcal e m order banks = build fcal e' m order banks.
Proof.
  unfold build. rewrite loop_ext. destruct (loop fcal e' m st0 banks); cbn [bind]; auto.
  rewrite group_loop_ext. reflexivity.
Qed.
End Ext.

(* a build with overflow checks and one without behave identically, decoders included (C09) *)
Theorem e2e_build_no_wrap run banks order : Forall bytes (map snd banks) ->
  try_from_banks_model Checked run banks order = try_from_banks_model Wrapping run banks order.
Proof.
  intros H. unfold E2E.try_from_banks_model.
  rewrite (build_no_wrap_lemma FT fcal (env_e2e_m Checked run) order (decode_banks_m Checked banks)
             (e2e_env_typed_m Checked run) (e2e_banks_typed_m Checked banks H)).
  rewrite (decode_banks_mode banks H).
  apply build_ext; cbn [E2E.env_e2e_m wire_pos pad_pos wire_cal pad_cal reasm]; auto.
  apply reasm_e2e_mode.
Qed.

(* the mode parameter of the environment and of the bank decoder is immaterial *)
Theorem e2e_mode_irrelevant m run banks order : Forall bytes (map snd banks) ->
  try_from_banks_model m run banks order =
  build fcal (env_e2e run) m order (map (fun nd => decode_bank (fst nd) (snd nd)) banks).
Proof.
  intros H. destruct m; [reflexivity|]. unfold E2E.try_from_banks_model, E2E.env_e2e.
  change (map (fun nd => decode_bank (fst nd) (snd nd)) banks) with (decode_banks_m Checked banks).
  rewrite (decode_banks_mode banks H).
  apply build_ext; cbn [E2E.env_e2e_m wire_pos pad_pos wire_cal pad_cal reasm]; auto.
  intros cs. symmetry. apply reasm_e2e_mode.
Qed.

(* ------------------------------------------------------------------ (c) the run's wire map is one-to-one (C08) *)
Theorem e2e_wire_pos_injective m run : wire_pos_injective (env_e2e_m m run).
Proof.
  intros b c b' c' w H H'. cbn [E2E.env_e2e_m wire_pos] in H, H'.
  destruct (Maps.wire_position run b c) eqn:E; cbn in H; try discriminate. inv H.
  destruct (Maps.wire_position run b' c') eqn:E'; cbn in H'; try discriminate. inv H'.
  eapply wire_position_inj; eauto.
Qed.

(* ------------------------------------------------------------------ reassembly is arrival-order independent (C04) *)
Lemma chunks_of_views_perm m cs cs' : Permutation cs cs' -> forall ks, chunks_of_views m cs = Some ks ->
  exists ks', chunks_of_views m cs' = Some ks' /\ Permutation ks ks'.
Proof.
  induction 1 as [|c t t' P IH|c d t|a b c P1 IH1 P2 IH2]; intros ks H.
  - exists ks. split; [exact H|apply Permutation_refl].
  - cbn [chunks_of_views] in *.
    destruct (Chunk.chunk_decode pwb_devices m (bytes_of_uid (c_uid c))) as [k| |]; try discriminate.
    destruct (chunks_of_views m t) as [ks0|] eqn:E; [|discriminate]. inv H.
    destruct (IH ks0 eq_refl) as (ks1 & E1 & P1). rewrite E1. exists (k :: ks1). split; [reflexivity|].
    apply perm_skip; auto.
  - cbn [chunks_of_views] in *.
    destruct (Chunk.chunk_decode pwb_devices m (bytes_of_uid (c_uid d))) as [kd| |]; try discriminate.
    destruct (Chunk.chunk_decode pwb_devices m (bytes_of_uid (c_uid c))) as [kc| |];
      [|destruct (chunks_of_views m t); discriminate|destruct (chunks_of_views m t); discriminate].
    destruct (chunks_of_views m t) as [ks0|]; [|discriminate]. inv H.
    exists (kc :: kd :: ks0). split; [reflexivity|apply perm_swap].
  - destruct (IH1 ks H) as (k1 & E1 & Q1). destruct (IH2 k1 E1) as (k2 & E2 & Q2).
    exists k2. split; [exact E2|eapply Permutation_trans; eauto].
Qed.

Theorem e2e_reasm_perm m run : reasm_perm (env_e2e_m m run).
Proof.
  intros cs cs' P. cbn [E2E.env_e2e_m reasm]. unfold reasm_e2e.
  destruct (chunks_of_views m cs) as [ks|] eqn:E.
  - destruct (chunks_of_views_perm m cs cs' P ks E) as (ks' & E' & Q). rewrite E'.
    rewrite (Reasm_proofs.reasm_perm pwb_devices m Pwb.pwb (Pwb.pwb_decode pwb_macs m) Reasm.isort_by_id
               Reasm.isort_by_id ks ks' Reasm_proofs.isort_admissible Reasm_proofs.isort_admissible
               (chunks_of_views_ok m cs ks E) Q). reflexivity.
  - destruct (chunks_of_views m cs') as [ks'|] eqn:E'; [|reflexivity].
    destruct (chunks_of_views_perm m cs' cs (Permutation_sym P) ks' E') as (ks & E2 & _). congruence.
Qed.

(* ------------------------------------------------------------------ C11 for the composed model *)
Theorem e2e_build_perm_invariant m run banks banks' order order' :
  Forall bytes (map snd banks) -> Permutation banks banks' -> is_order order -> is_order order' ->
  is_ok (try_from_banks_model m run banks order) = is_ok (try_from_banks_model m run banks' order') /\
  (forall ev ev', try_from_banks_model m run banks order = Ok ev ->
                  try_from_banks_model m run banks' order' = Ok ev' -> ev_eq ev ev').
Proof.
  intros H P O O'. unfold E2E.try_from_banks_model.
  apply build_perm_invariant_lemma; auto using e2e_env_typed_m, e2e_banks_typed_m, e2e_wire_pos_injective, e2e_reasm_perm.
  unfold decode_banks_m. apply Permutation_map. exact P.
Qed.
Theorem e2e_group_order_irrelevant m run banks order order' :
  Forall bytes (map snd banks) -> is_order order -> is_order order' ->
  is_ok (try_from_banks_model m run banks order) = is_ok (try_from_banks_model m run banks order') /\
  (forall ev ev', try_from_banks_model m run banks order = Ok ev ->
                  try_from_banks_model m run banks order' = Ok ev' -> ev_eq ev ev').
Proof.
  intros H O O'. unfold E2E.try_from_banks_model.
  apply group_order_irrelevant_lemma; auto using e2e_env_typed_m, e2e_banks_typed_m, e2e_wire_pos_injective.
Qed.

(* ------------------------------------------------------------------ C10 for the composed model *)
Theorem e2e_build_sound m run banks order ev : Forall bytes (map snd banks) -> is_order order ->
  try_from_banks_model m run banks order = Ok ev ->
  event_spec fcal (env_e2e_m m run) (decode_banks_m m banks) ev.
Proof.
  intros H O B. eapply build_sound; eauto using e2e_env_typed_m, e2e_banks_typed_m.
Qed.
Theorem e2e_build_spec_iff m run banks ev : Forall bytes (map snd banks) ->
  ((exists order ev', is_order order /\ try_from_banks_model m run banks order = Ok ev' /\ ev_eq ev' ev) <->
   event_spec fcal (env_e2e_m m run) (decode_banks_m m banks) ev).
Proof.
  intros H. unfold E2E.try_from_banks_model.
  apply build_spec_iff_lemma; auto using e2e_env_typed_m, e2e_banks_typed_m, e2e_wire_pos_injective.
Qed.

Lemma in_decoded m banks n d : In (n, d) banks -> In (decode_bank_m m n d) (decode_banks_m m banks).
Proof. intros I. unfold decode_banks_m. apply (in_map (fun nd => decode_bank_m m (fst nd) (snd nd)) _ _ I). Qed.
Lemma decoded_split m l1 l2 l3 x y :
  decode_banks_m m (l1 ++ x :: l2 ++ y :: l3) =
  decode_banks_m m l1 ++ decode_bank_m m (fst x) (snd x) :: decode_banks_m m l2 ++ decode_bank_m m (fst y) (snd y)
    :: decode_banks_m m l3.
Proof. unfold decode_banks_m. rewrite map_app. cbn [map]. rewrite map_app. reflexivity. Qed.

(* the rejection causes of the property text, on the RAW banks: name bytes and data bytes *)
Section Rejections.
Variables (m : ovf) (run : N) (banks : list (list N * list N)) (order : list (list chunkv) -> list (list chunkv)).
Hypothesis Hb : Forall bytes (map snd banks).
Hypothesis O : is_order order.
Notation rejected := (exists k, try_from_banks_model m run banks order = Err k).
Notation T := (e2e_env_typed_m m run).
Notation B := (e2e_banks_typed_m m banks Hb).
Notation E := (env_e2e_m m run).
Notation D := (decode_banks_m m banks).

Lemma e2e_reject_unknown_name n d : In (n, d) banks -> (forall k, Names.parse_main n <> Ok k) -> rejected.
Proof.
  intros I U. apply (reject_unknown_name FT fcal E m order D T B O).
  apply (in_decoded m) in I. unfold decode_bank_m in I.
  destruct (Names.parse_main n) as [k| |]; [exfalso; eapply U; eauto | exact I | exact I].
Qed.
Lemma e2e_reject_malformed_wire_payload n d b c : In (n, d) banks -> Names.parse_main n = Ok (Names.KAdc32 b c) ->
  (forall f, Adc.adc_decode adc_macs m d <> Ok f) -> rejected.
Proof.
  intros I P U. apply (reject_malformed_wire FT fcal E m order D T B O b c).
  apply (in_decoded m) in I. unfold decode_bank_m, adc_view in I. rewrite P in I.
  destruct (Adc.adc_decode adc_macs m d) as [f| |]; [exfalso; eapply U; eauto | exact I | exact I].
Qed.
Lemma e2e_reject_bv_channel_in_wire_bank n d b c f : In (n, d) banks -> Names.parse_main n = Ok (Names.KAdc32 b c) ->
  Adc.adc_decode adc_macs m d = Ok f -> Adc.a_chan f < 128 -> rejected.
Proof.
  intros I P A L. apply (in_decoded m) in I. unfold decode_bank_m, adc_view in I. rewrite P, A in I.
  apply (reject_bv_channel FT fcal E m order D T B O b c (adcv_of f) (Adc.a_chan f) I).
  unfold adcv_of; cbn [a_chan]. apply N.ltb_lt in L. rewrite L. reflexivity.
Qed.
Lemma e2e_reject_wire_channel_mismatch n d b c f : In (n, d) banks -> Names.parse_main n = Ok (Names.KAdc32 b c) ->
  Adc.adc_decode adc_macs m d = Ok f -> 128 <= Adc.a_chan f -> Adc.a_chan f - 128 <> c -> rejected.
Proof.
  intros I P A L Ne. apply (in_decoded m) in I. unfold decode_bank_m, adc_view in I. rewrite P, A in I.
  apply (reject_channel_mismatch FT fcal E m order D T B O b c (adcv_of f) (Adc.a_chan f - 128) I); [|exact Ne].
  unfold adcv_of; cbn [a_chan]. apply N.ltb_ge in L. rewrite L. reflexivity.
Qed.
Lemma e2e_reject_wire_board_mismatch n d b c f lg b' : In (n, d) banks -> Names.parse_main n = Ok (Names.KAdc32 b c) ->
  Adc.adc_decode adc_macs m d = Ok f -> Adc.a_long f = Some lg -> a16_row_of_mac (Adc.al_mac lg) = Some b' -> b' <> b ->
  rejected.
Proof.
  intros I P A L R Ne. apply (in_decoded m) in I. unfold decode_bank_m, adc_view in I. rewrite P, A in I.
  apply (reject_board_mismatch FT fcal E m order D T B O b c (adcv_of f) b' I); [|exact Ne].
  unfold adcv_of; cbn [a_board]. rewrite L. exact R.
Qed.
Lemma e2e_reject_duplicate_wire_bank l1 l2 l3 n d1 d2 b c : banks = l1 ++ (n, d1) :: l2 ++ (n, d2) :: l3 ->
  Names.parse_main n = Ok (Names.KAdc32 b c) -> rejected.
Proof.
  intros S P.
  apply (reject_duplicate_wire FT fcal E m order D T B O (decode_banks_m m l1) (decode_banks_m m l2)
           (decode_banks_m m l3) b c (adc_view m d1) (adc_view m d2)).
  rewrite S, decoded_split. cbn [fst snd]. unfold decode_bank_m. rewrite P. reflexivity.
Qed.
Lemma e2e_reject_missing_wire_map n d b c f lg : In (n, d) banks -> Names.parse_main n = Ok (Names.KAdc32 b c) ->
  Adc.adc_decode adc_macs m d = Ok f -> Adc.a_long f = Some lg -> Adc.al_wave lg <> [] ->
  (forall w, Maps.wire_position run b c <> Ok w) -> rejected.
Proof.
  intros I P A L W U. apply (in_decoded m) in I. unfold decode_bank_m, adc_view in I. rewrite P, A in I.
  apply (reject_missing_wire_map FT fcal E m order D T B O b c (adcv_of f) I).
  - unfold adcv_of; cbn [a_wf]. rewrite L. exact W.
  - cbn [E2E.env_e2e_m wire_pos]. destruct (Maps.wire_position run b c) as [w| |]; [exfalso; eapply U; eauto | |]; reflexivity.
Qed.
Lemma e2e_reject_missing_wire_calibration n d b c f lg w : In (n, d) banks -> Names.parse_main n = Ok (Names.KAdc32 b c) ->
  Adc.adc_decode adc_macs m d = Ok f -> Adc.a_long f = Some lg -> Adc.al_wave lg <> [] ->
  Maps.wire_position run b c = Ok w -> wire_cal_e2e run w = DErr -> rejected.
Proof.
  intros I P A L W Q C. apply (in_decoded m) in I. unfold decode_bank_m, adc_view in I. rewrite P, A in I.
  apply (reject_missing_wire_calibration FT fcal E m order D T B O b c (adcv_of f) w I).
  - unfold adcv_of; cbn [a_wf]. rewrite L. exact W.
  - cbn [E2E.env_e2e_m wire_pos]. rewrite Q. reflexivity.
  - exact C.
Qed.
Lemma e2e_reject_malformed_chunk n d b : In (n, d) banks -> Names.parse_main n = Ok (Names.KPwb b) ->
  (forall c, Chunk.chunk_decode pwb_devices m d <> Ok c) -> rejected.
Proof.
  intros I P U. apply (reject_malformed_chunk FT fcal E m order D T B O b).
  apply (in_decoded m) in I. unfold decode_bank_m, chunk_view in I. rewrite P in I.
  destruct (Chunk.chunk_decode pwb_devices m d) as [c| |]; [exfalso; eapply U; eauto | exact I | exact I].
Qed.
Lemma e2e_reject_pad_board_mismatch n d b c : In (n, d) banks -> Names.parse_main n = Ok (Names.KPwb b) ->
  Chunk.chunk_decode pwb_devices m d = Ok c -> row_or_none (pwb_row_of_dev (Chunk.c_dev c)) <> b -> rejected.
Proof.
  intros I P A Ne. apply (in_decoded m) in I. unfold decode_bank_m, chunk_view in I. rewrite P, A in I.
  apply (reject_pad_board_mismatch FT fcal E m order D T B O b (chunkv_of d c) I). exact Ne.
Qed.
Lemma e2e_reject_malformed_pwb_packet k0 : In k0 (gkeys D) -> reasm_e2e m (group k0 D) = DErr -> rejected.
Proof. exact (reject_malformed_pwb_packet FT fcal E m order D T B O k0). Qed.
Lemma e2e_reject_missing_pad_map k0 p pc wf : In k0 (gkeys D) -> reasm_e2e m (group k0 D) = DOk p ->
  In (Pad pc, wf) (p_sent p) -> (forall pos, Maps.pad_position run (p_board p) (p_chip p) pc <> Ok pos) -> rejected.
Proof.
  intros I R S U. apply (reject_missing_pad_map FT fcal E m order D T B O k0 p pc wf I R S).
  cbn [E2E.env_e2e_m pad_pos]. destruct (Maps.pad_position run (p_board p) (p_chip p) pc); [exfalso; eapply U; eauto | |]; reflexivity.
Qed.
Lemma e2e_reject_missing_pad_calibration k0 p pc wf c r : In k0 (gkeys D) -> reasm_e2e m (group k0 D) = DOk p ->
  In (Pad pc, wf) (p_sent p) -> Maps.pad_position run (p_board p) (p_chip p) pc = Ok (c, r) ->
  pad_cal_e2e run c r = DErr -> rejected.
Proof.
  intros I R S Q C. apply (reject_missing_pad_calibration FT fcal E m order D T B O k0 p pc wf c r I R S); [|exact C].
  cbn [E2E.env_e2e_m pad_pos]. rewrite Q. reflexivity.
Qed.
Lemma e2e_reject_duplicate_pad_signal : ~ NoDup (pad_claims E D) -> rejected.
Proof. exact (reject_duplicate_pad FT fcal E m order D T B O). Qed.
Lemma e2e_reject_malformed_trg n d : In (n, d) banks -> Names.parse_main n = Ok Names.KTrg ->
  (forall t, Trg.trg_decode d <> Ok t) -> rejected.
Proof.
  intros I P U. apply (reject_malformed_trg FT fcal E m order D T B O).
  apply (in_decoded m) in I. unfold decode_bank_m, trg_view in I. rewrite P in I.
  destruct (Trg.trg_decode d) as [t| |]; [exfalso; eapply U; eauto | exact I | exact I].
Qed.
Lemma e2e_reject_duplicate_trg l1 l2 l3 n d1 d2 : banks = l1 ++ (n, d1) :: l2 ++ (n, d2) :: l3 ->
  Names.parse_main n = Ok Names.KTrg -> rejected.
Proof.
  intros S P.
  apply (reject_duplicate_trg FT fcal E m order D T B O (decode_banks_m m l1) (decode_banks_m m l2)
           (decode_banks_m m l3) (trg_view d1) (trg_view d2)).
  rewrite S, decoded_split. cbn [fst snd]. unfold decode_bank_m. rewrite P. reflexivity.
Qed.
Lemma e2e_reject_missing_trg : (forall n d, In (n, d) banks -> Names.parse_main n <> Ok Names.KTrg) -> rejected.
Proof.
  intros U. apply (reject_missing_trg FT fcal E m order D T B O). intros t I.
  unfold decode_banks_m in I. apply in_map_iff in I as ([n d] & Q & I). cbn [fst snd] in Q.
  specialize (U n d I). unfold decode_bank_m in Q.
  destruct (Names.parse_main n) as [k| |]; try discriminate. destruct k; try discriminate. apply U. reflexivity.
Qed.
End Rejections.

(* ------------------------------------------------------------------ no component panics: mapping Panic to DErr hides nothing *)
Lemma wire_position_no_panic run b ch : ch < 32 -> Maps.wire_position run b ch <> Panic.
Proof.
  intros Hc. destruct (Maps.wire_dispatch run) as [id|] eqn:D.
  2:{ unfold Maps.wire_position. rewrite D. cbn. discriminate. }
  destruct (Maps_proofs.wire_map_bijective_lemma run id D) as (T & _ & S).
  destruct (S 0) as (b0 & ch0 & _ & _ & E0); [reflexivity|].
  assert (X : In b (Maps.wire_boards (fst id)) \/ forall pm, Names.nthN Gen.WireMaps.preamp_tables (fst id) = Some pm ->
              Maps.hm_get Maps.opt_eqb (Some b) (Maps.preamp_rows pm) None = None).
  { unfold Maps.wire_boards. destruct (Names.nthN Gen.WireMaps.preamp_tables (fst id)) as [pm|]; [|right; discriminate].
    destruct (Maps.hm_get Maps.opt_eqb (Some b) (Maps.preamp_rows pm) None) as [pp|] eqn:G.
    - left. apply hm_get_some in G as [G|(k' & I' & Q)]; [discriminate|].
      unfold Maps.preamp_rows in I'. apply in_map_iff in I' as (r & E & Hr). inv E.
      unfold Maps.opt_eqb in Q. destruct (Names.find_a16 (fst r)) as [b'|] eqn:F; [|discriminate].
      apply N.eqb_eq in Q. subst b'. apply in_flat_map. exists r. split; [exact Hr|]. rewrite F. left; reflexivity.
    - right. intros pm' Q. inv Q. exact G. }
  destruct X as [Hb|Hn].
  - destruct (T b ch Hb Hc) as (w & E & _). rewrite E. discriminate.
  - unfold Maps.wire_position, Maps.wire_position_d in *. rewrite D in *. destruct id as [p c]. cbn [fst] in Hn.
    destruct (Names.nthN Gen.WireMaps.preamp_tables p) as [pm|]; [|discriminate]. cbn [unwrap bind] in *.
    destruct (Names.nthN Gen.WireMaps.channel_tables c) as [cm|]; [|discriminate]. cbn [unwrap bind] in *.
    unfold Maps.wire_position_in in *. destruct (negb (Maps.preamp_keys_ok pm)); [discriminate|].
    rewrite (Hn pm eq_refl). cbn. discriminate.
Qed.

Lemma pad_position_no_panic run b a ch : a <= 3 -> 1 <= ch <= 72 -> Maps.pad_position run b a ch <> Panic.
Proof.
  intros Ha Hch. destruct (Maps.pwb_dispatch run) as [t|] eqn:D.
  2:{ unfold Maps.pad_position. rewrite D. cbn. discriminate. }
  destruct (Maps_proofs.pad_map_bijective_lemma run t D) as (L & T & _ & _).
  assert (Ia : In a Gen.PadMaps.gen_after_ids).
  { change Gen.PadMaps.gen_after_ids with [0; 1; 2; 3]. cbn. lia. }
  assert (Ic : In ch Maps.pad_channels) by (apply Maps_proofs.In_pad_channels; exact Hch).
  destruct (Maps.pwb_installed t) as [|b0 rest] eqn:Inst; [cbn in L; discriminate|].
  destruct (T b0 a ch (or_introl eq_refl) Ia Ic) as (c0 & w0 & E0 & _).
  assert (X : In b (b0 :: rest) \/ forall tbl, Names.nthN Gen.PadMaps.pwb_tables t = Some tbl ->
              Maps.hm_get Maps.opt_eqb (Some b) (Maps.pwb_rows tbl) None = None).
  { rewrite <- Inst. unfold Maps.pwb_installed. destruct (Names.nthN Gen.PadMaps.pwb_tables t) as [tbl|]; [|right; discriminate].
    destruct (Maps.hm_get Maps.opt_eqb (Some b) (Maps.pwb_rows tbl) None) as [bp|] eqn:G.
    - left. apply hm_get_some in G as [G|(k' & I' & Q)]; [discriminate|].
      unfold Maps.opt_eqb in Q. destruct k' as [b'|]; [|discriminate]. apply N.eqb_eq in Q. subst b'.
      apply in_flat_map. exists (Some b, bp). split; [exact I'|]. left; reflexivity.
    - right. intros tbl' Q. inv Q. exact G. }
  destruct X as [Hb|Hn].
  - destruct (T b a ch Hb Ia Ic) as (c & w & E & _). rewrite E. discriminate.
  - unfold Maps.pad_position, Maps.pad_position_d, Maps.pad_position_c, Maps.pad_ctx in *. rewrite D in *.
    destruct (Names.nthN Gen.PadMaps.pwb_tables t) as [tbl|]; [|discriminate]. cbn [unwrap bind] in *.
    unfold Maps.pwb_map in *. destruct (negb (Maps.pwb_rows_ok tbl)); [discriminate|]. cbn [bind] in *.
    unfold Maps.pwb_position_in at 1. rewrite (Hn tbl eq_refl). cbn. discriminate.
Qed.

Theorem e2e_components_never_panic m :
  (forall name, Names.utf8b name = true -> Names.parse_main name <> Panic) /\
  (forall data, bytes data -> Adc.adc_decode adc_macs m data <> Panic /\
                              Chunk.chunk_decode pwb_devices m data <> Panic /\ Trg.trg_decode data <> Panic) /\
  (forall cs ks, chunks_of_views m cs = Some ks ->
     Reasm.reasm pwb_devices m Reasm.isort_by_id Pwb.pwb (Pwb.pwb_decode pwb_macs m) ks <> Panic) /\
  (forall f c, Pwb.pwb_fields_ok pwb_macs f -> In c (Pwb.p_sent f) -> exists w, Pwb.waveform_at m f c = Ok (Some w)) /\
  (forall run b ch, ch < 32 -> Maps.wire_position run b ch <> Panic) /\
  (forall run b a ch, a <= 3 -> 1 <= ch <= 72 -> Maps.pad_position run b a ch <> Panic).
Proof.
  split; [intros name U; apply (Names_proofs.names_total_lemma name U)|].
  split; [intros data Hb; split; [apply Adc_proofs.adc_total_lemma; auto|
                                  split; [apply Chunk_proofs.chunk_total_lemma; auto|apply Trg_proofs.trg_total_lemma; auto]]|].
  split.
  { intros cs ks E. apply Reasm_proofs.reasm_total; [apply Reasm_proofs.isort_admissible|eapply chunks_of_views_ok; eauto|].
    intros l Hl. apply Pwb_proofs.pwb_total_lemma; auto. }
  split.
  { intros f c Hok Hc. destruct (Pwb_proofs.waveform_at_block_lemma pwb_macs m f c Hok Hc) as (k & w & _ & _ & Hat & _).
    exists w. exact Hat. }
  split; [intros; apply wire_position_no_panic; auto | intros; apply pad_position_no_panic; auto].
Qed.

(* the maps are only asked about channels in those ranges *)
Lemma adc_view_chan m d p c : bytes d -> adc_view m d = DOk p -> a_chan p = A32 c -> c < 32.
Proof.
  unfold adc_view. intros Hb H. destruct (Adc.adc_decode adc_macs m d) as [f| |] eqn:E; try discriminate. inv H.
  apply (Adc_proofs.adc_exact_lemma adc_macs m d f Hb) in E. destruct E as [(_ & _ & R & _) _].
  unfold adcv_of; cbn [a_chan]. destruct (Adc.a_chan f <? 128) eqn:Q; intros X; inv X. apply N.ltb_ge in Q. lia.
Qed.
Lemma reasm_e2e_args m cs p : reasm_e2e m cs = DOk p ->
  p_chip p <= 3 /\ forall pc wf, In (Pad pc, wf) (p_sent p) -> 1 <= pc <= 72.
Proof.
  intros H. apply reasm_e2e_ok in H as (ks & f & _ & _ & -> & Hok).
  destruct Hok as (C & _ & _ & _ & _ & _ & _ & _ & _ & [V _] & _). split; [exact C|].
  intros pc wf I. unfold pwbv_of in I; cbn [p_sent] in I. apply in_map_iff in I as (c & E & Hc).
  rewrite Forall_forall in V. specialize (V _ Hc).
  destruct Pwb_proofs.readout_bijection_lemma as (_ & _ & _ & _ & RB & _). apply RB in V.
  destruct c; cbn in E; inv E. exact V.
Qed.
End Generic.
