(* Proofs about the end-to-end model Event/E2E.v: the typing hypotheses of the Event theorems are discharged from
   the decoder / map / calibration theorems, and the event theorems are restated for the composed model. *)
From Coq Require Import Floats Permutation Sorted.
From AG Require Import Base.Prelude Base.Res Base.Bytes Ident.Dispatch Gen.Boards Ident.Tables Gen.Calib.
From AG Require Gen.WireMaps Gen.PadMaps.
From AG Require Codec.Adc Codec.Adc_proofs Codec.Chunk Codec.Chunk_proofs Codec.Reasm Codec.Reasm_proofs
  Codec.Pwb Codec.Pwb_proofs Codec.Trg Codec.Trg_proofs Ident.Names Ident.Names_proofs Ident.Maps Ident.Maps_proofs.
From AG Require Import Event.Event Event.EventSpec Event.Event_proofs Event.EventSpec_proofs Event.EventThm_proofs
  Event.EventF64 Event.E2E.

(* ------------------------------------------------------------------ the chunk identity is injective on bytes *)
Ltac split_pos p n :=
  match n with
  | O => idtac
  | S ?k => destruct p as [p|p|]; [split_pos p k | split_pos p k | ]
  end.

Lemma push_byte_spec b acc : b < 256 -> group8 (pbits (push_byte b acc)) = b :: group8 (pbits acc).
Proof.
  intros H. destruct b as [|p]; [reflexivity|].
  split_pos p 8%nat; try reflexivity; exfalso; lia.
Qed.

Lemma bytes_of_uid_of_bytes l : bytes l -> bytes_of_uid (uid_of_bytes l) = l.
Proof.
  unfold bytes_of_uid, uid_of_bytes. induction 1 as [|b t Hb Ht IH]; [reflexivity|].
  cbn [fold_right]. rewrite push_byte_spec by exact Hb. rewrite IH. reflexivity.
Qed.

Lemma group8_bytes_n n : forall l, (length l <= n)%nat -> bytes (group8 l).
Proof.
  induction n as [|n IH]; intros l H.
  - destruct l; [constructor | cbn in H; lia].
  - destruct l as [|b0 [|b1 [|b2_ [|b3 [|b4 [|b5 [|b6 [|b7 t]]]]]]]]; try (cbn; constructor).
    + unfold byte, b2. destruct b0, b1, b2_, b3, b4, b5, b6, b7; cbn; lia.
    + apply IH. cbn in H. lia.
Qed.
Lemma bytes_of_uid_bytes u : bytes (bytes_of_uid u).
Proof. destruct u as [|p]; [constructor|]. cbn. eapply group8_bytes_n. apply Nat.le_refl. Qed.

(* ------------------------------------------------------------------ decoded banks are typed (C02) *)
Lemma adc_view_typed m data p : bytes data -> adc_view m data = DOk p -> Forall i16 (a_wf p).
Proof.
  unfold adc_view. intros Hb H.
  destruct (Adc.adc_decode adc_macs m data) as [f| |] eqn:E; try discriminate.
  inv H. apply (Adc_proofs.adc_exact_lemma adc_macs m data f Hb) in E.
  destruct E as [(_ & _ & _ & _ & _ & _ & HL) _].
  unfold adcv_of; cbn [a_wf]. destruct (Adc.a_long f) as [lg|]; [|constructor].
  destruct HL as (_ & _ & _ & _ & _ & _ & W & _). exact W.
Qed.

Theorem e2e_banks_typed_m m banks : Forall bytes (map snd banks) -> banks_typed (decode_banks_m m banks).
Proof.
  unfold banks_typed, decode_banks_m. intros H. apply Forall_forall. intros b Hb.
  apply in_map_iff in Hb as ([n d] & E & I). subst b. rewrite Forall_forall in H.
  specialize (H d (in_map snd _ _ I)). cbn [fst snd]. unfold decode_bank_m.
  destruct (Names.parse_main n) as [k| |]; cbn; auto. destruct k; cbn; auto.
  destruct (adc_view m d) eqn:E; auto. eapply adc_view_typed; eauto.
Qed.

(* ------------------------------------------------------------------ maps (C08) *)
Lemma hm_get_some {K V} (eqb : K -> K -> bool) k (rows : list (K * V)) : forall acc v,
  Maps.hm_get eqb k rows acc = Some v -> acc = Some v \/ exists k', In (k', v) rows /\ eqb k k' = true.
Proof.
  induction rows as [|[k' v'] r IH]; cbn; intros acc v H; [auto|].
  apply IH in H. destruct H as [H|(k'' & I & E)].
  - destruct (eqb k k') eqn:Q; [inv H; right; exists k'; auto | auto].
  - right; exists k''; auto.
Qed.

Lemma channel_tables_len c cm : Names.nthN Gen.WireMaps.channel_tables c = Some cm -> lenN cm = 32.
Proof.
  assert (F : forallb (fun cm => lenN cm =? 32) Gen.WireMaps.channel_tables = true) by (vm_compute; reflexivity).
  intros H. apply nth_error_In in H. rewrite forallb_forall in F. apply N.eqb_eq. apply F. exact H.
Qed.

Lemma wire_position_domain run b ch w : Maps.wire_position run b ch = Ok w ->
  exists id, Maps.wire_dispatch run = Some id /\ In b (Maps.wire_boards (fst id)) /\ ch < 32.
Proof.
  unfold Maps.wire_position, Maps.wire_position_d.
  destruct (Maps.wire_dispatch run) as [[p c]|] eqn:D; [|discriminate].
  intros H. exists (p, c). split; [reflexivity|]. cbn [fst]. unfold Maps.wire_boards.
  destruct (Names.nthN Gen.WireMaps.preamp_tables p) as [pm|] eqn:Ep; [|discriminate]. cbn [unwrap bind] in H.
  destruct (Names.nthN Gen.WireMaps.channel_tables c) as [cm|] eqn:Ec; [|discriminate]. cbn [unwrap bind] in H.
  unfold Maps.wire_position_in in H. destruct (negb (Maps.preamp_keys_ok pm)); [discriminate|].
  destruct (Maps.hm_get Maps.opt_eqb (Some b) (Maps.preamp_rows pm) None) as [pp|] eqn:G; [|discriminate].
  cbn [or_err bind] in H.
  destruct (idx cm ch) as [mc| |] eqn:I; try discriminate. split.
  - apply hm_get_some in G as [G|(k' & I' & Q)]; [discriminate|].
    unfold Maps.preamp_rows in I'. apply in_map_iff in I' as (r & E & Hr). inv E.
    unfold Maps.opt_eqb in Q. destruct (Names.find_a16 (fst r)) as [b'|] eqn:F; [|discriminate].
    apply N.eqb_eq in Q. subst b'. apply in_flat_map. exists r. split; [exact Hr|]. rewrite F. left; reflexivity.
  - pose proof (channel_tables_len c cm Ec) as L. unfold idx in I.
    destruct (nth_error cm (N.to_nat ch)) eqn:Nn; [|discriminate].
    assert (N.to_nat ch < length cm)%nat by (apply nth_error_Some; congruence).
    unfold lenN in L. lia.
Qed.

Lemma wire_position_lt run b ch w : Maps.wire_position run b ch = Ok w -> w < 256.
Proof.
  intros H. destruct (wire_position_domain run b ch w H) as (id & D & Hb & Hc).
  destruct (Maps_proofs.wire_map_bijective_lemma run id D) as (T & _ & _).
  destruct (T b ch Hb Hc) as (w' & E & L). rewrite H in E. inv E. exact L.
Qed.

Lemma wire_position_inj run b ch b' ch' w :
  Maps.wire_position run b ch = Ok w -> Maps.wire_position run b' ch' = Ok w -> (b, ch) = (b', ch').
Proof.
  intros H H'. destruct (wire_position_domain run b ch w H) as (id & D & Hb & Hc).
  destruct (wire_position_domain run b' ch' w H') as (id' & D' & Hb' & Hc').
  rewrite D in D'. inv D'.
  destruct (Maps_proofs.wire_map_bijective_lemma run id' D) as (_ & J & _).
  destruct (J b ch b' ch' Hb Hb' Hc Hc') as [-> ->]; [congruence | reflexivity].
Qed.

Lemma pad_position_range run b a ch col row : Maps.pad_position run b a ch = Ok (col, row) -> col < 32 /\ row < 576.
Proof.
  unfold Maps.pad_position, Maps.pad_position_d, Maps.pad_position_c. intros H.
  apply bind_ok in H as (mp & _ & H). apply bind_ok in H as (bp & _ & H). apply bind_ok in H as (pp & _ & H).
  unfold Maps.pad_combine in H.
  destruct (fst bp * Gen.PadMaps.gen_PWB_PAD_COLUMNS + fst pp <? Gen.PadMaps.gen_TPC_PAD_COLUMNS) eqn:A;
    cbn [negb] in H; [|discriminate].
  destruct (snd bp * Gen.PadMaps.gen_PWB_PAD_ROWS + snd pp <? Gen.PadMaps.gen_TPC_PAD_ROWS) eqn:B;
    cbn [negb] in H; [|discriminate].
  inv H. apply N.ltb_lt in A, B.
  assert (Gen.PadMaps.gen_TPC_PAD_COLUMNS = 32) as E1 by reflexivity.
  assert (Gen.PadMaps.gen_TPC_PAD_ROWS = 576) as E2 by reflexivity.
  rewrite E1 in A. rewrite E2 in B. auto.
Qed.

(* ------------------------------------------------------------------ calibration: every tabulated baseline is an i16 *)
Definition zopt_i16 (o : option Z) : bool :=
  match o with Some z => ((-32768 <=? z) && (z <=? 32767))%Z | None => true end.
Lemma wire_baselines_i16 : forallb (forallb zopt_i16) wire_baseline_tables = true.
Proof. vm_compute. reflexivity. Qed.
Lemma pad_baselines_i16 : forallb (forallb (forallb zopt_i16)) pad_baseline_tables = true.
Proof. vm_compute. reflexivity. Qed.

Lemma zopt_i16_spec z : zopt_i16 (Some z) = true -> i16 z.
Proof. unfold zopt_i16, i16. intros H. apply andb_true_iff in H as [A B]. apply Z.leb_le in A, B. lia. Qed.

Lemma lookup1_in {V} (tables : list (list (option V))) t i v :
  lookup1 tables t i = Some v -> exists tbl, In tbl tables /\ In (Some v) tbl.
Proof.
  unfold lookup1, nth_opt. destruct (nth_error tables (N.to_nat t)) as [tbl|] eqn:A; [|discriminate].
  destruct (nth_error tbl (N.to_nat i)) as [[x|]|] eqn:B; try discriminate. intros H; inv H.
  exists tbl. split; eapply nth_error_In; eauto.
Qed.
Lemma lookup2_in {V} (tables : list (list (list (option V)))) t c r v :
  lookup2 tables t c r = Some v -> exists tbl col, In tbl tables /\ In col tbl /\ In (Some v) col.
Proof.
  unfold lookup2, nth_opt. destruct (nth_error tables (N.to_nat t)) as [tbl|] eqn:A; [|discriminate].
  destruct (nth_error tbl (N.to_nat c)) as [col|] eqn:B; [|discriminate].
  destruct (nth_error col (N.to_nat r)) as [[x|]|] eqn:C; try discriminate. intros H; inv H.
  exists tbl, col. repeat split; eapply nth_error_In; eauto.
Qed.

Lemma wire_cal_i16 run w bl g dl : wire_cal_e2e run w = DOk (bl, g, dl) -> i16 bl.
Proof.
  unfold wire_cal_e2e. destruct (dispatch wire_baseline_arms run) as [bi|]; [|discriminate].
  destruct (dispatch wire_gain_arms run) as [gi|]; [|discriminate].
  destruct (dispatch wire_delay_arms run) as [d|]; [|discriminate].
  destruct (lookup1 wire_baseline_tables bi w) as [b|] eqn:L; [|discriminate].
  destruct (lookup1 wire_gain_tables gi w) as [g'|]; [|discriminate]. intros H; inv H.
  apply lookup1_in in L as (tbl & I1 & I2). pose proof wire_baselines_i16 as F.
  rewrite forallb_forall in F. specialize (F tbl I1). rewrite forallb_forall in F.
  apply zopt_i16_spec. apply F. exact I2.
Qed.
Lemma pad_cal_i16 run c r bl g dl : pad_cal_e2e run c r = DOk (bl, g, dl) -> i16 bl.
Proof.
  unfold pad_cal_e2e. destruct (dispatch pad_baseline_arms run) as [bi|]; [|discriminate].
  destruct (dispatch pad_gain_arms run) as [gi|]; [|discriminate].
  destruct (dispatch pad_delay_arms run) as [d|]; [|discriminate].
  destruct (lookup2 pad_baseline_tables bi c r) as [b|] eqn:L; [|discriminate].
  destruct (lookup2 pad_gain_tables gi c r) as [g'|]; [|discriminate]. intros H; inv H.
  apply lookup2_in in L as (tbl & col & I1 & I2 & I3). pose proof pad_baselines_i16 as F.
  rewrite forallb_forall in F. specialize (F tbl I1). rewrite forallb_forall in F.
  specialize (F col I2). rewrite forallb_forall in F.
  apply zopt_i16_spec. apply F. exact I3.
Qed.

(* ------------------------------------------------------------------ reassembly (C03, C04, C05) *)
Lemma chunks_of_views_ok m cs ks : chunks_of_views m cs = Some ks -> Forall (Chunk.chunk_ok pwb_devices) ks.
Proof.
  revert ks; induction cs as [|c t IH]; cbn [chunks_of_views]; intros ks H.
  - inv H. constructor.
  - destruct (Chunk.chunk_decode pwb_devices m (bytes_of_uid (c_uid c))) as [k| |] eqn:E; try discriminate.
    destruct (chunks_of_views m t) as [ks'|]; [|discriminate]. inv H. constructor; [|auto].
    eapply Reasm_proofs.decoded_chunk_ok; [apply bytes_of_uid_bytes | exact E].
Qed.

(* an accepted group: the chunks decode, reassemble, and the packet meets the field rules of C05 *)
Lemma reasm_e2e_ok m cs p : reasm_e2e m cs = DOk p ->
  exists ks f, chunks_of_views m cs = Some ks /\
    Reasm.reasm pwb_devices m Reasm.isort_by_id Pwb.pwb (Pwb.pwb_decode pwb_macs m) ks = Ok f /\
    p = pwbv_of m f /\ Pwb.pwb_fields_ok pwb_macs f.
Proof.
  unfold reasm_e2e. destruct (chunks_of_views m cs) as [ks|] eqn:E; [|discriminate].
  destruct (Reasm.reasm _ _ _ _ _ ks) as [f| |] eqn:R; try discriminate. intros H; inv H.
  exists ks, f. split; [reflexivity|]. split; [exact R|]. split; [reflexivity|].
  pose proof (chunks_of_views_ok m cs ks E) as Ho.
  apply (Reasm_proofs.reasm_ok_iff pwb_devices m Pwb.pwb (Pwb.pwb_decode pwb_macs m) Reasm.isort_by_id ks f
           Reasm_proofs.isort_admissible Ho) in R.
  destruct R as [_ D]. apply Pwb_proofs.pwb_exact_lemma in D; [apply D|].
  eapply Reasm_proofs.bytes_concat_by_id; eauto.
Qed.

Lemma ssorted_map_nodup {A} (f : A -> N) l : StronglySorted N.lt (map f l) -> NoDup l.
Proof.
  induction l as [|a t IH]; cbn; intros H; [constructor|]. inv H. constructor; [|auto].
  intros I. rewrite Forall_forall in H3. specialize (H3 (f a) (in_map f _ _ I)). lia.
Qed.
Lemma pchan_of_inj a b : pchan_of a = pchan_of b -> a = b.
Proof. destruct a, b; cbn; intros H; inv H; reflexivity. Qed.
Lemma nodup_map_inj {A B} (f : A -> B) l : (forall a b, f a = f b -> a = b) -> NoDup l -> NoDup (map f l).
Proof.
  intros Hf. induction 1 as [|a t Hn Hd IH]; cbn; constructor; auto.
  intros I. apply in_map_iff in I as (b & E & Hb). apply Hf in E. subst. auto.
Qed.

Lemma pwbv_sent_i16 m f ch wf : Pwb.pwb_fields_ok pwb_macs f -> In (ch, wf) (p_sent (pwbv_of m f)) -> Forall i16 wf.
Proof.
  intros Hok I. unfold pwbv_of in I; cbn [p_sent] in I. apply in_map_iff in I as (c & E & Hc). inv E.
  destruct (Pwb_proofs.waveform_at_block_lemma pwb_macs m f c Hok Hc) as (k & w & _ & Hw & Hat & _).
  unfold sent_wf. rewrite Hat.
  destruct Hok as (_ & _ & _ & _ & _ & _ & _ & _ & _ & _ & _ & _ & _ & _ & _ & W & _).
  rewrite Forall_forall in W. apply nth_error_In in Hw. apply W in Hw. apply Hw.
Qed.
Lemma pwbv_sent_nodup m f : Pwb.pwb_fields_ok pwb_macs f -> NoDup (map fst (p_sent (pwbv_of m f))).
Proof.
  intros Hok. unfold pwbv_of; cbn [p_sent]. rewrite map_map. cbn [fst].
  apply nodup_map_inj; [apply pchan_of_inj|].
  destruct Hok as (_ & _ & _ & _ & _ & _ & _ & _ & _ & [_ S] & _).
  eapply ssorted_map_nodup; eauto.
Qed.

(* ------------------------------------------------------------------ (a) the typing hypotheses are discharged *)
Theorem e2e_env_typed_m m run : env_typed (env_e2e_m m run).
Proof.
  constructor; cbn [env_e2e_m wire_pos pad_pos wire_cal pad_cal reasm].
  - intros b c w H. destruct (Maps.wire_position run b c) eqn:E; cbn in H; try discriminate. inv H.
    eapply wire_position_lt; eauto.
  - intros b ch c col row H. destruct (Maps.pad_position run b ch c) eqn:E; cbn in H; try discriminate. inv H.
    eapply pad_position_range; eauto.
  - intros w bl g dl H. eapply wire_cal_i16; eauto.
  - intros c r bl g dl H. eapply pad_cal_i16; eauto.
  - intros cs p H ch wf I. apply reasm_e2e_ok in H as (ks & f & _ & _ & -> & Hok). eapply pwbv_sent_i16; eauto.
  - intros cs p H. apply reasm_e2e_ok in H as (ks & f & _ & _ & -> & Hok). apply pwbv_sent_nodup; auto.
Qed.
