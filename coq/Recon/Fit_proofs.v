(* Totality of the control skeleton of the track fit and of vertex finding (coq/Recon/Fit.v),
   conditional on named numeric hypotheses about the kernels. *)
From Coq Require Import PrimFloat Permutation.
From AG Require Import Base.Prelude Base.Res Recon.Helix Recon.Fit.

Local Open Scope nat_scope.

(* ---------------- generic list primitives ---------------- *)
Lemma nth_res_ok {A} (l : list A) i : i < length l -> exists a, nth_res l i = Ok a /\ In a l.
Proof.
  intros H. unfold nth_res. destruct (nth_error l i) eqn:E.
  - exists a. split; [reflexivity | eapply nth_error_In; eauto].
  - apply nth_error_None in E. lia.
Qed.

Lemma upd_ok {A} (l : list A) i x : i < length l -> exists l', upd l i x = Ok l' /\ length l' = length l.
Proof.
  revert i. induction l as [ | a t IH]; intros i H; cbn in H; [lia | ].
  destruct i; cbn.
  - eexists; split; reflexivity.
  - destruct (IH i ltac:(lia)) as (t' & E & L). rewrite E. cbn. eexists; split; [reflexivity | cbn; lia].
Qed.

Lemma min_by_res_ok {A} (cmp : A -> A -> res comparison) (P : A -> Prop) :
  (forall a b, P a -> P b -> cmp a b <> Panic /\ forall k, cmp a b <> Err k) ->
  forall l acc, P acc -> (forall x, In x l -> P x) ->
  exists m, min_by_res cmp acc l = Ok m /\ P m.
Proof.
  intros Hc. induction l as [ | y t IH]; intros acc Pa Pl; cbn.
  - eauto.
  - assert (Py : P y) by (apply Pl; now left).
    destruct (Hc acc y Pa Py) as [NP NE]. destruct (cmp acc y) as [c | k | ] eqn:E.
    + cbn. apply IH; [destruct c; assumption | intros; apply Pl; now right].
    + now destruct (NE k).
    + now destruct NP.
Qed.

Lemma max_by_res_ok {A} (cmp : A -> A -> res comparison) (P : A -> Prop) :
  (forall a b, P a -> P b -> cmp a b <> Panic /\ forall k, cmp a b <> Err k) ->
  forall l acc, P acc -> (forall x, In x l -> P x) ->
  exists m, max_by_res cmp acc l = Ok m /\ P m.
Proof.
  intros Hc. induction l as [ | y t IH]; intros acc Pa Pl; cbn.
  - eauto.
  - assert (Py : P y) by (apply Pl; now left).
    destruct (Hc acc y Pa Py) as [NP NE]. destruct (cmp acc y) as [c | k | ] eqn:E.
    + cbn. apply IH; [destruct c; assumption | intros; apply Pl; now right].
    + now destruct (NE k).
    + now destruct NP.
Qed.

Lemma unwrap_some {A} (o : option A) : o <> None -> (@unwrap A o <> Panic /\ forall k, unwrap o <> Err k).
Proof. destruct o; cbn; intros H; [split; [discriminate | intros; discriminate] | now destruct H]. Qed.

(* ---------------- the initial simplex (scipy-style) ---------------- *)
Section Simplex.
  Variable F : Type.
  Variable bump : F -> F.
  Notation simplex_loop := (simplex_loop F bump).
  Notation initial_simplex := (initial_simplex F bump).

  Lemma simplex_loop_ok : forall g n i, i + n <= length g ->
    exists s, simplex_loop g i n = Ok s /\ Forall (fun v => length v = length g) s.
  Proof.
    intros g. induction n as [ | k IH]; intros i H; cbn.
    - eexists; split; [reflexivity | constructor].
    - destruct (nth_res_ok g i ltac:(lia)) as (v & Ev & _). rewrite Ev. cbn [bind].
      destruct (upd_ok g i (bump v) ltac:(lia)) as (np & Eu & Lu). rewrite Eu. cbn [bind].
      destruct (IH (S i) ltac:(lia)) as (s & Es & Fs). rewrite Es. cbn [bind].
      eexists; split; [reflexivity | constructor; assumption].
  Qed.

  Lemma initial_simplex_ok : forall g,
    exists s, initial_simplex g = Ok s /\ Forall (fun v => length v = length g) s /\ s <> [].
  Proof.
    intros g. unfold Fit.initial_simplex.
    destruct (simplex_loop_ok g (length g) 0 ltac:(lia)) as (s & Es & Fs). rewrite Es. cbn [bind].
    eexists; split; [reflexivity | split; [constructor; [reflexivity | assumption] | discriminate]].
  Qed.

End Simplex.

(* ---------------- the fit: lemmas without numeric hypotheses ----------------
   (the former all-vectors theorems fit_skeleton_total_lemma / fit_t_values_lemma / fit_t_range_lemma of this section,
   which assumed "(N3) the cost kernel is not NaN for EVERY parameter vector", are gone: see Section FitEvaluated) *)
Section FitProofs.
  Variable F : Type.
  Variable point : Type.
  Variables (p_r p_x p_y : point -> F).
  Variables (flt feq : F -> F -> bool).
  Variable fcmp : F -> F -> option comparison.
  Variable fnan : F -> bool.
  Variables (fadd fsub fmul : F -> F -> F) (fhalf fabs : F -> F) (fzero : F).
  Variable point_val : list F -> point -> F.

  Notation minmax_loop := (minmax_loop F point p_r flt).
  Notation minmax_r := (minmax_r F point p_r flt).

  Lemma minmax_loop_in : forall fuel l mn mx (P : point -> Prop),
    P mn -> P mx -> (forall x, In x l -> P x) ->
    P (fst (minmax_loop fuel mn mx l)) /\ P (snd (minmax_loop fuel mn mx l)).
  Proof.
    induction fuel as [ | k IH]; intros l mn mx P Hmn Hmx Hl; cbn; [now split | ].
    destruct l as [ | a [ | b t]]; [now split | | ].
    - assert (P a) by (apply Hl; now left).
      destruct (flt (p_r a) (p_r mn)); [now split | ]. destruct (negb (flt (p_r a) (p_r mx))); now split.
    - assert (Pa : P a) by (apply Hl; now left). assert (Pb : P b) by (apply Hl; right; now left).
      assert (Ht : forall x, In x t -> P x) by (intros; apply Hl; right; now right).
      destruct (negb (flt (p_r b) (p_r a))); apply IH; try assumption;
        repeat match goal with |- P (if ?c then _ else _) => destruct c end; assumption.
  Qed.

  Lemma minmax_r_some : forall l, l <> [] ->
    exists f la, minmax_r l = Some (f, la) /\ In f l /\ In la l.
  Proof.
    intros l Hl. destruct l as [ | x [ | y t]]; [now destruct Hl | | ].
    - exists x, x. cbn. auto.
    - unfold Fit.minmax_r.
      set (mm := if negb (flt (p_r y) (p_r x)) then (x, y) else (y, x)).
      assert (Hm : In (fst mm) (x :: y :: t) /\ In (snd mm) (x :: y :: t)).
      { unfold mm. destruct (negb (flt (p_r y) (p_r x))); cbn; auto. }
      destruct mm as [mn mx]. cbn [fst snd] in Hm. destruct Hm as [Hmn Hmx].
      destruct (minmax_loop_in (length t) t mn mx (fun p => In p (x :: y :: t)) Hmn Hmx) as [A B].
      { intros; right; now right. }
      destruct (minmax_loop (length t) mn mx t) as [f la]. exists f, la. auto.
  Qed.

  Lemma cost_fold_ok : forall (p : list F) l acc0,
    (forall q, In q l -> fnan (point_val p q) = false) ->
    exists s, fold_left (fun acc q => do s <- acc; let val := point_val p q in
                                      assert_ (negb (fnan val)) (Ok (fadd s val))) l (Ok acc0) = Ok s.
  Proof.
    intros p. induction l as [ | q t IH]; intros acc0 H; cbn.
    - eauto.
    - rewrite (H q (or_introl eq_refl)). cbn. apply IH. intros; apply H; now right.
  Qed.

End FitProofs.

(* ---------------- t_inner / t_outer are not NaN ----------------
   The cost function has already evaluated closest_t at the returned parameters for every point of the cluster and its
   assert!(!val.is_nan()) passed.  No totality hypothesis is needed: the statement is about a fit that returned Ok. *)
Section FitNotNan.
  Variable F : Type.
  Variable point : Type.
  Variables (p_r p_x p_y : point -> F).
  Variables (flt feq : F -> F -> bool).
  Variable fcmp : F -> F -> option comparison.
  Variable fnan : F -> bool.
  Variables (fadd fsub fmul : F -> F -> F) (fhalf fabs : F -> F) (fzero : F).
  Variable guess6 : list point -> point -> point -> point -> list F.
  Variable bump : F -> F.
  Variable point_val : list F -> point -> F.
  Variable closest : list F -> point -> F.
  Variable nm : (list F -> res F) -> list (list F) -> res (option (list F)).
  Variable sd_tol_ok : bool.
  Notation cost := (cost F point fnan fadd fzero point_val).
  Notation three_template_points := (three_template_points F point p_r p_x p_y flt feq fcmp fadd fsub fmul fhalf fabs).
  Notation fit := (fit_cluster_to_helix F point p_r p_x p_y flt feq fcmp fnan fadd fsub fmul fhalf fabs fzero
                     guess6 bump point_val closest nm sd_tol_ok).

  Lemma fold_stuck : forall (p : list F) l (r : res F) s, (forall a, r <> Ok a) ->
    fold_left (fun acc q => do s <- acc; let val := point_val p q in
                            assert_ (negb (fnan val)) (Ok (fadd s val))) l r = Ok s -> False.
  Proof.
    intros p. induction l as [ | b t IH]; intros r s Hr H; cbn [fold_left] in H.
    - now apply (Hr s).
    - eapply IH; [ | exact H]. intros a.
      destruct r as [a0 | k | ]; [exfalso; apply (Hr a0); reflexivity | cbn [bind]; discriminate | cbn [bind]; discriminate].
  Qed.

  Lemma cost_ok_vals : forall (p : list F) l acc0 s,
    fold_left (fun acc q => do s <- acc; let val := point_val p q in
                            assert_ (negb (fnan val)) (Ok (fadd s val))) l acc0 = Ok s ->
    forall q, In q l -> fnan (point_val p q) = false.
  Proof.
    intros p. induction l as [ | a t IH]; intros acc0 s H q Hq; [destruct Hq | ].
    cbn [fold_left] in H. destruct Hq as [<- | Hq]; [ | eapply IH; eassumption].
    destruct (fnan (point_val p a)) eqn:E; [ | reflexivity].
    exfalso. eapply fold_stuck; [ | exact H].
    intros x. destruct acc0; cbn [bind negb assert_]; discriminate.
  Qed.

  Lemma cost_ok_all : forall pts p s, cost pts p = Ok s -> forall q, In q pts -> fnan (point_val p q) = false.
  Proof.
    intros pts p s. unfold Fit.cost.
    destruct (nth_res p 0); cbn [bind]; try discriminate. destruct (nth_res p 1); cbn [bind]; try discriminate.
    destruct (nth_res p 2); cbn [bind]; try discriminate. destruct (nth_res p 3); cbn [bind]; try discriminate.
    destruct (nth_res p 4); cbn [bind]; try discriminate. destruct (nth_res p 5); cbn [bind]; try discriminate.
    intros H. eapply cost_ok_vals. exact H.
  Qed.

  (* the template points are points of the cluster (no hypothesis) *)
  Lemma three_template_points_in : forall pts f m l, three_template_points pts = Ok (f, m, l) -> In f pts /\ In l pts.
  Proof.
    intros pts f m l. unfold Fit.three_template_points.
    destruct pts as [ | a t] eqn:Ep; [cbn; discriminate | ]. rewrite <- Ep.
    destruct (minmax_r_some F point p_r flt pts) as (f0 & l0 & E & Hf & Hl); [rewrite Ep; discriminate | ].
    rewrite E. cbn [unwrap bind]. rewrite Ep at 1.
    match goal with |- context [bind ?e _] => destruct e end; cbn [bind]; try discriminate.
    match goal with |- context [if ?c then _ else _] => destruct c end; try discriminate.
    intros H. inversion H; subst. auto.
  Qed.

  (* (S1) Nelder-Mead returns a vector on which it has evaluated the cost function successfully (best_param is the
     argument of a completed cost call) *)
  Hypothesis nm_best_evaluated : forall (c : list F -> res F) s v, nm c s = Ok (Some v) -> exists y, c v = Ok y.
  (* (S2) IEEE: a NaN parameter t gives a NaN squared distance norm_sqr(p, helix.at(t)) *)
  Hypothesis val_nan_of_t : forall p q, fnan (closest p q) = true -> fnan (point_val p q) = true.

  Theorem fit_t_not_nan_lemma : forall pts tr, fit pts = Ok tr ->
    fnan (tr_t_inner F tr) = false /\ fnan (tr_t_outer F tr) = false.
  Proof.
    intros pts tr. unfold Fit.fit_cluster_to_helix.
    destruct (3 <=? length pts)%nat; cbn [assert_]; try discriminate.
    destruct (three_template_points pts) as [[[f m] l] | | ] eqn:E3; cbn [bind]; try discriminate.
    destruct (three_template_points_in pts f m l E3) as [Hf Hl].
    destruct (initial_simplex F bump (guess6 pts f m l)) as [s | | ]; cbn [bind]; try discriminate.
    destruct sd_tol_ok; cbn [assert_]; try discriminate.
    destruct (nm (cost pts) s) as [[v | ] | | ] eqn:Ev; cbn [bind unwrap]; try discriminate.
    destruct (nm_best_evaluated _ _ _ Ev) as (y & Hy).
    destruct (nth_res v 0); cbn [bind]; try discriminate. destruct (nth_res v 1); cbn [bind]; try discriminate.
    destruct (nth_res v 2); cbn [bind]; try discriminate. destruct (nth_res v 3); cbn [bind]; try discriminate.
    destruct (nth_res v 4); cbn [bind]; try discriminate. destruct (nth_res v 5); cbn [bind]; try discriminate.
    intros Htr. inversion Htr; subst tr; clear Htr. cbn [tr_t_inner tr_t_outer].
    split.
    - destruct (fnan (closest v f)) eqn:N; [ | reflexivity].
      pose proof (val_nan_of_t v f N) as C. rewrite (cost_ok_all pts v y Hy f Hf) in C. discriminate.
    - destruct (fnan (closest v l)) eqn:N; [ | reflexivity].
      pose proof (val_nan_of_t v l N) as C. rewrite (cost_ok_all pts v y Hy l Hl) in C. discriminate.
  Qed.
End FitNotNan.


(* ---------------- the optimiser as an interaction tree: hypotheses RELATIVE TO THE VECTORS IT EVALUATES ----------------
   Earlier versions of this file had fit_skeleton_total_lemma / vertex_skeleton_total_lemma, which assumed the cost kernel
   not NaN for EVERY parameter vector (val_num, vval_num): no binary64 kernel satisfies that (p = [nan; ..], [.. inf ..],
   [0;0;0;2^1000;0;2^-40] give NaN).  They have been REMOVED (C14 and C09 both use the statements below).
   Here the optimiser is `run_strategy c (tree s)` (coq/Recon/Fit.v), and the numeric gap is "the cost function returns a
   good number on the vectors the optimiser actually asks", which for the real code says exactly: the assert at
   track_fitting.rs:265 (vertex_fitting.rs:231) does not fire during this fit. *)
Section Strategy.
  Variable F : Type.
  Variable good : F -> Prop.
  Variable c : list F -> res F.

  Lemma run_strategy_ok : forall n t seen,
    wf_strategy good n seen t ->
    (forall p, In p seen -> length p = n /\ exists y, c p = Ok y) ->
    (forall p, In p (asked c t) -> exists y, c p = Ok y /\ good y) ->
    exists v, run_strategy c t = Ok (Some v) /\ length v = n /\ exists y, c v = Ok y.
  Proof.
    intros n t seen W. induction W as [seen v Hv | seen p k Lp Wk IH]; intros Hseen Hask.
    - exists v. split; [reflexivity | apply Hseen, Hv].
    - destruct (Hask p (or_introl eq_refl)) as (y & Ey & Gy).
      cbn [run_strategy]. rewrite Ey. apply (IH y Gy).
      + intros q [<- | Hq]; [split; [exact Lp | eauto] | apply Hseen, Hq].
      + intros q Hq. apply Hask. cbn [asked]. rewrite Ey. now right.
  Qed.
End Strategy.

(* t_range, minimal form: no numeric hypothesis at all -- the end-point parameters of a RETURNED track are values of
   closest_t, so any range contract of closest_t holds of them *)
Lemma fit_t_range_min_lemma :
  forall (F point : Type) (p_r p_x p_y : point -> F) (flt feq : F -> F -> bool)
    (fcmp : F -> F -> option comparison) (fnan : F -> bool) (fadd fsub fmul : F -> F -> F)
    (fhalf fabs : F -> F) (fzero : F) guess6 bump point_val closest nm sd_tol_ok (pts : list point)
    (in_range : F -> Prop), (forall hp q, in_range (closest hp q)) -> forall tr,
  fit_cluster_to_helix F point p_r p_x p_y flt feq fcmp fnan fadd fsub fmul fhalf fabs fzero
    guess6 bump point_val closest nm sd_tol_ok pts = Ok tr ->
  in_range (tr_t_inner F tr) /\ in_range (tr_t_outer F tr).
Proof.
  intros until tr. unfold fit_cluster_to_helix.
  destruct (3 <=? length pts)%nat; cbn [assert_]; [ | discriminate].
  destruct (three_template_points _ _ _ _ _ _ _ _ _ _ _ _ _ pts) as [[[f m] l] | | ]; cbn [bind]; try discriminate.
  destruct (initial_simplex _ _ _); cbn [bind]; try discriminate.
  destruct sd_tol_ok; cbn [assert_]; try discriminate.
  destruct (nm _ _) as [[bp | ] | | ]; cbn [bind unwrap]; try discriminate.
  repeat (match goal with |- context [nth_res ?a ?b] => destruct (nth_res a b); cbn [bind]; try discriminate end).
  intros E; inversion E; cbn; auto.
Qed.

(* three_template_points returns three points of the cluster or NoInitialParameters: depends only on (N1), (N2) and the
   length *)
Lemma three_template_points_total_min :
  forall (F point : Type) (p_r p_x p_y : point -> F) (flt feq : F -> F -> bool)
    (fcmp : F -> F -> option comparison) (fnan : F -> bool) (fadd fsub fmul : F -> F -> F) (fhalf fabs : F -> F)
    (pts : list point),
  (forall x y, fnan x = false -> fnan y = false -> fcmp x y <> None) ->
  (forall a b p, In a pts -> In b pts -> In p pts ->
     fnan (dev F point p_r fsub fabs (fhalf (fadd (p_r a) (p_r b))) p) = false) ->
  3 <= length pts ->
  (exists f m l, three_template_points F point p_r p_x p_y flt feq fcmp fadd fsub fmul fhalf fabs pts = Ok (f, m, l)
                 /\ In f pts /\ In m pts /\ In l pts)
  \/ three_template_points F point p_r p_x p_y flt feq fcmp fadd fsub fmul fhalf fabs pts = Err E_noinit.
Proof.
  intros F point p_r p_x p_y flt feq fcmp fnan fadd fsub fmul fhalf fabs pts fcmp_num dev_num pts_len.
  unfold Fit.three_template_points.
  assert (Hne : pts <> []) by (destruct pts; cbn in pts_len; [lia | discriminate]).
  destruct (minmax_r_some F point p_r flt pts Hne) as (f & la & E & Hf & Hla). rewrite E. cbn [unwrap bind].
  destruct pts as [ | a t] eqn:Ep; [now destruct Hne | ]. rewrite <- Ep in *.
  set (mid := fhalf (fadd (p_r f) (p_r la))).
  destruct (min_by_res_ok (fun a b => unwrap (fcmp (dev F point p_r fsub fabs mid a) (dev F point p_r fsub fabs mid b)))
              (fun p => In p pts)) with (l := t) (acc := a) as (m & Em & Hm).
  - intros x y Hx Hy. apply unwrap_some. apply fcmp_num; apply dev_num; assumption.
  - rewrite Ep. now left.
  - intros x Hx. rewrite Ep. now right.
  - rewrite Em. cbn [bind].
    match goal with |- context [if ?c then _ else _] => destruct c end.
    + now right.
    + left. exists f, m, la. auto.
Qed.

Section FitEvaluated.
  Variable F : Type.
  Variable point : Type.
  Variables (p_r p_x p_y : point -> F).
  Variables (flt feq : F -> F -> bool).
  Variable fcmp : F -> F -> option comparison.
  Variable fnan : F -> bool.
  Variables (fadd fsub fmul : F -> F -> F) (fhalf fabs : F -> F) (fzero : F).
  Variable guess6 : list point -> point -> point -> point -> list F.
  Variable bump : F -> F.
  Variable point_val : list F -> point -> F.
  Variable closest : list F -> point -> F.
  Variable tree : list (list F) -> strategy F.           (* argmin: what it asks, given the initial simplex *)
  Variable good : F -> Prop.                             (* the cost values argmin copes with (real code: not NaN) *)
  Variable sd_tol_ok : bool.
  Notation dev := (dev F point p_r fsub fabs).
  Notation cost := (cost F point fnan fadd fzero point_val).
  Notation fit_simplex := (fit_simplex F point p_r p_x p_y flt feq fcmp fadd fsub fmul fhalf fabs guess6 bump).
  Notation fit := (fit_cluster_to_helix F point p_r p_x p_y flt feq fcmp fnan fadd fsub fmul fhalf fabs fzero
                     guess6 bump point_val closest (fun c s => run_strategy c (tree s)) sd_tol_ok).
  Variable pts : list point.
  (* (N1), (N2): as before *)
  Hypothesis fcmp_num : forall x y, fnan x = false -> fnan y = false -> fcmp x y <> None.
  Hypothesis dev_num : forall a b p, In a pts -> In b pts -> In p pts ->
    fnan (dev (fhalf (fadd (p_r a) (p_r b))) p) = false.
  (* (N3e) THE NAMED NUMERIC GAP: on every parameter vector the optimiser asks for THIS cluster, started from THIS
     cluster's initial simplex, the cost function returns (its assert!(!val.is_nan()) passes) a good number *)
  Hypothesis cost_evaluated : forall s, fit_simplex pts = Ok s ->
    forall p, In p (asked (cost pts) (tree s)) -> exists y, cost pts p = Ok y /\ good y.
  (* (N4e) THE NAMED GAP argmin: on this cluster's simplex the optimiser is well formed for dimension 6 *)
  Hypothesis tree_wf : forall s, fit_simplex pts = Ok s -> wf_strategy good 6 [] (tree s).
  Hypothesis sd_ok : sd_tol_ok = true.
  Hypothesis pts_len : 3 <= length pts.

  Theorem fit_skeleton_total_evaluated_lemma :
    fit pts <> Panic /\ (forall k, fit pts = Err k -> k = E_noinit).
  Proof.
    unfold Fit.fit_cluster_to_helix.
    assert (L3 : (3 <=? length pts) = true) by (apply Nat.leb_le; exact pts_len). rewrite L3. cbn [assert_].
    destruct (three_template_points_total_min F point p_r p_x p_y flt feq fcmp fnan fadd fsub fmul fhalf fabs pts
                fcmp_num dev_num pts_len) as [(f & m & l & E & Hf & Hm & Hl) | E]; rewrite E; cbn [bind].
    2: { split; [discriminate | intros k Hk; now inversion Hk]. }
    destruct (initial_simplex_ok F bump (guess6 pts f m l)) as (s & Es & Fs & Ns). rewrite Es. cbn [bind].
    rewrite sd_ok. cbn [assert_].
    assert (Hs : fit_simplex pts = Ok s) by (unfold Fit.fit_simplex; rewrite E; cbn [bind]; exact Es).
    destruct (run_strategy_ok F good (cost pts) 6 (tree s) [] (tree_wf s Hs)
                (fun p (H : In p []) => match H with end) (cost_evaluated s Hs)) as (v & Ev & Lv & _).
    rewrite Ev. cbn [bind unwrap].
    destruct (nth_res_ok v 0 ltac:(lia)) as (? & -> & _). destruct (nth_res_ok v 1 ltac:(lia)) as (? & -> & _).
    destruct (nth_res_ok v 2 ltac:(lia)) as (? & -> & _). destruct (nth_res_ok v 3 ltac:(lia)) as (? & -> & _).
    destruct (nth_res_ok v 4 ltac:(lia)) as (? & -> & _). destruct (nth_res_ok v 5 ltac:(lia)) as (? & -> & _).
    cbn [bind]. split; [discriminate | intros; discriminate].
  Qed.
End FitEvaluated.

(* the simplex the fit hands to the optimiser is not empty and all its vertices have the length of the initial guess *)
Lemma fit_simplex_shape :
  forall (F point : Type) (p_r p_x p_y : point -> F) (flt feq : F -> F -> bool)
    (fcmp : F -> F -> option comparison) (fadd fsub fmul : F -> F -> F) (fhalf fabs : F -> F)
    (guess6 : list point -> point -> point -> point -> list F) (bump : F -> F) (pts : list point) s n,
  (forall f m l, length (guess6 pts f m l) = n) ->
  fit_simplex F point p_r p_x p_y flt feq fcmp fadd fsub fmul fhalf fabs guess6 bump pts = Ok s ->
  s <> [] /\ Forall (fun v => length v = n) s.
Proof.
  intros F point p_r p_x p_y flt feq fcmp fadd fsub fmul fhalf fabs guess6 bump pts s n Hg. unfold fit_simplex.
  destruct (three_template_points _ _ _ _ _ _ _ _ _ _ _ _ _ pts) as [[[f m] l] | | ]; cbn [bind]; try discriminate.
  destruct (initial_simplex_ok F bump (guess6 pts f m l)) as (s' & E & Fs & Ns). rewrite E. intros H. inversion H; subst s'.
  rewrite Hg in Fs. auto.
Qed.

(* what (N3e) says in terms of the kernel: the cost function returns on p iff p has its six components and
   norm_sqr(q, at(closest_t(q))) is not NaN for every point q of the cluster *)
Lemma cost_ok_iff :
  forall (F point : Type) (fnan : F -> bool) (fadd : F -> F -> F) (fzero : F) (point_val : list F -> point -> F)
    (pts : list point) (p : list F), length p = 6 ->
  ((exists y, cost F point fnan fadd fzero point_val pts p = Ok y) <->
   (forall q, In q pts -> fnan (point_val p q) = false)).
Proof.
  intros F point fnan fadd fzero point_val pts p Lp. split.
  - intros (y & Hy). eapply cost_ok_all. exact Hy.
  - intros H. unfold Fit.cost.
    destruct (nth_res_ok p 0 ltac:(lia)) as (? & -> & _). destruct (nth_res_ok p 1 ltac:(lia)) as (? & -> & _).
    destruct (nth_res_ok p 2 ltac:(lia)) as (? & -> & _). destruct (nth_res_ok p 3 ltac:(lia)) as (? & -> & _).
    destruct (nth_res_ok p 4 ltac:(lia)) as (? & -> & _). destruct (nth_res_ok p 5 ltac:(lia)) as (? & -> & _).
    cbn [bind]. apply (cost_fold_ok F point fnan fadd point_val p pts fzero H).
Qed.

(* ---------------- multiset bookkeeping for position / swap_remove ---------------- *)
Definition cnt {A} (f : A -> bool) (l : list A) : nat := length (filter f l).

Lemma cnt_cons {A} (f : A -> bool) a l : cnt f (a :: l) = (if f a then 1 else 0) + cnt f l.
Proof. unfold cnt. cbn. destruct (f a); reflexivity. Qed.
Lemma cnt_app {A} (f : A -> bool) l1 l2 : cnt f (l1 ++ l2) = cnt f l1 + cnt f l2.
Proof. unfold cnt. rewrite filter_app, app_length. reflexivity. Qed.
Lemma cnt_perm {A} (f : A -> bool) l l' : Permutation l l' -> cnt f l = cnt f l'.
Proof.
  induction 1; rewrite ?cnt_cons; lia.
Qed.
Lemma cnt_filter_le {A} (f g : A -> bool) l : cnt f (filter g l) <= cnt f l.
Proof.
  induction l as [ | a t IH]; [unfold cnt; cbn; lia | ].
  cbn [filter]. destruct (g a); rewrite ?cnt_cons; lia.
Qed.
Lemma cnt_concat_in {A} (f : A -> bool) (c : list A) ll : In c ll -> cnt f c <= cnt f (concat ll).
Proof.
  induction ll as [ | d t IH]; cbn [concat In]; [tauto | ]. rewrite cnt_app. intros [-> | H]; [lia | ].
  specialize (IH H). lia.
Qed.

Lemma position_some {A} (f : A -> bool) l : 1 <= cnt f l ->
  exists i x, position f l = Some i /\ nth_error l i = Some x /\ f x = true.
Proof.
  induction l as [ | a t IH]; [unfold cnt; cbn; lia | ]. rewrite cnt_cons. cbn [position].
  destruct (f a) eqn:Fa.
  - intros _. exists 0, a. auto.
  - intros H. destruct (IH ltac:(lia)) as (i & x & E & N & Fx). rewrite E. exists (S i), x. auto.
Qed.

Lemma swap_remove_perm {A} (l : list A) i x : nth_error l i = Some x ->
  exists l', swap_remove l i = Ok l' /\ Permutation l (x :: l').
Proof.
  intros Hn. unfold swap_remove. rewrite Hn.
  assert (Hi : i < length l) by (apply nth_error_Some; congruence).
  destruct (rev l) as [ | lastx rinit] eqn:Er.
  - apply (f_equal (@length A)) in Er. rewrite rev_length in Er. cbn in Er. lia.
  - assert (El : l = rev rinit ++ [lastx]).
    { rewrite <- (rev_involutive l), Er. reflexivity. }
    set (init := rev rinit) in *.
    destruct (Nat.eqb i (length init)) eqn:Ei.
    + apply Nat.eqb_eq in Ei. eexists; split; [reflexivity | ].
      rewrite El in Hn. rewrite nth_error_app2 in Hn by lia. rewrite Ei, Nat.sub_diag in Hn. cbn in Hn.
      inversion Hn; subst x. rewrite El. apply Permutation_sym, Permutation_cons_append.
    + apply Nat.eqb_neq in Ei. eexists; split; [reflexivity | ].
      assert (Hi' : i < length init).
      { rewrite El, app_length in Hi. cbn in Hi. lia. }
      rewrite El in Hn. rewrite nth_error_app1 in Hn by assumption.
      assert (Es : init = firstn i init ++ x :: skipn (S i) init).
      { clear - Hn. revert i Hn. induction init as [ | a t IH]; intros [ | i] Hn; cbn in *; try discriminate.
        - now inversion Hn.
        - f_equal. now apply IH. }
      rewrite El. rewrite Es at 1.
      set (A1 := firstn i init). set (A2 := skipn (S i) init). clearbody A1 A2.
      rewrite <- app_assoc. cbn [app].
      apply Permutation_sym, Permutation_cons_app, Permutation_app_head, Permutation_cons_append.
Qed.

(* lemmas without numeric hypotheses (the former all-vectors vertex_skeleton_total_lemma of this section is gone: see
   Section VertexEvaluated) *)
Section VertexProofs.
  Variable F : Type.
  Variable point : Type.
  Variable fcmp : F -> F -> option comparison.
  Variable fnan : F -> bool.
  Variable fadd : F -> F -> F.
  Variable fzero : F.
  Variable bump : F -> F.
  Variable nm : (list F -> res F) -> list (list F) -> res (option (list F)).
  Variable sd_tol_ok : bool.
  Variable T : Type.
  Variable teq : T -> T -> bool.
  Variables (t_zb t_rad : T -> F).
  Variable is_primary : T -> bool.
  Variable close_z : F -> F -> bool.
  Variable sumF : list F -> F.
  Variable mean_z : list T -> F.
  Variable sortP : list T -> list T.
  Variable vpoint_of : list F -> point.
  Variable vcost_val : list T -> list F -> T -> F.
  Variable vguess : F -> list F.
  Variable tclosest : T -> point -> F.

  Notation bc_loop := (bc_loop F T t_zb close_z).
  Notation beamline_clusters := (beamline_clusters F fcmp T t_zb close_z mean_z sortP).
  Notation remove_all := (remove_all T teq).
  Notation vcost := (vcost F fnan fadd fzero T vcost_val).
  Notation find_vertices := (find_vertices F point fcmp fnan fadd fzero bump nm sd_tol_ok T teq t_zb t_rad is_primary
                               close_z sumF mean_z sortP vpoint_of vcost_val vguess tclosest).

  Lemma bc_loop_ok : forall l done cur, cur <> [] ->
    exists cl, bc_loop done cur l = Ok cl /\ concat cl = concat (rev done) ++ rev cur ++ l.
  Proof.
    induction l as [ | t rest IH]; intros done cur Hc; cbn [Fit.bc_loop].
    - eexists; split; [reflexivity | ]. cbn [rev]. rewrite concat_app. cbn [concat]. reflexivity.
    - destruct cur as [ | c0 cur']; [now destruct Hc | ]. cbn [hd_error unwrap bind].
      destruct (close_z (t_zb t) (t_zb c0)).
      + destruct (IH done (t :: c0 :: cur') ltac:(discriminate)) as (cl & E & C). exists cl. split; [exact E | ].
        rewrite C. cbn [rev]. now rewrite <- !app_assoc.
      + destruct (IH (rev (c0 :: cur') :: done) [t] ltac:(discriminate)) as (cl & E & C). exists cl. split; [exact E | ].
        rewrite C. cbn [rev]. rewrite concat_app. cbn [concat app]. rewrite app_nil_r. now rewrite <- !app_assoc.
  Qed.

  (* the t reported for each track of the vertex is a value of closest_t *)
  Theorem vertex_t_values_lemma : forall tracks v rem, find_vertices tracks = Ok (Some v, rem) ->
    forall t x, In (t, x) (v_tracks F T v) -> x = tclosest t (vpoint_of (v_pos F T v)).
  Proof.
    unfold Fit.find_vertices. intros tracks v rem.
    destruct (beamline_clusters (filter is_primary tracks)) as [bc | | ]; cbn [bind]; try discriminate.
    match goal with |- context [bind ?e _] => destruct e as [best | | ] end; cbn [bind]; try discriminate.
    destruct best as [[ts mz] | ].
    - destruct (initial_simplex F bump (vguess mz)) as [s | | ]; cbn [bind]; try discriminate.
      destruct sd_tol_ok; cbn [assert_]; try discriminate.
      destruct (nm (vcost ts) s) as [[bp | ] | | ]; cbn [bind unwrap]; try discriminate.
      destruct (nth_res bp 0); cbn [bind]; try discriminate.
      destruct (nth_res bp 1); cbn [bind]; try discriminate.
      destruct (nth_res bp 2); cbn [bind]; try discriminate.
      match goal with |- context [bind ?e _] => destruct e end; cbn [bind]; try discriminate.
      intros H. inversion H; subst v. cbn. intros tt xx Hin. apply in_map_iff in Hin.
      destruct Hin as (t' & E & _). now inversion E.
    - cbn [bind]. match goal with |- context [bind ?e _] => destruct e end; cbn [bind]; discriminate.
  Qed.
  (* with the range contract of closest_t (C16_closest_t_range_partial): every reported t is NaN or in [-pi, pi] *)
  Theorem vertex_t_range_lemma : forall (in_range : F -> Prop),
    (forall t q, in_range (tclosest t q)) ->
    forall tracks v rem, find_vertices tracks = Ok (Some v, rem) ->
    forall t x, In (t, x) (v_tracks F T v) -> in_range x.
  Proof.
    intros in_range Hr tracks v rem Hv t x Hin. rewrite (vertex_t_values_lemma tracks v rem Hv t x Hin). apply Hr.
  Qed.

End VertexProofs.

(* the vertex cost function returns on a vector of three components when no summand is NaN *)
Lemma vcost_ok :
  forall (F : Type) (fnan : F -> bool) (fadd : F -> F -> F) (fzero : F) (T : Type)
    (vcost_val : list T -> list F -> T -> F) (ts : list T) (p : list F),
  length p = 3 -> (forall t, In t ts -> fnan (vcost_val ts p t) = false) ->
  exists y, vcost F fnan fadd fzero T vcost_val ts p = Ok y.
Proof.
  intros F fnan fadd fzero T vcost_val ts p Lp H. unfold Fit.vcost.
  destruct (nth_res_ok p 0 ltac:(lia)) as (? & -> & _). destruct (nth_res_ok p 1 ltac:(lia)) as (? & -> & _).
  destruct (nth_res_ok p 2 ltac:(lia)) as (? & -> & _). cbn [bind].
  assert (Hf : forall l acc0, (forall t, In t l -> fnan (vcost_val ts p t) = false) -> exists s,
    fold_left (fun acc t => do s <- acc; let val := vcost_val ts p t in
                             assert_ (negb (fnan val)) (Ok (fadd s val))) l (Ok acc0) = Ok s).
  { induction l as [ | q t IH]; intros acc0 Hl; cbn; [eauto | ]. rewrite (Hl q (or_introl eq_refl)). cbn.
    apply IH. intros; apply Hl; now right. }
  apply (Hf ts fzero H).
Qed.

(* ---------------- vertex finding with the optimiser as an interaction tree (hypotheses relative to the vectors it
   evaluates; see the comment before Section Strategy) ---------------- *)
Section VertexEvaluated.
  Variable F : Type.
  Variable point : Type.
  Variable fcmp : F -> F -> option comparison.
  Variable fnan : F -> bool.
  Variable fadd : F -> F -> F.
  Variable fzero : F.
  Variable bump : F -> F.
  Variable tree : list (list F) -> strategy F.
  Variable good : F -> Prop.
  Variable sd_tol_ok : bool.
  Variable T : Type.
  Variable teq : T -> T -> bool.
  Variables (t_zb t_rad : T -> F).
  Variable is_primary : T -> bool.
  Variable close_z : F -> F -> bool.
  Variable sumF : list F -> F.
  Variable mean_z : list T -> F.
  Variable sortP : list T -> list T.
  Variable vpoint_of : list F -> point.
  Variable vcost_val : list T -> list F -> T -> F.
  Variable vguess : F -> list F.
  Variable tclosest : T -> point -> F.
  Notation bc_loop := (bc_loop F T t_zb close_z).
  Notation beamline_clusters := (beamline_clusters F fcmp T t_zb close_z mean_z sortP).
  Notation remove_all := (remove_all T teq).
  Notation vcost := (vcost F fnan fadd fzero T vcost_val).
  Notation vertex_best := (vertex_best F fcmp T t_zb t_rad is_primary close_z sumF mean_z sortP).
  Notation find_vertices := (find_vertices F point fcmp fnan fadd fzero bump (fun c s => run_strategy c (tree s))
                               sd_tol_ok T teq t_zb t_rad is_primary close_z sumF mean_z sortP vpoint_of vcost_val vguess
                               tclosest).
  Variable tracks : list T.
  Hypothesis sortP_perm : forall l, Permutation (sortP l) l.
  Hypothesis zb_cmp : forall a b, In a tracks -> In b tracks -> fcmp (t_zb a) (t_zb b) <> None.

  Lemma beamline_clusters_ok_min : forall l, (forall t, In t l -> In t tracks) ->
    exists bc, beamline_clusters l = Ok bc /\ Permutation (concat (map fst bc)) l.
  Proof.
    intros l Hl. unfold Fit.beamline_clusters. destruct l as [ | a t] eqn:El.
    - exists []. split; [reflexivity | constructor].
    - rewrite <- El in *. unfold sort_by_res.
      assert (Hf : forallb (fun a => forallb (fun b => match fcmp (t_zb a) (t_zb b) with Some _ => true | None => false end) l) l = true).
      { apply forallb_forall. intros x Hx. apply forallb_forall. intros y Hy.
        destruct (fcmp (t_zb x) (t_zb y)) eqn:E; [reflexivity | ].
        exfalso. apply (zb_cmp x y (Hl x Hx) (Hl y Hy)). exact E. }
      rewrite Hf. cbn [bind].
      assert (Hlen : length (sortP l) = length l) by (apply Permutation_length, sortP_perm).
      destruct (sortP l) as [ | s0 srest] eqn:Es.
      { rewrite El in Hlen. cbn in Hlen. lia. }
      cbn [nth_res nth_error unwrap bind skipn].
      destruct (bc_loop_ok F T t_zb close_z srest [] [s0] ltac:(discriminate)) as (cl & E & C). rewrite E. cbn [bind].
      eexists; split; [reflexivity | ].
      rewrite map_map. cbn [fst]. rewrite map_id, C. cbn. rewrite <- Es. apply sortP_perm.
  Qed.

  Hypothesis teq_sym : forall a b, teq a b = true -> teq b a = true.
  Hypothesis teq_trans : forall a b c, teq a b = true -> teq b c = true -> teq a c = true.

  Lemma remove_all_ok_min : forall vs trs,
    (forall v, In v vs -> teq v v = true) ->
    (forall x, cnt (fun t => teq t x) vs <= cnt (fun t => teq t x) trs) ->
    exists r, remove_all vs trs = Ok r.
  Proof.
    induction vs as [ | v rest IH]; intros trs Hr Hc; cbn.
    - eauto.
    - assert (Hv : teq v v = true) by (apply Hr; now left).
      assert (H1 : 1 <= cnt (fun t => teq t v) trs).
      { specialize (Hc v). rewrite cnt_cons, Hv in Hc. lia. }
      destruct (position_some _ _ H1) as (i & x & Ep & En & Ex). rewrite Ep. cbn [unwrap bind].
      destruct (swap_remove_perm trs i x En) as (trs' & Es & Pm). rewrite Es. cbn [bind].
      apply IH; [intros; apply Hr; now right | ].
      intros y. specialize (Hc y). rewrite cnt_cons in Hc. rewrite (cnt_perm _ _ _ Pm), cnt_cons in Hc.
      assert (Eq : teq v y = teq x y).
      { destruct (teq v y) eqn:A, (teq x y) eqn:B; try reflexivity.
        - rewrite (teq_trans x v y Ex A) in B. discriminate.
        - rewrite (teq_trans v x y (teq_sym _ _ Ex) B) in A. discriminate. }
      rewrite Eq in Hc. lia.
  Qed.

  (* (V2) sums of helix radii of sets of input tracks are not NaN *)
  Hypothesis rad_cmp : forall x y, (forall t, In t x -> In t tracks) -> (forall t, In t y -> In t tracks) ->
    fcmp (sumF (map t_rad x)) (sumF (map t_rad y)) <> None.
  (* (V3e) THE NAMED NUMERIC GAP: on every vector the optimiser asks for the tracks ts / mean z the vertex fit is run on,
     started from that fit's initial simplex, the vertex cost function returns a good number *)
  Hypothesis vcost_evaluated : forall ts mz s, vertex_best tracks = Ok (Some (ts, mz)) ->
    initial_simplex F bump (vguess mz) = Ok s ->
    forall p, In p (asked (vcost ts) (tree s)) -> exists y, vcost ts p = Ok y /\ good y.
  (* (V4e) THE NAMED GAP argmin: on that simplex the optimiser is well formed for dimension 3 *)
  Hypothesis tree_wf : forall ts mz s, vertex_best tracks = Ok (Some (ts, mz)) ->
    initial_simplex F bump (vguess mz) = Ok s -> wf_strategy good 3 [] (tree s).
  Hypothesis sd_ok : sd_tol_ok = true.
  Hypothesis teq_refl : forall t, In t tracks -> teq t t = true.

  (* the same with (V2) asked only of the beamline clusters that are actually compared (:45-51): (V2bc) *)
  Theorem vertex_skeleton_total_evaluated_bc_lemma :
    (forall bc a b, beamline_clusters (filter is_primary tracks) = Ok bc -> In a bc -> In b bc ->
       fcmp (sumF (map t_rad (fst a))) (sumF (map t_rad (fst b))) <> None) ->
    exists r, find_vertices tracks = Ok r.
  Proof.
    clear rad_cmp. intros rad_cmp_bc. unfold Fit.find_vertices.
    set (primary := filter is_primary tracks).
    assert (Hp : forall t, In t primary -> In t tracks) by (intros t H; apply filter_In in H; tauto).
    destruct (beamline_clusters_ok_min primary Hp) as (bc & Eb & Pb). rewrite Eb. cbn [bind].
    set (cands := max_set_len F T (filter (fun c => (1 <? length (fst c))) bc)).
    assert (Hc : forall c, In c cands -> In c bc).
    { intros c H. unfold cands, max_set_len in H. apply filter_In in H. destruct H as [H _]. apply filter_In in H. tauto. }
    assert (Hbc : forall c, In c bc -> forall t, In t (fst c) -> In t tracks).
    { intros c Hcb t Ht. apply Hp. apply (Permutation_in _ Pb). apply in_concat. exists (fst c). split; [ | exact Ht].
      apply in_map. exact Hcb. }
    assert (Hbest : exists best, (match cands with
              | [] => Ok None
              | c :: t => do b <- max_by_res (fun a b => unwrap (fcmp (sumF (map t_rad (fst a))) (sumF (map t_rad (fst b))))) c t;
                          Ok (Some b) end) = Ok best /\ (forall b, best = Some b -> In b bc)).
    { destruct cands as [ | c t] eqn:Ec.
      - exists None. split; [reflexivity | discriminate].
      - destruct (max_by_res_ok (fun a b => unwrap (fcmp (sumF (map t_rad (fst a))) (sumF (map t_rad (fst b)))))
                    (fun c => In c bc)) with (l := t) (acc := c) as (m & Em & Hm).
        + intros x y Hx Hy. apply unwrap_some. exact (rad_cmp_bc bc x y Eb Hx Hy).
        + apply Hc. now left.
        + intros x Hx. apply Hc. now right.
        + rewrite Em. cbn [bind]. exists (Some m). split; [reflexivity | ]. intros b Hb. now inversion Hb; subst. }
    destruct Hbest as (best & Ebest & Hb).
    assert (VB : vertex_best tracks = Ok best).
    { unfold Fit.vertex_best. cbv zeta. change (filter is_primary tracks) with primary. rewrite Eb. cbn [bind].
      exact Ebest. }
    rewrite Ebest. cbn [bind].
    destruct best as [[ts mz] | ].
    - specialize (Hb _ eq_refl).
      destruct (initial_simplex_ok F bump (vguess mz)) as (s & Es & Fs & Ns). rewrite Es. cbn [bind].
      rewrite sd_ok. cbn [assert_].
      destruct (run_strategy_ok F good (vcost ts) 3 (tree s) [] (tree_wf ts mz s VB Es)
                  (fun p (H : In p []) => match H with end) (vcost_evaluated ts mz s VB Es)) as (v & Ev & Lv & _).
      rewrite Ev. cbn [bind unwrap].
      destruct (nth_res_ok v 0 ltac:(lia)) as (? & -> & _). destruct (nth_res_ok v 1 ltac:(lia)) as (? & -> & _).
      destruct (nth_res_ok v 2 ltac:(lia)) as (? & -> & _). cbn [bind v_tracks].
      rewrite map_map. cbn [fst]. rewrite map_id.
      destruct (remove_all_ok_min ts tracks) as (r & ->).
      + intros t Ht. apply teq_refl. apply (Hbc _ Hb). exact Ht.
      + intros y. etransitivity; [apply (cnt_concat_in _ ts (map fst bc)); apply (in_map fst) in Hb; exact Hb | ].
        rewrite (cnt_perm _ _ _ Pb). apply cnt_filter_le.
      + cbn [bind]. eauto.
    - cbn [bind remove_all Fit.remove_all]. eauto.
  Qed.

  Theorem vertex_skeleton_total_evaluated_lemma : exists r, find_vertices tracks = Ok r.
  Proof.
    apply vertex_skeleton_total_evaluated_bc_lemma. intros bc a b Eb Ha Hb.
    assert (Hp : forall t, In t (filter is_primary tracks) -> In t tracks) by (intros t H; apply filter_In in H; tauto).
    destruct (beamline_clusters_ok_min _ Hp) as (bc' & Eb' & Pb). rewrite Eb in Eb'. inversion Eb'; subst bc'.
    assert (Hbc : forall c, In c bc -> forall t, In t (fst c) -> In t tracks).
    { intros c Hcb t Ht. apply Hp. apply (Permutation_in _ Pb). apply in_concat. exists (fst c). split; [ | exact Ht].
      apply in_map. exact Hcb. }
    apply rad_cmp; apply Hbc; assumption.
  Qed.
End VertexEvaluated.

(* ---------------- the hypotheses are satisfiable: an exact toy instance ---------------- *)
Module Toy.
  (* numbers = nat with exact operations, points = their radius; the optimiser asks the first vertex of the simplex and
     returns it *)
  Definition ncmp (x y : nat) : option comparison := Some (Nat.compare x y).
  Definition tree (s : list (list nat)) : strategy nat :=
    match s with v :: _ => Ask v (fun _ => Done (Some v)) | [] => Crash end.
  Definition nm (c : list nat -> res nat) (s : list (list nat)) : res (option (list nat)) := run_strategy c (tree s).
  Definition good (_ : nat) : Prop := True.
  Definition fit (pts : list nat) :=
    fit_cluster_to_helix nat nat (fun p => p) (fun p => p) (fun p => p * p) Nat.ltb Nat.eqb ncmp (fun _ => false)
      Nat.add Nat.sub Nat.mul (fun x => Nat.div x 2) (fun x => x) 0
      (fun _ f m l => [f; m; l; 0; 0; 0]) (fun x => if Nat.eqb x 0 then 1 else 2 * x)
      (fun _ _ => 0) (fun _ _ => 0) (fun c s => run_strategy c (tree s)) true pts.
  Lemma tree_wf : forall s n, s <> [] -> Forall (fun v => length v = n) s -> wf_strategy good n [] (tree s).
  Proof.
    intros s n Ns Fs. destruct s as [ | v t]; [now destruct Ns | ]. inversion Fs; subst. cbn [tree].
    apply wf_ask; [reflexivity | ]. intros y _. apply wf_done. now left.
  Qed.
  Lemma tree_asked : forall c s n p, s <> [] -> Forall (fun v => length v = n) s -> In p (asked c (tree s)) -> length p = n.
  Proof.
    intros c s n p Ns Fs. destruct s as [ | v t]; [now destruct Ns | ]. inversion Fs; subst. cbn [tree asked].
    intros [<- | H]; [reflexivity | ]. destruct (c v); destruct H.
  Qed.
  Lemma fit_total : forall pts, 3 <= length pts -> fit pts <> Panic /\ (forall k, fit pts = Err k -> k = E_noinit).
  Proof.
    intros pts Hl. unfold fit. apply fit_skeleton_total_evaluated_lemma with (good := good); try reflexivity; try assumption.
    - intros; discriminate.
    - intros s Hs p Hp. pose proof Hs as Hs'. eapply fit_simplex_shape with (n := 6) in Hs'; [ | intros; reflexivity]. destruct Hs' as [Ns Fs].
      pose proof (tree_asked _ s 6 p Ns Fs Hp) as Lp.
      destruct (proj2 (cost_ok_iff nat nat (fun _ => false) Nat.add 0 (fun _ _ => 0) pts p Lp) (fun _ _ => eq_refl)) as (y & Hy).
      exists y. split; [exact Hy | exact I].
    - intros s Hs. pose proof Hs as Hs'. eapply fit_simplex_shape with (n := 6) in Hs'; [ | intros; reflexivity]. destruct Hs' as [Ns Fs].
      apply tree_wf; assumption.
  Qed.

  Definition find (tracks : list nat) :=
    find_vertices nat nat ncmp (fun _ => false) Nat.add 0 (fun x => if Nat.eqb x 0 then 1 else 2 * x)
      (fun c s => run_strategy c (tree s)) true
      nat Nat.eqb (fun t => t / 4) (fun t => t) (fun _ => true) (fun a b => Nat.eqb a b)
      (fun l => fold_left Nat.add l 0) (fun l => hd 0 l) (fun l => l) (fun _ => 0) (fun _ _ _ => 0)
      (fun z => [0; 0; z]) (fun _ _ => 0) tracks.
  Lemma find_total : forall tracks, exists r, find tracks = Ok r.
  Proof.
    intros tracks. unfold find. apply vertex_skeleton_total_evaluated_lemma with (good := good); try reflexivity.
    - intros; discriminate.
    - intros a b H. apply Nat.eqb_eq in H. subst. apply Nat.eqb_refl.
    - intros a b c H1 H2. apply Nat.eqb_eq in H1, H2. subst. apply Nat.eqb_refl.
    - intros; discriminate.
    - intros ts mz s _ Hs p Hp.
      destruct (initial_simplex_ok nat (fun x => if Nat.eqb x 0 then 1 else 2 * x) [0; 0; mz]) as (s' & E & Fs & Ns).
      rewrite Hs in E. inversion E; subst s'. pose proof (tree_asked _ s 3 p Ns Fs Hp) as Lp.
      destruct (vcost_ok nat (fun _ : nat => false) Nat.add 0 nat (fun _ _ _ => 0) ts p Lp (fun _ _ => eq_refl)) as (y & Hy).
      exists y. split; [exact Hy | exact I].
    - intros ts mz s _ Hs.
      destruct (initial_simplex_ok nat (fun x => if Nat.eqb x 0 then 1 else 2 * x) [0; 0; mz]) as (s' & E & Fs & Ns).
      rewrite Hs in E. inversion E; subst s'. apply tree_wf; assumption.
    - intros; apply Nat.eqb_refl.
  Qed.
End Toy.

From AG Require Recon.Helix_proofs.
(* helix_of_params (track_fitting.rs:112-119: the helix built from best_params) is defined in Recon/Fit.v *)

(* ---------------- the IEEE hypotheses (N1), (N2) discharged for the binary64 instance ---------------- *)
From Coq Require Import ZArith Reals Floats SpecFloat Lra.
From Flocq Require Import Core BinarySingleNaN PrimFloat.
Import Helix_proofs.
Local Open Scope float_scope.
Local Existing Instance Hprec.
Local Existing Instance Hmax.

(* (N1) over binary64: f64::partial_cmp of two non-NaN numbers is Some *)
Lemma fcmp_prim_total x y : PrimFloat.is_nan x = false -> PrimFloat.is_nan y = false -> fcmp_prim x y <> None.
Proof.
  rewrite !is_nan_equiv. intros Nx Ny. unfold fcmp_prim.
  rewrite !ltb_equiv, eqb_equiv. unfold Bltb, Beqb, SFltb, SFeqb.
  change (SFcompare (B2SF (Prim2B x)) (B2SF (Prim2B y))) with (Bcompare (Prim2B x) (Prim2B y)).
  change (SFcompare (B2SF (Prim2B y)) (B2SF (Prim2B x))) with (Bcompare (Prim2B y) (Prim2B x)).
  rewrite (Bcompare_swap _ _ (Prim2B x) (Prim2B y)).
  destruct (Bcompare (Prim2B x) (Prim2B y)) as [[ | | ] | ] eqn:E; cbn; try discriminate.
  destruct (Bcompare_None _ _ E); congruence.
Qed.

Lemma fin_not_nan x : fin x -> PrimFloat.is_nan x = false.
Proof. unfold fin. rewrite is_nan_equiv. destruct (Prim2B x); cbn; congruence. Qed.

Definition Rabs_le1 (x : PrimFloat.float) : Prop := fin x /\ (Rabs (R_of x) <= 1)%R.

Lemma bpow_emax_big : (4 < bpow radix2 emax)%R.
Proof. change 4%R with (bpow radix2 2). apply bpow_lt. reflexivity. Qed.

Lemma gf_bpow k : (-1000 <= k <= 1000)%Z -> generic_format radix2 (fexp prec emax) (bpow radix2 k).
Proof.
  intros Hk. apply generic_format_bpow. unfold fexp, emin, emax, prec. lia.
Qed.

Lemma round_bound (x : R) k : (-1000 <= k <= 1000)%Z -> (Rabs x <= bpow radix2 k)%R ->
  (Rabs (round radix2 (fexp prec emax) (round_mode mode_NE) x) <= bpow radix2 k)%R.
Proof. intros Hk Hx. apply abs_round_le_generic; [apply fexp_correct; reflexivity | apply valid_rnd_round_mode | apply gf_bpow; assumption | assumption]. Qed.

Lemma add_bound x y : fin x -> fin y -> (Rabs (R_of x) <= 1)%R -> (Rabs (R_of y) <= 1)%R ->
  fin (x + y) /\ (Rabs (R_of (x + y)) <= 2)%R.
Proof.
  unfold fin, R_of. intros Fx Fy Bx By. rewrite add_equiv.
  generalize (Bplus_correct prec emax _ _ mode_NE (Prim2B x) (Prim2B y) Fx Fy).
  assert (B : (Rabs (round radix2 (fexp prec emax) (round_mode mode_NE) (B2R (Prim2B x) + B2R (Prim2B y))) <= bpow radix2 1)%R).
  { apply round_bound; [lia | ]. change (bpow radix2 1) with 2%R. eapply Rle_trans; [apply Rabs_triang | lra]. }
  rewrite Rlt_bool_true by (generalize bpow_emax_big; change (bpow radix2 1) with 2%R in B; lra).
  intros (A & F & _). split; [assumption | ]. rewrite A. exact B.
Qed.
Lemma sub_bound x y : fin x -> fin y -> (Rabs (R_of x) <= 1)%R -> (Rabs (R_of y) <= 1)%R ->
  fin (x - y) /\ (Rabs (R_of (x - y)) <= 2)%R.
Proof.
  unfold fin, R_of. intros Fx Fy Bx By. rewrite sub_equiv.
  generalize (Bminus_correct prec emax _ _ mode_NE (Prim2B x) (Prim2B y) Fx Fy).
  assert (B : (Rabs (round radix2 (fexp prec emax) (round_mode mode_NE) (B2R (Prim2B x) - B2R (Prim2B y))) <= bpow radix2 1)%R).
  { apply round_bound; [lia | ]. change (bpow radix2 1) with 2%R. unfold Rminus. eapply Rle_trans; [apply Rabs_triang | rewrite Rabs_Ropp; lra]. }
  rewrite Rlt_bool_true by (generalize bpow_emax_big; change (bpow radix2 1) with 2%R in B; lra).
  intros (A & F & _). split; [assumption | ]. rewrite A. exact B.
Qed.

Lemma R_of_two : R_of 2 = 2%R.
Proof.
  unfold R_of, Prim2B. rewrite B2R_SF2B.
  replace (Prim2SF 2) with (S754_finite false 4503599627370496 (-51)) by reflexivity.
  unfold SF2R, F2R. cbn [Fnum Fexp cond_Zopp]. change (bpow radix2 (-51)) with (/ IZR (Z.pow_pos 2 51))%R.
  replace (Z.pow_pos 2 51) with 2251799813685248%Z by reflexivity. lra.
Qed.
Lemma half_bound x : fin x -> (Rabs (R_of x) <= 2)%R -> fin (x / 2) /\ (Rabs (R_of (x / 2)) <= 1)%R.
Proof.
  unfold fin. intros Fx Bx. generalize R_of_two. unfold R_of in *. intros R2. rewrite div_equiv.
  assert (N2 : B2R (Prim2B 2) <> 0%R) by (rewrite R2; lra).
  generalize (Bdiv_correct prec emax _ _ mode_NE (Prim2B x) (Prim2B 2) N2). rewrite R2.
  assert (B : (Rabs (round radix2 (fexp prec emax) (round_mode mode_NE) (B2R (Prim2B x) / 2)) <= bpow radix2 0)%R).
  { apply round_bound; [lia | ]. change (bpow radix2 0) with 1%R. unfold Rdiv. rewrite Rabs_mult, (Rabs_pos_eq (/ 2)) by lra. lra. }
  rewrite Rlt_bool_true by (generalize bpow_emax_big; change (bpow radix2 0) with 1%R in B; lra).
  intros (A & F & _). split; [congruence | ]. rewrite A. exact B.
Qed.
Lemma abs_fin x : fin x -> fin (abs x).
Proof. unfold fin. rewrite abs_equiv. now rewrite is_finite_Babs. Qed.

(* (N2) over binary64: for finite radii of magnitude at most 1 m, |p.r - (a.r + b.r)/2| is a number *)
Lemma dev_prim_num a b p : Rabs_le1 a -> Rabs_le1 b -> Rabs_le1 p ->
  PrimFloat.is_nan (abs (p - (a + b) / 2)) = false.
Proof.
  intros [Fa Ba] [Fb Bb] [Fp Bp].
  destruct (add_bound a b Fa Fb Ba Bb) as [F1 B1].
  destruct (half_bound _ F1 B1) as [F2 B2].
  destruct (sub_bound p _ Fp F2 Bp B2) as [F3 _].
  apply fin_not_nan, abs_fin, F3.
Qed.

(* fit_skeleton_total for the binary64 instance (three_template_prim of coq/Recon/Fit.v, the one the differential tag fit3
   runs): (N1), (N2) discharged, only the gaps (N3e), (N4e) remain *)
Theorem fit_skeleton_total_evaluated_binary64_lemma :
  forall (L : libm) guess6 bump point_val closest (tree : list (list PrimFloat.float) -> strategy PrimFloat.float)
    (good : PrimFloat.float -> Prop) sd_tol_ok (pts : list spoint),
  (forall p, In p pts -> Rabs_le1 (sp_r p)) ->
  (forall s, fit_simplex PrimFloat.float spoint sp_r (sp_x L) (sp_y L) PrimFloat.ltb PrimFloat.eqb fcmp_prim
               PrimFloat.add PrimFloat.sub PrimFloat.mul (fun x => x / 2) PrimFloat.abs guess6 bump pts = Ok s ->
     forall p, In p (asked (cost PrimFloat.float spoint PrimFloat.is_nan PrimFloat.add 0 point_val pts) (tree s)) ->
     exists y, cost PrimFloat.float spoint PrimFloat.is_nan PrimFloat.add 0 point_val pts p = Ok y /\ good y) ->
  (forall s, fit_simplex PrimFloat.float spoint sp_r (sp_x L) (sp_y L) PrimFloat.ltb PrimFloat.eqb fcmp_prim
               PrimFloat.add PrimFloat.sub PrimFloat.mul (fun x => x / 2) PrimFloat.abs guess6 bump pts = Ok s ->
     wf_strategy good 6 [] (tree s)) ->
  sd_tol_ok = true -> (3 <= length pts)%nat ->
  let fit := fit_cluster_to_helix PrimFloat.float spoint sp_r (sp_x L) (sp_y L) PrimFloat.ltb PrimFloat.eqb fcmp_prim
               PrimFloat.is_nan PrimFloat.add PrimFloat.sub PrimFloat.mul (fun x => x / 2) PrimFloat.abs 0
               guess6 bump point_val closest (fun c s => run_strategy c (tree s)) sd_tol_ok in
  fit pts <> Panic /\ (forall k, fit pts = Err k -> k = E_noinit).
Proof.
  intros L guess6 bump point_val closest tree good sd pts Hr H3 H4 H6 H7.
  apply fit_skeleton_total_evaluated_lemma with (good := good); try assumption.
  - apply fcmp_prim_total.
  - intros a b p Ha Hb Hp. unfold dev. apply dev_prim_num; apply Hr; assumption.
Qed.

(* t_range over binary64, minimal form: only the range contract of atan2 (C16_closest_t_range_partial) *)
Theorem fit_t_range_binary64_min_lemma :
  forall (L : libm) (tol : PrimFloat.float) (iters : nat),
  (forall y x, Helix_proofs.rn (latan2 L y x)) ->
  forall (flt feq : PrimFloat.float -> PrimFloat.float -> bool) fcmp fnan fadd fsub fmul fhalf fabs fzero
    guess6 bump point_val nm sd_tol_ok (pts : list spoint) tr,
  fit_cluster_to_helix PrimFloat.float spoint sp_r (sp_x L) (sp_y L) flt feq fcmp fnan fadd fsub fmul fhalf fabs fzero
    guess6 bump point_val (fun hp q => closest_t L (helix_of_params hp) q tol iters) nm sd_tol_ok pts = Ok tr ->
  Helix_proofs.rn (tr_t_inner PrimFloat.float tr) /\ Helix_proofs.rn (tr_t_outer PrimFloat.float tr).
Proof.
  intros L tol iters Hat flt feq fcmp fnan fadd fsub fmul fhalf fabs fzero guess6 bump point_val nm sd pts tr Htr.
  eapply (fit_t_range_min_lemma PrimFloat.float spoint sp_r (sp_x L) (sp_y L) flt feq fcmp fnan fadd fsub fmul fhalf fabs
            fzero guess6 bump point_val _ nm sd pts Helix_proofs.rn); [ | exact Htr].
  intros hp q. apply Helix_proofs.closest_t_range_lemma. exact Hat.
Qed.

(* ---------------- the open finding `tinyphi`: the witness is in the class, and on the binary64 model
   (coq/Recon/Helix.v) the value of closest_t for the fit's initial guess is NaN: hypothesis (N3) fails there ------ *)
Lemma tinyphi_witness_in_class : tinyphi_class tinyphi_libm tinyphi_witness = true.
Proof. vm_compute. reflexivity. Qed.
Lemma tinyphi_witness_nan :
  match tinyphi_witness with
  | p :: _ => PrimFloat.is_nan (closest_t tinyphi_libm tinyphi_guess p EPS 20) = true
              /\ PrimFloat.is_nan (kf_e (kepler_setup tinyphi_libm tinyphi_guess p)) = true
  | [] => False
  end.
Proof. vm_compute. split; reflexivity. Qed.

(* ---------------- the hypotheses (N1), (N2), (N3e), (N4e) are satisfiable by a binary64 instance with the REAL cost
   kernel (Fit.B64: closest_t / Helix::at of coq/Recon/Helix.v over a software libm, the simplex prober mini_nm) -------- *)
Module B64_proofs.
  Import B64.
  Section MiniNMwf.
    Variable F : Type.
    Variables (fltb : F -> F -> bool) (fadd fsub : F -> F -> F).
    Variable good : F -> Prop.
    Variable n : nat.
    Notation lenp := (fun e : list F * F => length (fst e) = n).

    Lemma pick_in : forall better l cur, In (pick F better cur l) (cur :: l).
    Proof.
      intros better. induction l as [ | x t IH]; intros cur; cbn [pick]; [now left | ].
      destruct (IH (if better (snd x) (snd cur) then x else cur)) as [E | H].
      - rewrite <- E. destruct (better (snd x) (snd cur)); [right; now left | now left].
      - right; now right.
    Qed.
    Lemma map2_length : forall f (a b : list F), length a = n -> length b = n -> length (map2 F f a b) = n.
    Proof.
      intros f a. revert n. induction a as [ | x a IH]; intros m b La Lb; destruct b as [ | y b]; cbn in *; try lia.
      destruct m; [lia | ]. f_equal. apply IH; lia.
    Qed.
    Lemma ask_all_wf : forall k,
      (forall acc, acc <> [] -> Forall lenp acc -> wf_strategy good n (map fst acc) (k acc)) ->
      forall vs acc, (vs <> [] \/ acc <> []) -> Forall (fun v => length v = n) vs -> Forall lenp acc ->
      wf_strategy good n (map fst acc) (ask_all F vs acc k).
    Proof.
      intros k Hk. induction vs as [ | v t IH]; intros acc Hne Fv Fa; cbn [ask_all].
      - apply Hk; [destruct Hne as [H | H]; [now destruct H | exact H] | exact Fa].
      - inversion Fv as [ | v' t' Lv Ft]. apply wf_ask; [exact Lv | ]. intros y _.
        apply (IH ((v, y) :: acc)); [right; discriminate | exact Ft | constructor; [exact Lv | exact Fa]].
    Qed.
    Lemma mini_nm_wf : forall s, s <> [] -> Forall (fun v => length v = n) s ->
      wf_strategy good n [] (mini_nm F fltb fadd fsub s).
    Proof.
      intros s Ns Fs. unfold mini_nm. apply (ask_all_wf _) with (acc := []); [ | now left | exact Fs | constructor].
      intros acc Na Fa. destruct acc as [ | e t]; [now destruct Na | ].
      assert (Hin : forall better, lenp (pick F better e t)).
      { intros better. rewrite Forall_forall in Fa. apply Fa. apply pick_in. }
      apply wf_ask; [apply map2_length; apply Hin | ].
      intros y _. apply wf_done.
      destruct (pick_in fltb (e :: t) (map2 F (fun bi wi => fadd bi (fsub bi wi))
                   (fst (pick F fltb e t)) (fst (pick F (fun x y => fltb y x) e t)), y)) as [E | H].
      - rewrite <- E. now left.
      - right. apply in_map. exact H.
    Qed.
  End MiniNMwf.

  Definition good (y : PrimFloat.float) : Prop := PrimFloat.is_nan y = false.

  Lemma simplex_eq : forall s,
    fit_simplex PrimFloat.float spoint sp_r (sp_x soft_libm) (sp_y soft_libm) PrimFloat.ltb PrimFloat.eqb fcmp_prim
      PrimFloat.add PrimFloat.sub PrimFloat.mul (fun x => PrimFloat.div x 2%float) PrimFloat.abs guess6 bump pts = Ok s ->
    s = the_simplex.
  Proof. intros s H. unfold the_simplex. rewrite H. reflexivity. Qed.

  (* (N3e) for this instance, computed: the cost function returns a number that is not NaN on each of the eight vectors
     the optimiser asks *)
  Lemma evaluated_ok :
    forallb (fun p => match the_cost p with Ok y => negb (PrimFloat.is_nan y) | _ => false end)
            (asked the_cost (tree the_simplex)) = true
    /\ length (asked the_cost (tree the_simplex)) = 8%nat.
  Proof. vm_compute. split; reflexivity. Qed.

  Theorem fit_total : fit pts <> Panic /\ (forall k, fit pts = Err k -> k = E_noinit).
  Proof.
    unfold fit. apply fit_skeleton_total_evaluated_lemma with (good := good).
    - apply fcmp_prim_total.
    - intros a b p Ha Hb Hp. cbn [pts In] in Ha, Hb, Hp.
      destruct Ha as [<- | [<- | [<- | []]]]; destruct Hb as [<- | [<- | [<- | []]]]; destruct Hp as [<- | [<- | [<- | []]]];
        vm_compute; reflexivity.
    - intros s Hs p Hp. rewrite (simplex_eq s Hs) in Hp.
      destruct evaluated_ok as [Hall _]. rewrite forallb_forall in Hall. specialize (Hall p Hp).
      fold the_cost. destruct (the_cost p) as [y | | ]; try discriminate.
      exists y. split; [reflexivity | ]. unfold good. destruct (PrimFloat.is_nan y); [discriminate | reflexivity].
    - intros s Hs. rewrite (simplex_eq s Hs). apply mini_nm_wf.
      + vm_compute. discriminate.
      + vm_compute. repeat constructor.
    - reflexivity.
    - cbn. lia.
  Qed.
End B64_proofs.
