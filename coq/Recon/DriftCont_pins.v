(* C18 — continuity of the drift lookup across a knot: pinned statements (proofs: Recon/DriftCont_proofs.v).
   Setting as in Props/C18.v.  Knots (tm, rm), (tk, rk), (tp, rp) are three consecutive entries of one table;
   t1 lies in the left segment [tm, tk], t2 in the right segment [tk, tp]; h1 = tk - tm, h2 = tp - tk.
   `exact_lerp lt rt lhs rhs t` = lhs + (t - lt) / (rt - lt) * (rhs - lhs) is the interpolation without rounding. *)
From Coq Require Import Reals.
From Flocq Require Import Core.
From AG Require Import Base.Prelude Base.Res Base.Bytes Recon.Drift Recon.DriftR Recon.DriftR_proofs
  Recon.DriftCont Recon.DriftCont_proofs Gen.Drift.
Local Open Scope R_scope.

(* exact interpolation: two times at most min(h1, h2) apart that straddle the knot tk differ in radius by at most
   the LARGER (not the sum) of the two tabulated steps *)
Theorem C18_knot_straddle_real : forall tm tk tp rm rk rp t1 t2,
  tm < tk -> tk < tp -> rk <= rm -> rp <= rk ->
  tm <= t1 <= tk -> tk <= t2 <= tp -> t2 - t1 <= Rmin (tk - tm) (tp - tk) ->
  0 <= exact_lerp tm tk rm rk t1 - exact_lerp tk tp rk rp t2 <= Rmax (rm - rk) (rk - rp).
Proof. exact knot_straddle_real. Qed.
Print Assumptions C18_knot_straddle_real.

(* ... for uniformly spaced knots *)
Theorem C18_knot_straddle_real_uniform : forall tm tk tp rm rk rp t1 t2 h,
  0 < h -> tk - tm = h -> tp - tk = h -> rk <= rm -> rp <= rk ->
  tm <= t1 <= tk -> tk <= t2 <= tp -> t2 - t1 <= h ->
  0 <= exact_lerp tm tk rm rk t1 - exact_lerp tk tp rk rp t2 <= Rmax (rm - rk) (rk - rp).
Proof. exact knot_straddle_real_uniform. Qed.
Print Assumptions C18_knot_straddle_real_uniform.

(* ... and scaled: t2 - t1 <= c * min(h1, h2) gives c * max step (used for "exactly 8 ns apart" on tables whose
   spacing is 8 ns only up to rounding) *)
Theorem C18_knot_straddle_real_scaled : forall tm tk tp rm rk rp t1 t2 c,
  tm < tk -> tk < tp -> rk <= rm -> rp <= rk ->
  tm <= t1 <= tk -> tk <= t2 <= tp -> t2 - t1 <= c * Rmin (tk - tm) (tp - tk) ->
  0 <= exact_lerp tm tk rm rk t1 - exact_lerp tk tp rk rp t2 <= c * Rmax (rm - rk) (rk - rp).
Proof. exact knot_straddle_real_scaled. Qed.
Print Assumptions C18_knot_straddle_real_scaled.
