(* C18 — continuity of the drift lookup across a knot: pinned statements (proofs: Recon/DriftCont_proofs.v).
   Setting as in Props/C18.v.  Knots (tm, rm), (tk, rk), (tp, rp) are three consecutive entries of one table;
   t1 lies in the left segment [tm, tk], t2 in the right segment [tk, tp]; h1 = tk - tm, h2 = tp - tk.
   `exact_lerp lt rt lhs rhs t` = lhs + (t - lt) / (rt - lt) * (rhs - lhs) is the interpolation without rounding. *)
From Coq Require Import Reals.
From Flocq Require Import Core.
From AG Require Import Base.Prelude Base.Res Base.Bytes Recon.Drift Recon.DriftR Recon.DriftR_proofs
  Recon.Drift_proofs Recon.DriftCont Recon.DriftCont_proofs Gen.Drift.
Local Open Scope R_scope.

(* exact interpolation: two times at most min(h1, h2) apart that straddle the knot tk differ in radius by at most
   the LARGER (not the sum) of the two tabulated steps *)
Theorem C18_knot_straddle_real : forall tm tk tp rm rk rp t1 t2,
  tm < tk -> tk < tp -> rk <= rm -> rp <= rk ->
  tm <= t1 <= tk -> tk <= t2 <= tp -> t2 - t1 <= Rmin (tk - tm) (tp - tk) ->
  0 <= exact_lerp tm tk rm rk t1 - exact_lerp tk tp rk rp t2 <= Rmax (rm - rk) (rk - rp).
Proof. exact knot_straddle_real. Qed.
Print Assumptions C18_knot_straddle_real.

(* ... for uniformly spaced knots *)
Theorem C18_knot_straddle_real_uniform : forall tm tk tp rm rk rp t1 t2 h,
  0 < h -> tk - tm = h -> tp - tk = h -> rk <= rm -> rp <= rk ->
  tm <= t1 <= tk -> tk <= t2 <= tp -> t2 - t1 <= h ->
  0 <= exact_lerp tm tk rm rk t1 - exact_lerp tk tp rk rp t2 <= Rmax (rm - rk) (rk - rp).
Proof. exact knot_straddle_real_uniform. Qed.
Print Assumptions C18_knot_straddle_real_uniform.

(* ... and scaled: t2 - t1 <= c * min(h1, h2) gives c * max step (used for "exactly 8 ns apart" on tables whose
   spacing is 8 ns only up to rounding) *)
Theorem C18_knot_straddle_real_scaled : forall tm tk tp rm rk rp t1 t2 c,
  tm < tk -> tk < tp -> rk <= rm -> rp <= rk ->
  tm <= t1 <= tk -> tk <= t2 <= tp -> t2 - t1 <= c * Rmin (tk - tm) (tp - tk) ->
  0 <= exact_lerp tm tk rm rk t1 - exact_lerp tk tp rk rp t2 <= c * Rmax (rm - rk) (rk - rp).
Proof. exact knot_straddle_real_scaled. Qed.
Print Assumptions C18_knot_straddle_real_scaled.

(* ---------- the algorithm of the implementation: lookupR = DriftTables::at over R with rnd64 after every operation ----------
   u64 = 2^-53, eta64 = 2^-1075;  straddle_eps u eta B s1 s2 = u * (2 B + 9 (s1 + s2)) + 4 eta.
   Knot k of the slice of z (1 <= k, k + 1 < number of knots); t1 in [t_(k-1), t_k], t2 in [t_k, t_(k+1)];
   all radii of the slice within [0, B]; knot spacing not absurdly small (eta64 <= u64 * min(h1, h2), i.e.
   min(h1, h2) >= 2^-1022).  Then for lookups at most min(h1, h2) apart the radius changes by at most the LARGER of
   the two tabulated steps plus the rounding term. *)
Theorem C18_knot_straddle : forall m ts z s k t1 t2 r1 c1 r2 c2 B,
  tables_ok fmt64 ts -> is_slice ts z s -> (1 <= k)%nat -> (S k < length (fst s))%nat ->
  (forall kn, In kn (fst s) -> 0 <= rk_radius kn <= B) ->
  rk_time (knot_at s (k - 1)) <= t1 <= rk_time (knot_at s k) ->
  rk_time (knot_at s k) <= t2 <= rk_time (knot_at s (S k)) ->
  t2 - t1 <= Rmin (rk_time (knot_at s k) - rk_time (knot_at s (k - 1)))
                  (rk_time (knot_at s (S k)) - rk_time (knot_at s k)) ->
  eta64 <= u64 * Rmin (rk_time (knot_at s k) - rk_time (knot_at s (k - 1)))
                      (rk_time (knot_at s (S k)) - rk_time (knot_at s k)) ->
  lookupR m ts z t1 = Ok (r1, c1) -> lookupR m ts z t2 = Ok (r2, c2) ->
  0 <= r1 - r2 <=
    Rmax (rk_radius (knot_at s (k - 1)) - rk_radius (knot_at s k))
         (rk_radius (knot_at s k) - rk_radius (knot_at s (S k)))
    + straddle_eps u64 eta64 B (rk_radius (knot_at s (k - 1)) - rk_radius (knot_at s k))
                               (rk_radius (knot_at s k) - rk_radius (knot_at s (S k))).
Proof. exact knot_straddle_lemma. Qed.
Print Assumptions C18_knot_straddle.

(* ... scaled: t2 - t1 <= c * min(h1, h2) gives c * max step + the same rounding term *)
Theorem C18_knot_straddle_scaled : forall m ts z s k t1 t2 r1 c1 r2 c2 B c,
  tables_ok fmt64 ts -> is_slice ts z s -> (1 <= k)%nat -> (S k < length (fst s))%nat ->
  (forall kn, In kn (fst s) -> 0 <= rk_radius kn <= B) ->
  rk_time (knot_at s (k - 1)) <= t1 <= rk_time (knot_at s k) ->
  rk_time (knot_at s k) <= t2 <= rk_time (knot_at s (S k)) ->
  t2 - t1 <= c * Rmin (rk_time (knot_at s k) - rk_time (knot_at s (k - 1)))
                      (rk_time (knot_at s (S k)) - rk_time (knot_at s k)) ->
  eta64 <= u64 * Rmin (rk_time (knot_at s k) - rk_time (knot_at s (k - 1)))
                      (rk_time (knot_at s (S k)) - rk_time (knot_at s k)) ->
  lookupR m ts z t1 = Ok (r1, c1) -> lookupR m ts z t2 = Ok (r2, c2) ->
  0 <= r1 - r2 <=
    c * Rmax (rk_radius (knot_at s (k - 1)) - rk_radius (knot_at s k))
             (rk_radius (knot_at s k) - rk_radius (knot_at s (S k)))
    + straddle_eps u64 eta64 B (rk_radius (knot_at s (k - 1)) - rk_radius (knot_at s k))
                               (rk_radius (knot_at s k) - rk_radius (knot_at s (S k))).
Proof. exact knot_straddle_scaled_lemma. Qed.
Print Assumptions C18_knot_straddle_scaled.

(* the error model used: binary64 round-to-nearest-even with gradual underflow (Flocq error_N_FLT) *)
Theorem C18_rnd64_err : forall x, Rabs (rnd64 x - x) <= u64 * Rabs x + eta64.
Proof. exact rnd64_err. Qed.
Print Assumptions C18_rnd64_err.

(* one lookup against the exact interpolation of its segment, for any rounding satisfying the laws of
   Section Rounded and the error model with 0 <= eta <= u <= 1/8 (instantiated above with rnd64, u64, eta64):
   |computed - exact| <= lerp_eps u eta B step = u * (B + 9 step) + 2 eta *)
Theorem C18_table_at_exact_err : forall (rnd : R -> R) (fmt : R -> Prop),
  (forall x y, x <= y -> rnd x <= rnd y) -> (forall x, fmt x -> rnd x = x) -> (forall x, fmt (rnd x)) ->
  fmt 0 -> fmt 1 -> (forall x y, fmt x -> fmt y -> x < y -> 0 < rnd (y - x)) ->
  forall u eta, 0 <= u <= / 8 -> 0 <= eta <= u -> (forall x, Rabs (rnd x - x) <= u * Rabs x + eta) ->
  forall m tb j t r c B,
  table_ok fmt tb -> (1 <= j)%nat -> (j < length tb)%nat ->
  rk_time (nth (j - 1) tb rk0) <= t <= rk_time (nth j tb rk0) ->
  0 <= rk_radius (nth j tb rk0) -> rk_radius (nth (j - 1) tb rk0) <= B ->
  eta <= u * (rk_time (nth j tb rk0) - rk_time (nth (j - 1) tb rk0)) ->
  table_at (real_arith rnd) m tb t = Ok (r, c) ->
  Rabs (r - exact_lerp (rk_time (nth (j - 1) tb rk0)) (rk_time (nth j tb rk0))
                       (rk_radius (nth (j - 1) tb rk0)) (rk_radius (nth j tb rk0)) t)
  <= lerp_eps u eta B (rk_radius (nth (j - 1) tb rk0) - rk_radius (nth j tb rk0)).
Proof. exact table_at_exact_err. Qed.
Print Assumptions C18_table_at_exact_err.

(* ---------- the tables of the current source (facts by vm_compute, re-proved on every build) ---------- *)
(* knot spacing: every two adjacent tabulated times are 8 ns apart to within 1e-21 s.  The spacing is NOT exactly
   uniform: the times are the binary64 roundings of j * 8e-9 (observed: 8e-9 - 2.5e-22 .. 8e-9 + 6.1e-22). *)
Theorem C18_spacings_okb_current : spacings_okb d_tables = true.
Proof. exact spacings_okb_current. Qed.
Print Assumptions C18_spacings_okb_current.

Theorem C18_spacing_current : forall i j sd a b,
  nth_error d_tables i = Some sd -> nth_error (fst sd) j = Some a -> nth_error (fst sd) (S j) = Some b ->
  7999999999999 / 1000000000000000000000 <= dyR (dk_time b) - dyR (dk_time a)
    <= 8000000000001 / 1000000000000000000000.
Proof. exact spacing_current_lemma. Qed.
Print Assumptions C18_spacing_current.

(* every tabulated radius lies in [0, 1/4] m *)
Theorem C18_radius_current : forall i sd a,
  nth_error d_tables i = Some sd -> In a (fst sd) -> 0 <= dyR (dk_radius a) <= 1 / 4.
Proof. exact radius_current_lemma. Qed.
Print Assumptions C18_radius_current.

(* the rounding term on the current tables is below 6e-17 m *)
Theorem C18_straddle_eps_current : forall s1 s2,
  0 <= s1 < 66 / 100000 -> 0 <= s2 < 66 / 100000 ->
  straddle_eps u64 eta64 (1 / 4) s1 s2 <= 6 / 100000000000000000.
Proof. exact straddle_eps_current. Qed.
Print Assumptions C18_straddle_eps_current.

(* adjacent segments j, j+1 of table i (knots a, b, c): t2 - t1 <= cc * min(h1, h2) gives cc * max step + 6e-17 m *)
Theorem C18_straddle_current_scaled : forall m i j sd a b c z t1 t2 r1 c1 r2 c2 cc,
  nth_error d_tables i = Some sd ->
  nth_error (fst sd) j = Some a -> nth_error (fst sd) (S j) = Some b -> nth_error (fst sd) (S (S j)) = Some c ->
  is_slice r_tables z (map dknotR (fst sd), dyR (snd sd)) ->
  dyR (dk_time a) <= t1 <= dyR (dk_time b) -> dyR (dk_time b) <= t2 <= dyR (dk_time c) ->
  t2 - t1 <= cc * Rmin (dyR (dk_time b) - dyR (dk_time a)) (dyR (dk_time c) - dyR (dk_time b)) ->
  lookupR m r_tables z t1 = Ok (r1, c1) -> lookupR m r_tables z t2 = Ok (r2, c2) ->
  0 <= dyR (dk_radius a) - dyR (dk_radius b) /\ 0 <= dyR (dk_radius b) - dyR (dk_radius c) /\
  0 <= r1 - r2 <=
    cc * Rmax (dyR (dk_radius a) - dyR (dk_radius b)) (dyR (dk_radius b) - dyR (dk_radius c))
    + 6 / 100000000000000000.
Proof. exact straddle_current_scaled_lemma. Qed.
Print Assumptions C18_straddle_current_scaled.

(* lookups that straddle a knot, at most min(h1, h2) apart, neither touched segment in the known class F8:
   the radius changes by less than 0.5 mm + 1e-15 m (complements C18_half_mm_outside_known_partial, which covers
   two lookups inside ONE segment) *)
Theorem C18_half_mm_straddle : forall m i j sd a b c z t1 t2 r1 c1 r2 c2,
  nth_error d_tables i = Some sd ->
  nth_error (fst sd) j = Some a -> nth_error (fst sd) (S j) = Some b -> nth_error (fst sd) (S (S j)) = Some c ->
  ~ In (N.of_nat i, N.of_nat j) known_steps -> ~ In (N.of_nat i, N.of_nat (S j)) known_steps ->
  is_slice r_tables z (map dknotR (fst sd), dyR (snd sd)) ->
  dyR (dk_time a) <= t1 <= dyR (dk_time b) -> dyR (dk_time b) <= t2 <= dyR (dk_time c) ->
  t2 - t1 <= Rmin (dyR (dk_time b) - dyR (dk_time a)) (dyR (dk_time c) - dyR (dk_time b)) ->
  lookupR m r_tables z t1 = Ok (r1, c1) -> lookupR m r_tables z t2 = Ok (r2, c2) ->
  0 <= r1 - r2 < 5 / 10000 + 1 / 1000000000000000.
Proof. exact half_mm_straddle_lemma. Qed.
Print Assumptions C18_half_mm_straddle.

(* ... the same for lookups at most 8 ns apart (8e-9 may exceed min(h1, h2) by up to 1e-21 s; the scaled bound
   absorbs it: 8e-9 / (8e-9 - 1e-21) * 0.5 mm < 0.5 mm + 7e-17 m) *)
Theorem C18_half_mm_straddle_8ns : forall m i j sd a b c z t1 t2 r1 c1 r2 c2,
  nth_error d_tables i = Some sd ->
  nth_error (fst sd) j = Some a -> nth_error (fst sd) (S j) = Some b -> nth_error (fst sd) (S (S j)) = Some c ->
  ~ In (N.of_nat i, N.of_nat j) known_steps -> ~ In (N.of_nat i, N.of_nat (S j)) known_steps ->
  is_slice r_tables z (map dknotR (fst sd), dyR (snd sd)) ->
  dyR (dk_time a) <= t1 <= dyR (dk_time b) -> dyR (dk_time b) <= t2 <= dyR (dk_time c) ->
  t2 - t1 <= 8 / 1000000000 ->
  lookupR m r_tables z t1 = Ok (r1, c1) -> lookupR m r_tables z t2 = Ok (r2, c2) ->
  0 <= r1 - r2 < 5 / 10000 + 1 / 1000000000000000.
Proof. exact half_mm_straddle_8ns_lemma. Qed.
Print Assumptions C18_half_mm_straddle_8ns.

(* ... and for EVERY pair of adjacent segments (known class included): less than 0.66 mm + 1e-15 m *)
Theorem C18_straddle_lt_066_mm_8ns : forall m i j sd a b c z t1 t2 r1 c1 r2 c2,
  nth_error d_tables i = Some sd ->
  nth_error (fst sd) j = Some a -> nth_error (fst sd) (S j) = Some b -> nth_error (fst sd) (S (S j)) = Some c ->
  is_slice r_tables z (map dknotR (fst sd), dyR (snd sd)) ->
  dyR (dk_time a) <= t1 <= dyR (dk_time b) -> dyR (dk_time b) <= t2 <= dyR (dk_time c) ->
  t2 - t1 <= 8 / 1000000000 ->
  lookupR m r_tables z t1 = Ok (r1, c1) -> lookupR m r_tables z t2 = Ok (r2, c2) ->
  0 <= r1 - r2 < 66 / 100000 + 1 / 1000000000000000.
Proof. exact straddle_lt_066_mm_8ns_lemma. Qed.
Print Assumptions C18_straddle_lt_066_mm_8ns.
