(* Control skeleton of
     track_fitting::{fit_cluster_to_helix, three_template_points, Problem::cost}   (physics/src/reconstruction/track_fitting.rs)
     vertex_fitting::{find_vertices, beamline_clusters, Problem::cost}             (physics/src/reconstruction/vertex_fitting.rs)
   Every `unwrap`, `assert!`, `partial_cmp().unwrap()`, index and `position(..).unwrap()` is a panicking primitive
   of the `res` monad.  The numeric kernels (closest_t, Helix::at, circle_through_three_points, center_of_mass,
   libm, argmin's Nelder-Mead, slice::sort_unstable_by) are Section variables.  Definitions only. *)
From Coq Require Import PrimFloat.
From AG Require Import Base.Prelude Base.Res Recon.Helix.

Definition E_noinit : N := 0.          (* TryTrackFromClusterError::NoInitialParameters *)

(* v[i] *)
Definition nth_res {A} (l : list A) (i : nat) : res A := unwrap (nth_error l i).
(* v[i] = x *)
Fixpoint upd {A} (l : list A) (i : nat) (x : A) : res (list A) :=
  match l, i with
  | [], _ => Panic
  | _ :: t, O => Ok (x :: t)
  | a :: t, S k => do t' <- upd t k x; Ok (a :: t')
  end.
(* Iterator::min_by(cmp): fold with core::cmp::min_by = match cmp(acc, y) { Greater => y, _ => acc };
   the comparison may panic (partial_cmp().unwrap()) *)
Fixpoint min_by_res {A} (cmp : A -> A -> res comparison) (acc : A) (l : list A) : res A :=
  match l with
  | [] => Ok acc
  | y :: t => do c <- cmp acc y; min_by_res cmp (match c with Gt => y | _ => acc end) t
  end.
(* Iterator::max_by(cmp): fold with core::cmp::max_by = match cmp(acc, y) { Greater => acc, _ => y } *)
Fixpoint max_by_res {A} (cmp : A -> A -> res comparison) (acc : A) (l : list A) : res A :=
  match l with
  | [] => Ok acc
  | y :: t => do c <- cmp acc y; max_by_res cmp (match c with Gt => acc | _ => y end) t
  end.
(* Iterator::position *)
Fixpoint position {A} (f : A -> bool) (l : list A) : option nat :=
  match l with
  | [] => None
  | a :: t => if f a then Some O else option_map S (position f t)
  end.
(* Vec::swap_remove(i): removes element i, the last element takes its place; panics if i >= len *)
Definition swap_remove {A} (l : list A) (i : nat) : res (list A) :=
  match nth_error l i with
  | None => Panic
  | Some _ =>
      match rev l with
      | [] => Panic
      | lastx :: rinit =>
          let init := rev rinit in
          if Nat.eqb i (length init) then Ok init
          else Ok (firstn i init ++ lastx :: skipn (S i) init)
      end
  end.

(* ---------------- the optimiser as a procedure that RECEIVES the cost function ----------------
   argmin's Executor::run with NelderMead (track_fitting.rs:102-109, vertex_fitting.rs:76-83) is modelled as an
   interaction tree: it asks the cost function for its value at a parameter vector and continues according to the
   answer, finitely often (max_iters is configured), and ends with state.best_param -- or it fails by itself
   (`Crash`: run() returned Err or argmin panicked, so `.unwrap()` at :108 panics).  Nothing else of argmin is modelled:
   WHICH vectors it asks is the tree, a Section variable of the theorems.  By construction the cost function is called
   only on the vectors asked along the path its own answers select, and a panic of the cost function is the panic of
   the fit. *)
Inductive strategy (F : Type) : Type :=
| Done (best : option (list F))                 (* res.state.best_param *)
| Crash                                         (* Executor::run() is Err / argmin panics *)
| Ask (p : list F) (k : F -> strategy F).       (* problem.cost(&p)? *)
Arguments Done {F} best.
Arguments Crash {F}.
Arguments Ask {F} p k.

(* Executor::new(problem, solver).run().unwrap(): Problem::cost returns Ok(value) or panics; an Err would be turned into
   a panic by the unwrap at :108 *)
Fixpoint run_strategy {F} (c : list F -> res F) (t : strategy F) : res (option (list F)) :=
  match t with
  | Done b => Ok b
  | Crash => Panic
  | Ask p k => match c p with Ok y => run_strategy c (k y) | _ => Panic end
  end.
(* the parameter vectors the cost function is called on, in order (up to and including the first call that fails) *)
Fixpoint asked {F} (c : list F -> res F) (t : strategy F) : list (list F) :=
  match t with
  | Done _ | Crash => []
  | Ask p k => p :: match c p with Ok y => asked c (k y) | _ => [] end
  end.
(* what is ASSUMED of argmin (hypothesis N4 / V4 of C14): as long as the answers are `good` numbers (for the real code:
   not NaN), every vector it asks has the dimension n of the simplex, it does not fail by itself, and best_param is a
   vector it has asked before *)
Inductive wf_strategy {F} (good : F -> Prop) (n : nat) : list (list F) -> strategy F -> Prop :=
| wf_done : forall seen v, In v seen -> wf_strategy good n seen (Done (Some v))
| wf_ask : forall seen p k, length p = n -> (forall y, good y -> wf_strategy good n (p :: seen) (k y)) ->
           wf_strategy good n seen (Ask p k).

Section Skeleton.
  Variable F : Type.                                   (* f64 *)
  Variable point : Type.                               (* SpacePoint *)
  Variables (p_r p_x p_y : point -> F).                (* .r, .x(), .y() *)
  Variables (flt feq : F -> F -> bool).                (* <, == *)
  Variable fcmp : F -> F -> option comparison.         (* partial_cmp *)
  Variable fnan : F -> bool.                           (* is_nan *)
  Variables (fadd fsub fmul : F -> F -> F) (fhalf fabs : F -> F) (fzero : F).

  (* ---------------- three_template_points (track_fitting.rs:129) ---------------- *)
  (* itertools 0.11 minmax_impl with lt = |x, y| key(x) < key(y): elements are taken two at a time *)
  Fixpoint minmax_loop (fuel : nat) (mn mx : point) (l : list point) : point * point :=
    match fuel with
    | O => (mn, mx)
    | S k =>
        match l with
        | [] => (mn, mx)
        | [a] =>
            if flt (p_r a) (p_r mn) then (a, mx)
            else if negb (flt (p_r a) (p_r mx)) then (mn, a) else (mn, mx)
        | a :: b :: t =>
            if negb (flt (p_r b) (p_r a)) then
              let mn' := if flt (p_r a) (p_r mn) then a else mn in
              let mx' := if negb (flt (p_r b) (p_r mx)) then b else mx in
              minmax_loop k mn' mx' t
            else
              let mn' := if flt (p_r b) (p_r mn) then b else mn in
              let mx' := if negb (flt (p_r a) (p_r mx)) then a else mx in
              minmax_loop k mn' mx' t
        end
    end.
  (* minmax_by_key(|p| p.r).into_option() *)
  Definition minmax_r (l : list point) : option (point * point) :=
    match l with
    | [] => None
    | [x] => Some (x, x)
    | x :: y :: t =>
        let '(mn, mx) := if negb (flt (p_r y) (p_r x)) then (x, y) else (y, x) in
        Some (minmax_loop (length t) mn mx t)
    end.

  Definition dev (mid : F) (p : point) : F := fabs (fsub (p_r p) mid).      (* (a.r - middle_r).abs() *)

  Definition three_template_points (pts : list point) : res (point * point * point) :=
    do '(first, last) <- unwrap (minmax_r pts);                              (* :137 .into_option().unwrap() *)
    let middle_r := fhalf (fadd (p_r first) (p_r last)) in                   (* :139 *)
    do middle <-                                                             (* :140-149 *)
      match pts with
      | [] => Panic                                                          (* .min_by(..).copied().unwrap() on empty *)
      | a :: t => min_by_res (fun a b => unwrap (fcmp (dev middle_r a) (dev middle_r b))) a t
      end;
    if feq (fmul (fsub (p_x last) (p_x first)) (fsub (p_y middle) (p_y first)))         (* :161-162 *)
           (fmul (fsub (p_x middle) (p_x first)) (fsub (p_y last) (p_y first)))
    then Err E_noinit                                                        (* :164 *)
    else Ok (first, middle, last).

  (* ---------------- fit_cluster_to_helix (track_fitting.rs:19) ---------------- *)
  (* numeric kernels without panicking constructs *)
  Variable guess6 : list point -> point -> point -> point -> list F.        (* :42-83 initial_guess (vec! of 6) *)
  Variable bump : F -> F.                                                   (* :87-93 x == 0 ? 0.00025 : x * 1.05 *)
  Variable point_val : list F -> point -> F.       (* :258-261 norm_sqr(p, helix.at(helix.closest_t(p))) for p[0..6] *)
  Variable closest : list F -> point -> F.                                  (* helix.closest_t(point, tol, iters) *)
  (* argmin: Executor::new(problem, NelderMead::new(simplex)).run(): Panic if the cost function panicked,
     otherwise the final state's best_param *)
  Variable nm : (list F -> res F) -> list (list F) -> res (option (list F)).
  Variable sd_tol_ok : bool.                        (* with_sd_tolerance(tol): Err iff tol < 0 *)

  (* :85-95 initial simplex *)
  Fixpoint simplex_loop (g : list F) (i n : nat) : res (list (list F)) :=
    match n with
    | O => Ok []
    | S k =>
        do v <- nth_res g i;                                                 (* new_point[i] *)
        do np <- upd g i (bump v);                                           (* new_point[i] = .. *)
        do rest <- simplex_loop g (S i) k;
        Ok (np :: rest)
    end.
  Definition initial_simplex (g : list F) : res (list (list F)) :=
    do rest <- simplex_loop g 0 (length g); Ok (g :: rest).

  (* track_fitting.rs:244 Problem::cost *)
  Definition cost (pts : list point) (p : list F) : res F :=
    do _ <- nth_res p 0; do _ <- nth_res p 1; do _ <- nth_res p 2;           (* p[0] .. p[5] *)
    do _ <- nth_res p 3; do _ <- nth_res p 4; do _ <- nth_res p 5;
    fold_left (fun acc q =>
                 do s <- acc;
                 let val := point_val p q in
                 assert_ (negb (fnan val)) (Ok (fadd s val)))                (* :265 assert!(!val.is_nan()) *)
              pts (Ok fzero).

  Record track := { tr_params : list F; tr_t_inner : F; tr_t_outer : F }.

  Definition fit_cluster_to_helix (pts : list point) : res track :=
    assert_ (3 <=? length pts)%nat (                                         (* :37 assert!(sp.len() >= 3) *)
    do '(first, middle, last) <- three_template_points pts;                  (* :40 `?` *)
    let g := guess6 pts first middle last in
    do simplex <- initial_simplex g;
    assert_ sd_tol_ok (                                                      (* :102-104 with_sd_tolerance(..).unwrap() *)
    do best <- nm (cost pts) simplex;                                        (* :105-108 run().unwrap() *)
    do bp <- unwrap best;                                                    (* :109 best_param.unwrap() *)
    do _ <- nth_res bp 0; do _ <- nth_res bp 1; do _ <- nth_res bp 2;        (* :113-118 best_params[0..6] *)
    do _ <- nth_res bp 3; do _ <- nth_res bp 4; do _ <- nth_res bp 5;
    Ok {| tr_params := bp;
          tr_t_inner := closest bp first;                                    (* :122 *)
          tr_t_outer := closest bp last |})).                                (* :123 *)

  (* the initial simplex the fit hands to the optimiser (:40-95); fit_cluster_to_helix = this, then :97-124 *)
  Definition fit_simplex (pts : list point) : res (list (list F)) :=
    do '(first, middle, last) <- three_template_points pts;
    initial_simplex (guess6 pts first middle last).

  (* ---------------- beamline_clusters / find_vertices (vertex_fitting.rs) ---------------- *)
  Variable T : Type.                                                         (* Track *)
  Variable teq : T -> T -> bool.                                             (* derived PartialEq *)
  Variable t_zb : T -> F.                                   (* track.helix.closest_to_beamline().z *)
  Variable t_rad : T -> F.                                                   (* track.helix.r *)
  Variable is_primary : T -> bool.                                           (* :33-36 the two filters *)
  Variable close_z : F -> F -> bool.                    (* :163 (current_z - last_z).abs() < max distance *)
  Variable sumF : list F -> F.                                               (* Iterator::sum *)
  Variable mean_z : list T -> F.                                             (* :173-177 *)
  (* slice::sort_unstable_by: some sorting permutation; it panics if a comparison it performs panics.
     Modelled conservatively: Panic as soon as ANY pair of elements is incomparable. *)
  Variable sortP : list T -> list T.
  Definition sort_by_res (cmp : T -> T -> option comparison) (l : list T) : res (list T) :=
    if forallb (fun a => forallb (fun b => match cmp a b with Some _ => true | None => false end) l) l
    then Ok (sortP l) else Panic.

  (* :152-168 the clustering loop; `cur` is clusters.last() (reversed), `done` the earlier clusters (reversed) *)
  Fixpoint bc_loop (done : list (list T)) (cur : list T) (l : list T) : res (list (list T)) :=
    match l with
    | [] => Ok (rev (rev cur :: done))
    | t :: rest =>
        do lastt <- unwrap (hd_error cur);                                   (* clusters.last().unwrap().last().unwrap() *)
        if close_z (t_zb t) (t_zb lastt) then bc_loop done (t :: cur) rest   (* :164 *)
        else bc_loop (rev cur :: done) [t] rest                              (* :166 *)
    end.
  Definition beamline_clusters (tracks : list T) : res (list (list T * F)) :=
    match tracks with
    | [] => Ok []                                                            (* :139 *)
    | _ =>
        do sorted <- sort_by_res (fun a b => fcmp (t_zb a) (t_zb b)) tracks; (* :143-149 *)
        do t0 <- nth_res sorted 0;                                           (* :151 tracks[0] *)
        do cl <- bc_loop [] [t0] (skipn 1 sorted);
        Ok (map (fun c => (c, mean_z c)) cl)                                 (* :170-180 *)
    end.

  Variable vpoint_of : list F -> point.                                      (* :99-103 SpacePoint from the vertex *)
  Variable vcost_val : list T -> list F -> T -> F.                           (* :224-227 *)
  Variable vguess : F -> list F.                                             (* :57 vec![0.0, 0.0, mean_z] *)
  Variable tclosest : T -> point -> F.
  Definition vcost (ts : list T) (p : list F) : res F :=                     (* vertex_fitting.rs:208 *)
    do _ <- nth_res p 0; do _ <- nth_res p 1; do _ <- nth_res p 2;
    fold_left (fun acc t =>
                 do s <- acc;
                 let val := vcost_val ts p t in
                 assert_ (negb (fnan val)) (Ok (fadd s val)))                (* :231 *)
              ts (Ok fzero).

  (* Itertools::max_set_by_key(len): all elements with maximal key, in order; no panic *)
  Definition max_set_len (l : list (list T * F)) : list (list T * F) :=
    let m := fold_left (fun acc c => Nat.max acc (length (fst c))) l O in
    filter (fun c => Nat.eqb (length (fst c)) m) l.

  Record vertex := { v_pos : list F; v_tracks : list (T * F) }.

  (* :117-122 for (track, _) in vertex.tracks { index = position(|t| t == track).unwrap(); swap_remove(index) } *)
  Fixpoint remove_all (vs : list T) (tracks : list T) : res (list T) :=
    match vs with
    | [] => Ok tracks
    | v :: rest =>
        do i <- unwrap (position (fun t => teq t v) tracks);
        do tracks' <- swap_remove tracks i;
        remove_all rest tracks'
    end.

  Definition find_vertices (tracks : list T) : res (option vertex * list T) :=
    let primary := filter is_primary tracks in                               (* :31-38 *)
    do bc <- beamline_clusters primary;                                      (* :40 *)
    let cands := max_set_len (filter (fun c => (1 <? length (fst c))%nat) bc) in   (* :42-43 *)
    do best <-                                                               (* :45-51 max_by(partial_cmp().unwrap()) *)
      match cands with
      | [] => Ok None
      | c :: t =>
          do b <- max_by_res (fun a b => unwrap (fcmp (sumF (map t_rad (fst a))) (sumF (map t_rad (fst b))))) c t;
          Ok (Some b)
      end;
    do vtx <-
      match best with
      | None => Ok None
      | Some (ts, mz) =>
          let g := vguess mz in
          do simplex <- initial_simplex g;                                   (* :58-69 *)
          assert_ sd_tol_ok (                                                (* :76-78 *)
          do bestp <- nm (vcost ts) simplex;                                 (* :79-82 *)
          do bp <- unwrap bestp;                                             (* :83 *)
          do _ <- nth_res bp 0; do _ <- nth_res bp 1; do _ <- nth_res bp 2;  (* :87-89 *)
          Ok (Some {| v_pos := bp; v_tracks := map (fun t => (t, tclosest t (vpoint_of bp))) ts |}))
      end;
    do remainder <- remove_all (match vtx with None => [] | Some v => map fst (v_tracks v) end) tracks;
    Ok (vtx, remainder).

  (* the tracks and the mean z the vertex fit is run on (:31-51); find_vertices = this, then :52-128 *)
  Definition vertex_best (tracks : list T) : res (option (list T * F)) :=
    let primary := filter is_primary tracks in
    do bc <- beamline_clusters primary;
    let cands := max_set_len (filter (fun c => (1 <? length (fst c))%nat) bc) in
    match cands with
    | [] => Ok None
    | c :: t =>
        do b <- max_by_res (fun a b => unwrap (fcmp (sumF (map t_rad (fst a))) (sumF (map t_rad (fst b))))) c t;
        Ok (Some b)
    end.
End Skeleton.

(* ---------------- binary64 instance of three_template_points (differential tag `fit3`) ---------------- *)
Local Open Scope float_scope.
(* f64::partial_cmp *)
Definition fcmp_prim (x y : float) : option comparison :=
  if x <? y then Some Lt else if x =? y then Some Eq else if y <? x then Some Gt else None.
Definition three_template_prim (L : libm) (pts : list spoint) : res (spoint * spoint * spoint) :=
  three_template_points float spoint sp_r (sp_x L) (sp_y L) PrimFloat.ltb PrimFloat.eqb fcmp_prim
    PrimFloat.add PrimFloat.sub PrimFloat.mul (fun x => x / 2) PrimFloat.abs pts.
(* outcome class of Track::try_from as far as three_template_points decides it:
   0 = Err(NoInitialParameters), 1 = goes on to the minimiser, 2 = panic *)
Definition fit3_outcome (L : libm) (pts : list spoint) : N :=
  if (length pts <? 3)%nat then 2%N
  else match three_template_prim L pts with Ok _ => 1%N | Err _ => 0%N | Panic => 2%N end.

(* ---------------- OPEN FINDING `tinyphi` (C14, F9): recogniser of the class and the witness ---------------- *)
(* The class, as measured on the implementation (harness/phys/src/c14.rs, comment at R_CLASS): the three template points
   are not collinear in the sense of the code (three_template_points returns Ok) and the circle through them -- the
   initial guess of the fit -- has a radius R >= 1e136 m.  On this class the numeric hypothesis (N3) of
   C14_fit_skeleton_total is FALSE of the implementation for almost every member with R >= 1e138 m: the optimiser is
   handed, or wanders to, parameter vectors for which closest_t evaluates inf/inf or inf * 0.
   The definition performs the same binary64 operations in the same order as the harness recogniser
   `c14::tinyphi_class` (differential tag `cls14`):  R = |fm| |ml| |lf| / (2 |cross|), cross the exact doubled area
   (Dekker's error-free product from plain operations, no fma), the test is  |fm| |ml| |lf| >= 2 * 1e136 * |cross|. *)
Definition R_CLASS : float := 0x1.b843422e3a84dp+451.      (* 1e136 *)
Definition vsplit (x : float) : float * float :=
  let c := 134217729 * x in let hi := c - (c - x) in (hi, x - hi).
Definition two_prod_err (a b p : float) : float :=
  let '(ah, al) := vsplit a in let '(bh, bl) := vsplit b in
  al * bl - (((p - ah * bh) - al * bh) - ah * bl).
Definition tinyphi_class (L : libm) (pts : list spoint) : bool :=
  if (length pts <? 3)%nat then false
  else match three_template_prim L pts with
  | Ok (f, m, l) =>
      let '(fx, fy) := (sp_x L f, sp_y L f) in
      let '(mx, my) := (sp_x L m, sp_y L m) in
      let '(lx, ly) := (sp_x L l, sp_y L l) in
      let a := lx - fx in let b := my - fy in let c := mx - fx in let d := ly - fy in
      let p1 := a * b in let p2 := c * d in
      let cross := abs ((p1 - p2) + (two_prod_err a b p1 - two_prod_err c d p2)) in
      let side u v := sqrt (u * u + v * v) in
      let num := side c b * side (lx - mx) (ly - my) * side a d in
      2 * R_CLASS * cross <=? num
  | _ => false
  end.
(* the corpus witness corpus/C14/tinyphi.case: (r, phi, z) = (0.11, 1e-165, 0), (0.15, -2e-165, 0.1), (0.19, 3.5e-165, 0.2) *)
Definition tinyphi_witness : list spoint :=
  [ mk_spoint 0x1.c28f5c28f5c29p-4 0x1.d7becc2f23ac2p-549 0;
    mk_spoint 0x1.3333333333333p-3 (-0x1.d7becc2f23ac2p-548) 0x1.999999999999ap-4;
    mk_spoint 0x1.851eb851eb852p-3 0x1.9ce6e2e996da9p-547 0x1.999999999999ap-3 ].
(* the initial guess the fit computes for it (logged from the implementation): x0, y0, z0, r, phi0, h *)
Definition tinyphi_guess : helix :=
  mk_helix 0x1.22aac41631602p-3 0x1.4b11df37d1454p+538 0x1.999999999999ap-4 0x1.4b11df37d1454p+538
           (-0x1.921fb54442d18p+0) 0x1.4506eb513f39cp+542.
(* a libm that agrees with a correctly rounded one on the three calls that matter for the first witness point:
   cos(1e-165) = 1, sin(1e-165) = 1e-165, hypot(a, b) = |b| for |a| < 1 <= 1e100 <= |b|; the other calls
   (atan2, floor, sin E, cos E) cannot change the outcome because e is already NaN *)
Definition tinyphi_libm : libm :=
  {| lsin := fun x => x; lcos := fun _ => 1; latan2 := fun _ _ => - 0x1.921fb54442d18p+0;
     lhypot := fun _ b => abs b; lfloor := fun x => x |}.

(* track_fitting.rs:112-119 / :245-252: the helix built from six parameters *)
Definition helix_of_params (l : list PrimFloat.float) : helix :=
  let g i := nth i l PrimFloat.zero in mk_helix (g 0%nat) (g 1%nat) (g 2%nat) (g 3%nat) (g 4%nat) (g 5%nat).

(* ---------------- a binary64 instance with the REAL cost kernel (satisfiability of the C14 hypotheses) ----------------
   Everything the theorems leave abstract is given a computable binary64 definition, as close to the code as Coq can
   evaluate: the cost kernel is the line-by-line model of coq/Recon/Helix.v (norm_sqr(q, helix.at(helix.closest_t(q))),
   track_fitting.rs:258-261, tied bit for bit by C16), over a software libm (Taylor / argument reduction; about 1e-15
   accurate, NOT glibc), and the optimiser is a small simplex prober `mini_nm`: it asks every vertex of the initial
   simplex (as NelderMead::init does), then one reflection 2 * best - worst, and returns the best vector it has asked. *)
Module B64.
  (* floor for |x| < 2^51 by the round-to-integer trick; larger values are integers already *)
  Definition sfloor (x : float) : float :=
    if abs x <? 0x1p51 then let r := (x + 0x1.8p52) - 0x1.8p52 in if x <? r then r - 1 else r else x.
  (* sum_{i} (-1)^i y^(2i+s) / (2i+s)!  (s = 1: sin, s = 0: cos), n terms after the first *)
  Fixpoint tayl (n : nat) (k term acc y2 : float) : float :=
    match n with
    | O => acc
    | S m => let term' := - (term * y2) / ((k + 1) * (k + 2)) in tayl m (k + 2) term' (acc + term') y2
    end.
  Definition reduce (x : float) : float := x - sfloor (x / TWO_PI + 0.5) * TWO_PI.        (* into [-pi, pi] *)
  Definition ssin (x : float) : float := let y := reduce x in tayl 16 1 y y (y * y).
  Definition scos (x : float) : float := let y := reduce x in tayl 16 0 1 1 (y * y).
  (* atan z = z - z^3/3 + ..  after halving the angle twice *)
  Fixpoint atl (n : nat) (k pw acc z2 : float) : float :=
    match n with
    | O => acc
    | S m => let pw' := - (pw * z2) in atl m (k + 2) pw' (acc + pw' / (k + 2)) z2
    end.
  Definition satan_small (z : float) : float :=
    let h u := u / (1 + sqrt (1 + u * u)) in let w := h (h z) in 4 * atl 14 1 w w (w * w).
  Definition satan (z : float) : float :=
    if abs z <=? 1 then satan_small z
    else if 0 <? z then PI / 2 - satan_small (1 / z) else - (PI / 2) - satan_small (1 / z).
  Definition satan2 (y x : float) : float :=
    if 0 <? x then satan (y / x)
    else if x <? 0 then (if y <? 0 then satan (y / x) - PI else satan (y / x) + PI)
    else if 0 <? y then PI / 2 else if y <? 0 then - (PI / 2) else 0.
  Definition soft_libm : libm :=
    {| lsin := ssin; lcos := scos; latan2 := satan2; lhypot := fun a b => sqrt (a * a + b * b); lfloor := sfloor |}.

  (* Problem::cost, the summand (track_fitting.rs:258-261) *)
  Definition real_point_val (L : libm) (p : list float) (q : spoint) : float :=
    let H := helix_of_params p in
    let t := closest_t L H q EPS 20 in
    let '(x, y, z) := helix_at L H t in
    let dx := x - sp_x L q in let dy := y - sp_y L q in let dz := z - sp_z q in
    dx * dx + dy * dy + dz * dz.

  Section MiniNM.
    Variable F : Type.
    Variables (fltb : F -> F -> bool) (fadd fsub : F -> F -> F).
    Fixpoint ask_all (vs : list (list F)) (acc : list (list F * F)) (k : list (list F * F) -> strategy F) : strategy F :=
      match vs with
      | [] => k acc
      | v :: t => Ask v (fun y => ask_all t ((v, y) :: acc) k)
      end.
    Fixpoint pick (better : F -> F -> bool) (cur : list F * F) (l : list (list F * F)) : list F * F :=
      match l with
      | [] => cur
      | x :: t => pick better (if better (snd x) (snd cur) then x else cur) t
      end.
    Fixpoint map2 (f : F -> F -> F) (a b : list F) : list F :=
      match a, b with
      | x :: a', y :: b' => f x y :: map2 f a' b'
      | _, _ => []
      end.
    Definition mini_nm (s : list (list F)) : strategy F :=
      ask_all s [] (fun ev =>
        match ev with
        | [] => Crash
        | e :: t =>
            let b := pick fltb e t in
            let w := pick (fun x y => fltb y x) e t in
            let xr := map2 (fun bi wi => fadd bi (fsub bi wi)) (fst b) (fst w) in
            Ask xr (fun y => Done (Some (fst (pick fltb (xr, y) ev))))
        end).
  End MiniNM.

  (* three points of the helix x0 = 0.3, y0 = 0, z0 = 0, r = 0.25, phi0 = pi, h = 1 m at t = 0.2, 0.35, 0.5 (r, phi, z) *)
  Definition pts : list spoint :=
    [ mk_spoint 0x1.2f7dd836a13ffp-4 (-0x1.78234260f36d7p-1) 0x1.04c26be3b06cfp-5;
      mk_spoint 0x1.b90a55610dda0p-4 (-0x1.d77d8cf79fac9p-1) 0x1.c8543cce74beap-5;
      mk_spoint 0x1.27cf9e3b1d7d6p-3 (-0x1.f5202015dafdfp-1) 0x1.45f306dc9c883p-4 ].
  (* an initial guess near it: 0.31, 0.01, 0, 0.26, pi, 0.9 *)
  Definition guess6 (_ : list spoint) (_ _ _ : spoint) : list float :=
    [0x1.3d70a3d70a3d7p-2; 0x1.47ae147ae147bp-7; 0; 0x1.0a3d70a3d70a4p-2; PI; 0x1.ccccccccccccdp-1].
  Definition bump (x : float) : float := if x =? 0 then 0x1.0624dd2f1a9fcp-12 else x * 0x1.0cccccccccccdp+0.
  Definition tree : list (list float) -> strategy float := mini_nm float PrimFloat.ltb PrimFloat.add PrimFloat.sub.
  Definition fit : list spoint -> res (track float) :=
    fit_cluster_to_helix float spoint sp_r (sp_x soft_libm) (sp_y soft_libm) PrimFloat.ltb PrimFloat.eqb fcmp_prim
      PrimFloat.is_nan PrimFloat.add PrimFloat.sub PrimFloat.mul (fun x => x / 2) PrimFloat.abs 0
      guess6 bump (real_point_val soft_libm) (fun hp q => closest_t soft_libm (helix_of_params hp) q EPS 20)
      (fun c s => run_strategy c (tree s)) true.
  Definition the_cost : list float -> res float :=
    cost float spoint PrimFloat.is_nan PrimFloat.add 0 (real_point_val soft_libm) pts.
  Definition the_simplex : list (list float) :=
    match fit_simplex float spoint sp_r (sp_x soft_libm) (sp_y soft_libm) PrimFloat.ltb PrimFloat.eqb fcmp_prim
            PrimFloat.add PrimFloat.sub PrimFloat.mul (fun x => x / 2) PrimFloat.abs guess6 bump pts with
    | Ok s => s
    | _ => []
    end.
End B64.
