(* Model of the bookkeeping of alpha_g_physics::reconstruction::vertex_fitting::find_vertices and
   beamline_clusters (physics/src/reconstruction/vertex_fitting.rs).  Definitions only.

   A track is the identifier of an `==`-class of Tracks (derived PartialEq on the helix parameters,
   t_inner, t_outer); the same class may occur several times.  The float geometry is abstract: the two
   filters, the comparison of z at the closest approach to the beamline, the comparison of summed
   radii, the unstable sort and the Nelder-Mead fit are Section variables (instantiated by oracle tables
   logged from the implementation in the correspondence check). *)
From AG Require Import Base.Prelude Base.Res Recon.Vec Recon.Cluster.
Local Open Scope nat_scope.

Definition track := N.

(* itertools 0.11 max_set_by_key (extrema_set.rs: max_set_impl / min_set_impl): all maximal elements,
   in order of appearance *)
Section MaxSet.
  Context {A : Type}.
  Variable key : A -> nat.
  Fixpoint max_set_from (cur : nat) (result : list A) (l : list A) : list A :=
    match l with
    | [] => result
    | x :: l' =>
        let k := key x in
        if k <? cur then max_set_from cur result l'                 (* Greater (reversed roles): skip *)
        else if k =? cur then max_set_from cur (vpush result x) l'  (* Equal: push *)
        else max_set_from k [x] l'                                  (* Less (reversed): clear, push, new key *)
    end.
  Definition max_set_by_key (l : list A) : list A :=
    match l with
    | [] => []
    | x :: l' => max_set_from (key x) [x] l'
    end.
End MaxSet.

Section Vertex.
  (* track.helix.arc_length(t_inner, t_outer) > min_track_length                                  :33 *)
  Variable long_enough : track -> bool.
  (* (helix.r - helix.x0.hypot(helix.y0)).abs() < max_track_beamline_dca                          :35 *)
  Variable close_beam : track -> bool.
  (* tracks.sort_unstable_by(|a, b| a.z.partial_cmp(&b.z).unwrap()): some permutation, or a panic   :143-149 *)
  Variable sortF : list track -> res (list track).
  (* zclose current last := (current_z - last_z).abs() < max_beamline_clustering_distance         :163 *)
  Variable zclose : track -> track -> bool.
  (* sum of helix.r of a against b: partial_cmp(..).unwrap()                                      :45-51 *)
  Variable cmp_r : list track -> list track -> res comparison.
  (* mean z, initial simplex, Nelder-Mead, closest_t of every track (may panic: unwraps, assert!)   :52-114 *)
  Variable fit : list track -> res unit.

  (* for track in tracks.into_iter().skip(1) { ... }                                              :152-168 *)
  Fixpoint chain (clusters : list (list track)) (l : list track) : res (list (list track)) :=
    match l with
    | [] => Ok clusters
    | t :: l' =>
        do '(init, lastc) <- unwrap (vpop clusters);        (* clusters.last().unwrap() *)
        do '(_, lastt) <- unwrap (vpop lastc);              (* .last().unwrap() *)
        if zclose t lastt
        then chain (vpush init (vpush lastc t)) l'          (* clusters.last_mut().unwrap().push(track) *)
        else chain (vpush clusters [t]) l'                  (* clusters.push(vec![track]) *)
    end.

  (* fn beamline_clusters (the mean z of each cluster is only used by the fit)                     :133-181 *)
  Definition beamline_clusters (tracks : list track) : res (list (list track)) :=
    match tracks with
    | [] => Ok []                                           (* :139-141 *)
    | _ =>
        do s <- sortF tracks;                               (* :143-149 *)
        do t0 <- idx s 0;                                   (* tracks[0] :151 *)
        chain [[t0]] (skipn 1 s)
    end.

  (* fn find_vertices: (tracks of the primary vertex, remainder)                                   :12-129 *)
  Definition find_vertices (tracks : list track) : res (option (list track) * list track) :=
    let primary := filter close_beam (filter long_enough tracks) in            (* :31-38 *)
    do cl <- beamline_clusters primary;                                         (* :40 *)
    let cand := filter (fun c => 1 <? length c) cl in                           (* :42 *)
    let best := max_set_by_key (@length track) cand in                          (* :43 *)
    do v <- max_by cmp_r best;                                                  (* :44-51 *)
    do _ <- match v with Some c => fit c | None => Ok tt end;                   (* :52-114 *)
    do rem <- fold_res remainder_step tracks (unwrap_or_nil v);                 (* :117-122 *)
    Ok (v, rem).                                                                (* :124-128 *)
End Vertex.
