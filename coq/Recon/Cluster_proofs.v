(* Proofs about the clustering model Recon/Cluster.v: the accumulator invariant, conservation,
   minimum size, single-linkage connectivity, termination and absence of panics. *)
From Coq Require Import Permutation FMapPositive.
From AG Require Import Base.Prelude Base.Res Recon.Vec Recon.Vec_proofs Recon.Cluster.
Local Open Scope nat_scope.

(* ---- connectivity (link, conn, connected are defined in Recon/Cluster.v) ---- *)
Section Spec.
  Variable near : point -> point -> bool.
  (* how the flood fill builds a cluster: a seed, then points near an earlier member *)
  Inductive grown : list point -> Prop :=
  | grown_seed p : grown [p]
  | grown_step c y x : grown c -> In y c -> near y x = true -> grown (c ++ [x]).

  Lemma grown_length c : grown c -> 1 <= length c.
  Proof. induction 1; cbn; [lia|]. rewrite app_length; cbn; lia. Qed.

  Lemma conn_in_r c x y : conn near c x y -> In y c.
  Proof. induction 1; auto. Qed.
  Lemma conn_mono c z x y : conn near c x y -> conn near (c ++ [z]) x y.
  Proof.
    induction 1.
    - apply conn_refl. apply in_or_app; auto.
    - eapply conn_step; eauto. apply in_or_app; auto.
  Qed.
  Lemma conn_trans c x y z : conn near c x y -> conn near c y z -> conn near c x z.
  Proof.
    intros Hxy Hyz. revert Hxy. induction Hyz as [y Hy|y w z Hyw IH Hz Hl]; intros Hxy; [exact Hxy|].
    eapply conn_step; [apply IH, Hxy|exact Hz|exact Hl].
  Qed.
  Lemma link_sym x y : link near x y -> link near y x.
  Proof. unfold link; tauto. Qed.
  Lemma conn_sym c x y : conn near c x y -> conn near c y x.
  Proof.
    induction 1 as [x Hx|x y z Hxy IH Hz Hl].
    - apply conn_refl; exact Hx.
    - eapply conn_trans; [|exact IH].
      eapply conn_step; [apply conn_refl; exact Hz| eapply conn_in_r; eauto | apply link_sym; exact Hl].
  Qed.

  Lemma grown_seeded c : grown c -> exists s, In s c /\ forall x, In x c -> conn near c s x.
  Proof.
    induction 1 as [p|c y x Hg (s & Hs & IH) Hy Hn].
    - exists p. split; [left; reflexivity|]. intros x [<-|[]]. apply conn_refl. left; reflexivity.
    - exists s. split; [apply in_or_app; auto|]. intros x' Hx'.
      apply in_app_or in Hx'. destruct Hx' as [Hx'|[<-|[]]].
      + apply conn_mono, IH, Hx'.
      + eapply conn_step; [apply conn_mono, IH, Hy| apply in_or_app; right; left; reflexivity | left; exact Hn].
  Qed.

  Lemma grown_connected c : grown c -> connected near c.
  Proof.
    intros Hg x y Hx Hy. destruct (grown_seeded c Hg) as (s & _ & Hs).
    eapply conn_trans; [apply conn_sym, Hs, Hx | apply Hs, Hy].
  Qed.
End Spec.

Section Zipper.
  Variable near : point -> point -> bool.
  (* the zipper loop of the executable model is the index loop of the source *)
  Lemma flood_jz_index fuel : forall ci cluster pre_rev suf,
    flood_jz near fuel ci cluster pre_rev suf
    = flood_j_idx near fuel ci cluster (rev pre_rev ++ suf) (length pre_rev).
  Proof.
    induction fuel as [|f IH]; intros ci cluster pre suf; [reflexivity|].
    cbn [flood_jz flood_j_idx].
    assert (Hlen : length pre = length (rev pre)) by (symmetry; apply rev_length).
    destruct suf as [|pj suf'].
    - rewrite app_nil_r, Hlen, Nat.ltb_irrefl. rewrite rev_append_rev, app_nil_r. reflexivity.
    - replace (length pre <? length (rev pre ++ pj :: suf')) with true
        by (symmetry; apply Nat.ltb_lt; rewrite app_length, <- Hlen; cbn; lia).
      unfold idx. rewrite Hlen, nth_error_len_app. cbn [unwrap bind].
      destruct (near ci pj).
      + unfold swap_remove. destruct (vpop suf') as [[l y]|] eqn:E.
        * apply vpop_some in E. subst suf'.
          assert (Ev : vpop (rev pre ++ pj :: l ++ [y]) = Some (rev pre ++ pj :: l, y)).
          { apply vpop_some. rewrite <- app_assoc. reflexivity. }
          rewrite Ev.
          replace (length (rev pre) =? length (rev pre ++ pj :: l)) with false
            by (symmetry; apply Nat.eqb_neq; rewrite app_length; cbn; lia).
          rewrite nth_error_len_app, firstn_len_app, skipn_S_len_app.
          cbn [bind]. rewrite IH, <- Hlen. reflexivity.
        * apply vpop_none in E. subst suf'.
          assert (Ev : vpop (rev pre ++ [pj]) = Some (rev pre, pj)) by (apply vpop_some; reflexivity).
          rewrite Ev. rewrite Nat.eqb_refl. cbn [bind]. rewrite IH, app_nil_r, <- Hlen. reflexivity.
      + rewrite IH. cbn [rev length]. rewrite <- app_assoc, <- Hlen. reflexivity.
  Qed.

End Zipper.

Section ClusterP.
  Variable bins : point -> list bin.
  Variable near : point -> point -> bool.
  Hypothesis bins_nodup : forall p, NoDup (bins p).

  Local Notation votes := (Cluster.votes bins).
  Local Notation Acc_inv := (Cluster.Acc_inv bins).

  Lemma mem_in (b : bin) l : existsb (Pos.eqb b) l = true <-> In b l.
  Proof.
    rewrite existsb_exists. split.
    - intros (x & Hx & E). apply Pos.eqb_eq in E. subst; exact Hx.
    - intros H. exists b. split; [exact H|apply Pos.eqb_refl].
  Qed.

  Lemma Acc_inv_perm live live' a : Permutation live live' -> Acc_inv live a -> Acc_inv live' a.
  Proof.
    intros HP H b. eapply Permutation_trans; [apply H|]. apply perm_filter, HP.
  Qed.

  Lemma Acc_inv_empty : Acc_inv [] acc_empty.
  Proof. intros b. unfold acc_get, acc_empty; cbn. rewrite PositiveMap.gempty. constructor. Qed.

  (* ---- add ---- *)
  Lemma get_entry_push p a b b' :
    acc_get (entry_push p a b) b' = if Pos.eqb b' b then acc_get a b ++ [p] else acc_get a b'.
  Proof.
    unfold entry_push, acc_get, vpush.
    destruct (Pos.eqb b' b) eqn:E.
    - apply Pos.eqb_eq in E. subst b'.
      destruct (PositiveMap.find b (tbl a)); cbn; rewrite PositiveMap.gss; reflexivity.
    - apply Pos.eqb_neq in E.
      destruct (PositiveMap.find b (tbl a)); cbn; rewrite PositiveMap.gso by exact E; reflexivity.
  Qed.

  Lemma get_fold_push p l : NoDup l -> forall a b,
    acc_get (fold_left (entry_push p) l a) b
    = if existsb (Pos.eqb b) l then acc_get a b ++ [p] else acc_get a b.
  Proof.
    induction 1 as [|c l Hc Hnd IH]; intros a b; cbn; [reflexivity|].
    rewrite IH. rewrite get_entry_push.
    destruct (Pos.eqb b c) eqn:E; cbn.
    - apply Pos.eqb_eq in E. subst c.
      destruct (existsb (Pos.eqb b) l) eqn:E2; [apply mem_in in E2; contradiction|reflexivity].
    - reflexivity.
  Qed.

  Lemma add_inv live a p : Acc_inv live a -> Acc_inv (live ++ [p]) (acc_add bins a p).
  Proof.
    intros H b. unfold acc_add. rewrite get_fold_push by apply bins_nodup.
    rewrite filter_app. cbn. fold (votes b p).
    destruct (votes b p).
    - apply Permutation_app_tail, H.
    - rewrite app_nil_r. apply H.
  Qed.

  Lemma adds_inv l : forall live a, Acc_inv live a -> Acc_inv (live ++ l) (fold_left (acc_add bins) l a).
  Proof.
    induction l as [|p l IH]; intros live a H; cbn.
    - rewrite app_nil_r. exact H.
    - replace (live ++ p :: l) with ((live ++ [p]) ++ l) by (rewrite <- app_assoc; reflexivity).
      apply IH, add_inv, H.
  Qed.

  (* ---- remove_unchecked ---- *)
  Lemma remove_bin_ok p a b :
    In p (acc_get a b) ->
    exists a', remove_bin p a b = Ok a' /\
               Permutation (acc_get a b) (p :: acc_get a' b) /\
               forall b', b' <> b -> acc_get a' b' = acc_get a b'.
  Proof.
    intros Hin. unfold remove_bin. unfold acc_get in Hin |- *.
    destruct (PositiveMap.find b (tbl a)) as [v|] eqn:Ef; [|destruct Hin]. cbn.
    destruct (position_some (fun q => peqb q p) v p Hin (N.eqb_refl p)) as (i & y & Hp & Hn & Hy).
    apply N.eqb_eq in Hy. subst y. rewrite Hp. cbn.
    destruct (swap_remove_ok _ _ _ Hn) as (v' & Hs & HP). rewrite Hs. cbn.
    eexists; split; [reflexivity|]. cbn. split.
    - rewrite PositiveMap.gss. exact HP.
    - intros b' Hb. rewrite PositiveMap.gso by exact Hb. reflexivity.
  Qed.

  Lemma remove_fold_ok p l : NoDup l -> forall a,
    (forall b, In b l -> In p (acc_get a b)) ->
    exists a', fold_res (remove_bin p) a l = Ok a' /\
               (forall b, In b l -> Permutation (acc_get a b) (p :: acc_get a' b)) /\
               (forall b, ~ In b l -> acc_get a' b = acc_get a b).
  Proof.
    induction 1 as [|c l Hc Hnd IH]; intros a Hall; cbn.
    - exists a. split; [reflexivity|]. split; [intros b []|reflexivity].
    - destruct (remove_bin_ok p a c (Hall c (or_introl eq_refl))) as (a1 & H1 & HP1 & Ho1).
      rewrite H1. cbn.
      destruct (IH a1) as (a' & H2 & HP2 & Ho2).
      { intros b Hb. rewrite Ho1; [apply Hall; right; exact Hb|]. intros ->. contradiction. }
      exists a'. split; [exact H2|]. split.
      + intros b [<-|Hb].
        * rewrite Ho2 by exact Hc. exact HP1.
        * rewrite <- (Ho1 b); [apply HP2, Hb|]. intros ->. contradiction.
      + intros b Hb. rewrite Ho2 by (intros Hb'; apply Hb; right; exact Hb').
        apply Ho1. intros ->. apply Hb. left; reflexivity.
  Qed.

  Lemma remove_inv live a p :
    Acc_inv (p :: live) a -> exists a', acc_remove bins a p = Ok a' /\ Acc_inv live a'.
  Proof.
    intros H. unfold acc_remove.
    destruct (remove_fold_ok p (bins p) (bins_nodup p) a) as (a' & Hr & HP & Ho).
    { intros b Hb. eapply Permutation_in; [apply Permutation_sym, H|].
      cbn. apply mem_in in Hb. fold (votes b p). unfold votes at 1. rewrite Hb. left; reflexivity. }
    exists a'. split; [exact Hr|]. intros b.
    destruct (votes b p) eqn:Ev.
    - assert (Hb : In b (bins p)) by (apply mem_in; exact Ev).
      apply Permutation_cons_inv with (a := p).
      eapply Permutation_trans; [apply Permutation_sym, HP, Hb|].
      eapply Permutation_trans; [apply H|]. cbn. rewrite Ev. apply Permutation_refl.
    - assert (Hb : ~ In b (bins p)).
      { intros Hb. apply mem_in in Hb. unfold votes in Ev. congruence. }
      rewrite Ho by exact Hb. eapply Permutation_trans; [apply H|]. cbn. rewrite Ev. apply Permutation_refl.
  Qed.

  Lemma removes_inv l : forall rest a,
    Acc_inv (l ++ rest) a -> exists a', fold_res (acc_remove bins) a l = Ok a' /\ Acc_inv rest a'.
  Proof.
    induction l as [|p l IH]; intros rest a H; cbn.
    - exists a. auto.
    - destruct (remove_inv _ _ _ H) as (a1 & H1 & Hi1). rewrite H1. cbn. apply IH, Hi1.
  Qed.

  (* ---- most_popular ---- *)
  Lemma most_popular_sub live a :
    Acc_inv live a -> exists rest, Permutation (most_popular a ++ rest) live.
  Proof.
    intros H. unfold most_popular.
    destruct (max_by_key (@length point) (acc_values a)) as [v|] eqn:E; cbn.
    - apply max_by_key_in in E. unfold acc_values in E. apply in_map_iff in E.
      destruct E as (b & <- & _).
      exists (filter (fun x => negb (votes b x)) live).
      eapply Permutation_trans; [apply Permutation_app_tail, H|]. apply filter_split_perm.
    - exists live. apply Permutation_refl.
  Qed.

  (* ---- largest_cluster ---- *)
  Lemma flood_j_ok fuel : forall ci cluster points j,
    length points - j < fuel ->
    exists c' p', flood_j_idx near fuel ci cluster points j = Ok (c', p') /\
                  Permutation (c' ++ p') (cluster ++ points) /\
                  (grown near cluster -> In ci cluster -> grown near c').
  Proof.
    induction fuel as [|f IH]; intros ci cluster points j Hf; [lia|].
    cbn [flood_j_idx]. destruct (j <? length points) eqn:Ej.
    - apply Nat.ltb_lt in Ej.
      destruct (nth_error points j) as [pj|] eqn:Hn; [|apply nth_error_None in Hn; lia].
      unfold idx. rewrite Hn. cbn [unwrap bind].
      destruct (near ci pj) eqn:En.
      + destruct (swap_remove_ok _ _ _ Hn) as (points' & Hs & HP). rewrite Hs. cbn [bind].
        assert (Hl : length points = S (length points')) by (apply Permutation_length in HP; exact HP).
        destruct (IH ci (vpush cluster pj) points' j) as (c' & p' & Hr & HPr & Hg); [lia|].
        exists c', p'. split; [exact Hr|]. split.
        * eapply Permutation_trans; [exact HPr|]. unfold vpush. rewrite <- app_assoc. cbn.
          apply Permutation_app_head, Permutation_sym, HP.
        * intros Hgc Hin. apply Hg.
          -- eapply grown_step; eauto.
          -- unfold vpush. apply in_or_app. left; exact Hin.
      + destruct (IH ci cluster points (S j)) as (c' & p' & Hr & HPr & Hg); [lia|].
        exists c', p'. auto.
    - exists cluster, points. split; [reflexivity|]. split; [apply Permutation_refl|auto].
  Qed.

  Lemma flood_i_ok fuel : forall cluster points i,
    length cluster + length points - i < fuel -> grown near cluster ->
    exists c' p', flood_i near fuel cluster points i = Ok (c', p') /\
                  Permutation (c' ++ p') (cluster ++ points) /\ grown near c'.
  Proof.
    induction fuel as [|f IH]; intros cluster points i Hf Hg; [lia|].
    cbn [flood_i]. destruct (i <? length cluster) eqn:Ei.
    - apply Nat.ltb_lt in Ei.
      destruct (nth_error cluster i) as [ci|] eqn:Hn; [|apply nth_error_None in Hn; lia].
      unfold idx. rewrite Hn. cbn [unwrap bind].
      destruct (flood_j_ok (S (length points)) ci cluster points 0) as (c1 & p1 & H1 & HP1 & Hg1); [lia|].
      unfold flood_j. rewrite flood_jz_index. cbn [rev app length]. rewrite H1. cbn [bind].
      assert (Hl : length c1 + length p1 = length cluster + length points).
      { apply Permutation_length in HP1. rewrite !app_length in HP1. exact HP1. }
      destruct (IH c1 p1 (S i)) as (c' & p' & Hr & HPr & Hg'); [lia| |].
      { apply Hg1; [exact Hg|]. eapply nth_error_In; eauto. }
      exists c', p'. split; [exact Hr|]. split; [|exact Hg'].
      eapply Permutation_trans; eauto.
    - exists cluster, points. split; [reflexivity|]. split; [apply Permutation_refl|exact Hg].
  Qed.

  Lemma flood_all_ok fuel : forall points clusters,
    length points < fuel -> Forall (grown near) clusters ->
    exists cs, flood_all near fuel points clusters = Ok cs /\
               Permutation (concat cs) (concat clusters ++ points) /\ Forall (grown near) cs.
  Proof.
    induction fuel as [|f IH]; intros points clusters Hf Hg; [lia|].
    cbn [flood_all]. destruct (vpop points) as [[points' p]|] eqn:E.
    - apply vpop_some in E. subst points. rewrite app_length in Hf; cbn in Hf.
      destruct (flood_i_ok (S (S (length points'))) [p] points' 0) as (c & p2 & H1 & HP1 & Hg1);
        [cbn; lia|constructor|].
      rewrite H1. cbn [bind].
      assert (Hl : length c + length p2 = S (length points')).
      { apply Permutation_length in HP1. rewrite app_length in HP1. cbn in HP1. exact HP1. }
      pose proof (grown_length near c Hg1) as Hc.
      destruct (IH p2 (vpush clusters c)) as (cs & Hr & HPr & Hgr); [lia| |].
      { unfold vpush. apply Forall_app. split; [exact Hg|]. constructor; [exact Hg1|constructor]. }
      exists cs. split; [exact Hr|]. split; [|exact Hgr].
      eapply Permutation_trans; [exact HPr|]. unfold vpush. rewrite concat_app. cbn. rewrite app_nil_r.
      rewrite <- app_assoc. apply Permutation_app_head.
      eapply Permutation_trans; [exact HP1|]. cbn. apply Permutation_cons_append.
    - apply vpop_none in E. subst points. exists clusters. split; [reflexivity|].
      rewrite app_nil_r. split; [apply Permutation_refl|exact Hg].
  Qed.

  Lemma largest_cluster_ok points :
    exists best, largest_cluster near points = Ok best /\
                 (exists rest, Permutation (best ++ rest) points) /\
                 (best = [] \/ grown near best).
  Proof.
    unfold largest_cluster.
    destruct (flood_all_ok (S (length points)) points []) as (cs & H1 & HP & Hg); [lia|constructor|].
    rewrite H1. cbn [bind]. cbn in HP.
    eexists; split; [reflexivity|].
    destruct (max_by_key (@length point) cs) as [v|] eqn:E; cbn.
    - apply max_by_key_in in E. split.
      + destruct (in_concat_perm _ _ E) as (rest & Hr). exists rest. eapply Permutation_trans; eauto.
      + right. rewrite Forall_forall in Hg. apply Hg, E.
    - split; [exists points; apply Permutation_refl|left; reflexivity].
  Qed.

  (* ---- best_cluster ---- *)
  Lemma best_cluster_ok fuel : forall a prev live,
    length live < fuel -> Acc_inv live a -> (prev = [] \/ grown near prev) ->
    exists a' c live', best_cluster bins near fuel a prev = Ok (a', c) /\
                       Acc_inv live' a' /\ Permutation (live' ++ c) (live ++ prev) /\
                       (c = [] \/ grown near c).
  Proof.
    induction fuel as [|f IH]; intros a prev live Hf Hinv Hprev; [lia|].
    cbn [best_cluster].
    destruct (largest_cluster_ok (most_popular a)) as (best & Hb & (r1 & HP1) & Hgb).
    rewrite Hb. cbn [bind].
    destruct (length best <=? length prev) eqn:El.
    - exists a, prev, live. split; [reflexivity|]. split; [exact Hinv|]. split; [apply Permutation_refl|exact Hprev].
    - apply Nat.leb_gt in El.
      destruct (most_popular_sub live a Hinv) as (r2 & HP2).
      assert (HPl : Permutation (best ++ (r1 ++ r2)) live).
      { rewrite app_assoc. eapply Permutation_trans; [apply Permutation_app_tail, HP1|exact HP2]. }
      remember (r1 ++ r2) as R eqn:ER. clear ER HP1 HP2.
      destruct (removes_inv best R a) as (a1 & Hr & Hinv1).
      { eapply Acc_inv_perm; [apply Permutation_sym, HPl|exact Hinv]. }
      rewrite Hr. cbn [bind].
      pose proof (adds_inv prev _ _ Hinv1) as Hinv2.
      assert (Hlen : length best + length R = length live).
      { apply Permutation_length in HPl. rewrite app_length in HPl. exact HPl. }
      destruct (IH (fold_left (acc_add bins) prev a1) best (R ++ prev)) as (a' & c & live' & Hres & Hinv' & HP' & Hgc).
      { rewrite app_length. lia. }
      { exact Hinv2. }
      { exact Hgb. }
      exists a', c, live'. split; [exact Hres|]. split; [exact Hinv'|]. split; [|exact Hgc].
      eapply Permutation_trans; [exact HP'|].
      eapply Permutation_trans; [apply Permutation_app_comm|].
      rewrite app_assoc. apply Permutation_app_tail. exact HPl.
  Qed.

  (* ---- outer loop ---- *)
  Definition good (min_points : nat) (c : list point) : Prop := min_points <= length c /\ grown near c.

  Lemma outer_loop_ok fuel : forall bfuel min_points a clusters live,
    1 <= min_points -> length live < fuel -> length live < bfuel -> Acc_inv live a ->
    exists new rest, outer_loop bins near fuel bfuel min_points a clusters = Ok (clusters ++ new) /\
                     Forall (good min_points) new /\ Permutation (rest ++ concat new) live.
  Proof.
    induction fuel as [|f IH]; intros bfuel min_points a clusters live Hmin Hf Hbf Hinv; [lia|].
    cbn [outer_loop].
    destruct (best_cluster_ok bfuel a [] live Hbf Hinv (or_introl eq_refl))
      as (a' & c & live' & Hb & Hinv' & HP & Hgc).
    rewrite Hb. cbn [bind]. rewrite app_nil_r in HP.
    destruct (length c <? min_points) eqn:El.
    - exists [], live. rewrite app_nil_r. split; [reflexivity|]. split; [constructor|].
      cbn. rewrite app_nil_r. apply Permutation_refl.
    - apply Nat.ltb_ge in El.
      assert (Hg : grown near c).
      { destruct Hgc as [->|Hg]; [cbn in El; lia|exact Hg]. }
      assert (Hlen : length live' + length c = length live).
      { apply Permutation_length in HP. rewrite app_length in HP. exact HP. }
      destruct (IH bfuel min_points a' (vpush clusters c) live') as (new & rest & Hr & Hgood & HPr);
        [exact Hmin|lia|lia|exact Hinv'|].
      exists (c :: new), rest. split.
      + rewrite Hr. unfold vpush. rewrite <- app_assoc. reflexivity.
      + split; [constructor; [split; assumption|exact Hgood]|].
        cbn. eapply Permutation_trans; [|exact HP].
        eapply Permutation_trans; [apply Permutation_app_head, Permutation_app_comm|].
        rewrite app_assoc. apply Permutation_app_tail, HPr.
  Qed.

  (* ---- remainder ---- *)
  Lemma remainder_ok cl : forall sp rest,
    Permutation (rest ++ cl) sp ->
    exists r, fold_res remainder_step sp cl = Ok r /\ Permutation r rest.
  Proof.
    induction cl as [|p cl IH]; intros sp rest HP; cbn [fold_res].
    - exists sp. split; [reflexivity|]. rewrite app_nil_r in HP. apply Permutation_sym, HP.
    - assert (Hin : In p sp).
      { eapply Permutation_in; [exact HP|]. apply in_or_app. right; left; reflexivity. }
      unfold remainder_step at 1.
      destruct (position_some (fun q => peqb q p) sp p Hin (N.eqb_refl p)) as (i & y & Hp & Hn & Hy).
      apply N.eqb_eq in Hy. subst y. rewrite Hp. cbn [unwrap bind].
      destruct (swap_remove_ok _ _ _ Hn) as (sp' & Hs & HPs). rewrite Hs. cbn [bind].
      apply IH. apply Permutation_cons_inv with (a := p).
      eapply Permutation_trans; [apply Permutation_middle|].
      eapply Permutation_trans; [exact HP|exact HPs].
  Qed.

  (* ---- cluster_spacepoints: total, conserves the input, clusters are large and grown ---- *)
  Theorem cluster_spacepoints_ok fuel min_points sp :
    1 <= min_points -> length sp < fuel ->
    exists clusters rem,
      cluster_spacepoints bins near fuel min_points sp = Ok (clusters, rem) /\
      Permutation (concat clusters ++ rem) sp /\
      Forall (good min_points) clusters.
  Proof.
    intros Hmin Hf. unfold cluster_spacepoints.
    pose proof (adds_inv sp [] acc_empty Acc_inv_empty) as Hinv. cbn [app] in Hinv.
    destruct (outer_loop_ok fuel fuel min_points _ [] sp Hmin Hf Hf Hinv) as (new & rest & Hr & Hgood & HP).
    rewrite Hr. cbn [bind app].
    destruct (remainder_ok (concat new) sp rest HP) as (r & Hrem & HPr).
    rewrite Hrem. cbn [bind].
    exists new, r. split; [reflexivity|]. split; [|exact Hgood].
    eapply Permutation_trans; [apply Permutation_app_comm|].
    eapply Permutation_trans; [apply Permutation_app_tail, HPr|exact HP].
  Qed.
End ClusterP.

(* ---- the statements pinned in Props/C15.v ---- *)
Section Pins.
  Variable bins : point -> list bin.
  Variable near : point -> point -> bool.
  Hypothesis bins_nodup : forall p, NoDup (bins p).

  (* no unwrap panics and the fuel is not exhausted: the implementation terminates normally *)
  Lemma cluster_total_lemma sp fuel min_points :
    1 <= min_points -> length sp < fuel ->
    exists clusters rem, cluster_spacepoints bins near fuel min_points sp = Ok (clusters, rem).
  Proof.
    intros Hm Hf. destruct (cluster_spacepoints_ok bins near bins_nodup fuel min_points sp Hm Hf)
      as (cl & rem & H & _). eauto.
  Qed.

  Lemma cluster_partition_lemma sp fuel min_points clusters rem :
    1 <= min_points -> length sp < fuel ->
    cluster_spacepoints bins near fuel min_points sp = Ok (clusters, rem) ->
    Permutation (concat clusters ++ rem) sp.
  Proof.
    intros Hm Hf H. destruct (cluster_spacepoints_ok bins near bins_nodup fuel min_points sp Hm Hf)
      as (cl & r & H' & HP & _). rewrite H' in H. inv H. exact HP.
  Qed.

  Lemma cluster_min_size_lemma sp fuel min_points clusters rem :
    1 <= min_points -> length sp < fuel ->
    cluster_spacepoints bins near fuel min_points sp = Ok (clusters, rem) ->
    forall c, In c clusters -> min_points <= length c.
  Proof.
    intros Hm Hf H. destruct (cluster_spacepoints_ok bins near bins_nodup fuel min_points sp Hm Hf)
      as (cl & r & H' & _ & Hg). rewrite H' in H. inv H.
    intros c Hc. rewrite Forall_forall in Hg. apply Hg, Hc.
  Qed.

  Lemma cluster_connected_lemma sp fuel min_points clusters rem :
    1 <= min_points -> length sp < fuel ->
    cluster_spacepoints bins near fuel min_points sp = Ok (clusters, rem) ->
    forall c, In c clusters -> connected near c.
  Proof.
    intros Hm Hf H. destruct (cluster_spacepoints_ok bins near bins_nodup fuel min_points sp Hm Hf)
      as (cl & r & H' & _ & Hg). rewrite H' in H. inv H.
    intros c Hc. rewrite Forall_forall in Hg. apply grown_connected, Hg, Hc.
  Qed.
End Pins.

Lemma cluster_pub_lemma :
  forall (bins : point -> list bin) (near : point -> point -> bool),
  (forall p, NoDup (bins p)) ->
  forall sp, exists clusters rem,
    cluster_spacepoints_pub bins near sp = Ok (clusters, rem) /\
    Permutation (concat clusters ++ rem) sp /\
    forall c, In c clusters -> 13 <= length c /\ connected near c.
Proof.
  intros bins near Hnd sp. unfold cluster_spacepoints_pub.
  destruct (cluster_spacepoints_ok bins near Hnd (S (length sp)) MIN_POINTS sp) as (cl & r & H & HP & Hg).
  - unfold MIN_POINTS. lia.
  - lia.
  - exists cl, r. split; [exact H|]. split; [exact HP|].
    intros c Hc. rewrite Forall_forall in Hg. destruct (Hg c Hc) as [Hl Hgr].
    split; [exact Hl|]. apply grown_connected, Hgr.
Qed.
